package main

// C10: correspondence driver. The REAL guns (registered plugin factories, real providers, core/engine) shoot at
// scripted in-process targets; every sample handed to Aggregator.Report is recorded and printed canonically. The Lean
// driver (lean/Pandora/Drv/C10.lean) predicts the same line from the model and judges the observation by the Spec.

import (
	"context"
	"encoding/hex"
	"encoding/json"
	"errors"
	"fmt"
	"math/rand"
	"net"
	"net/http"
	"net/url"
	"os"
	"sort"
	"strconv"
	"strings"
	"sync"
	"sync/atomic"
	"syscall"
	"time"

	"verifharness/drv"
	"verifharness/shot"

	pkgerrors "github.com/pkg/errors"
	grpcgun "github.com/yandex/pandora/components/guns/grpc"
	phttp "github.com/yandex/pandora/components/guns/http"
	pbase "github.com/yandex/pandora/components/providers/base"
	grpcammo "github.com/yandex/pandora/components/providers/grpc"
	"github.com/yandex/pandora/core"
	"github.com/yandex/pandora/core/aggregator/netsample"
	"github.com/yandex/pandora/core/engine"
	"github.com/yandex/pandora/core/warmup"
	"go.uber.org/zap"
)

func hx(s string) string { return hex.EncodeToString([]byte(s)) }
func unhx(s string) string {
	b, err := hex.DecodeString(s)
	if err != nil {
		panic("bad hex " + s)
	}
	return string(b)
}

func atoi(s string, d int) int {
	if s == "" {
		return d
	}
	n, err := strconv.Atoi(s)
	if err != nil {
		panic("bad int " + s)
	}
	return n
}

func fmtSamples(res shot.Result, withID bool) string {
	var parts []string
	for _, s := range res.Samples {
		if withID {
			parts = append(parts, fmt.Sprintf("%d:%s:%d:%d:%s", s.ID, hx(s.Tags), s.Proto, s.Net, s.Shape))
		} else {
			parts = append(parts, fmt.Sprintf("%s:%d:%d:%s", hx(s.Tags), s.Proto, s.Net, s.Shape))
		}
	}
	return "res=" + res.Class + " s=" + strings.Join(parts, ";")
}

// ---------------------------------------------------------------- shared targets

// One scripted target of each kind serves ALL cases of a driver process: what it does with a request is a pure function
// of that request (header X-Script / metadata x-code), so sharing does not couple cases. A listener per case would tie
// up one ephemeral port per case for a minute (its TIME_WAIT children) and exhaust the listen half of the port range on a
// long thorough run.
var (
	tgtMu                        sync.Mutex
	tgtGiveUp                    time.Time // retries (of all targets together) end here
	tls1Addr, tls2Addr, grpcAddr string
	tgtPool                      [8]string
	tgtNext                      atomic.Int64
)

// startRetry calls start (which panics when the host has no free port to listen on: other checks share the machine)
// until it succeeds, for up to a minute (all targets together, well inside the per-case timeout); a case that still cannot get its target panics with the listen error, which the
// Lean driver classes as inconclusive.
func startRetry(addr *string, start func() string) string {
	tgtMu.Lock()
	defer tgtMu.Unlock()
	if *addr != "" {
		return *addr
	}
	var last any = "gave up earlier: address already in use"
	if tgtGiveUp.IsZero() {
		tgtGiveUp = time.Now().Add(60 * time.Second)
	}
	for time.Now().Before(tgtGiveUp) {
		func() {
			defer func() {
				if r := recover(); r != nil {
					last = r
				}
			}()
			*addr = start()
		}()
		if *addr != "" {
			return *addr
		}
		time.Sleep(500 * time.Millisecond)
	}
	panic(fmt.Sprint("no target: ", last))
}

// sharedTarget: one of a small pool of raw scripted targets (spreads the connections of a long run over several
// destination ports, so that a client port is not reused against the same listener while the previous connection is
// still in TIME_WAIT there).
func sharedTarget() string {
	i := int(tgtNext.Add(1)) % len(tgtPool)
	return startRetry(&tgtPool[i], func() string { return shot.NewTarget().Addr })
}

func sharedTLS(h2 bool) string {
	if h2 {
		return startRetry(&tls2Addr, func() string { a, _ := shot.NewTLSTarget(true); return a })
	}
	return startRetry(&tls1Addr, func() string { a, _ := shot.NewTLSTarget(false); return a })
}

func sharedGrpc() string {
	return startRetry(&grpcAddr, func() string { a, _ := shot.NewGrpcTarget(); return a })
}

// ---------------------------------------------------------------- engine runs, option dimensions

// gunOpts renders the option dimensions shared by all http guns (answlog, httptrace, shared client, ssl) as extra
// keys of the gun's YAML map; they are spliced in after the `dial` key shot.HTTPGunConf always emits.
func gunOpts(m map[string]string) string {
	var o string
	if f := m["alog"]; f != "" {
		o += fmt.Sprintf(`, answlog: {enabled: true, path: "/dev/null", filter: %s}`, f)
	}
	if m["trace"] == "1" || m["dump"] == "1" {
		o += fmt.Sprintf(`, httptrace: {trace: %v, dump: %v}`, m["trace"] == "1", m["dump"] == "1")
	}
	if n := atoi(m["shc"], 0); n > 0 {
		o += fmt.Sprintf(`, shared-client: {enabled: true, client-number: %d}`, n)
	}
	if m["redir"] == "1" {
		o += ", redirect: true"
	}
	if m["ssl"] == "1" {
		o += ", ssl: true"
	}
	return o
}

func spliceGunOpts(conf string, m map[string]string) string {
	return strings.Replace(conf, "dial: {timeout: 2s}", "dial: {timeout: 2s}"+gunOpts(m), 1)
}

// ---------------------------------------------------------------- k=http

// genReqs: `gen=N` stands for N requests built by rule (the Lean driver builds the same list): request j carries the
// unique tag r<j>, asks for /s<j mod 97>/t<j mod 89>/u<j> and is answered 200.
func genReqs(n int) string {
	var reqs []string
	for j := 1; j <= n; j++ {
		p := fmt.Sprintf("/s%d/t%d/u%d", j%97, j%89, j)
		reqs = append(reqs, fmt.Sprintf("r%d,%s,%s,s200.bx1,r200", j, hx(p), hx(p)))
	}
	return strings.Join(reqs, ";")
}

func runHTTP(m map[string]string) (out string) {
	if n := atoi(m["gen"], 0); n > 0 {
		m["reqs"] = genReqs(n)
	}
	var reqs []shot.HTTPReq
	for _, r := range strings.Split(m["reqs"], ";") {
		f := strings.Split(r, ",")
		if len(f) < 4 {
			panic("bad req " + r)
		}
		reqs = append(reqs, shot.HTTPReq{Tag: f[0], URI: unhx(f[1]), Script: f[3]})
	}
	g := shot.HTTPGunConf{Type: m["gun"], AutoTag: m["auto"] == "1", Elements: atoi(m["el"], 0), NoTagOnly: m["nto"] == "1",
		RHTimeoutMs: atoi(m["rht"], 0)}
	inst := atoi(m["inst"], 1)
	var r6Note *r3Note
	if m["ovf"] != "" {
		// round 6: the pool runs with `discard_overflow` set explicitly; the target logs which requests it saw
		watch := ""
		if m["cxf"] != "" {
			watch = "q" + m["cxf"]
		}
		hits, note := r6NoteRequests(reqs, watch)
		r6Note = note
		defer func() { out += " hits=" + hits() }()
	}
	// one run of the pool; plain: with `dial: {dns-cache: false}` (round 4: the reference run of a `dref=1` case). A named
	// target (round 4) is set up anew for every run.
	runOnce := func(plain bool) shot.Result {
		g, o := g, optsOf(m)
		switch m["tgt"] {
		case "dead":
			g.Target = shot.DeadAddr()
		case "tls2":
			g.Target = sharedTLS(true)
		case "tls1":
			g.Target = sharedTLS(false)
		case "r3":
			g.Target = r3SharedRaw()
		case "r3tls2":
			g.Target = r3SharedTLS(true)
		case "r3tls1":
			g.Target = r3SharedTLS(false)
		case "nd", "nf", "nl":
			// round 4: a host NAME nobody listens at while the gun is configured (the DNS-caching dialer stays in the transport)
			name, after, done := r4NamedTarget(m["tgt"], atoi(m["down"], 0))
			defer done()
			g.Target = name
			o.afterDecode = after
			if o.afterDecode == nil {
				o.afterDecode = func([]engine.InstancePoolConfig) string { return "" }
			}
		default:
			g.Target = sharedTarget()
		}
		conf := spliceGunOpts(shot.HTTPPool(g, reqs, inst), m)
		if m["prov"] == "uripost" {
			// round 4: the same requests as POSTs with a body (uripost provider): a 307 / 308 is followed WITH the body
			conf = r4AsURIPost(conf, reqs)
		}
		if m["ovf"] != "" {
			conf = r6Overflow(conf, m, len(reqs))
		}
		if m["cxf"] != "" && r6Note != nil {
			// round 6: cancel the run while request cxf is in flight
			o.cancelOn, o.cancelDelay, o.extraWait = r6Note.ch, 300*time.Millisecond, 6*time.Second
		}
		if m["atd"] != "" {
			conf = r6WrittenAutoTag(conf, m["atd"])
		}
		if d := atoi(m["dto"], 0); d > 0 {
			conf = strings.Replace(conf, "dial: {timeout: 2s}", fmt.Sprintf("dial: {timeout: %dms}", d), 1)
		}
		if plain {
			conf2 := strings.Replace(conf, "dial: {timeout: ", "dial: {dns-cache: false, timeout: ", 1)
			if conf2 == conf {
				return shot.Result{Class: "config:no-dial-section"}
			}
			conf = conf2
		}
		return runEngineOpt(conf, o, 40*time.Second)
	}
	res := runOnce(false)
	if m["dref"] == "1" {
		// round 4: the same requests once more with `dial: {dns-cache: false}` — net.Dialer itself is the transport's dialer.
		// Which helper dials must not show in the coding of the failure (r4DialRef).
		defer func(ref string) { out += ref }(r4DialRef(runOnce(true)))
	}
	if inst > 1 {
		// several instances: which request got which id depends on the interleaving of the Acquire calls. Every ammo of
		// such a case carries the unique tag r<i>; samples are printed under the REQUEST's number (from the tag) and the
		// real ids are listed separately, in request order.
		idx := func(s shot.Snap) uint64 {
			t := s.Tags
			if i := strings.IndexByte(t, '|'); i >= 0 {
				t = t[:i]
			}
			if !strings.HasPrefix(t, "r") {
				return 0
			}
			n, err := strconv.Atoi(t[1:])
			if err != nil || n < 0 {
				return 0
			}
			return uint64(n)
		}
		sort.SliceStable(res.Samples, func(i, j int) bool { return idx(res.Samples[i]) < idx(res.Samples[j]) })
		var ids []string
		for i := range res.Samples {
			ids = append(ids, strconv.FormatUint(res.Samples[i].ID, 10))
			res.Samples[i].ID = idx(res.Samples[i])
		}
		return fmtSamples(res, true) + " ids=" + strings.Join(ids, ",")
	}
	shot.SortByID(res.Samples)
	return fmtSamples(res, true)
}

// ---------------------------------------------------------------- k=scn

func scnPP(pp string) []string {
	switch {
	case pp == "-" || pp == "" || pp == "tpl":
		return nil
	case strings.HasPrefix(pp, "as"):
		return []string{fmt.Sprintf(`postprocessor "assert/response" { status_code = %d }`, atoi(pp[2:], 0))}
	}
	panic("bad pp " + pp)
}

func runScn(m map[string]string) string {
	var steps []shot.ScnStep
	var names []string
	for _, r := range strings.Split(m["steps"], ";") {
		f := strings.Split(r, ",")
		if len(f) < 5 {
			panic("bad step " + r)
		}
		uri := unhx(f[1])
		if f[4] == "tpl" {
			uri += "{{" // unparsable template: templater.Apply fails before anything is sent
		}
		steps = append(steps, shot.ScnStep{Name: f[0], URI: uri, Script: f[2], PP: scnPP(f[4])})
		names = append(names, f[0])
	}
	// hits=1 / cxl=<i>: the target records which steps it saw and tells when it has answered step i (round3.go)
	noted := m["hits"] == "1" || m["cxl"] != ""
	var tok string
	var note *r3Note
	o := optsOf(m)
	if noted {
		tok, note, o = r3CancelPlan(m, names)
		defer r3Notes.Delete(tok)
		for i := range steps {
			sep := "?"
			if strings.Contains(steps[i].URI, "?") {
				sep = "&"
			}
			steps[i].URI += sep + "nt=" + tok + "." + steps[i].Name
		}
	}
	g := shot.HTTPGunConf{Target: sharedTarget()}
	switch {
	case m["tgt"] == "r3tls2":
		g.Target = r3SharedTLS(true)
	case m["tgt"] == "r3":
		g.Target = r3SharedRaw()
	case m["gun"] == "http2/scenario":
		g.Target = sharedTLS(true)
	}
	conf := shot.ScenarioPool(g, m["scn"], steps, atoi(m["n"], 1), 1)
	if m["slp"] != "" {
		r3RewriteRequests(conf, names, r3ParsePauses(m["slp"]))
	}
	if m["gun"] == "http2/scenario" {
		conf = strings.Replace(conf, `gun: {type: "http/scenario"`, `gun: {type: "http2/scenario"`, 1)
	}
	res := runEngineOpt(spliceGunOpts(conf, m), o, 40*time.Second)
	if noted {
		return fmtSamples(res, false) + " hits=" + note.hitList(names)
	}
	return fmtSamples(res, false)
}

// ---------------------------------------------------------------- k=grpc / k=grpcscn

func grpcReqOf(tag, kind, code string) shot.GrpcReq {
	r := shot.GrpcReq{Tag: tag, Call: "target.TargetService.Hello", Payload: map[string]any{"name": "verif"}}
	switch kind {
	case "ok":
	case "code":
		r.Metadata = map[string]string{"x-code": code}
	case "hang":
		r.Metadata = map[string]string{"x-hang": "1"}
	case "gone":
		r.Metadata = map[string]string{"x-gone": "1"}
	case "nomethod":
		r.Call = "target.TargetService.NoSuchMethod"
	case "badpayload":
		r.Payload = map[string]any{"no_such_field": 1}
	case "bad":
		// a line of the ammo file that cannot be decoded (`continueonerror: true` delivers it as an INVALID ammo): the
		// placeholder is replaced by garbage once the file is written (runGrpc)
		r.Call = "__UNDECODABLE_LINE__"
	default:
		panic("bad grpc kind " + kind)
	}
	return r
}

// spliceGrpcOpts adds the answlog / shared-client options to a gRPC gun's YAML map.
func spliceGrpcOpts(conf string, m map[string]string) string {
	var o string
	if f := m["alog"]; f != "" {
		o += fmt.Sprintf(`, answlog: {enabled: true, path: "/dev/null", filter: %s}`, f)
	}
	if n := atoi(m["shc"], 0); n > 0 {
		o += fmt.Sprintf(`, shared-client: {enabled: true, client-number: %d}`, n)
	}
	if o == "" {
		return conf
	}
	for _, ty := range []string{"{type: grpc/scenario, target: ", "{type: grpc, target: "} {
		if i := strings.Index(conf, ty); i >= 0 {
			j := i + strings.Index(conf[i:], "}")
			return conf[:j] + o + conf[j:]
		}
	}
	return conf
}

func runGrpc(m map[string]string) string {
	var reqs []shot.GrpcReq
	for _, r := range strings.Split(m["reqs"], ";") {
		f := strings.Split(r, ",")
		if len(f) < 3 {
			panic("bad grpc req " + r)
		}
		reqs = append(reqs, grpcReqOf(f[0], f[1], f[2]))
	}
	addr, stop := grpcTargetFor(m["reqs"])
	defer stop()
	conf := shot.GrpcPool(addr, atoi(m["to"], 0), reqs, 1)
	if strings.Contains(m["reqs"], ",bad,") {
		conf = r3UndecodableLines(conf)
	}
	res := runEngineOpt(spliceGrpcOpts(conf, m), optsOf(m), 40*time.Second)
	return fmtSamples(res, false)
}

func runGrpcScn(m map[string]string) string {
	var calls []shot.GrpcCall
	var names []string
	noted := m["hits"] == "1" || m["cxl"] != ""
	for _, r := range strings.Split(m["calls"], ";") {
		f := strings.Split(r, ",")
		if len(f) < 5 {
			panic("bad grpc call " + r)
		}
		names = append(names, f[0])
	}
	var tok string
	var note *r3Note
	o := optsOf(m)
	if noted {
		tok, note, o = r3CancelPlan(m, names)
		defer r3Notes.Delete(tok)
	}
	for _, r := range strings.Split(m["calls"], ";") {
		f := strings.Split(r, ",")
		kind := f[2]
		if kind == "tpl" {
			kind = "ok"
		}
		q := grpcReqOf(f[1], kind, f[3])
		c := shot.GrpcCall{Name: f[0], Tag: f[1], Call: q.Call, Metadata: q.Metadata, Payload: `{"name": "verif"}`}
		if noted {
			md := map[string]string{"x-nt": tok + "." + f[0]}
			for k, v := range c.Metadata {
				md[k] = v
			}
			c.Metadata = md
		}
		if f[2] == "badpayload" {
			c.Payload = `{"no_such_field": 1}`
		}
		if f[2] == "tpl" {
			c.Payload = `{"name": "{{"}` // unparsable template: templater.Apply fails before anything is sent
		}
		if strings.HasPrefix(f[4], "as") {
			c.PP = []string{fmt.Sprintf(`postprocessor "assert/response" { status_code = %d }`, atoi(f[4][2:], 0))}
		}
		calls = append(calls, c)
	}
	var addr string
	var stop func()
	if noted {
		addr, stop = r3GrpcTargetRetry()
	} else {
		addr, stop = grpcTargetFor(m["calls"])
	}
	defer stop()
	conf := shot.GrpcScenarioPool(addr, atoi(m["to"], 0), m["scn"], calls, atoi(m["n"], 1), 1)
	if m["slp"] != "" {
		r3RewriteRequests(conf, names, r3ParsePauses(m["slp"]))
	}
	res := runEngineOpt(spliceGrpcOpts(conf, m), o, 40*time.Second)
	if noted {
		return fmtSamples(res, false) + " hits=" + note.hitList(names)
	}
	return fmtSamples(res, false)
}

// ---------------------------------------------------------------- k=ids

func runIds(m map[string]string) string {
	n := atoi(m["n"], 100)
	inst := atoi(m["inst"], 8)
	t := struct{ Addr string }{sharedTarget()}
	var conf string
	pre := ""
	if m["pre"] == "1" {
		pre = ", preload: true"
	}
	switch m["prov"] {
	case "uri":
		var reqs []shot.HTTPReq
		for i := 0; i < n; i++ {
			reqs = append(reqs, shot.HTTPReq{Tag: fmt.Sprintf("t%d", i%7), URI: fmt.Sprintf("/ids/%d", i), Script: "s200.bx3"})
		}
		conf = shot.HTTPPool(shot.HTTPGunConf{Type: "http", Target: t.Addr}, reqs, inst)
		conf = strings.Replace(conf, ", passes: 1", ", passes: 1"+pre, 1)
	case "uri-cyclic":
		// 5 ammo cycled without pass limit; the run is bounded by limit = n
		var reqs []shot.HTTPReq
		for i := 0; i < 5; i++ {
			reqs = append(reqs, shot.HTTPReq{Tag: "c", URI: fmt.Sprintf("/ids/%d", i), Script: "s200.bx3"})
		}
		f := shot.TempFile(".uri", shot.URIAmmo(reqs))
		conf = shot.PoolYAML("uri", f, fmt.Sprintf(", limit: %d", n)+pre, fmt.Sprintf(`{type: http, target: "%s"}`, t.Addr), n, inst)
	case "uripost":
		var b strings.Builder
		for i := 0; i < n; i++ {
			body := fmt.Sprintf("body%d", i)
			fmt.Fprintf(&b, "[X-Script: s200.bx1]\n%d /ids/%d tag%d\n%s\n", len(body), i, i%3, body)
		}
		f := shot.TempFile(".uripost", b.String())
		conf = shot.PoolYAML("uripost", f, ", passes: 1"+pre, fmt.Sprintf(`{type: http, target: "%s"}`, t.Addr), n, inst)
	case "raw":
		var b strings.Builder
		for i := 0; i < n; i++ {
			req := fmt.Sprintf("GET /ids/%d HTTP/1.1\r\nHost: verif\r\nX-Script: s200.bx2\r\n\r\n", i)
			fmt.Fprintf(&b, "%d tag%d\n%s\n", len(req), i%4, req)
		}
		f := shot.TempFile(".raw", b.String())
		conf = shot.PoolYAML("raw", f, ", passes: 1"+pre, fmt.Sprintf(`{type: http, target: "%s"}`, t.Addr), n, inst)
	case "json":
		var b strings.Builder
		for i := 0; i < n; i++ {
			j, _ := json.Marshal(map[string]any{"tag": fmt.Sprintf("j%d", i%5), "uri": fmt.Sprintf("/ids/%d", i), "method": "GET",
				"host": "verif", "headers": map[string]string{"X-Script": "s201.bx1"}})
			b.Write(j)
			b.WriteByte('\n')
		}
		f := shot.TempFile(".jsonl", b.String())
		conf = shot.PoolYAML("http/json", f, ", passes: 1"+pre, fmt.Sprintf(`{type: http, target: "%s"}`, t.Addr), n, inst)
	default:
		panic("bad prov " + m["prov"])
	}
	if start, ok := r4Start(m); ok {
		// round 4: the run goes on from a counter that stands at `start` (as after `start` acquisitions)
		o := optsOf(m)
		narrow := ""
		o.afterDecode = func(pools []engine.InstancePoolConfig) string {
			if bits, ok := r4PresetCounter(pools[0].Provider, start); !ok {
				narrow = fmt.Sprintf("res=counter-narrow bits=%d", bits)
				return "config:counter-narrow"
			}
			return ""
		}
		res := runEngineOpt(conf, o, 60*time.Second)
		if narrow != "" {
			return narrow
		}
		var all []uint64
		for _, s := range res.Samples {
			all = append(all, s.ID)
		}
		return strings.Replace(r4IDSummary(all, start), "res=ok", "res="+res.Class, 1)
	}
	res := shot.RunEngine(conf, 60*time.Second)
	ids := map[uint64]int{}
	var mn, mx uint64
	for i, s := range res.Samples {
		ids[s.ID]++
		if i == 0 || s.ID < mn {
			mn = s.ID
		}
		if s.ID > mx {
			mx = s.ID
		}
	}
	return fmt.Sprintf("res=%s count=%d distinct=%d min=%d max=%d", res.Class, len(res.Samples), len(ids), mn, mx)
}

// ---------------------------------------------------------------- k=idstress : the counter itself under contention

// runIDStress hammers (*base.ProviderBase).NextID — the method every http provider's Acquire calls — from g goroutines
// that each take n ids as fast as they can: the interleaving-sensitive part of "ids are unique" without a network
// round-trip between two increments.
func runIDStress(m map[string]string) string {
	g, n := atoi(m["g"], 16), atoi(m["n"], 100000)
	var pb pbase.ProviderBase
	per := make([][]uint64, g)
	start := make(chan struct{})
	var wg sync.WaitGroup
	for i := 0; i < g; i++ {
		wg.Add(1)
		go func(i int) {
			defer wg.Done()
			ids := make([]uint64, n)
			<-start
			for j := range ids {
				ids[j] = pb.NextID()
			}
			per[i] = ids
		}(i)
	}
	close(start)
	wg.Wait()
	total := g * n
	seen := make([]bool, total+1)
	distinct := 0
	var mn, mx uint64
	first := true
	for _, ids := range per {
		for _, id := range ids {
			if first || id < mn {
				mn = id
			}
			if id > mx {
				mx = id
			}
			first = false
			if id >= 1 && id <= uint64(total) && !seen[id] {
				seen[id] = true
				distinct++
			}
		}
	}
	return fmt.Sprintf("res=ok count=%d distinct=%d min=%d max=%d", total, distinct, mn, mx)
}

// ---------------------------------------------------------------- k=errno : netsample.getErrno on constructed chains

type undErr struct{ e error }

func (u undErr) Error() string     { return "und" }
func (u undErr) Underlying() error { return u.e }

type tmoErr struct{}

func (tmoErr) Error() string { return "tmo" }
func (tmoErr) Timeout() bool { return true }

type netTimeoutErr struct{}

func (netTimeoutErr) Error() string   { return "timeout" }
func (netTimeoutErr) Timeout() bool   { return true }
func (netTimeoutErr) Temporary() bool { return true }

func buildErr(s string) error {
	wrap := func(pfx string) (string, bool) {
		if strings.HasPrefix(s, pfx+"(") && strings.HasSuffix(s, ")") {
			return s[len(pfx)+1 : len(s)-1], true
		}
		return "", false
	}
	if in, ok := wrap("op"); ok {
		s = in
		return &net.OpError{Op: "read", Net: "tcp", Err: buildErr(in)}
	}
	if in, ok := wrap("sys"); ok {
		return &os.SyscallError{Syscall: "read", Err: buildErr(in)}
	}
	if in, ok := wrap("url"); ok {
		return &url.Error{Op: "Get", URL: "http://x/", Err: buildErr(in)}
	}
	if in, ok := wrap("und"); ok {
		return undErr{buildErr(in)}
	}
	if in, ok := wrap("cause"); ok {
		return pkgerrors.WithStack(buildErr(in))
	}
	switch {
	case strings.HasPrefix(s, "errno"):
		return syscall.Errno(atoi(s[5:], 0))
	case s == "timeout":
		return netTimeoutErr{}
	case s == "tmo":
		return tmoErr{}
	case s == "other":
		return errors.New("other")
	}
	panic("bad shape " + s)
}

func netOf(s *netsample.Sample) int {
	f := strings.Split(s.String(), "\t")
	if len(f) != 12 {
		return -1
	}
	n, _ := strconv.Atoi(f[10])
	return n
}

func runErrno(m map[string]string) string {
	err := buildErr(m["shape"])
	s := netsample.Acquire("")
	s.SetErr(err)
	return fmt.Sprintf("net=%d shape=%s", netOf(s), shot.Shape(s.Err()))
}

// ---------------------------------------------------------------- k=inv : invalid ammo through the real http gun

type invAmmo struct {
	tag string
	id  uint64
}

func (a invAmmo) Request() (*http.Request, *netsample.Sample) {
	req, _ := http.NewRequest("GET", "/inv", nil)
	s := netsample.Acquire(a.tag)
	s.SetID(a.id)
	return req, s
}
func (a invAmmo) ID() uint64      { return a.id }
func (a invAmmo) IsInvalid() bool { return true }

type nsRec struct{ got []*netsample.Sample }

func (r *nsRec) Run(ctx context.Context, _ core.AggregatorDeps) error { return nil }
func (r *nsRec) Report(s *netsample.Sample)                           { r.got = append(r.got, s) }

func runInv(m map[string]string) string {
	t := shot.NewTarget()
	defer t.Close()
	conf := phttp.DefaultHTTPGunConfig()
	conf.Target = t.Addr
	conf.TargetResolved = t.Addr
	conf.AutoTag.Enabled = m["auto"] == "1"
	g := phttp.NewHTTP1Gun(conf, zap.NewNop())
	rec := &nsRec{}
	if err := g.Bind(rec, core.GunDeps{Ctx: context.Background(), Log: zap.NewNop()}); err != nil {
		return "bind-error"
	}
	g.Shoot(invAmmo{tag: unhx(m["tag"]), id: uint64(atoi(m["id"], 1))})
	var parts []string
	for _, s := range rec.got {
		parts = append(parts, fmt.Sprintf("%d:%s:%d:%d:%s", s.ID(), hx(s.Tags()), s.ProtoCode(), netOf(s), shot.Shape(s.Err())))
	}
	return fmt.Sprintf("res=ok hits=%d s=%s", t.Hits.Load(), strings.Join(parts, ";"))
}

// ---------------------------------------------------------------- k=grpcdirect : payload that cannot be marshalled

func runGrpcDirect(m map[string]string) string {
	shot.Init()
	addr := sharedGrpc()
	g := grpcgun.NewGun(grpcgun.GunConfig{Target: addr})
	shared, err := g.WarmUp(&warmup.Options{Log: zap.NewNop(), Ctx: context.Background()})
	if err != nil {
		return "warmup-error"
	}
	rec := &shot.Rec{}
	if err := g.Bind(rec, core.GunDeps{Ctx: context.Background(), Log: zap.NewNop(), Shared: shared}); err != nil {
		return "bind-error"
	}
	am := &grpcammo.Ammo{Tag: unhx(m["tag"]), Call: "target.TargetService.Hello"}
	switch m["kind"] {
	case "marshal":
		am.Payload = map[string]any{"name": make(chan int)}
	case "ok":
		am.Payload = map[string]any{"name": "x"}
	case "invalid":
		// what the grpc/json provider delivers for a line it cannot decode (continueonerror): never to be sent
		am.Payload = map[string]any{"name": "x"}
		am.Invalidate()
	default:
		panic("bad kind")
	}
	g.Shoot(am)
	return fmtSamples(shot.Result{Class: "ok", Samples: rec.Snapshot()}, false)
}

// ---------------------------------------------------------------- dispatch, generation

// suspicious: the observation shows something the case did not script and that an overloaded host produces by itself
// (other checks run on the same machine): an engine run that did not end, a dial / TLS-handshake / response timeout
// without a silent target, a client-side gRPC Unavailable / DeadlineExceeded, exhausted ports or descriptors.
func suspicious(m map[string]string, input, obs string) bool {
	if m["k"] == "errno" || m["k"] == "idstress" || m["k"] == "shootstress" || m["k"] == "idwrap" {
		return false // no network, no engine
	}
	if strings.Contains(obs, "res=hang") || strings.Contains(obs, "errno99") || strings.Contains(obs, "errno24") ||
		strings.Contains(obs, "address already in use") || strings.Contains(obs, "warmup-error") || strings.Contains(obs, "bind-error") {
		return true
	}
	switch m["k"] {
	case "http", "scn":
		if m["tgt"] == "nf" {
			return false // the dial timeout is the script
		}
		return !strings.Contains(input, "acthang") && (strings.Contains(obs, "timeout") || strings.Contains(obs, ":tmo"))
	case "grpcpool":
		return strings.Contains(obs, ":503:") || strings.Contains(obs, ":504:")
	case "grpc", "grpcscn", "grpcdirect":
		if strings.Contains(input, ",hang,") {
			return false
		}
		if strings.Contains(input, ",gone,") {
			// the target goes away by script: 503 is what every later call must show; a 504 is the host's doing
			return strings.Contains(obs, ":504:")
		}
		scripted := strings.Count(input, ",code,14") + strings.Count(input, ",code,4,") + strings.Count(input, ",code,4;")
		if strings.HasSuffix(input, ",code,4") {
			scripted++
		}
		n := atoi(m["n"], 1)
		return strings.Count(obs, ":503:")+strings.Count(obs, ":504:") > scripted*n
	case "ids":
		// samples missing (requests that never got through); duplicate ids are NOT retried: they are the finding
		if strings.HasPrefix(obs, "res=counter-narrow") {
			return false // the counter cannot hold the preset value: deterministic
		}
		return !strings.Contains(obs, fmt.Sprintf("count=%d ", atoi(m["n"], 100)))
	}
	return false
}

// run executes one case; a suspicious observation is re-taken (twice at most, after a pause): what the code does
// deterministically shows again, what the loaded host did does not.
func run(input string) string {
	m := drv.KV(input)
	obs := run1(m)
	for try := 0; try < 2 && suspicious(m, input, obs); try++ {
		if retries.Add(1) <= 40 {
			o := obs
			if len(o) > 300 {
				o = o[:300]
			}
			fmt.Fprintf(os.Stderr, "c10: re-taking %.60s : %s\n", input, o)
		}
		time.Sleep(time.Duration(2+3*try) * time.Second)
		obs = run1(m)
	}
	return obs
}

func run1(m map[string]string) string { return gated(m, func() string { return run0(m) }) }

func run0(m map[string]string) string {
	switch m["k"] {
	case "http":
		return runHTTP(m)
	case "scn":
		return runScn(m)
	case "grpc":
		return runGrpc(m)
	case "grpcscn":
		return runGrpcScn(m)
	case "ids":
		return runIds(m)
	case "idstress":
		return runIDStress(m)
	case "shootstress":
		return runShootStress(m)
	case "errno":
		return runErrno(m)
	case "inv":
		return runInv(m)
	case "grpcdirect":
		return runGrpcDirect(m)
	case "grpcpool":
		return runGrpcPool(m)
	case "idwrap":
		return runIDWrap(m)
	}
	return "bad-input"
}

var tagPool = []string{"", "", "t1", "case_A", "x-y", "T"}

func randSeg(r *rand.Rand) string {
	const al = "abcXYZ019_.-~"
	n := r.Intn(6)
	b := make([]byte, n)
	for i := range b {
		b[i] = al[r.Intn(len(al))]
	}
	return string(b)
}

// randURI returns (uri as written into the ammo file, URL.Path the gun will see).
func randURI(r *rand.Rand) (string, string) {
	var uri string
	switch r.Intn(14) {
	case 12:
		uri = "http://verif.example" // absolute URI without a path: URL.Path is empty
	case 13:
		uri = "http://verif.example/abs/" + randSeg(r) + "?x=1"
	case 0:
		uri = "/"
	case 1:
		uri = "/my/very/deep/page?id=23&param=33"
	case 2:
		uri = "?only=query"
	case 3:
		uri = "noslash/" + randSeg(r) + "/" + randSeg(r)
	case 4:
		uri = "/a%2Fb/c%20d/e" // escaped slash and space: URL.Path is the decoded form
	case 5:
		uri = "//" + "/" + randSeg(r) + "//" + randSeg(r) + "/"
	case 6:
		uri = "/%D0%BF%D1%83%D1%82%D1%8C/" + randSeg(r) + "/x" // UTF-8 path
	default:
		n := r.Intn(6)
		for i := 0; i < n; i++ {
			uri += "/" + randSeg(r)
		}
		if uri == "" || r.Intn(4) == 0 {
			uri += "/"
		}
		if r.Intn(4) == 0 {
			uri += "?q=" + randSeg(r)
		}
	}
	u, err := url.Parse(uri)
	if err != nil {
		return "/fallback", "/fallback"
	}
	return uri, u.Path
}

func httpReqTok(tag, uri, path, script string) string {
	sc, err := shot.ParseScript(script)
	if err != nil {
		panic(err)
	}
	return fmt.Sprintf("%s,%s,%s,%s,%s", tag, hx(uri), hx(path), script, sc.Truth())
}

func httpCase(gun, tgt string, auto bool, el int, nto bool, extra string, reqs []string) string {
	b := func(v bool) int {
		if v {
			return 1
		}
		return 0
	}
	s := fmt.Sprintf("k=http gun=%s tgt=%s auto=%d el=%d nto=%d", gun, tgt, b(auto), el, b(nto))
	if extra != "" {
		s += " " + extra
	}
	return s + " reqs=" + strings.Join(reqs, ";")
}

// refusedTok: the truth token of a request whose dial is refused (round 4: the model predicts the whole error chain)
var refusedTok = fmt.Sprintf("fe%d", int(syscall.ECONNREFUSED))

var failScripts = []string{"actclose", "actreset", "actgarbage", "actbadhdr", "s200.bx40.actmidclose", "s500.bx64.actmidreset",
	"s200.bx10.c100", "s404.bx10.c3", "s200.bx20.actnolen", "s200.bempty", "s204.bx10", "s304", "i103.s200.bx5", "i100.s404.bx1", "s101"}

// randDims draws the option dimensions that must NOT influence a sample (answlog, httptrace, debug logging, shared
// client): about half of the cases run with the defaults.
var alogOneIn = 2

func randDims(r *rand.Rand, shared bool) string {
	if r.Intn(2) == 0 {
		return ""
	}
	var d []string
	// every answlog gun factory opens its log file and never closes it (one descriptor per case for the life of the
	// driver process): rarer on the long tier
	if r.Intn(alogOneIn) == 0 {
		d = append(d, "alog="+[]string{"all", "warning", "error"}[r.Intn(3)])
	}
	if r.Intn(3) == 0 {
		d = append(d, "trace=1")
	}
	if r.Intn(3) == 0 {
		d = append(d, "dump=1")
	}
	if r.Intn(3) == 0 {
		d = append(d, "dbg=1")
	}
	if shared && r.Intn(4) == 0 {
		d = append(d, fmt.Sprintf("shc=%d", 1+r.Intn(3)))
	}
	return strings.Join(d, " ")
}

// allPaths: every non-empty string over {'/', 'a'} of length <= n whose parse as a URI succeeds (with the path net/url
// gives it).
func allPaths(n int) [][2]string {
	var out [][2]string
	var rec func(p string)
	rec = func(p string) {
		if p != "" {
			if u, err := url.Parse(p); err == nil && !strings.HasPrefix(p, "//") {
				out = append(out, [2]string{p, u.Path})
			}
		}
		if len(p) == n {
			return
		}
		rec(p + "/")
		rec(p + "a")
	}
	rec("")
	return out
}

// allShapes: every error chain of at most `depth` wrappers over every kind of leaf.
func allShapes(depth int) []string {
	leaves := []string{"timeout", "tmo", "other", "errno11", "errno110", "errno111", "errno1"}
	cur := leaves
	out := append([]string(nil), leaves...)
	for d := 0; d < depth; d++ {
		var next []string
		for _, w := range []string{"op", "sys", "url", "und", "cause"} {
			for _, c := range cur {
				next = append(next, w+"("+c+")")
			}
		}
		out = append(out, next...)
		cur = next
	}
	return out
}

func gen(r *rand.Rand, tier string) []string {
	thorough := tier == "thorough"
	if thorough {
		alogOneIn = 16
	}
	pick := func(q, t int) int {
		if thorough {
			return t
		}
		return q
	}
	var out []string
	// 1. every status 100..599, exhaustively, in runs of 50; settings and option dimensions rotate
	for rep := 0; rep < pick(1, 12); rep++ {
		for base := 100; base < 600; base += 50 {
			var reqs []string
			for st := base; st < base+50; st++ {
				uri, path := randURI(r)
				reqs = append(reqs, httpReqTok(tagPool[r.Intn(len(tagPool))], uri, path, fmt.Sprintf("s%d.bx%d", st, r.Intn(20))))
			}
			gun := "http"
			if (base/50+rep)%4 == 3 {
				gun = "connect"
			}
			out = append(out, httpCase(gun, "live", r.Intn(2) == 0, 1+r.Intn(3), r.Intn(2) == 0, randDims(r, true), reqs))
		}
	}
	// 1b. status codes a client accepts although no RFC defines them: 000..099 and 600..999 (three digits is all
	// net/http asks of a status line)
	for rep := 0; rep < pick(1, 6); rep++ {
		for base := 0; base < 1000; base += 50 {
			if base >= 100 && base < 600 {
				continue
			}
			var reqs []string
			for st := base; st < base+50; st++ {
				uri, path := randURI(r)
				reqs = append(reqs, httpReqTok(tagPool[r.Intn(len(tagPool))], uri, path, fmt.Sprintf("s%d.bx%d", st, r.Intn(20))))
			}
			extra := ""
			if rep > 0 {
				extra = randDims(r, true)
			}
			out = append(out, httpCase([]string{"http", "connect"}[(base/50+rep)%2], "live", r.Intn(2) == 0, 1+r.Intn(3), r.Intn(2) == 0, extra, reqs))
		}
	}
	// 2. failure kinds x guns x redirecting client x option dimensions
	for rep := 0; rep < pick(1, 12); rep++ {
		for _, gun := range []string{"http", "connect"} {
			for _, redir := range []string{"", "redir=1"} {
				var reqs []string
				for _, sc := range failScripts {
					uri, path := randURI(r)
					reqs = append(reqs, httpReqTok(tagPool[r.Intn(len(tagPool))], uri, path, sc))
				}
				extra := strings.TrimSpace(redir + " " + randDims(r, true))
				if rep == 0 {
					extra = redir
				}
				out = append(out, httpCase(gun, "live", true, 2, true, extra, reqs))
				// refused
				uri, path := randURI(r)
				out = append(out, httpCase(gun, "dead", r.Intn(2) == 0, 1, false, extra, []string{
					strings.Replace(httpReqTok("dead", uri, path, "s200"), ",r200", ","+refusedTok, 1),
					strings.Replace(httpReqTok("", "/x/y", "/x/y", "s200"), ",r200", ","+refusedTok, 1)}))
			}
		}
	}
	// 3. silent target: response-header timeout (1 s each)
	nHang := pick(2, 16)
	for i := 0; i < nHang; i++ {
		gun := []string{"http", "connect"}[i%2]
		extra := "rht=1000"
		if i%3 == 2 {
			extra += " redir=1"
		}
		if i >= 2 {
			extra = strings.TrimSpace(extra + " " + randDims(r, true))
		}
		out = append(out, httpCase(gun, "live", i%2 == 0, 2, false, extra, []string{httpReqTok("hang", "/h/a/n/g", "/h/a/n/g", "acthang")}))
	}
	// 4. TLS: http2 gun against an HTTP/2 target; http gun with ssl against an HTTP/1.1 TLS target; the documented fatal
	// condition (http2 gun, target without HTTP/2)
	for rep := 0; rep < pick(1, 10); rep++ {
		for _, gt := range [][3]string{{"http2", "tls2", ""}, {"http", "tls1", "ssl=1"}} {
			var reqs []string
			for _, st := range []int{200, 201, 204, 301, 400, 404, 418, 500, 503, 599} {
				uri, path := randURI(r)
				if !strings.HasPrefix(uri, "/") {
					// a request target without a leading slash is refused by net/http's server and by the HTTP/2 client
					uri = "/" + uri
					if u, err := url.Parse(uri); err == nil {
						path = u.Path
					}
				}
				reqs = append(reqs, httpReqTok(tagPool[r.Intn(len(tagPool))], uri, path, fmt.Sprintf("s%d.bx%d", st, 1+r.Intn(9))))
			}
			extra := gt[2]
			if rep > 0 {
				extra = strings.TrimSpace(extra + " " + randDims(r, true))
			}
			out = append(out, httpCase(gt[0], gt[1], true, 1+rep%3, rep%2 == 1, extra, reqs))
			// round 3: failure kinds over TLS and over HTTP/2 (aborted stream before / in the middle of the answer, body shorter
			// than declared), between plain answers
			var fr []string
			for _, sc := range []string{"actclose", "s200.bx3", "s200.bx40.actmidclose", "s503.bx10.c100", "s404.bx2", "actreset", "s200.bx1"} {
				fr = append(fr, httpReqTok(tagPool[r.Intn(len(tagPool))], "/tf/"+randSeg(r), "", sc))
			}
			for i := range fr {
				// the path field: recompute (randSeg is part of the uri)
				f := strings.Split(fr[i], ",")
				f[2] = f[1]
				fr[i] = strings.Join(f, ",")
			}
			out = append(out, httpCase(gt[0], gt[1], rep%2 == 0, 1+rep%2, false, extra, fr))
		}
		uri, path := randURI(r)
		if !strings.HasPrefix(uri, "/") {
			uri, path = "/fatal/x", "/fatal/x"
		}
		out = append(out, httpCase("http2", "tls1", rep%2 == 0, 2, false, "pan=1", []string{httpReqTok(tagPool[r.Intn(len(tagPool))], uri, path, "s200.bx1")}))
	}
	// 5a. tag / auto-tag settings x URI shapes, EXHAUSTIVELY over all paths of length <= n over {'/','a'}:
	// enabled x no-tag-only x uri-elements 1..4 x (tagged | untagged ammo)
	paths := allPaths(pick(4, 8))
	for _, auto := range []bool{false, true} {
		for _, nto := range []bool{false, true} {
			for el := 1; el <= 4; el++ {
				if !auto && el > 1 && !thorough {
					continue
				}
				for _, tag := range []string{"", "T"} {
					for lo := 0; lo < len(paths); lo += 64 {
						hi := lo + 64
						if hi > len(paths) {
							hi = len(paths)
						}
						var reqs []string
						for _, p := range paths[lo:hi] {
							reqs = append(reqs, httpReqTok(tag, p[0], p[1], "s200.bx1"))
						}
						out = append(out, httpCase("http", "live", auto, el, nto, "", reqs))
					}
				}
			}
		}
	}
	// 5b. random settings x URI shapes x outcomes x option dimensions
	nTag := pick(40, 12000)
	for i := 0; i < nTag; i++ {
		var reqs []string
		for j := 0; j < 12; j++ {
			uri, path := randURI(r)
			reqs = append(reqs, httpReqTok(tagPool[r.Intn(len(tagPool))], uri, path, []string{"s200.bx2", "s404", "actclose", "s200.bx9.c50"}[r.Intn(4)]))
		}
		out = append(out, httpCase("http", "live", r.Intn(4) != 0, 1+r.Intn(5), r.Intn(2) == 0, randDims(r, true), reqs))
	}
	// 5c. SEVERAL concurrently shooting instances: every ammo carries the unique tag r<i>, so that each sample can be
	// attributed to its request whatever id the interleaving of the Acquire calls gave it
	nMulti := pick(12, 2400)
	for i := 0; i < nMulti; i++ {
		n := 8 + r.Intn(pick(24, 72))
		var reqs []string
		for j := 1; j <= n; j++ {
			uri, path := randURI(r)
			script := []string{"s200.bx2", "s404", "actclose", "s200.bx9.c50", "s503.bx1", "actreset"}[r.Intn(6)]
			reqs = append(reqs, httpReqTok(fmt.Sprintf("r%d", j), uri, path, script))
		}
		inst := []int{2, 3, 4, 8, 16, 32}[r.Intn(6)]
		extra := strings.TrimSpace(fmt.Sprintf("inst=%d ", inst) + randDims(r, true))
		out = append(out, httpCase([]string{"http", "http", "connect"}[r.Intn(3)], "live", r.Intn(2) == 0, 1+r.Intn(3), false, extra, reqs))
	}
	// 5d. ammo tags that COLLIDE with what the gun adds: the auto-tag of the ammo's own URI, the literal __EMPTY__, a tag
	// with the separator in it, a prefix / an extension of the auto-tag
	for _, auto := range []bool{true, false} {
		for _, nto := range []bool{false, true} {
			for el := 1; el <= pick(2, 4); el++ {
				var reqs []string
				for _, up := range [][2]string{{"/a/b/c", "/a/b/c"}, {"/a", "/a"}, {"/", "/"}, {"?q=1", ""}, {"/x//y", "/x//y"}, {"/a/b?z=1", "/a/b"}} {
					for _, tag := range []string{"/a", "/a/b", "/a/b/c", "/", "__EMPTY__", "a|b", "|", "/a|/a", "/x/", "/x", "t|__EMPTY__"} {
						reqs = append(reqs, httpReqTok(tag, up[0], up[1], []string{"s200.bx1", "actclose"}[r.Intn(2)]))
					}
				}
				out = append(out, httpCase("http", "live", auto, el, nto, "", reqs))
			}
		}
	}
	// 5e. the REAL phout aggregator in the loop (agg=phout): it releases every sample to netsample's pool after writing its
	// line, so later requests of the case shoot with RECYCLED samples; outcomes alternate (failure, broken body, plain
	// status, tagged, untagged) so that anything a recycled sample kept would show on the next line
	mixed := []string{"s200.bx2", "actclose", "s404", "s503.bx10.c100", "s200.bx1", "actreset", "s201.bx3", "s500.bx64.actmidreset", "s200", "actgarbage"}
	for i := 0; i < pick(4, 160); i++ {
		var reqs []string
		n := 30 + r.Intn(30)
		multi := i%4 == 3
		for j := 1; j <= n; j++ {
			uri, path := randURI(r)
			tag := tagPool[r.Intn(len(tagPool))]
			if multi {
				tag = fmt.Sprintf("r%d", j)
			}
			reqs = append(reqs, httpReqTok(tag, uri, path, mixed[r.Intn(len(mixed))]))
		}
		extra := "agg=phout"
		if multi {
			extra = fmt.Sprintf("inst=%d agg=phout", []int{2, 4, 16}[r.Intn(3)])
		}
		if i%2 == 1 {
			extra = strings.TrimSpace(extra + " " + randDims(r, true))
		}
		out = append(out, httpCase([]string{"http", "connect"}[i%2], "live", r.Intn(2) == 0, 1+r.Intn(3), multi || r.Intn(2) == 0, extra, reqs))
	}
	for i := 0; i < pick(3, 120); i++ {
		k := 2 + r.Intn(3)
		var steps []string
		for j := 0; j < k; j++ {
			script, pp := "s200.bjson", "-"
			if j == k-1 {
				// the last step fails in two shots out of three: reportErr's sample follows plain ones and is followed by them
				switch r.Intn(6) {
				case 0:
					script = "actclose"
				case 1:
					script, pp = "s500.bx1", "as200"
				case 2:
					pp = "tpl"
				case 3:
					script = "s200.bx40.actmidclose"
				}
			} else if r.Intn(3) == 0 {
				script = fmt.Sprintf("s%d.bx3", 200+r.Intn(400))
			}
			sc, _ := shot.ParseScript(script)
			steps = append(steps, fmt.Sprintf("st%d,%s,%s,%s,%s", j, hx(fmt.Sprintf("/p/%d", j)), script, sc.Truth(), pp))
		}
		out = append(out, fmt.Sprintf("k=scn scn=ph%d n=%d agg=phout steps=%s", i%3, 3+r.Intn(6), strings.Join(steps, ";")))
	}
	// 5f. MANY requests from many concurrently shooting instances with auto-tag on (`gen=N`: the requests are built by
	// rule, every one with its own tag and its own path): whatever the guns share (clients, caches) is used by all
	// instances at once, and every sample must still carry the tag of ITS request
	for i := 0; i < pick(2, 8); i++ {
		extra := fmt.Sprintf("inst=%d gen=%d", []int{16, 32, 8, 64}[i%4], pick(1500, 3000))
		if i%4 == 3 {
			extra += " agg=phout"
		}
		out = append(out, fmt.Sprintf("k=http gun=%s tgt=live auto=1 el=%d nto=0 %s", []string{"http", "connect"}[i%2], 1+i%3, extra))
	}
	// 6. http scenarios (plain and over HTTP/2)
	nScn := pick(30, 24000)
	for i := 0; i < nScn; i++ {
		k := 1 + r.Intn(4)
		h2 := i%10 == 9
		var steps []string
		for j := 0; j < k; j++ {
			script := "s200.bjson"
			pp := "-"
			switch r.Intn(10) {
			case 0:
				if h2 {
					script = []string{"actclose", "s200.bx40.actmidclose", "s503.bx10.c100"}[r.Intn(3)] // aborted stream, truncated body
				} else {
					script = failScripts[r.Intn(8)]
				}
			case 1:
				script = fmt.Sprintf("s%d.bx3", 200+r.Intn(400))
			case 2:
				pp = "as200"
				script = []string{"s200.bx1", "s500.bx1", "s404"}[r.Intn(3)]
			case 3:
				pp = "tpl"
			case 4:
				pp = fmt.Sprintf("as%d", []int{0, 200, 404}[r.Intn(3)])
				script = "s404.bhtml"
			}
			sc, _ := shot.ParseScript(script)
			uri, _ := randURI(r)
			if !strings.HasPrefix(uri, "/") {
				uri = "/" + uri
			}
			steps = append(steps, fmt.Sprintf("st%d,%s,%s,%s,%s", j, hx(uri), script, sc.Truth(), pp))
		}
		c := fmt.Sprintf("k=scn scn=scn%d n=%d", i%3, 1+r.Intn(3))
		if h2 {
			c += " gun=http2/scenario"
		}
		if d := randDims(r, true); d != "" && i%2 == 1 {
			c += " " + d
		}
		out = append(out, c+" steps="+strings.Join(steps, ";"))
	}
	// 7. gRPC: every code 0..16, out-of-range codes, unknown method, ill-typed payload; answlog filters, shared client
	for rep := 0; rep < pick(2, 14); rep++ {
		var reqs []string
		for c := 0; c <= 16; c++ {
			kind := "code"
			if c == 0 {
				kind = "ok"
			}
			reqs = append(reqs, fmt.Sprintf("%s,%s,%d", tagPool[r.Intn(len(tagPool))], kind, c))
		}
		for _, c := range []string{"17", "99", "1000", "4294967295"} {
			reqs = append(reqs, fmt.Sprintf("oor,code,%s", c))
		}
		reqs = append(reqs, "nm,nomethod,0", ",badpayload,0", "bp,badpayload,0", ",nomethod,0")
		if rep%2 == 1 {
			reqs = append(reqs, ",bad,0", "ok,ok,0", ",bad,0") // undecodable lines between good ones
		}
		opts := ""
		if rep > 0 {
			opts = []string{" alog=all", " alog=warning", " alog=error", " shc=2", " dbg=1", " alog=all shc=1 dbg=1"}[(rep-1)%6]
		}
		out = append(out, "k=grpc"+opts+" reqs="+strings.Join(reqs, ";"))
	}
	out = append(out, "k=grpc to=700 reqs=hg,hang,0")
	out = append(out, "k=grpcdirect kind=marshal tag="+hx("m"), "k=grpcdirect kind=ok tag="+hx(""), "k=grpcdirect kind=invalid tag="+hx("inv"),
		"k=grpc reqs=a,ok,0;,bad,0;b,code,5;,bad,0;c,ok,0", "k=grpc agg=phout reqs=a,ok,0;,bad,0;b,code,5;,bad,0;c,ok,0;,nomethod,0;,bad,0")
	if thorough {
		// every status code 0..300 and some far ones, one by one
		var reqs []string
		for c := 0; c <= 300; c++ {
			reqs = append(reqs, fmt.Sprintf("x%d,code,%d", c%5, c))
		}
		out = append(out, "k=grpc reqs="+strings.Join(reqs, ";"), "k=grpc to=700 alog=all reqs=hg,hang,0;,ok,0")
	}
	// (a gRPC gun never closes its client connection: one descriptor per case stays open in the driver process, so the
	// long tier makes the cases longer rather than more numerous)
	nG := pick(6, 600)
	for i := 0; i < nG; i++ {
		var reqs []string
		for j := 0; j < pick(10, 60); j++ {
			kind := []string{"ok", "code", "code", "code", "nomethod", "badpayload"}[r.Intn(6)]
			reqs = append(reqs, fmt.Sprintf("%s,%s,%d", tagPool[r.Intn(len(tagPool))], kind, 1+r.Intn(20)))
		}
		opts := ""
		if i%3 == 2 {
			opts = []string{" alog=all", " alog=warning", " alog=error", " shc=2", " dbg=1"}[r.Intn(5)]
		}
		out = append(out, "k=grpc"+opts+" reqs="+strings.Join(reqs, ";"))
	}
	// 7b. the same through the real phout aggregator; and a target that GOES AWAY in the middle of the run (`gone`): the
	// call in flight and every later call that is made end with the client-side status Unavailable, requests that are
	// never sent (unknown method, bad payload) keep their codes
	for i := 0; i < pick(2, 40); i++ {
		var reqs []string
		for j := 0; j < pick(24, 60); j++ {
			kind := []string{"ok", "code", "code", "code", "nomethod", "badpayload"}[r.Intn(6)]
			reqs = append(reqs, fmt.Sprintf("%s,%s,%d", tagPool[r.Intn(len(tagPool))], kind, 1+r.Intn(20)))
		}
		out = append(out, "k=grpc agg=phout reqs="+strings.Join(reqs, ";"))
	}
	goneCode := func() int { return []int{1, 2, 3, 5, 7, 9, 13, 14, 16, 17}[r.Intn(10)] } // not 4: a 504 in such a case is the host's doing
	for i := 0; i < pick(3, 60); i++ {
		var reqs []string
		n := 4 + r.Intn(10)
		at := r.Intn(n)
		for j := 0; j < n; j++ {
			kind := []string{"ok", "ok", "code", "code", "nomethod", "badpayload"}[r.Intn(6)]
			if j == at {
				kind = "gone"
			}
			reqs = append(reqs, fmt.Sprintf("%s,%s,%d", tagPool[r.Intn(len(tagPool))], kind, goneCode()))
		}
		opts := ""
		if i%3 == 2 {
			opts = []string{" alog=all", " shc=2", " dbg=1", " agg=phout"}[r.Intn(4)]
		}
		out = append(out, "k=grpc"+opts+" reqs="+strings.Join(reqs, ";"))
	}
	for i := 0; i < pick(3, 60); i++ {
		k := 2 + r.Intn(3)
		at := r.Intn(k)
		var calls []string
		for j := 0; j < k; j++ {
			kind := []string{"ok", "ok", "ok", "code", "nomethod", "badpayload"}[r.Intn(6)]
			if j == at {
				kind = "gone"
			} else if j < at {
				kind = "ok" // the scenario must reach the call during which the target goes away
			}
			pp := "-"
			if r.Intn(4) == 0 {
				pp = fmt.Sprintf("as%d", []int{200, 503}[r.Intn(2)])
			}
			calls = append(calls, fmt.Sprintf("c%d,tg%d,%s,%d,%s", j, j, kind, goneCode(), pp))
		}
		opts := ""
		if i%3 == 2 {
			opts = []string{" alog=all", " dbg=1", " agg=phout"}[r.Intn(3)]
		}
		out = append(out, fmt.Sprintf("k=grpcscn%s scn=gn%d n=%d calls=%s", opts, i%2, 2+r.Intn(3), strings.Join(calls, ";")))
	}
	for i := 0; i < pick(2, 40); i++ {
		var calls []string
		for j := 0; j < 3; j++ {
			kind := []string{"ok", "ok", "code", "badpayload"}[r.Intn(4)]
			if j < 2 {
				kind = "ok"
			}
			calls = append(calls, fmt.Sprintf("c%d,tg%d,%s,%d,-", j, j, kind, 1+r.Intn(16)))
		}
		out = append(out, fmt.Sprintf("k=grpcscn agg=phout scn=gp n=%d calls=%s", 4+r.Intn(5), strings.Join(calls, ";")))
	}
	// 8. gRPC scenarios
	nGS := pick(12, 1500)
	for i := 0; i < nGS; i++ {
		k := 1 + r.Intn(4)
		var calls []string
		for j := 0; j < k; j++ {
			kind := []string{"ok", "ok", "ok", "ok", "code", "code", "nomethod", "badpayload", "tpl"}[r.Intn(9)]
			pp := "-"
			if r.Intn(4) == 0 {
				pp = fmt.Sprintf("as%d", []int{200, 404, 500}[r.Intn(3)])
			}
			calls = append(calls, fmt.Sprintf("c%d,tg%d,%s,%d,%s", j, r.Intn(3), kind, 1+r.Intn(17), pp))
		}
		opts := ""
		if i%3 == 2 {
			opts = []string{" alog=all", " alog=error", " dbg=1"}[r.Intn(3)]
		}
		out = append(out, fmt.Sprintf("k=grpcscn%s scn=g%d n=%d calls=%s", opts, i%2, 1+r.Intn(pick(2, 6)), strings.Join(calls, ";")))
	}
	if thorough {
		// every code as the single call of a scenario
		for c := 0; c <= 17; c++ {
			out = append(out, fmt.Sprintf("k=grpcscn scn=g n=1 calls=c0,tg,code,%d,-;c1,tg1,ok,0,-", c))
		}
	}
	// 9. ids under concurrently acquiring instances: every http provider, streaming and preloaded
	for _, p := range []string{"uri", "uri-cyclic", "uripost", "raw", "json"} {
		for _, pre := range []string{"", " pre=1"} {
			n := pick(200, 1500)
			out = append(out, fmt.Sprintf("k=ids prov=%s inst=8 n=%d%s", p, n, pre))
			if thorough {
				out = append(out, fmt.Sprintf("k=ids prov=%s inst=%d n=%d%s", p, []int{2, 3, 16, 64}[r.Intn(4)], 500+r.Intn(1500), pre))
			}
		}
	}
	for i := 0; i < pick(2, 12); i++ {
		out = append(out, fmt.Sprintf("k=idstress g=%d n=%d", []int{16, 4, 64, 2, 32, 8}[i%6], pick(60000, 250000)))
	}
	// 9b. Shoot itself at CPU speed (stub client): g instances x n shots cycling through a few paths, auto-tag on
	for i := 0; i < pick(3, 12); i++ {
		g := []int{16, 32, 4, 64, 8, 2}[i%6]
		out = append(out, fmt.Sprintf("k=shootstress g=%d n=%d paths=%d auto=1 el=%d nto=%d", g, pick(320000, 640000)/g,
			[]int{35, 6, 120}[i%3], 1+i%3, i%2))
	}
	if thorough {
		out = append(out, "k=ids prov=uri inst=32 n=4000", "k=ids prov=uri inst=1 n=50", "k=ids prov=uri inst=128 n=3000", "k=ids prov=uripost inst=64 n=3000 pre=1")
	}
	// 10. getErrno: EXHAUSTIVELY on every chain of <= d wrappers over every kind of leaf, then random deeper chains
	for _, sh := range allShapes(pick(2, 6)) {
		out = append(out, "k=errno shape="+sh)
	}
	nE := pick(300, 30000)
	for i := 0; i < nE; i++ {
		out = append(out, "k=errno shape="+randShape(r, pick(5, 9)))
	}
	// 11. invalid ammo
	for _, tag := range []string{"", "t", "a|b"} {
		out = append(out, fmt.Sprintf("k=inv tag=%s id=%d auto=%d", hx(tag), 1+r.Intn(100), r.Intn(2)))
	}
	// 12. third round: redirects, pauses, cancellation during a pause (round3.go)
	out = append(out, genRound3(r, thorough)...)
	// 13. fourth round: pooled gRPC ammo objects, id counters far into a run, dial failures through the DNS-caching dialer
	out = append(out, genRound4(r, thorough)...)
	// 14. sixth round: between the schedule and the gun — shots the instance discards (round6.go)
	out = append(out, genRound6(r, thorough)...)
	return out
}

func randShape(r *rand.Rand, depth int) string {
	if depth == 0 || r.Intn(4) == 0 {
		switch r.Intn(7) {
		case 0:
			return "timeout"
		case 1:
			return "tmo"
		case 2:
			return "other"
		case 3:
			return fmt.Sprintf("errno%d", []int{11, 110, 104, 111, 32}[r.Intn(5)])
		default:
			return fmt.Sprintf("errno%d", 1+r.Intn(130))
		}
	}
	w := []string{"op", "sys", "url", "und", "cause", "op", "url"}[r.Intn(7)]
	return w + "(" + randShape(r, depth-1) + ")"
}

func class(input, obs string) string {
	m := drv.KV(input)
	c := m["k"]
	switch m["k"] {
	case "http":
		c += ":" + m["gun"] + ":" + m["tgt"]
		if m["rht"] != "" {
			c += ":timeout"
		}
		if m["redir"] == "1" {
			c += ":redirecting"
		}
		if strings.Contains(input, ",c:") {
			c += ":redirect-chains"
		}
		if m["prov"] != "" {
			c += ":" + m["prov"]
		}
		if m["down"] != "" {
			c += ":target-goes-away"
		}
		if m["atd"] != "" {
			c += ":autotag-defaults"
		}
		if m["cxf"] != "" {
			c += ":cancel-in-flight"
		}
		if m["ovf"] != "" {
			c += ":overflow" + m["ovf"]
			if m["sch"] != "" {
				c += ":const"
			}
			if strings.Contains(obs, hx("discarded")) {
				c += ":discards"
			}
		}
		if m["inst"] != "" {
			c += ":multi"
		}
		if m["gen"] != "" {
			c += ":stress"
		}
		if m["pan"] == "1" {
			c += ":fatal"
		}
		if m["agg"] == "phout" {
			c += ":phout"
		}
		if m["alog"] != "" || m["trace"] != "" || m["dump"] != "" || m["dbg"] != "" || m["shc"] != "" {
			c += ":opts"
		}
	case "scn", "grpc", "grpcscn":
		if m["gun"] != "" {
			c += ":" + m["gun"]
		}
		if m["agg"] == "phout" {
			c += ":phout"
		}
		if strings.Contains(input, ",gone,") {
			c += ":target-gone"
		}
		if strings.Contains(input, ",c:") {
			c += ":redirect-chains"
			if m["redir"] == "1" {
				c += ":following"
			}
		}
		if m["cxl"] != "" {
			c += ":cancel-in-pause"
		} else if m["slp"] != "" {
			c += ":pauses"
		}
		if m["alog"] != "" || m["trace"] != "" || m["dump"] != "" || m["dbg"] != "" || m["shc"] != "" {
			c += ":opts"
		}
	case "errno":
		if strings.Contains(obs, "net=110") {
			c += ":110"
		} else if strings.Contains(obs, "net=999") {
			c += ":999"
		} else {
			c += ":errno"
		}
	case "idstress", "shootstress":
		c += ":g" + m["g"]
	case "idwrap":
		c += ":" + r4StartClass(m["start"])
	case "grpcpool":
		if atoi(m["inst"], 1) > 1 {
			c += ":multi"
		}
		if atoi(m["dirty"], 0) > 0 {
			c += ":preseeded"
		}
		if m["agg"] == "phout" {
			c += ":phout"
		}
	case "ids":
		c += ":" + m["prov"]
		if m["pre"] == "1" {
			c += ":preload"
		}
		if m["start"] != "" {
			c += ":" + r4StartClass(m["start"])
		}
	}
	if strings.Contains(obs, "res=panic") || strings.HasPrefix(obs, "PANIC") {
		c += ":PANIC"
	}
	return c
}

var retries atomic.Int64

func main() {
	_ = sort.Strings
	defer func() {
		nfd := -1
		if ents, err := os.ReadDir("/proc/self/fd"); err == nil {
			nfd = len(ents)
		}
		fmt.Fprintf(os.Stderr, "c10: %d observations re-taken (suspected host overload); %d descriptors open at the end\n", retries.Load(), nfd)
	}()
	drv.Main(&drv.Prop{
		ID:      "C10",
		Gen:     gen,
		Run:     run,
		Class:   class,
		Workers: 8,
		Timeout: 150 * time.Second,
		Rule: "real guns (plugin factories, real providers, core/engine) against scripted targets: every status 100-599, refusal, reset, close, garbage, " +
			"truncated bodies, silence, TLS/HTTP2, the documented http2 fatal; every gun kind (http, http2, connect, http/scenario, http2/scenario, grpc, grpc/scenario) " +
			"x option dimensions that must not matter (answlog filters, httptrace, debug logging, shared client); gRPC codes 0-16 (thorough 0-300) and out-of-range; " +
			"auto-tag settings exhaustively x every path over {/,a} up to length 4 (thorough 7) plus random URI shapes; 2-32 concurrently SHOOTING instances " +
			"(samples attributed by unique tags) and 8-128 concurrently acquiring ones on every http provider, streaming and preloaded; " +
			"getErrno on every error chain of depth <= 2 (thorough 5) and random deeper ones; round 3: targets answering 3xx with Location headers of every shape " +
			"(absent, empty, relative, absolute, to another host, to a dead host, unparsable in four ways, looping) and chains of redirects up to and beyond the " +
			"client's limit, redirect off/on, for the http / connect / http2 / TLS http / scenario guns; failure kinds over TLS and HTTP/2; scenario steps with pauses; " +
			"the run's context cancelled while the gun is inside the pause of a chosen step (the target logs the steps it saw); " +
			"a case is non-trivial when at least one sample was expected",
	})
}
