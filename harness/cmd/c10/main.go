package main

// C10: correspondence driver. The REAL guns (registered plugin factories, real providers, core/engine) shoot at
// scripted in-process targets; every sample handed to Aggregator.Report is recorded and printed canonically. The Lean
// driver (lean/Pandora/Drv/C10.lean) predicts the same line from the model and judges the observation by the Spec.

import (
	"context"
	"encoding/hex"
	"errors"
	"fmt"
	"math/rand"
	"net"
	"net/http"
	"net/url"
	"os"
	"sort"
	"strconv"
	"strings"
	"syscall"
	"time"

	"verifharness/drv"
	"verifharness/shot"

	pkgerrors "github.com/pkg/errors"
	grpcgun "github.com/yandex/pandora/components/guns/grpc"
	phttp "github.com/yandex/pandora/components/guns/http"
	grpcammo "github.com/yandex/pandora/components/providers/grpc"
	"github.com/yandex/pandora/core"
	"github.com/yandex/pandora/core/aggregator/netsample"
	"github.com/yandex/pandora/core/warmup"
	"go.uber.org/zap"
)

func hx(s string) string { return hex.EncodeToString([]byte(s)) }
func unhx(s string) string {
	b, err := hex.DecodeString(s)
	if err != nil {
		panic("bad hex " + s)
	}
	return string(b)
}

func atoi(s string, d int) int {
	if s == "" {
		return d
	}
	n, err := strconv.Atoi(s)
	if err != nil {
		panic("bad int " + s)
	}
	return n
}

func fmtSamples(res shot.Result, withID bool) string {
	var parts []string
	for _, s := range res.Samples {
		if withID {
			parts = append(parts, fmt.Sprintf("%d:%s:%d:%d:%s", s.ID, hx(s.Tags), s.Proto, s.Net, s.Shape))
		} else {
			parts = append(parts, fmt.Sprintf("%s:%d:%d:%s", hx(s.Tags), s.Proto, s.Net, s.Shape))
		}
	}
	return "res=" + res.Class + " s=" + strings.Join(parts, ";")
}

// ---------------------------------------------------------------- k=http

func runHTTP(m map[string]string) string {
	var reqs []shot.HTTPReq
	for _, r := range strings.Split(m["reqs"], ";") {
		f := strings.Split(r, ",")
		if len(f) < 4 {
			panic("bad req " + r)
		}
		reqs = append(reqs, shot.HTTPReq{Tag: f[0], URI: unhx(f[1]), Script: f[3]})
	}
	g := shot.HTTPGunConf{Type: m["gun"], AutoTag: m["auto"] == "1", Elements: atoi(m["el"], 0), NoTagOnly: m["nto"] == "1",
		RHTimeoutMs: atoi(m["rht"], 0)}
	var stop func()
	switch m["tgt"] {
	case "dead":
		g.Target = shot.DeadAddr()
	case "tls2":
		g.Target, stop = shot.NewTLSTarget(true)
	default:
		t := shot.NewTarget()
		g.Target, stop = t.Addr, t.Close
	}
	if stop != nil {
		defer stop()
	}
	conf := shot.HTTPPool(g, reqs, 1)
	if m["redir"] == "1" {
		conf = strings.Replace(conf, "dial: {timeout: 2s}", "dial: {timeout: 2s}, redirect: true", 1)
	}
	res := shot.RunEngine(conf, 40*time.Second)
	shot.SortByID(res.Samples)
	return fmtSamples(res, true)
}

// ---------------------------------------------------------------- k=scn

func scnPP(pp string) []string {
	switch {
	case pp == "-" || pp == "" || pp == "tpl":
		return nil
	case strings.HasPrefix(pp, "as"):
		return []string{fmt.Sprintf(`postprocessor "assert/response" { status_code = %d }`, atoi(pp[2:], 0))}
	}
	panic("bad pp " + pp)
}

func runScn(m map[string]string) string {
	var steps []shot.ScnStep
	for _, r := range strings.Split(m["steps"], ";") {
		f := strings.Split(r, ",")
		if len(f) < 5 {
			panic("bad step " + r)
		}
		uri := unhx(f[1])
		if f[4] == "tpl" {
			uri += "{{" // unparsable template: templater.Apply fails before anything is sent
		}
		steps = append(steps, shot.ScnStep{Name: f[0], URI: uri, Script: f[2], PP: scnPP(f[4])})
	}
	t := shot.NewTarget()
	defer t.Close()
	conf := shot.ScenarioPool(shot.HTTPGunConf{Target: t.Addr}, m["scn"], steps, atoi(m["n"], 1), 1)
	res := shot.RunEngine(conf, 40*time.Second)
	return fmtSamples(res, false)
}

// ---------------------------------------------------------------- k=grpc / k=grpcscn

func grpcReqOf(tag, kind, code string) shot.GrpcReq {
	r := shot.GrpcReq{Tag: tag, Call: "target.TargetService.Hello", Payload: map[string]any{"name": "verif"}}
	switch kind {
	case "ok":
	case "code":
		r.Metadata = map[string]string{"x-code": code}
	case "hang":
		r.Metadata = map[string]string{"x-hang": "1"}
	case "nomethod":
		r.Call = "target.TargetService.NoSuchMethod"
	case "badpayload":
		r.Payload = map[string]any{"no_such_field": 1}
	default:
		panic("bad grpc kind " + kind)
	}
	return r
}

func runGrpc(m map[string]string) string {
	var reqs []shot.GrpcReq
	for _, r := range strings.Split(m["reqs"], ";") {
		f := strings.Split(r, ",")
		if len(f) < 3 {
			panic("bad grpc req " + r)
		}
		reqs = append(reqs, grpcReqOf(f[0], f[1], f[2]))
	}
	addr, stop := shot.NewGrpcTarget()
	defer stop()
	res := shot.RunEngine(shot.GrpcPool(addr, atoi(m["to"], 0), reqs, 1), 40*time.Second)
	return fmtSamples(res, false)
}

func runGrpcScn(m map[string]string) string {
	var calls []shot.GrpcCall
	for _, r := range strings.Split(m["calls"], ";") {
		f := strings.Split(r, ",")
		if len(f) < 5 {
			panic("bad grpc call " + r)
		}
		q := grpcReqOf(f[1], f[2], f[3])
		c := shot.GrpcCall{Name: f[0], Tag: f[1], Call: q.Call, Metadata: q.Metadata, Payload: `{"name": "verif"}`}
		if f[2] == "badpayload" {
			c.Payload = `{"no_such_field": 1}`
		}
		if strings.HasPrefix(f[4], "as") {
			c.PP = []string{fmt.Sprintf(`postprocessor "assert/response" { status_code = %d }`, atoi(f[4][2:], 0))}
		}
		calls = append(calls, c)
	}
	addr, stop := shot.NewGrpcTarget()
	defer stop()
	res := shot.RunEngine(shot.GrpcScenarioPool(addr, atoi(m["to"], 0), m["scn"], calls, atoi(m["n"], 1), 1), 40*time.Second)
	return fmtSamples(res, false)
}

// ---------------------------------------------------------------- k=ids

func runIds(m map[string]string) string {
	n := atoi(m["n"], 100)
	inst := atoi(m["inst"], 8)
	t := shot.NewTarget()
	defer t.Close()
	var conf string
	switch m["prov"] {
	case "uri":
		var reqs []shot.HTTPReq
		for i := 0; i < n; i++ {
			reqs = append(reqs, shot.HTTPReq{Tag: fmt.Sprintf("t%d", i%7), URI: fmt.Sprintf("/ids/%d", i), Script: "s200.bx3"})
		}
		conf = shot.HTTPPool(shot.HTTPGunConf{Type: "http", Target: t.Addr}, reqs, inst)
	case "uri-cyclic":
		// 5 ammo cycled without pass limit; the run is bounded by limit = n
		var reqs []shot.HTTPReq
		for i := 0; i < 5; i++ {
			reqs = append(reqs, shot.HTTPReq{Tag: "c", URI: fmt.Sprintf("/ids/%d", i), Script: "s200.bx3"})
		}
		f := shot.TempFile(".uri", shot.URIAmmo(reqs))
		conf = shot.PoolYAML("uri", f, fmt.Sprintf(", limit: %d", n), fmt.Sprintf(`{type: http, target: "%s"}`, t.Addr), n, inst)
	case "uripost":
		var b strings.Builder
		for i := 0; i < n; i++ {
			body := fmt.Sprintf("body%d", i)
			fmt.Fprintf(&b, "[X-Script: s200.bx1]\n%d /ids/%d tag%d\n%s\n", len(body), i, i%3, body)
		}
		f := shot.TempFile(".uripost", b.String())
		conf = shot.PoolYAML("uripost", f, ", passes: 1", fmt.Sprintf(`{type: http, target: "%s"}`, t.Addr), n, inst)
	default:
		panic("bad prov " + m["prov"])
	}
	res := shot.RunEngine(conf, 60*time.Second)
	ids := map[uint64]int{}
	var mn, mx uint64
	for i, s := range res.Samples {
		ids[s.ID]++
		if i == 0 || s.ID < mn {
			mn = s.ID
		}
		if s.ID > mx {
			mx = s.ID
		}
	}
	return fmt.Sprintf("res=%s count=%d distinct=%d min=%d max=%d", res.Class, len(res.Samples), len(ids), mn, mx)
}

// ---------------------------------------------------------------- k=errno : netsample.getErrno on constructed chains

type undErr struct{ e error }

func (u undErr) Error() string     { return "und" }
func (u undErr) Underlying() error { return u.e }

type tmoErr struct{}

func (tmoErr) Error() string { return "tmo" }
func (tmoErr) Timeout() bool { return true }

type netTimeoutErr struct{}

func (netTimeoutErr) Error() string   { return "timeout" }
func (netTimeoutErr) Timeout() bool   { return true }
func (netTimeoutErr) Temporary() bool { return true }

func buildErr(s string) error {
	wrap := func(pfx string) (string, bool) {
		if strings.HasPrefix(s, pfx+"(") && strings.HasSuffix(s, ")") {
			return s[len(pfx)+1 : len(s)-1], true
		}
		return "", false
	}
	if in, ok := wrap("op"); ok {
		s = in
		return &net.OpError{Op: "read", Net: "tcp", Err: buildErr(in)}
	}
	if in, ok := wrap("sys"); ok {
		return &os.SyscallError{Syscall: "read", Err: buildErr(in)}
	}
	if in, ok := wrap("url"); ok {
		return &url.Error{Op: "Get", URL: "http://x/", Err: buildErr(in)}
	}
	if in, ok := wrap("und"); ok {
		return undErr{buildErr(in)}
	}
	if in, ok := wrap("cause"); ok {
		return pkgerrors.WithStack(buildErr(in))
	}
	switch {
	case strings.HasPrefix(s, "errno"):
		return syscall.Errno(atoi(s[5:], 0))
	case s == "timeout":
		return netTimeoutErr{}
	case s == "tmo":
		return tmoErr{}
	case s == "other":
		return errors.New("other")
	}
	panic("bad shape " + s)
}

func netOf(s *netsample.Sample) int {
	f := strings.Split(s.String(), "\t")
	if len(f) != 12 {
		return -1
	}
	n, _ := strconv.Atoi(f[10])
	return n
}

func runErrno(m map[string]string) string {
	err := buildErr(m["shape"])
	s := netsample.Acquire("")
	s.SetErr(err)
	return fmt.Sprintf("net=%d shape=%s", netOf(s), shot.Shape(s.Err()))
}

// ---------------------------------------------------------------- k=inv : invalid ammo through the real http gun

type invAmmo struct {
	tag string
	id  uint64
}

func (a invAmmo) Request() (*http.Request, *netsample.Sample) {
	req, _ := http.NewRequest("GET", "/inv", nil)
	s := netsample.Acquire(a.tag)
	s.SetID(a.id)
	return req, s
}
func (a invAmmo) ID() uint64      { return a.id }
func (a invAmmo) IsInvalid() bool { return true }

type nsRec struct{ got []*netsample.Sample }

func (r *nsRec) Run(ctx context.Context, _ core.AggregatorDeps) error { return nil }
func (r *nsRec) Report(s *netsample.Sample)                           { r.got = append(r.got, s) }

func runInv(m map[string]string) string {
	t := shot.NewTarget()
	defer t.Close()
	conf := phttp.DefaultHTTPGunConfig()
	conf.Target = t.Addr
	conf.TargetResolved = t.Addr
	conf.AutoTag.Enabled = m["auto"] == "1"
	g := phttp.NewHTTP1Gun(conf, zap.NewNop())
	rec := &nsRec{}
	if err := g.Bind(rec, core.GunDeps{Ctx: context.Background(), Log: zap.NewNop()}); err != nil {
		return "bind-error"
	}
	g.Shoot(invAmmo{tag: unhx(m["tag"]), id: uint64(atoi(m["id"], 1))})
	var parts []string
	for _, s := range rec.got {
		parts = append(parts, fmt.Sprintf("%d:%s:%d:%d:%s", s.ID(), hx(s.Tags()), s.ProtoCode(), netOf(s), shot.Shape(s.Err())))
	}
	return fmt.Sprintf("res=ok hits=%d s=%s", t.Hits.Load(), strings.Join(parts, ";"))
}

// ---------------------------------------------------------------- k=grpcdirect : payload that cannot be marshalled

func runGrpcDirect(m map[string]string) string {
	shot.Init()
	addr, stop := shot.NewGrpcTarget()
	defer stop()
	g := grpcgun.NewGun(grpcgun.GunConfig{Target: addr})
	shared, err := g.WarmUp(&warmup.Options{Log: zap.NewNop(), Ctx: context.Background()})
	if err != nil {
		return "warmup-error"
	}
	rec := &shot.Rec{}
	if err := g.Bind(rec, core.GunDeps{Ctx: context.Background(), Log: zap.NewNop(), Shared: shared}); err != nil {
		return "bind-error"
	}
	am := &grpcammo.Ammo{Tag: unhx(m["tag"]), Call: "target.TargetService.Hello"}
	switch m["kind"] {
	case "marshal":
		am.Payload = map[string]any{"name": make(chan int)}
	case "ok":
		am.Payload = map[string]any{"name": "x"}
	default:
		panic("bad kind")
	}
	g.Shoot(am)
	return fmtSamples(shot.Result{Class: "ok", Samples: rec.Snapshot()}, false)
}

// ---------------------------------------------------------------- dispatch, generation

func run(input string) string {
	m := drv.KV(input)
	switch m["k"] {
	case "http":
		return runHTTP(m)
	case "scn":
		return runScn(m)
	case "grpc":
		return runGrpc(m)
	case "grpcscn":
		return runGrpcScn(m)
	case "ids":
		return runIds(m)
	case "errno":
		return runErrno(m)
	case "inv":
		return runInv(m)
	case "grpcdirect":
		return runGrpcDirect(m)
	}
	return "bad-input"
}

var tagPool = []string{"", "", "t1", "case_A", "x-y", "T"}

func randSeg(r *rand.Rand) string {
	const al = "abcXYZ019_.-~"
	n := r.Intn(6)
	b := make([]byte, n)
	for i := range b {
		b[i] = al[r.Intn(len(al))]
	}
	return string(b)
}

// randURI returns (uri as written into the ammo file, URL.Path the gun will see).
func randURI(r *rand.Rand) (string, string) {
	var uri string
	switch r.Intn(12) {
	case 0:
		uri = "/"
	case 1:
		uri = "/my/very/deep/page?id=23&param=33"
	case 2:
		uri = "?only=query"
	case 3:
		uri = "noslash/" + randSeg(r) + "/" + randSeg(r)
	case 4:
		uri = "/a%2Fb/c%20d/e" // escaped slash and space: URL.Path is the decoded form
	case 5:
		uri = "//" + "/" + randSeg(r) + "//" + randSeg(r) + "/"
	case 6:
		uri = "/%D0%BF%D1%83%D1%82%D1%8C/" + randSeg(r) + "/x" // UTF-8 path
	default:
		n := r.Intn(6)
		for i := 0; i < n; i++ {
			uri += "/" + randSeg(r)
		}
		if uri == "" || r.Intn(4) == 0 {
			uri += "/"
		}
		if r.Intn(4) == 0 {
			uri += "?q=" + randSeg(r)
		}
	}
	u, err := url.Parse(uri)
	if err != nil {
		return "/fallback", "/fallback"
	}
	return uri, u.Path
}

func httpReqTok(tag, uri, path, script string) string {
	sc, err := shot.ParseScript(script)
	if err != nil {
		panic(err)
	}
	return fmt.Sprintf("%s,%s,%s,%s,%s", tag, hx(uri), hx(path), script, sc.Truth())
}

func httpCase(gun, tgt string, auto bool, el int, nto bool, extra string, reqs []string) string {
	b := func(v bool) int {
		if v {
			return 1
		}
		return 0
	}
	s := fmt.Sprintf("k=http gun=%s tgt=%s auto=%d el=%d nto=%d", gun, tgt, b(auto), el, b(nto))
	if extra != "" {
		s += " " + extra
	}
	return s + " reqs=" + strings.Join(reqs, ";")
}

var failScripts = []string{"actclose", "actreset", "actgarbage", "actbadhdr", "s200.bx40.actmidclose", "s500.bx64.actmidreset",
	"s200.bx10.c100", "s404.bx10.c3", "s200.bx20.actnolen", "s200.bempty", "s204.bx10", "s304", "i103.s200.bx5", "i100.s404.bx1", "s101"}

func gen(r *rand.Rand, tier string) []string {
	thorough := tier == "thorough"
	var out []string
	// 1. every status 100..599, exhaustively, in runs of 50; settings rotate
	for base := 100; base < 600; base += 50 {
		var reqs []string
		for st := base; st < base+50; st++ {
			uri, path := randURI(r)
			reqs = append(reqs, httpReqTok(tagPool[r.Intn(len(tagPool))], uri, path, fmt.Sprintf("s%d.bx%d", st, r.Intn(20))))
		}
		gun := "http"
		if (base/50)%4 == 3 {
			gun = "connect"
		}
		out = append(out, httpCase(gun, "live", r.Intn(2) == 0, 1+r.Intn(3), r.Intn(2) == 0, "", reqs))
	}
	// 2. failure kinds x guns x redirecting client
	for _, gun := range []string{"http", "connect"} {
		for _, redir := range []string{"", "redir=1"} {
			var reqs []string
			for _, sc := range failScripts {
				uri, path := randURI(r)
				reqs = append(reqs, httpReqTok(tagPool[r.Intn(len(tagPool))], uri, path, sc))
			}
			out = append(out, httpCase(gun, "live", true, 2, true, redir, reqs))
			// refused
			uri, path := randURI(r)
			out = append(out, httpCase(gun, "dead", r.Intn(2) == 0, 1, false, redir, []string{
				strings.Replace(httpReqTok("dead", uri, path, "s200"), ",r200", ",f", 1),
				strings.Replace(httpReqTok("", "/x/y", "/x/y", "s200"), ",r200", ",f", 1)}))
		}
	}
	// 3. silent target: response-header timeout (1 s each)
	nHang := 2
	if thorough {
		nHang = 6
	}
	for i := 0; i < nHang; i++ {
		gun := []string{"http", "connect"}[i%2]
		extra := "rht=1000"
		if i%3 == 2 {
			extra += " redir=1"
		}
		out = append(out, httpCase(gun, "live", i%2 == 0, 2, false, extra, []string{httpReqTok("hang", "/h/a/n/g", "/h/a/n/g", "acthang")}))
	}
	// 4. http2 gun against an HTTP/2 TLS target
	{
		var reqs []string
		for _, st := range []int{200, 201, 204, 301, 400, 404, 418, 500, 503, 599} {
			uri, path := randURI(r)
			reqs = append(reqs, httpReqTok(tagPool[r.Intn(len(tagPool))], uri, path, fmt.Sprintf("s%d.bx%d", st, r.Intn(9))))
		}
		out = append(out, httpCase("http2", "tls2", true, 1, false, "", reqs))
	}
	// 5. tag / auto-tag settings x URI shapes
	nTag := 40
	if thorough {
		nTag = 600
	}
	for i := 0; i < nTag; i++ {
		var reqs []string
		for j := 0; j < 12; j++ {
			uri, path := randURI(r)
			reqs = append(reqs, httpReqTok(tagPool[r.Intn(len(tagPool))], uri, path, []string{"s200.bx2", "s404", "actclose", "s200.bx9.c50"}[r.Intn(4)]))
		}
		out = append(out, httpCase("http", "live", r.Intn(4) != 0, 1+r.Intn(5), r.Intn(2) == 0, "", reqs))
	}
	// 6. http scenarios
	nScn := 25
	if thorough {
		nScn = 300
	}
	for i := 0; i < nScn; i++ {
		k := 1 + r.Intn(4)
		var steps []string
		for j := 0; j < k; j++ {
			script := "s200.bjson"
			pp := "-"
			switch r.Intn(10) {
			case 0:
				script = failScripts[r.Intn(8)]
			case 1:
				script = fmt.Sprintf("s%d.bx3", 200+r.Intn(400))
			case 2:
				pp = "as200"
				script = []string{"s200.bx1", "s500.bx1", "s404"}[r.Intn(3)]
			case 3:
				pp = "tpl"
			case 4:
				pp = fmt.Sprintf("as%d", []int{0, 200, 404}[r.Intn(3)])
				script = "s404.bhtml"
			}
			sc, _ := shot.ParseScript(script)
			uri, _ := randURI(r)
			if !strings.HasPrefix(uri, "/") {
				uri = "/" + uri
			}
			steps = append(steps, fmt.Sprintf("st%d,%s,%s,%s,%s", j, hx(uri), script, sc.Truth(), pp))
		}
		out = append(out, fmt.Sprintf("k=scn scn=scn%d n=%d steps=%s", i%3, 1+r.Intn(3), strings.Join(steps, ";")))
	}
	// 7. gRPC: every code 0..16, out-of-range codes, unknown method, ill-typed payload
	{
		var reqs []string
		for c := 0; c <= 16; c++ {
			kind := "code"
			if c == 0 {
				kind = "ok"
			}
			reqs = append(reqs, fmt.Sprintf("%s,%s,%d", tagPool[r.Intn(len(tagPool))], kind, c))
		}
		for _, c := range []string{"17", "99", "1000", "4294967295"} {
			reqs = append(reqs, fmt.Sprintf("oor,code,%s", c))
		}
		reqs = append(reqs, "nm,nomethod,0", ",badpayload,0", "bp,badpayload,0", ",nomethod,0")
		out = append(out, "k=grpc reqs="+strings.Join(reqs, ";"))
		out = append(out, "k=grpc to=700 reqs=hg,hang,0")
		out = append(out, "k=grpcdirect kind=marshal tag="+hx("m"), "k=grpcdirect kind=ok tag="+hx(""))
	}
	nG := 6
	if thorough {
		nG = 80
	}
	for i := 0; i < nG; i++ {
		var reqs []string
		for j := 0; j < 10; j++ {
			kind := []string{"ok", "code", "code", "code", "nomethod", "badpayload"}[r.Intn(6)]
			reqs = append(reqs, fmt.Sprintf("%s,%s,%d", tagPool[r.Intn(len(tagPool))], kind, 1+r.Intn(20)))
		}
		out = append(out, "k=grpc reqs="+strings.Join(reqs, ";"))
	}
	// 8. gRPC scenarios
	nGS := 10
	if thorough {
		nGS = 120
	}
	for i := 0; i < nGS; i++ {
		k := 1 + r.Intn(4)
		var calls []string
		for j := 0; j < k; j++ {
			kind := []string{"ok", "ok", "ok", "code", "nomethod", "badpayload"}[r.Intn(6)]
			pp := "-"
			if r.Intn(4) == 0 {
				pp = fmt.Sprintf("as%d", []int{200, 404, 500}[r.Intn(3)])
			}
			calls = append(calls, fmt.Sprintf("c%d,tg%d,%s,%d,%s", j, r.Intn(3), kind, 1+r.Intn(17), pp))
		}
		out = append(out, fmt.Sprintf("k=grpcscn scn=g%d n=%d calls=%s", i%2, 1+r.Intn(2), strings.Join(calls, ";")))
	}
	// 9. ids under concurrently acquiring instances
	for _, p := range []string{"uri", "uri-cyclic", "uripost"} {
		n := 200
		if thorough {
			n = 1500
		}
		out = append(out, fmt.Sprintf("k=ids prov=%s inst=8 n=%d", p, n))
	}
	if thorough {
		out = append(out, "k=ids prov=uri inst=32 n=2000", "k=ids prov=uri inst=1 n=50")
	}
	// 10. getErrno on constructed chains
	nE := 300
	if thorough {
		nE = 6000
	}
	for i := 0; i < nE; i++ {
		out = append(out, "k=errno shape="+randShape(r, 5))
	}
	// 11. invalid ammo
	for _, tag := range []string{"", "t", "a|b"} {
		out = append(out, fmt.Sprintf("k=inv tag=%s id=%d auto=%d", hx(tag), 1+r.Intn(100), r.Intn(2)))
	}
	return out
}

func randShape(r *rand.Rand, depth int) string {
	if depth == 0 || r.Intn(4) == 0 {
		switch r.Intn(7) {
		case 0:
			return "timeout"
		case 1:
			return "tmo"
		case 2:
			return "other"
		case 3:
			return fmt.Sprintf("errno%d", []int{11, 110, 104, 111, 32}[r.Intn(5)])
		default:
			return fmt.Sprintf("errno%d", 1+r.Intn(130))
		}
	}
	w := []string{"op", "sys", "url", "und", "cause", "op", "url"}[r.Intn(7)]
	return w + "(" + randShape(r, depth-1) + ")"
}

func class(input, obs string) string {
	m := drv.KV(input)
	c := m["k"]
	switch m["k"] {
	case "http":
		c += ":" + m["gun"] + ":" + m["tgt"]
		if m["rht"] != "" {
			c += ":timeout"
		}
		if m["redir"] == "1" {
			c += ":redirecting"
		}
	case "errno":
		if strings.Contains(obs, "net=110") {
			c += ":110"
		} else if strings.Contains(obs, "net=999") {
			c += ":999"
		} else {
			c += ":errno"
		}
	case "ids":
		c += ":" + m["prov"]
	}
	if strings.Contains(obs, "res=panic") || strings.HasPrefix(obs, "PANIC") {
		c += ":PANIC"
	}
	return c
}

func main() {
	_ = sort.Strings
	drv.Main(&drv.Prop{
		ID:      "C10",
		Gen:     gen,
		Run:     run,
		Class:   class,
		Workers: 4,
		Timeout: 90 * time.Second,
		Rule: "real guns (plugin factories, real providers, core/engine) against scripted targets: every status 100-599, refusal, reset, close, garbage, " +
			"truncated bodies, silence; gRPC codes 0-16 and out-of-range; tag/auto-tag settings x URI shapes; 8-32 concurrently acquiring instances; " +
			"getErrno on random error chains; a case is non-trivial when at least one sample was expected",
	})
}
