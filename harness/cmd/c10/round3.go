package main

// C10, third round:
//
//  1. REDIRECTS. Scripted targets of this file answer 3xx with Location headers of every shape (absent, empty, relative
//     with and without a leading slash, absolute to the same host, absolute to ANOTHER host, to a host nobody listens on,
//     unparsable in three ways, looping) and lead a client that follows them along a CHAIN of answers: the script of a
//     redirected request travels in its query (`xs=<script>`, overriding the X-Script header a client copies to every hop;
//     `rn=<k>`: k more redirects to the same place before the script applies). With `redirect: false` the first answer is
//     the result of the shot whatever its Location says; with `redirect: true` the last answer of the chain is, and a chain
//     that cannot be followed (unparsable Location, dead host, more than ten requests) is a failed exchange.
//  2. PAUSES AND CANCELLATION. Scenario steps with a pause (`sleep(N)` entry or `step(1, N)` argument); the harness cancels
//     the run's context (which is the instance's and the gun's context) WHILE the gun is inside the pause of a chosen
//     step: the target tells the harness when it has answered that step, and records which steps it has seen at all
//     (`hits=`: the ground truth of "executed step").

import (
	"bufio"
	"bytes"
	"context"
	"crypto/tls"
	"fmt"
	"io"
	"log"
	"log/slog"
	"math/rand"
	"net"
	"net/http"
	"net/http/httptest"
	"net/textproto"
	"sort"
	"strconv"
	"strings"
	"sync"
	"sync/atomic"
	"time"

	"verifharness/shot"

	"github.com/spf13/afero"
	"github.com/yandex/pandora/examples/grpc/server"
	"google.golang.org/grpc"
	"google.golang.org/grpc/codes"
	"google.golang.org/grpc/metadata"
	"google.golang.org/grpc/reflection"
	"google.golang.org/grpc/status"
)

// ---------------------------------------------------------------- notes: what the targets saw, per case

// r3Note collects, for one case (token), how often the target saw each step, and tells the harness when the watched step
// has been answered.
type r3Note struct {
	mu    sync.Mutex
	hits  map[string]int
	watch string
	ch    chan struct{}
	fired bool
	// round 6: tell when the watched request has been SEEN (it is in flight), not when it has been answered
	watchSeen bool
}

var (
	r3Notes sync.Map // case token -> *r3Note
	r3Seq   atomic.Int64
)

func r3NewNote(watch string) (string, *r3Note) {
	tok := fmt.Sprintf("c%d", r3Seq.Add(1))
	n := &r3Note{hits: map[string]int{}, watch: watch, ch: make(chan struct{})}
	r3Notes.Store(tok, n)
	return tok, n
}

// r3Seen records a request carrying the note `<token>.<step>`; answered=true once its answer has been written.
func r3Seen(nt string, answered bool) {
	i := strings.IndexByte(nt, '.')
	if i < 0 {
		return
	}
	v, ok := r3Notes.Load(nt[:i])
	if !ok {
		return
	}
	n := v.(*r3Note)
	n.mu.Lock()
	defer n.mu.Unlock()
	step := nt[i+1:]
	if !answered {
		n.hits[step]++
		if n.watchSeen && step == n.watch && !n.fired {
			n.fired = true
			close(n.ch)
		}
		return
	}
	if step == n.watch && !n.fired {
		n.fired = true
		close(n.ch)
	}
}

func (n *r3Note) hitList(steps []string) string {
	n.mu.Lock()
	defer n.mu.Unlock()
	var parts []string
	for _, s := range steps {
		parts = append(parts, fmt.Sprintf("%s:%d", s, n.hits[s]))
	}
	return strings.Join(parts, ",")
}

// ---------------------------------------------------------------- raw target with redirect chains

type r3Target struct {
	l     net.Listener
	Addr  string
	Base  string // http://addr
	other *r3Target
}

// r3Query: the parameters a request target carries for the scripted targets of this file.
type r3Query struct {
	path   string
	xs     string // script of this request (overrides X-Script)
	rn     int    // that many more redirects to the same place first
	nt     string // note token
	dl     int    // round 6: answer that many milliseconds late
	hasXS  bool
	rawQry string
}

func r3ParseTarget(target string) r3Query {
	q := r3Query{path: target}
	if i := strings.Index(target, "://"); i >= 0 {
		// absolute-form
		rest := target[i+3:]
		if j := strings.IndexByte(rest, '/'); j >= 0 {
			target = rest[j:]
		} else {
			target = "/"
		}
		q.path = target
	}
	i := strings.IndexByte(target, '?')
	if i < 0 {
		return q
	}
	q.path, q.rawQry = target[:i], target[i+1:]
	for _, kv := range strings.Split(q.rawQry, "&") {
		switch {
		case strings.HasPrefix(kv, "xs="):
			q.xs, q.hasXS = kv[3:], true
		case strings.HasPrefix(kv, "rn="):
			q.rn, _ = strconv.Atoi(kv[3:])
		case strings.HasPrefix(kv, "nt="):
			q.nt = kv[3:]
		case strings.HasPrefix(kv, "dl="):
			q.dl, _ = strconv.Atoi(kv[3:])
		}
	}
	return q
}

// r3Expand fills the placeholders of a scripted header value: {U} this target's base URL, {O} the base URL of ANOTHER
// live target, {D} a base URL nobody listens on.
func r3Expand(v, self, other, scheme string) string {
	if !strings.Contains(v, "{") {
		return v
	}
	v = strings.ReplaceAll(v, "{U}", self)
	v = strings.ReplaceAll(v, "{O}", other)
	v = strings.ReplaceAll(v, "{D}", scheme+"://"+shot.DeadAddr())
	return v
}

func r3NewTarget() *r3Target {
	l, err := net.Listen("tcp", "127.0.0.1:0")
	if err != nil {
		panic(err)
	}
	return r3NewTargetOn(l)
}

// r3NewTargetOn serves the scripted target on a listener the caller opened (round 4: a socket that starts listening late).
func r3NewTargetOn(l net.Listener) *r3Target {
	t := &r3Target{l: l, Addr: l.Addr().String()}
	t.Base = "http://" + t.Addr
	go func() {
		for {
			c, err := l.Accept()
			if err != nil {
				return
			}
			go t.handle(c)
		}
	}()
	return t
}

func r3Rst(c net.Conn) {
	if tc, ok := c.(*net.TCPConn); ok {
		_ = tc.SetLinger(0)
	}
	_ = c.Close()
}

func (t *r3Target) handle(c net.Conn) {
	defer c.Close()
	br := bufio.NewReader(c)
	for {
		_ = c.SetReadDeadline(time.Now().Add(30 * time.Second))
		tp := textproto.NewReader(br)
		line, err := tp.ReadLine()
		if err != nil {
			return
		}
		f := strings.SplitN(line, " ", 3)
		if len(f) < 2 {
			return
		}
		h, err := tp.ReadMIMEHeader()
		if err != nil {
			return
		}
		if n, err := strconv.Atoi(h.Get("Content-Length")); err == nil && n > 0 {
			if _, err := io.CopyN(io.Discard, br, int64(n)); err != nil {
				return
			}
		}
		if f[0] == "CONNECT" {
			// the connect gun opens a tunnel first. A tunnel to the address nobody listens on is refused, like a proxy would.
			if f[1] == shot.DeadAddr() {
				_, _ = io.WriteString(c, "HTTP/1.1 502 Bad Gateway\r\nContent-Length: 0\r\nConnection: close\r\n\r\n")
				return
			}
			_, _ = io.WriteString(c, "HTTP/1.1 200 Connection established\r\n\r\n")
			continue
		}
		q := r3ParseTarget(f[1])
		if q.nt != "" {
			r3Seen(q.nt, false)
		}
		if q.dl > 0 {
			time.Sleep(time.Duration(q.dl) * time.Millisecond) // round 6: a slow target
		}
		script := h.Get("X-Script")
		if q.hasXS {
			script = q.xs
		}
		if q.rn > 0 {
			// countdown: one more redirect to the same place
			loc := fmt.Sprintf("%s?rn=%d", q.path, q.rn-1)
			if q.hasXS {
				loc += "&xs=" + q.xs
			}
			fmt.Fprintf(c, "HTTP/1.1 302 Scripted\r\nLocation: %s\r\nContent-Length: 0\r\nConnection: close\r\n\r\n", loc)
			return
		}
		sc, err := shot.ParseScript(script)
		if err != nil {
			_, _ = io.WriteString(c, "HTTP/1.1 500 Bad Script\r\nContent-Length: 0\r\nConnection: close\r\n\r\n")
			return
		}
		switch sc.Act {
		case "close":
			return
		case "reset":
			r3Rst(c)
			return
		case "hang":
			time.Sleep(20 * time.Second)
			return
		case "garbage":
			_, _ = io.WriteString(c, "\x00\x01\x02 this is not http at all\r\n\r\n")
			return
		case "badhdr":
			_, _ = io.WriteString(c, "HTTP/1.1 200 OK\r\nthis header line has no colon\r\n\r\n")
			return
		}
		var b bytes.Buffer
		if sc.Interim != 0 {
			fmt.Fprintf(&b, "HTTP/1.1 %d Interim\r\n\r\n", sc.Interim)
		}
		fmt.Fprintf(&b, "HTTP/1.1 %03d Scripted\r\n", sc.Status)
		other := t.Base
		if t.other != nil {
			other = t.other.Base
		}
		for _, hd := range sc.Headers {
			fmt.Fprintf(&b, "%s: %s\r\n", hd[0], r3Expand(hd[1], t.Base, other, "http"))
		}
		noBody := sc.Status/100 == 1 || sc.Status == 204 || sc.Status == 304 || f[0] == "HEAD"
		decl := len(sc.Body)
		if sc.DeclLen >= 0 {
			decl = sc.DeclLen
		}
		if sc.Act != "nolen" && !noBody {
			fmt.Fprintf(&b, "Content-Length: %d\r\n", decl)
		}
		b.WriteString("Connection: close\r\n\r\n")
		if !noBody {
			body := sc.Body
			if sc.Act == "midreset" || sc.Act == "midclose" {
				body = body[:len(body)/2]
			}
			b.Write(body)
		}
		_, _ = c.Write(b.Bytes())
		if q.nt != "" {
			r3Seen(q.nt, true)
		}
		if sc.Act == "midreset" {
			time.Sleep(150 * time.Millisecond)
			r3Rst(c)
		}
		return
	}
}

// ---------------------------------------------------------------- TLS targets (HTTP/2 and HTTP/1.1) with redirect chains

func r3TLSHandler(base *string) http.HandlerFunc {
	return func(w http.ResponseWriter, r *http.Request) {
		_, _ = io.Copy(io.Discard, r.Body)
		q := r3ParseTarget(r.URL.RequestURI())
		if q.nt != "" {
			r3Seen(q.nt, false)
			defer r3Seen(q.nt, true)
		}
		if q.dl > 0 {
			time.Sleep(time.Duration(q.dl) * time.Millisecond)
		}
		script := r.Header.Get("X-Script")
		if q.hasXS {
			script = q.xs
		}
		if q.rn > 0 {
			loc := fmt.Sprintf("%s?rn=%d", q.path, q.rn-1)
			if q.hasXS {
				loc += "&xs=" + q.xs
			}
			w.Header()["Location"] = []string{loc}
			w.WriteHeader(302)
			return
		}
		sc, err := shot.ParseScript(script)
		if err != nil {
			w.WriteHeader(500)
			return
		}
		switch sc.Act {
		case "close", "reset":
			panic(http.ErrAbortHandler)
		}
		for _, hd := range sc.Headers {
			// set verbatim (no canonicalisation, no validation by this side)
			w.Header()[hd[0]] = []string{r3Expand(hd[1], *base, *base, "https")}
		}
		if sc.DeclLen >= 0 {
			w.Header().Set("Content-Length", strconv.Itoa(sc.DeclLen))
		}
		w.WriteHeader(sc.Status)
		_, _ = w.Write(sc.Body)
		if fl, ok := w.(http.Flusher); ok {
			fl.Flush()
		}
	}
}

func r3NewTLSTarget(h2 bool) string {
	base := new(string)
	srv := httptest.NewUnstartedServer(r3TLSHandler(base))
	srv.EnableHTTP2 = h2
	if !h2 {
		srv.TLS = &tls.Config{NextProtos: []string{"http/1.1"}}
	}
	srv.Config.ErrorLog = log.New(io.Discard, "", 0)
	srv.StartTLS()
	addr := srv.Listener.Addr().String()
	*base = "https://" + addr
	return addr
}

var (
	r3Raw            [2]*r3Target
	r3RawAddr        [2]string
	r3TLS1, r3TLS2   string
	r3RawNext        atomic.Int64
	r3RawStartedAddr string
)

// r3SharedRaw: two raw targets serve all cases of the process; each is the other's "other host".
func r3SharedRaw() string {
	startRetry(&r3RawStartedAddr, func() string {
		a, b := r3NewTarget(), r3NewTarget()
		a.other, b.other = b, a
		r3Raw[0], r3Raw[1] = a, b
		r3RawAddr[0], r3RawAddr[1] = a.Addr, b.Addr
		return a.Addr
	})
	return r3RawAddr[int(r3RawNext.Add(1))%2]
}

func r3SharedTLS(h2 bool) string {
	if h2 {
		return startRetry(&r3TLS2, func() string { return r3NewTLSTarget(true) })
	}
	return startRetry(&r3TLS1, func() string { return r3NewTLSTarget(false) })
}

// ---------------------------------------------------------------- redirect chains: scripts and what they mean

// r3Chain builds the script of the FIRST answer of a chain and the chain's description for the Lean driver.
//
// hops: `<status><kind>` answers that (may) redirect, in order:
//
//	r  Location: /hop?xs=<next>            relative
//	q  Location: hop?xs=<next>             relative, no leading slash
//	a  Location: {U}/abs/hop?xs=<next>     absolute, same host
//	o  Location: {O}/other/hop?xs=<next>   absolute, ANOTHER live host
//	x  Location: {D}/dead                  absolute, a host nobody listens on          (ends the chain)
//	n  no Location header                                                             (ends the chain)
//	e  Location header with an empty value                                            (ends the chain)
//	u1 u2 u3 u4  Location net/url cannot parse (bad escape, space in host, template left in the port, no scheme) (ends it)
//	l  Location: /loop (no script: the same answer again, for ever)                   (ends the chain)
//
// final: the script of the last answer (any script of the language).
// Lean description: `c:` + `>`-joined `<status>p` (Location that leads on) | `<status>n` | `<status>u` | `<status>l` |
// the truth token of the final script.
func r3Chain(hops []string, final string) (script, lean string) {
	sc, err := shot.ParseScript(final)
	if err != nil {
		panic(err)
	}
	cur, desc := final, []string{sc.Truth()}
	for i := len(hops) - 1; i >= 0; i-- {
		h := hops[i]
		j := 0
		for j < len(h) && h[j] >= '0' && h[j] <= '9' {
			j++
		}
		st, kind := h[:j], h[j:]
		loc, has := "", true
		var d []string
		switch kind {
		case "r":
			loc, d = "/hop?xs="+cur, append([]string{st + "p"}, desc...)
		case "q":
			loc, d = "hop?xs="+cur, append([]string{st + "p"}, desc...)
		case "a":
			loc, d = "{U}/abs/hop?xs="+cur, append([]string{st + "p"}, desc...)
		case "o":
			loc, d = "{O}/other/hop?xs="+cur, append([]string{st + "p"}, desc...)
		case "x":
			loc, d = "{D}/dead", []string{st + "p", "f"}
		case "n":
			has, d = false, []string{st + "n"}
		case "e":
			loc, d = "", []string{st + "n"}
		case "u1":
			loc, d = "/next%zzpage", []string{st + "u"}
		case "u2":
			loc, d = "http://bad host/x", []string{st + "u"}
		case "u3":
			loc, d = "http://host:{port}/", []string{st + "u"}
		case "u4":
			loc, d = ":no-scheme", []string{st + "u"}
		case "l":
			loc, d = "/loop", []string{st + "l"}
		default:
			panic("bad hop " + h)
		}
		cur = "s" + st
		if (i+len(kind))%2 == 1 {
			cur += ".bx7" // some redirecting answers carry a body
		}
		if has {
			cur += ".hLocation~" + hx(loc)
		}
		desc = d
	}
	return cur, "c:" + strings.Join(desc, ">")
}

// r3Countdown: a request whose URI asks for k redirects to the same place and then `final`.
func r3Countdown(k int, final string) (uri, path, lean string) {
	sc, err := shot.ParseScript(final)
	if err != nil {
		panic(err)
	}
	d := make([]string, 0, k+1)
	for i := 0; i < k; i++ {
		d = append(d, "302p")
	}
	d = append(d, sc.Truth())
	return fmt.Sprintf("/cd/k%d?rn=%d&xs=%s", k, k, final), fmt.Sprintf("/cd/k%d", k), "c:" + strings.Join(d, ">")
}

var r3Kinds = []string{"r", "q", "a", "o", "x", "n", "e", "u1", "u2", "u3", "u4"}
var r3Finals = []string{"s200.bx3", "s404", "s200.bx1", "actclose", "s503.bx10.c100", "s204", "s500.bx2", "actreset"}

// r3ReqTok: one request token `tag,urihex,pathhex,script,c:<chain>`.
func r3ReqTok(tag, uri, path, script, lean string) string {
	return fmt.Sprintf("%s,%s,%s,%s,%s", tag, hx(uri), hx(path), script, lean)
}

// r3KindsFor: the Location kinds a gun/target pair can be led through (`o` needs a second plain target).
func r3KindsFor(tgt string) []string {
	if tgt == "r3" {
		return r3Kinds
	}
	var ks []string
	for _, k := range r3Kinds {
		if k != "o" {
			ks = append(ks, k)
		}
	}
	return ks
}

// r3SystematicReqs: every redirecting status x every Location kind (one hop, final 200), 3xx statuses no client follows,
// the request limit from both sides, one loop.
func r3SystematicReqs(r *rand.Rand, tgt string, tagged bool) []string {
	var reqs []string
	n := 0
	add := func(script, lean string) {
		n++
		tag := ""
		if tagged {
			tag = fmt.Sprintf("r%d", n)
		} else if n%3 == 0 {
			tag = "t"
		}
		p := fmt.Sprintf("/rd/%d/x", n)
		reqs = append(reqs, r3ReqTok(tag, p, p, script, lean))
	}
	for _, st := range []string{"301", "302", "303", "307", "308"} {
		for _, k := range r3KindsFor(tgt) {
			s, l := r3Chain([]string{st + k}, r3Finals[r.Intn(3)])
			add(s, l)
		}
	}
	for _, st := range []string{"300", "304", "305", "306", "399"} {
		for _, k := range []string{"r", "u1", "n"} {
			s, l := r3Chain([]string{st + k}, "s200.bx1")
			add(s, l)
		}
	}
	for _, k := range []int{1, 8, 9, 10, 11} {
		uri, path, lean := r3Countdown(k, "s201.bx2")
		n++
		tag := ""
		if tagged {
			tag = fmt.Sprintf("r%d", n)
		}
		reqs = append(reqs, r3ReqTok(tag, uri, path, "s500", lean))
	}
	s, l := r3Chain([]string{"302l"}, "s200")
	add(s, l)
	return reqs
}

// r3RandomReqs: chains of 1..3 hops with any ending.
func r3RandomReqs(r *rand.Rand, tgt string, n int, tagged bool) []string {
	var reqs []string
	ks := r3KindsFor(tgt)
	follow := []string{"r", "q", "a"}
	if tgt == "r3" {
		follow = append(follow, "o")
	}
	sts := []string{"301", "302", "303", "307", "308"}
	for i := 1; i <= n; i++ {
		var hops []string
		for d := r.Intn(3); d > 0; d-- {
			hops = append(hops, sts[r.Intn(len(sts))]+follow[r.Intn(len(follow))])
		}
		hops = append(hops, sts[r.Intn(len(sts))]+ks[r.Intn(len(ks))])
		final := r3Finals[r.Intn(len(r3Finals))]
		if tgt != "r3" && (strings.HasPrefix(final, "act") || strings.Contains(final, ".c")) {
			final = "s418.bx4" // failure shapes over TLS / HTTP/2 differ; keep to plain answers there
		}
		s, l := r3Chain(hops, final)
		tag := tagPool[r.Intn(len(tagPool))]
		if tagged {
			tag = fmt.Sprintf("r%d", i)
		}
		p := fmt.Sprintf("/rr/%d/%s", i, randSeg(r))
		reqs = append(reqs, r3ReqTok(tag, p, p, s, l))
	}
	return reqs
}

// ---------------------------------------------------------------- generator of the third round

func genRound3(r *rand.Rand, thorough bool) []string {
	pick := func(q, t int) int {
		if thorough {
			return t
		}
		return q
	}
	var out []string
	// R1. redirects: every http-family gun x redirect off/on x every Location shape
	type gt struct{ gun, tgt, extra string }
	guns := []gt{{"http", "r3", ""}, {"connect", "r3", ""}, {"http2", "r3tls2", ""}, {"http", "r3tls1", "ssl=1"}}
	for rep := 0; rep < pick(1, 10); rep++ {
		for _, g := range guns {
			for _, redir := range []string{"", "redir=1"} {
				extra := strings.TrimSpace(g.extra + " " + redir)
				if rep > 0 {
					extra = strings.TrimSpace(extra + " " + randDims(r, true))
				}
				reqs := r3SystematicReqs(r, g.tgt, false)
				if rep > 0 {
					reqs = r3RandomReqs(r, g.tgt, 40, false)
				}
				out = append(out, httpCase(g.gun, g.tgt, r.Intn(2) == 0, 1+r.Intn(3), r.Intn(2) == 0, extra, reqs))
			}
		}
	}
	// several instances, with and without the real phout aggregator
	for i := 0; i < pick(2, 24); i++ {
		extra := fmt.Sprintf("inst=%d", []int{2, 4, 8}[r.Intn(3)])
		if i%2 == 1 {
			extra += " redir=1"
		}
		if i%4 >= 2 {
			extra += " agg=phout"
		}
		out = append(out, httpCase([]string{"http", "connect"}[i%2], "r3", true, 1+r.Intn(2), false, extra, r3RandomReqs(r, "r3", 30, true)))
	}
	// R2. redirects inside scenarios (http/scenario, http2/scenario): a step answered 3xx is a step that passed (no
	// assertion) with that status when redirects are not followed
	for i := 0; i < pick(8, 400); i++ {
		h2 := i%4 == 3
		tgt := "r3"
		if h2 {
			tgt = "r3tls2"
		}
		k := 1 + r.Intn(3)
		var steps []string
		for j := 0; j < k; j++ {
			var reqs []string
			if r.Intn(4) == 0 {
				reqs = []string{r3ReqTok("", "/p", "/p", "s200.bjson", "r200")}
			} else {
				reqs = r3RandomReqs(r, tgt, 1, false)
			}
			f := strings.Split(reqs[0], ",")
			pp := "-"
			if r.Intn(5) == 0 {
				pp = []string{"as302", "as200", "as301"}[r.Intn(3)]
			}
			steps = append(steps, fmt.Sprintf("st%d,%s,%s,%s,%s", j, hx(fmt.Sprintf("/sr/%d", j)), f[3], f[4], pp))
		}
		c := fmt.Sprintf("k=scn scn=rd%d n=%d tgt=%s", i%2, 1+r.Intn(2), tgt)
		if h2 {
			c += " gun=http2/scenario"
		}
		if i%2 == 1 {
			c += " redir=1"
		}
		if i%8 >= 6 {
			if d := randDims(r, true); d != "" {
				c += " " + d
			}
		}
		out = append(out, c+" steps="+strings.Join(steps, ";"))
	}
	// R3. pauses: scenario steps with a pause in both spellings; nothing about the samples may change
	for i := 0; i < pick(3, 60); i++ {
		k := 2 + r.Intn(3)
		var steps, slp []string
		for j := 0; j < k; j++ {
			script, pp := "s200.bjson", "-"
			if j == k-1 && r.Intn(2) == 0 {
				script, pp = []string{"actclose", "s500.bx1", "s404"}[r.Intn(3)], "as200"
			}
			sc, _ := shot.ParseScript(script)
			steps = append(steps, fmt.Sprintf("st%d,%s,%s,%s,%s", j, hx(fmt.Sprintf("/pz/%d", j)), script, sc.Truth(), pp))
			if r.Intn(2) == 0 {
				slp = append(slp, fmt.Sprintf("%d:%d:%s", j, 5+r.Intn(40), []string{"e", "a"}[r.Intn(2)]))
			}
		}
		if len(slp) == 0 {
			slp = []string{"0:20:e"}
		}
		c := fmt.Sprintf("k=scn scn=pz%d n=%d tgt=r3 hits=1 slp=%s", i%2, 1+r.Intn(2), strings.Join(slp, "+"))
		if i%3 == 2 {
			c = fmt.Sprintf("k=scn scn=pz%d n=%d gun=http2/scenario tgt=r3tls2 hits=1 slp=%s", i%2, 1+r.Intn(2), strings.Join(slp, "+"))
		}
		out = append(out, c+" steps="+strings.Join(steps, ";"))
	}
	// R4. CANCEL DURING A PAUSE: the run's context is cancelled while the gun sleeps after step `cxl` (the target tells when it
	// has answered that step). Every step the target saw must have exactly one sample, whatever the gun does with the rest
	// of the shot.
	for i := 0; i < pick(5, 60); i++ {
		k := 2 + r.Intn(3)
		at := r.Intn(k)
		if i == 0 {
			at = 0
		}
		var steps []string
		for j := 0; j < k; j++ {
			script, pp := "s200.bjson", "-"
			if r.Intn(3) == 0 {
				script = fmt.Sprintf("s%d.bx3", 200+r.Intn(300))
			}
			if j == k-1 && j != at && r.Intn(3) == 0 {
				script, pp = []string{"actclose", "s500.bx1"}[r.Intn(2)], "as200"
			}
			sc, _ := shot.ParseScript(script)
			steps = append(steps, fmt.Sprintf("st%d,%s,%s,%s,%s", j, hx(fmt.Sprintf("/cx/%d", j)), script, sc.Truth(), pp))
		}
		// (never with agg=phout: an aggregator that has been told to stop may drop what is reported afterwards)
		tgt := "tgt=r3"
		if i%5 == 3 {
			tgt = "gun=http2/scenario tgt=r3tls2"
		}
		c := fmt.Sprintf("k=scn scn=cx%d n=1 %s hits=1 slp=%d:%d:%s cxl=%d", i%2, tgt, at, 600, []string{"e", "a"}[i%2], at)
		out = append(out, c+" steps="+strings.Join(steps, ";"))
	}
	// the same for the gRPC scenario gun (its deferred Report fires after the pause)
	for i := 0; i < pick(2, 30); i++ {
		k := 2 + r.Intn(2)
		at := r.Intn(k)
		var calls []string
		for j := 0; j < k; j++ {
			kind := "ok"
			if j != at && r.Intn(3) == 0 {
				kind = "code"
			}
			calls = append(calls, fmt.Sprintf("c%d,tg%d,%s,%d,-", j, j, kind, []int{1, 3, 5, 7, 13}[r.Intn(5)]))
		}
		out = append(out, fmt.Sprintf("k=grpcscn scn=gx%d n=1 hits=1 slp=%d:%d:%s cxl=%d calls=%s", i%2, at, 600, []string{"e", "a"}[i%2], at, strings.Join(calls, ";")))
	}
	return out
}

// ---------------------------------------------------------------- scenario files with pauses

// r3Pauses parses `slp=<step>:<ms>:<form>[+...]`: form `e` = a `sleep(ms)` entry after the step, `a` = `step(1, ms)`.
type r3Pause struct {
	ms   int
	form string
}

func r3ParsePauses(s string) map[int]r3Pause {
	m := map[int]r3Pause{}
	if s == "" {
		return m
	}
	for _, p := range strings.Split(s, "+") {
		f := strings.Split(p, ":")
		if len(f) != 3 {
			panic("bad slp " + s)
		}
		m[atoi(f[0], 0)] = r3Pause{atoi(f[1], 0), f[2]}
	}
	return m
}

// r3RewriteRequests replaces the `requests = [...]` line of the scenario file the pool config names by one that carries the
// pauses. names: the step / call names in order.
func r3RewriteRequests(conf string, names []string, pauses map[int]r3Pause) {
	i := strings.Index(conf, `file: "`)
	if i < 0 {
		panic("no ammo file in config")
	}
	rest := conf[i+len(`file: "`):]
	file := rest[:strings.IndexByte(rest, '"')]
	data, err := afero.ReadFile(shot.FS, file)
	if err != nil {
		panic(err)
	}
	var ents []string
	for j, n := range names {
		p, ok := pauses[j]
		switch {
		case ok && p.form == "a":
			ents = append(ents, shot.HCLString(fmt.Sprintf("%s(1, %d)", n, p.ms)))
		case ok:
			ents = append(ents, shot.HCLString(n), shot.HCLString(fmt.Sprintf("sleep(%d)", p.ms)))
		default:
			ents = append(ents, shot.HCLString(n))
		}
	}
	lines := strings.Split(string(data), "\n")
	done := false
	for k, l := range lines {
		if strings.HasPrefix(strings.TrimSpace(l), "requests = [") {
			lines[k] = "  requests = [" + strings.Join(ents, ", ") + "]"
			done = true
		}
	}
	if !done {
		panic("no requests line in scenario file")
	}
	if err := afero.WriteFile(shot.FS, file, []byte(strings.Join(lines, "\n")), 0o644); err != nil {
		panic(err)
	}
}

// r3CancelPlan: what runEngineOpt needs to cancel the run at the right moment.
func r3CancelPlan(m map[string]string, names []string) (tok string, note *r3Note, o engOpts) {
	o = optsOf(m)
	watch := ""
	if m["cxl"] != "" {
		watch = names[atoi(m["cxl"], 0)]
	}
	tok, note = r3NewNote(watch)
	if watch != "" {
		pause := 600
		if p, ok := r3ParsePauses(m["slp"])[atoi(m["cxl"], 0)]; ok {
			pause = p.ms
		}
		o.cancelOn = note.ch
		o.cancelDelay = time.Duration(pause) * time.Millisecond / 4
		o.extraWait = time.Duration(pause)*time.Millisecond + 10*time.Second
	}
	return
}

// ---------------------------------------------------------------- a gRPC target that records and notifies

// r3NewGrpcTarget: like the shared gRPC target (`x-code: N` answers status N); a call carrying `x-nt: <token>.<call>` is
// recorded and announced to the harness once it has been handled.
func r3NewGrpcTarget() (addr string, stop func()) {
	l, err := net.Listen("tcp", "127.0.0.1:0")
	if err != nil {
		panic(err)
	}
	gs := grpc.NewServer(grpc.UnaryInterceptor(func(ctx context.Context, req any, info *grpc.UnaryServerInfo, h grpc.UnaryHandler) (any, error) {
		if strings.HasPrefix(info.FullMethod, "/target.") {
			md, _ := metadata.FromIncomingContext(ctx)
			if v := md.Get("x-nt"); len(v) > 0 {
				r3Seen(v[0], false)
				defer func() {
					nt := v[0]
					// after the answer is on its way
					time.AfterFunc(10*time.Millisecond, func() { r3Seen(nt, true) })
				}()
			}
			if v := md.Get("x-code"); len(v) > 0 {
				n, err := strconv.ParseUint(v[0], 10, 32)
				if err == nil && n != 0 {
					return nil, status.Error(codes.Code(n), "scripted")
				}
			}
		}
		return h(ctx, req)
	}))
	srv := server.NewServer(slog.New(slog.NewTextHandler(io.Discard, nil)), 1)
	server.RegisterTargetServiceServer(gs, srv)
	reflection.Register(gs)
	go func() { _ = gs.Serve(l) }()
	return l.Addr().String(), gs.Stop
}

func r3GrpcTargetRetry() (addr string, stop func()) {
	var last any
	for try := 0; try < 20 && addr == ""; try++ {
		func() {
			defer func() {
				if r := recover(); r != nil {
					last = r
				}
			}()
			addr, stop = r3NewGrpcTarget()
		}()
		if addr == "" {
			time.Sleep(500 * time.Millisecond)
		}
	}
	if addr == "" {
		panic(fmt.Sprint("no target: ", last))
	}
	return
}

// r3UndecodableLines replaces every placeholder line of the grpc/json ammo file the config names by a line no JSON decoder
// accepts, and lets the provider go on after such a line (`continueonerror: true`: it delivers an INVALID ammo).
func r3UndecodableLines(conf string) string {
	i := strings.Index(conf, `file: "`)
	if i < 0 {
		panic("no ammo file in config")
	}
	rest := conf[i+len(`file: "`):]
	file := rest[:strings.IndexByte(rest, '"')]
	data, err := afero.ReadFile(shot.FS, file)
	if err != nil {
		panic(err)
	}
	lines := strings.Split(string(data), "\n")
	for k, l := range lines {
		if strings.Contains(l, "__UNDECODABLE_LINE__") {
			lines[k] = `{"tag": "lost", "call": "target.TargetService.Hello", "payload": {"name": `
		}
	}
	if err := afero.WriteFile(shot.FS, file, []byte(strings.Join(lines, "\n")), 0o644); err != nil {
		panic(err)
	}
	return strings.Replace(conf, ", passes: 1", ", passes: 1, continueonerror: true", 1)
}

var _ = sort.Strings
