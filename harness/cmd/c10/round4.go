package main

// C10, fourth round:
//
//  1. THE AMMO POOL OF THE grpc/json PROVIDER (`k=grpcpool`). The lines of a grpc/json file may leave out "tag", "metadata"
//     and "payload" (all optional). The provider decodes every line into an *ammo.Ammo it takes from a sync.Pool the
//     instances Release() their ammo into: from its second use on an ammo object has carried ANOTHER entry before. Files mix
//     entries with and without the optional keys, are read for several passes (so that more ammo is delivered than the
//     128-deep Sink holds and objects come back), by one instance (samples in file order) or several (judged as a bag), and
//     the pool is pre-seeded with released objects in every state a release can leave them in (tagged, with metadata and
//     payload keys of their own, flagged invalid). Every sample must carry the tag and the code of ITS entry.
//  2. ID COUNTERS FAR INTO A RUN (`k=idwrap`, `k=ids … start=S`). The provider's id counter is set to the value it has
//     after S acquisitions (2^31, 2^32, 2^33, 2^53, 2^63 ± a little) and the run goes on from there: the ids handed out must
//     be pairwise distinct AND none may be an id one of the S earlier ammo already carried.
//  3. DIAL FAILURES THROUGH THE DNS-CACHING DIALER (`k=http tgt=nd|nf|nl`). The target is a host NAME that cannot be
//     pre-resolved when the gun is configured (nobody listens yet), `dns-cache` left on: netutil.NewDNSCachingDialer is in
//     the transport and its cache has no entry for the target. `nd`: nobody ever listens (refused: ECONNREFUSED);
//     `nf`: the listener's accept queue is full (the dial times out: 110); `nl`: the target starts listening after the gun
//     was configured. With redirect off / on, for the http, connect and http2 guns.

import (
	"fmt"
	"math/rand"
	"net"
	"os"
	"reflect"
	"sort"
	"strconv"
	"strings"
	"sync"
	"sync/atomic"
	"syscall"
	"time"
	"unsafe"

	"verifharness/shot"

	pbase "github.com/yandex/pandora/components/providers/base"
	grpcammo "github.com/yandex/pandora/components/providers/grpc"
	"github.com/yandex/pandora/components/providers/grpc/grpcjson"
	"github.com/yandex/pandora/core/engine"
)

// ---------------------------------------------------------------- 1. k=grpcpool

// r4Entry: one line of the grpc/json file. keys: which of the optional keys the line carries (t tag, m metadata,
// p payload).
type r4Entry struct {
	tag, kind, code, keys string
}

func r4ParseEntries(s string) []r4Entry {
	var out []r4Entry
	for _, e := range strings.Split(s, ";") {
		f := strings.Split(e, ",")
		if len(f) != 4 {
			panic("bad entry " + e)
		}
		out = append(out, r4Entry{f[0], f[1], f[2], f[3]})
	}
	return out
}

func r4JSONString(s string) string {
	return strconv.Quote(s) // tags of the generator are plain ASCII
}

// r4Line renders one entry. Only the keys named in e.keys are written; the order of the keys varies with the entry.
func r4Line(e r4Entry, i int) string {
	if e.kind == "bad" {
		return `{"tag": "lost", "call": "target.TargetService.Hello", "payload": {"name": `
	}
	call := "target.TargetService.Hello"
	if e.kind == "nomethod" {
		call = "target.TargetService.NoSuchMethod"
	}
	var parts []string
	if strings.Contains(e.keys, "t") {
		parts = append(parts, `"tag": `+r4JSONString(e.tag))
	} else if e.tag != "" {
		panic("entry without a tag key cannot have a tag")
	}
	parts = append(parts, `"call": `+r4JSONString(call))
	if strings.Contains(e.keys, "m") {
		switch e.kind {
		case "code":
			parts = append(parts, fmt.Sprintf(`"metadata": {"x-code": "%s"}`, e.code))
		default:
			parts = append(parts, `"metadata": {"x-entry": "e`+strconv.Itoa(i)+`"}`)
		}
	} else if e.kind == "code" {
		panic("a code entry needs its metadata")
	}
	if strings.Contains(e.keys, "p") {
		if e.kind == "badpayload" {
			parts = append(parts, `"payload": {"no_such_field": 1}`)
		} else {
			parts = append(parts, `"payload": {"name": "verif"}`)
		}
	} else if e.kind == "badpayload" {
		panic("a badpayload entry needs its payload")
	}
	// rotate: the decoder must not care about the order of the keys
	k := i % len(parts)
	parts = append(parts[k:], parts[:k]...)
	return "{" + strings.Join(parts, ", ") + "}"
}

// r4Dirty: what a released ammo object can look like (every state is reachable: an object keeps its last entry).
func r4Dirty(i int) *grpcammo.Ammo {
	a := &grpcammo.Ammo{}
	switch i % 4 {
	case 0:
		a.Reset("stale", "target.TargetService.Hello", map[string]string{"x-code": "13"}, map[string]any{"name": "stale", "no_such_field": 1})
	case 1:
		a.Reset("stale2", "target.TargetService.NoSuchMethod", map[string]string{"x-code": "7"}, map[string]any{"name": "stale"})
	case 2:
		a.Reset("", "", nil, nil) // what a line that could not be decoded leaves
		a.Invalidate()
	default:
		a.Reset("stale3", "target.TargetService.Hello", map[string]string{"x-code": "5"}, map[string]any{"no_such_field": 2})
		a.Invalidate()
	}
	a.SetID(uint64(1000 + i))
	return a
}

func runGrpcPool(m map[string]string) string {
	ents := r4ParseEntries(m["ents"])
	passes := atoi(m["passes"], 1)
	inst := atoi(m["inst"], 1)
	var b strings.Builder
	for i, e := range ents {
		b.WriteString(r4Line(e, i))
		b.WriteByte('\n')
	}
	f := shot.TempFile(".json", b.String())
	gun := fmt.Sprintf(`{type: grpc, target: "%s"}`, sharedGrpc())
	total := len(ents) * passes
	conf := shot.PoolYAML("grpc/json", f, fmt.Sprintf(", passes: %d, continueonerror: true", passes), gun, total, inst)
	o := optsOf(m)
	dirty := atoi(m["dirty"], 0)
	o.afterDecode = func(pools []engine.InstancePoolConfig) string {
		if dirty == 0 {
			return ""
		}
		p, ok := pools[0].Provider.(*grpcjson.Provider)
		if !ok {
			return "config:provider-is-not-grpcjson"
		}
		// Which object a sync.Pool hands out is the runtime's choice (per-P lists, emptied by the collector). So that the
		// provider meets used objects whatever that choice is, the pool's allocation function hands out USED objects as
		// well: every object the provider ever decodes into is in a state a Release can leave behind.
		// (only as long as the provider's own Release leaves an object as it is — regenerated: srcGrpcProviderRelease — which
		// is probed here with the real method: an object that comes back cleaned means there are no used states to hand out)
		probe := r4Dirty(0)
		p.Release(probe)
		if got, _ := p.Pool.Get().(*grpcammo.Ammo); got != probe || (got.Tag == "stale" && len(got.Metadata) > 0) {
			var seq atomic.Int64
			p.Pool.New = func() any { return r4Dirty(int(seq.Add(1))) }
		}
		// and from several goroutines, so that the objects land in the pool's shared lists of several Ps (the first Put of a
		// P goes to a slot only that P can take from)
		var wg sync.WaitGroup
		for w := 0; w < 4; w++ {
			wg.Add(1)
			go func(w int) {
				defer wg.Done()
				for i := w; i < dirty; i += 4 {
					p.Release(r4Dirty(i)) // through the provider's own Release
				}
			}(w)
		}
		wg.Wait()
		return ""
	}
	res := runEngineOpt(spliceGrpcOpts(conf, m), o, 60*time.Second)
	if inst > 1 {
		// arrival order depends on the interleaving: the samples are listed as a sorted bag
		parts := r4Parts(res)
		sort.Strings(parts)
		return "res=" + res.Class + " s=" + strings.Join(parts, ";")
	}
	return fmtSamples(res, false)
}

func r4Parts(res shot.Result) []string {
	var parts []string
	for _, s := range res.Samples {
		parts = append(parts, fmt.Sprintf("%s:%d:%d:%s", hx(s.Tags), s.Proto, s.Net, s.Shape))
	}
	return parts
}

// ---------------------------------------------------------------- 2. id counters far into a run

// r4FindCounter looks, inside the struct v (through embedded and named struct fields, a few levels deep), for the id
// counter: a field of one of sync/atomic's integer types, or a plain integer field, whose name says "id … count(er)";
// failing that the only sync/atomic integer there is.
func r4FindCounter(v reflect.Value, depth int) (named, atomics []reflect.Value) {
	if v.Kind() == reflect.Pointer || v.Kind() == reflect.Interface {
		if v.IsNil() {
			return
		}
		return r4FindCounter(v.Elem(), depth)
	}
	if v.Kind() != reflect.Struct || depth > 4 {
		return
	}
	t := v.Type()
	for i := 0; i < t.NumField(); i++ {
		f := t.Field(i)
		fv := v.Field(i)
		isAtomic := f.Type.PkgPath() == "sync/atomic" && f.Type.Kind() == reflect.Struct &&
			(strings.HasPrefix(f.Type.Name(), "Uint") || strings.HasPrefix(f.Type.Name(), "Int"))
		isInt := fv.Kind() >= reflect.Int && fv.Kind() <= reflect.Uint64
		ln := strings.ToLower(f.Name)
		if isAtomic || isInt {
			if strings.Contains(ln, "id") && strings.Contains(ln, "count") {
				named = append(named, fv)
			} else if isAtomic {
				atomics = append(atomics, fv)
			}
			continue
		}
		if fv.Kind() == reflect.Struct && f.Type.PkgPath() != "sync" && f.Type.PkgPath() != "sync/atomic" {
			n, a := r4FindCounter(fv, depth+1)
			named, atomics = append(named, n...), append(atomics, a...)
		}
	}
	return
}

// r4PresetCounter sets the id counter found in *root to `start`, as if `start` ammo had been acquired. It returns the
// width of the counter in bits; ok=false when the counter cannot hold the value (or there is no counter).
func r4PresetCounter(root any, start uint64) (bits int, ok bool) {
	v := reflect.ValueOf(root)
	if v.Kind() != reflect.Pointer {
		return 0, false
	}
	named, atomics := r4FindCounter(v, 0)
	var c reflect.Value
	switch {
	case len(named) == 1:
		c = named[0]
	case len(named) == 0 && len(atomics) == 1:
		c = atomics[0]
	default:
		return 0, false
	}
	if c.Kind() == reflect.Struct { // sync/atomic.UintNN / IntNN: the value is its integer field
		var inner reflect.Value
		for i := 0; i < c.NumField(); i++ {
			if k := c.Field(i).Kind(); k >= reflect.Int && k <= reflect.Uint64 {
				inner = c.Field(i)
			}
		}
		if !inner.IsValid() {
			return 0, false
		}
		c = inner
	}
	if !c.CanAddr() {
		return 0, false
	}
	p := unsafe.Pointer(c.UnsafeAddr())
	switch c.Kind() {
	case reflect.Uint64, reflect.Int64:
		atomic.StoreUint64((*uint64)(p), start)
		return 64, true
	case reflect.Uint, reflect.Int, reflect.Uintptr:
		bits = int(c.Type().Size()) * 8
		if bits == 64 {
			atomic.StoreUint64((*uint64)(p), start)
			return 64, true
		}
		fallthrough
	case reflect.Uint32, reflect.Int32:
		if start > 0xffffffff {
			return 32, false
		}
		atomic.StoreUint32((*uint32)(p), uint32(start))
		return 32, true
	}
	return int(c.Type().Size()) * 8, false
}

func r4Start(m map[string]string) (uint64, bool) {
	if m["start"] == "" {
		return 0, false
	}
	s, err := strconv.ParseUint(m["start"], 10, 64)
	if err != nil {
		panic("bad start " + m["start"])
	}
	return s, true
}

// runIDWrap: g goroutines take n ids each from a ProviderBase whose counter stands at `start`.
func runIDWrap(m map[string]string) string {
	g, n := atoi(m["g"], 8), atoi(m["n"], 500)
	start, _ := r4Start(m)
	var pb pbase.ProviderBase
	if bits, ok := r4PresetCounter(&pb, start); !ok {
		return fmt.Sprintf("res=counter-narrow bits=%d", bits)
	}
	per := make([][]uint64, g)
	begin := make(chan struct{})
	var wg sync.WaitGroup
	for i := 0; i < g; i++ {
		wg.Add(1)
		go func(i int) {
			defer wg.Done()
			ids := make([]uint64, n)
			<-begin
			for j := range ids {
				ids[j] = pb.NextID()
			}
			per[i] = ids
		}(i)
	}
	close(begin)
	wg.Wait()
	var all []uint64
	for _, ids := range per {
		all = append(all, ids...)
	}
	return r4IDSummary(all, start)
}

// r4IDSummary: count, distinct, min, max and `below`: how many ids are <= start, i.e. ids one of the `start` earlier ammo
// of the run already carried (the runs of the generator never reach 2^64).
func r4IDSummary(all []uint64, start uint64) string {
	seen := map[uint64]bool{}
	var mn, mx uint64
	below := 0
	for i, id := range all {
		seen[id] = true
		if i == 0 || id < mn {
			mn = id
		}
		if id > mx {
			mx = id
		}
		if id <= start {
			below++
		}
	}
	return fmt.Sprintf("res=ok count=%d distinct=%d min=%d max=%d below=%d", len(all), len(seen), mn, mx, below)
}

// ---------------------------------------------------------------- 3. named targets that cannot be pre-resolved

// r4Name: the same address under a host NAME (every host resolves `localhost` without asking anybody).
func r4Name(addr string) string {
	_, port, err := net.SplitHostPort(addr)
	if err != nil {
		panic(err)
	}
	return "localhost:" + port
}

var (
	r4FullOnce  sync.Once
	r4FullAddr  string
	r4FullConns []net.Conn
	r4FullErr   any
)

// r4FullTarget: a listener nobody accepts from, with the smallest accept queue the kernel gives (listen(fd, 0)), filled
// by connections of this process that stay open: the kernel drops every further SYN, so a dial gets no answer at all
// and ends with the dialer's timeout.
func r4FullTarget() string {
	r4FullOnce.Do(func() {
		defer func() {
			if r := recover(); r != nil {
				r4FullErr = r
			}
		}()
		fd, err := syscall.Socket(syscall.AF_INET, syscall.SOCK_STREAM, 0)
		if err != nil {
			panic(err)
		}
		if err := syscall.Bind(fd, &syscall.SockaddrInet4{Addr: [4]byte{127, 0, 0, 1}}); err != nil {
			panic(err)
		}
		if err := syscall.Listen(fd, 0); err != nil {
			panic(err)
		}
		sn, err := syscall.Getsockname(fd)
		if err != nil {
			panic(err)
		}
		addr := fmt.Sprintf("127.0.0.1:%d", sn.(*syscall.SockaddrInet4).Port)
		full := false
		for i := 0; i < 16 && !full; i++ {
			c, err := net.DialTimeout("tcp", addr, 300*time.Millisecond)
			if err != nil {
				if ne, ok := err.(net.Error); ok && ne.Timeout() {
					full = true
					break
				}
				panic(err)
			}
			r4FullConns = append(r4FullConns, c)
		}
		if !full {
			panic("no target: the accept queue of the silent listener does not fill up")
		}
		r4FullAddr = addr
	})
	if r4FullAddr == "" {
		panic(fmt.Sprint("no target: ", r4FullErr))
	}
	return r4FullAddr
}

// r4LateTarget: a socket that is BOUND (so the port is ours and a connect is refused) but does not listen until open()
// is called; then it serves the scripted target of round 3.
type r4LateTarget struct {
	fd   int
	Addr string
	t    *r3Target
	f    *os.File
	down int // stop listening after this many accepted connections (0: never)
}

func r4NewLateTarget() *r4LateTarget {
	fd, err := syscall.Socket(syscall.AF_INET, syscall.SOCK_STREAM|syscall.SOCK_CLOEXEC, 0)
	if err != nil {
		panic(err)
	}
	if err := syscall.Bind(fd, &syscall.SockaddrInet4{Addr: [4]byte{127, 0, 0, 1}}); err != nil {
		_ = syscall.Close(fd)
		panic(err)
	}
	sn, err := syscall.Getsockname(fd)
	if err != nil {
		_ = syscall.Close(fd)
		panic(err)
	}
	return &r4LateTarget{fd: fd, Addr: fmt.Sprintf("127.0.0.1:%d", sn.(*syscall.SockaddrInet4).Port)}
}

// r4DownListener stops listening for good once it has accepted `down` connections: the connections it accepted are
// served, every later dial is refused (the target went away in the middle of the run).
type r4DownListener struct {
	net.Listener
	down, seen int
	stop       func()
}

func (d *r4DownListener) Accept() (net.Conn, error) {
	if d.down > 0 && d.seen >= d.down {
		d.stop()
		return nil, net.ErrClosed
	}
	c, err := d.Listener.Accept()
	if err == nil {
		d.seen++
	}
	return c, err
}

func (l *r4LateTarget) open() string {
	if err := syscall.Listen(l.fd, 128); err != nil {
		return "err:listen_" + strings.Join(strings.Fields(err.Error()), "_")
	}
	l.f = os.NewFile(uintptr(l.fd), "late-target")
	ln, err := net.FileListener(l.f) // dups the descriptor
	if err != nil {
		return "err:listen_" + strings.Join(strings.Fields(err.Error()), "_")
	}
	var served net.Listener = ln
	if l.down > 0 {
		// every dup of the socket must go, or the kernel keeps completing handshakes into the accept queue
		served = &r4DownListener{Listener: ln, down: l.down, stop: func() { _ = ln.Close(); _ = l.f.Close() }}
	}
	l.t = r3NewTargetOn(served)
	l.t.other = l.t
	return ""
}

func (l *r4LateTarget) close() {
	if l.t != nil {
		_ = l.t.l.Close()
	}
	if l.f != nil {
		_ = l.f.Close()
	} else {
		_ = syscall.Close(l.fd)
	}
}

// r4NamedTarget prepares the target of a `tgt=nd|nf|nl` case: the name the gun is configured with, what has to happen
// once the gun is configured, and the cleanup.
func r4NamedTarget(kind string, down int) (name string, afterDecode func([]engine.InstancePoolConfig) string, done func()) {
	switch kind {
	case "nd":
		return r4Name(shot.DeadAddr()), nil, func() {}
	case "nf":
		return r4Name(r4FullTarget()), nil, func() {}
	case "nl":
		l := r4NewLateTarget()
		l.down = down
		return r4Name(l.Addr), func([]engine.InstancePoolConfig) string { return l.open() }, l.close
	}
	panic("bad named target " + kind)
}

// r4DialRef: the reference run of a dial-failure case (`dial.dns-cache` turned off; same target NAME, same timeout, same
// client options): the net codes of its samples in id order, ` ref=111,111`.
func r4DialRef(res shot.Result) string {
	shot.SortByID(res.Samples)
	var nets []string
	for _, s := range res.Samples {
		nets = append(nets, strconv.Itoa(s.Net))
	}
	if res.Class != "ok" {
		return " ref=" + res.Class
	}
	return " ref=" + strings.Join(nets, ",")
}

// r4AsURIPost rewrites the pool of a k=http case to read the same requests from a `uripost` file: every request is a
// POST with a body of its own.
func r4AsURIPost(conf string, reqs []shot.HTTPReq) string {
	var b strings.Builder
	for i, q := range reqs {
		body := fmt.Sprintf("{\"n\": %d, \"pad\": \"%s\"}", i, strings.Repeat("x", i%5*7))
		fmt.Fprintf(&b, "[X-Script: %s]\n", q.Script)
		if q.Tag != "" {
			fmt.Fprintf(&b, "%d %s %s\n%s\n", len(body), q.URI, q.Tag, body)
		} else {
			fmt.Fprintf(&b, "%d %s\n%s\n", len(body), q.URI, body)
		}
	}
	f := shot.TempFile(".uripost", b.String())
	i := strings.Index(conf, `ammo: {type: "uri", file: "`)
	if i < 0 {
		panic("no uri ammo section in " + conf)
	}
	j := i + len(`ammo: {type: "uri", file: "`)
	k := strings.IndexByte(conf[j:], '"')
	return conf[:i] + `ammo: {type: "uripost", file: "` + f + conf[j+k:]
}

// ---------------------------------------------------------------- generator of the fourth round

func genRound4(r *rand.Rand, thorough bool) []string {
	pick := func(q, t int) int {
		if thorough {
			return t
		}
		return q
	}
	var out []string
	// G1. grpc/json files with optional keys, pooled ammo objects reused
	tags := []string{"", "", "t1", "case_A", "T"}
	entry := func(i int) string {
		tag := tags[r.Intn(len(tags))]
		kind := []string{"ok", "ok", "ok", "code", "code", "nomethod", "badpayload", "bad"}[r.Intn(8)]
		keys := ""
		if tag != "" || r.Intn(3) == 0 {
			keys += "t"
		}
		if kind == "code" || r.Intn(3) == 0 {
			keys += "m"
		}
		if kind == "badpayload" || r.Intn(4) != 0 {
			keys += "p"
		}
		if kind == "bad" {
			tag, keys = "", "-"
		}
		if keys == "" {
			keys = "-"
		}
		return fmt.Sprintf("%s,%s,%d,%s", tag, kind, []int{1, 3, 5, 7, 13, 16}[r.Intn(6)], keys)
	}
	for i := 0; i < pick(6, 120); i++ {
		n := 5 + r.Intn(8)
		var ents []string
		for j := 0; j < n; j++ {
			ents = append(ents, entry(j))
		}
		// a tagged entry with metadata right before an entry that has neither
		ents = append(ents, "T,code,5,tmp", ",ok,0,p", "case_A,ok,0,tp", ",ok,0,-")
		passes := 1
		dirty := 0
		switch i % 3 {
		case 0:
			passes = 150/len(ents) + 12 // more ammo than the Sink holds: objects come back
		case 1:
			dirty = 64
			passes = 2
		default:
			dirty = 32
			passes = 150/len(ents) + 4
		}
		c := fmt.Sprintf("k=grpcpool inst=1 passes=%d dirty=%d", passes, dirty)
		if i%4 == 3 {
			c += " agg=phout"
		}
		out = append(out, c+" ents="+strings.Join(ents, ";"))
	}
	// several instances: only entries whose call is made (the bag is judged by tag and documented code)
	for i := 0; i < pick(3, 60); i++ {
		n := 6 + r.Intn(6)
		var ents []string
		for j := 0; j < n; j++ {
			tag := tags[r.Intn(len(tags))]
			keys := "p"
			if tag != "" || r.Intn(3) == 0 {
				keys = "tp"
			}
			if r.Intn(2) == 0 {
				ents = append(ents, fmt.Sprintf("%s,code,%d,%sm", tag, []int{1, 3, 5, 7, 13, 16}[r.Intn(6)], keys))
			} else {
				ents = append(ents, fmt.Sprintf("%s,ok,0,%s", tag, keys))
			}
		}
		out = append(out, fmt.Sprintf("k=grpcpool inst=%d passes=%d dirty=%d ents=%s", []int{2, 4, 8}[i%3], 200/len(ents)+6, []int{0, 48}[i%2], strings.Join(ents, ";")))
	}
	// G2. id counters far into a run
	starts := []uint64{0, 1<<31 - 300, 1<<32 - 700, 1<<32 - 1, 1 << 32, 1<<33 - 5, 1<<53 - 100, 1<<63 - 900, 1<<63 + 5, 1<<64 - 200000}
	for i, s := range starts {
		out = append(out, fmt.Sprintf("k=idwrap g=%d n=%d start=%d", []int{8, 2, 16, 4}[i%4], pick(500, 4000), s))
	}
	if thorough {
		for i := 0; i < 40; i++ {
			s := uint64(1)<<uint(20+r.Intn(43)) - uint64(r.Intn(3000))
			out = append(out, fmt.Sprintf("k=idwrap g=%d n=%d start=%d", 2+r.Intn(30), 1000+r.Intn(3000), s))
		}
	}
	provs := []string{"uri", "uri-cyclic", "uripost", "raw", "json"}
	for i, s := range []uint64{1<<32 - 90, 1<<32 - 1, 1<<63 - 50, 1<<31 - 120, 1 << 40} {
		pre := ""
		if i%2 == 1 {
			pre = " pre=1"
		}
		out = append(out, fmt.Sprintf("k=ids prov=%s inst=%d n=%d%s start=%d", provs[i%len(provs)], []int{8, 3, 16}[i%3], pick(200, 800), pre, s))
		if thorough {
			out = append(out, fmt.Sprintf("k=ids prov=%s inst=%d n=%d%s start=%d", provs[(i+2)%len(provs)], []int{2, 32, 5}[i%3], 600, pre, s+17))
		}
	}
	// G2b. POSTs with a body through redirects (uripost provider): 307 / 308 keep method and body, 301 / 302 / 303 turn the
	// request into a GET; chains, the client's limit, redirects off and on
	for rep := 0; rep < pick(1, 8); rep++ {
		for _, gun := range []string{"http", "connect"} {
			for _, redir := range []string{"", "redir=1"} {
				var reqs []string
				for j, st := range []string{"307", "308", "302", "303", "301"} {
					kind := []string{"r", "a", "q", "r", "o"}[(j+rep)%5]
					final := []string{"s200.bx3", "s404", "s201.bx1", "s503.bx2", "s200.bempty"}[(j+2*rep)%5]
					hops := []string{st + kind}
					if (j+rep)%3 == 0 {
						hops = append(hops, []string{"307r", "308a", "302r"}[(j+rep)%3])
					}
					script, lean := r3Chain(hops, final)
					p := fmt.Sprintf("/post/%d/%s", j, randSeg(r))
					reqs = append(reqs, r3ReqTok(tagPool[r.Intn(len(tagPool))], p, p, script, lean))
				}
				// a 307 without Location, one with an unparsable one, and a plain answer
				for j, h := range []string{"307n", "308u1"} {
					script, lean := r3Chain([]string{h}, "s200.bx1")
					p := fmt.Sprintf("/post/x%d", j)
					reqs = append(reqs, r3ReqTok("", p, p, script, lean))
				}
				reqs = append(reqs, httpReqTok("plain", "/post/plain", "/post/plain", "s202.bx4"))
				out = append(out, httpCase(gun, "r3", rep%2 == 0, 2, false, strings.TrimSpace("prov=uripost "+redir), reqs))
			}
		}
	}
	// G3. dial failures through the DNS-caching dialer: target named by a host name nobody listens at when the gun is
	// configured; refused (nd), silent (nf: the dial times out), listening late (nl)
	for rep := 0; rep < pick(1, 6); rep++ {
		for _, gun := range []string{"http", "connect", "http2"} {
			for _, redir := range []string{"", "redir=1"} {
				refused := fmt.Sprintf("fe%d", int(syscall.ECONNREFUSED))
				var reqs []string
				for j := 0; j < 2+rep%2; j++ {
					uri, path := randURI(r)
					if !strings.HasPrefix(uri, "/") {
						uri, path = "/nd/x", "/nd/x"
					}
					reqs = append(reqs, fmt.Sprintf("%s,%s,%s,s200,%s", tagPool[r.Intn(len(tagPool))], hx(uri), hx(path), refused))
				}
				extra := redir
				if rep > 0 {
					extra = strings.TrimSpace(extra + " " + randDims(r, true))
				}
				out = append(out, httpCase(gun, "nd", r.Intn(2) == 0, 1+r.Intn(2), false, strings.TrimSpace("dref=1 "+extra), reqs))
				// the dial times out (250 ms)
				out = append(out, httpCase(gun, "nf", r.Intn(2) == 0, 1, false, strings.TrimSpace("dref=1 dto=250 "+extra),
					[]string{fmt.Sprintf("%s,%s,%s,s200,dt", tagPool[r.Intn(len(tagPool))], hx("/nf/a"), hx("/nf/a"))}))
			}
		}
		// listening late: plain answers and failures after a first successful dial through the caching dialer
		for _, gun := range []string{"http", "connect"} {
			var reqs []string
			for _, sc := range []string{"s200.bx3", "s404", "actclose", "s503.bx10.c100", "s201.bx1", "actreset", "s200.bx2"} {
				p := "/nl/" + randSeg(r)
				reqs = append(reqs, httpReqTok(tagPool[r.Intn(len(tagPool))], p, p, sc))
			}
			extra := ""
			if rep%2 == 1 {
				extra = "redir=1"
			}
			out = append(out, httpCase(gun, "nl", true, 1+rep%2, false, extra, reqs))
		}
		// the target GOES AWAY after the caching dialer has remembered its address (`down=N`: it stops listening once it has
		// accepted N connections): the later dials are refused through the dialer's CACHED path
		for _, gun := range []string{"http", "connect"} {
			for _, redir := range []string{"", " redir=1"} {
				n := 1 + (rep+len(redir))%3
				var reqs []string
				for j := 0; j < n; j++ {
					p := "/up/" + randSeg(r)
					reqs = append(reqs, httpReqTok(tagPool[r.Intn(len(tagPool))], p, p, []string{"s200.bx3", "s404", "s503.bx1"}[j%3]))
				}
				for j := 0; j < 2; j++ {
					p := "/down/" + randSeg(r)
					reqs = append(reqs, strings.Replace(httpReqTok(tagPool[r.Intn(len(tagPool))], p, p, "s200"), ",r200", ","+refusedTok, 1))
				}
				out = append(out, httpCase(gun, "nl", r.Intn(2) == 0, 1, false, fmt.Sprintf("dref=1 down=%d%s", n, redir), reqs))
			}
		}
	}
	return out
}

// r4StartClass: coverage class of a preset counter value.
func r4StartClass(s string) string {
	v, err := strconv.ParseUint(s, 10, 64)
	if err != nil {
		return "start?"
	}
	switch {
	case v == 0:
		return "start0"
	case v < 1<<31:
		return "start<2^31"
	case v < 1<<32:
		return "start<2^32"
	case v < 1<<33:
		return "start<2^33"
	case v < 1<<63:
		return "start<2^63"
	}
	return "start>=2^63"
}
