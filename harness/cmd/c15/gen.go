package main

import (
	"fmt"
	"math/rand"
	"strings"
)

func pick(r *rand.Rand, xs ...string) string { return xs[r.Intn(len(xs))] }
func pick2(r *rand.Rand, xs ...int) int      { return xs[r.Intn(len(xs))] }

// ---------------------------------------------------------------- kind=prov

func genShoot(r *rand.Rand, names []string, malformed bool) string {
	n := names[r.Intn(len(names))]
	if malformed && r.Intn(3) == 0 {
		return pick(r, n+"(", n+")", n+"(1))", n+"(x)", n+"(1,y)", "("+n, n+"(1)(2)", n+"(1.5)", n+"(1 2)", "nosuch", "nosuch(2)",
			n+"(99999999999999999999)", " "+n, n+" ", n+"(0x10)", n+"(1_0)")
	}
	switch r.Intn(15) {
	case 14:
		// large but ordinary numbers (round 4): counts beyond one byte, pauses beyond 15 / 16 bits of milliseconds
		return pick(r, n+"(256)", n+"(257)", n+"(300,1)", n+"(1,32768)", n+"(1,40000)", n+"(2,65536)", n+"(3,70000)",
			"sleep(32768)", "sleep(65536)", "sleep(70000)", n+"(1,86400000)")
	case 0, 1, 2:
		return n
	case 3, 4:
		return fmt.Sprintf("%s(%d)", n, 1+r.Intn(4))
	case 5, 6:
		return fmt.Sprintf("%s(%d,%d)", n, 1+r.Intn(4), r.Intn(30))
	case 7:
		return fmt.Sprintf(" %s ( %d , %d ) ", n, r.Intn(3), r.Intn(20)-3)
	case 8:
		return fmt.Sprintf("sleep(%d)", r.Intn(50))
	case 9:
		return pick(r, "sleep", "sleep()", "sleep( 7 )", "sleep(-2)", "sleep(3,9)")
	case 10:
		return pick(r, n+"()", n+"(,5)", n+"(2,)", n+"(0)", n+"(-1)", n+"(+2)", n+"(1,2,3)", n+"(01,007)")
	case 11:
		return fmt.Sprintf("%s(%d)", n, r.Intn(3))
	default:
		return fmt.Sprintf("%s(%d, %d)", n, 1+r.Intn(3), 1+r.Intn(9))
	}
}

func genWeights(r *rand.Rand, k int, odd bool) []string {
	ws := make([]string, k)
	mul := 1
	if r.Intn(2) == 0 {
		mul = 1 + r.Intn(4)
	}
	if r.Intn(12) == 0 {
		mul = pick2(r, 256, 65536, 32768, 1000) // weights beyond 8 / 16 bits (still < 1e6 with the factor below)
	}
	for i := range ws {
		switch x := r.Intn(12); {
		case x == 0:
			ws[i] = "-"
		case x == 1:
			ws[i] = "0"
		case x == 2 && odd:
			ws[i] = fmt.Sprint(-1 - r.Intn(4))
		default:
			ws[i] = fmt.Sprint(mul * (1 + r.Intn(5)))
		}
	}
	return ws
}

func genProv(r *rand.Rand) string {
	reqPool := []string{"a", "b", "c", "login", "order_req", "r 1", "запрос"}
	r.Shuffle(len(reqPool), func(i, j int) { reqPool[i], reqPool[j] = reqPool[j], reqPool[i] })
	names := reqPool[:1+r.Intn(4)]
	odd := r.Intn(8) == 0
	malformed := r.Intn(6) == 0
	nsc := 1 + r.Intn(4)
	if r.Intn(10) == 0 {
		nsc = 5 + r.Intn(2) // GCDM over five and six weights
	}
	if r.Intn(30) == 0 {
		nsc = 0
	}
	scPool := []string{"s1", "s2", "s3", "main", "сцен", "s 4"}
	r.Shuffle(len(scPool), func(i, j int) { scPool[i], scPool[j] = scPool[j], scPool[i] })
	ws := genWeights(r, nsc, odd)
	var scs []string
	for i := 0; i < nsc; i++ {
		name := scPool[i]
		if odd && i > 0 && r.Intn(3) == 0 {
			name = scPool[0] // duplicate scenario name
		}
		k := 1 + r.Intn(5)
		var shoots []string
		for j := 0; j < k; j++ {
			sh := genShoot(r, names, malformed)
			if j == 0 && strings.HasPrefix(strings.TrimSpace(sh), "sleep") && r.Intn(10) != 0 {
				sh = names[0]
			}
			shoots = append(shoots, escv(sh))
		}
		mwt := pick(r, "-", "0", "100", "2500")
		scs = append(scs, esc(name)+":"+ws[i]+":"+mwt+":"+strings.Join(shoots, "|"))
	}
	var rq []string
	for _, n := range names {
		rq = append(rq, esc(n))
	}
	if odd && r.Intn(2) == 0 {
		rq = append(rq, esc(names[0])) // duplicate request name
	}
	n := 30 + r.Intn(60)
	pl := ""
	if r.Intn(3) == 0 {
		// the provider options passes / limit (0 = unlimited): the feed ends after whole passes or after `limit` ammo
		passes, limit := r.Intn(4), 0
		if r.Intn(2) == 0 {
			limit = 1 + r.Intn(n+5)
		}
		pl = fmt.Sprintf(" pl=%d,%d", passes, limit)
	}
	return fmt.Sprintf("kind=prov n=%d%s rq=%s sc=%s", n, pl, strings.Join(rq, "|"), strings.Join(scs, ";"))
}

// genProvCap (round 6): the two size limits of the decoder (repairs 1eaf10a, 4cfc662). A request list may expand to at most
// config.MaxScenarioRequests = 2^20 steps (counted over the whole list, refused BEFORE anything is allocated), the
// weights may spread into at most config.MaxSpreadSize = 2^24 ammo. `edge` = one of the rare accepted lists AT the
// limit (2^20 steps: some hundred MB in the real decoder, hence only a few per run).
func genProvCap(r *rand.Rand, edge bool) string {
	const cap = 1 << 20
	k := func(n int) string { return fmt.Sprint(n) }
	var shoots []string
	ws := []string{"-"}
	n := 1
	if edge {
		switch r.Intn(4) {
		case 0:
			shoots = []string{"a(" + k(cap) + ")"}
		case 1:
			shoots = []string{"a(" + k(cap-1) + ",2)", "b", "sleep(7)"}
		case 2:
			d := 1 + r.Intn(9)
			shoots = []string{"b(" + k(d) + ")", "a(" + k(cap-d) + ")", "a(0)", "sleep(3)"}
		default:
			shoots = []string{"a(" + k(cap/2) + ")", "b(" + k(cap/2) + ",1)"}
		}
	} else {
		switch r.Intn(12) {
		case 0:
			shoots = []string{"a(" + k(cap+1) + ")"}
		case 1:
			shoots = []string{"a(" + k(cap+1+r.Intn(1000)) + ",5)", "b"}
		case 2:
			d := 1 + r.Intn(9)
			shoots = []string{"b(" + k(d) + ")", "a(" + k(cap-d+1) + ")"}
		case 3:
			d := 1000 + r.Intn(5000)
			shoots = []string{"a(" + k(d) + ")", "b", "a(" + k(cap-d) + ")"}
		case 4:
			shoots = []string{"a(100)", "sleep(5)", "a(" + k(cap-99) + ")"}
		case 5:
			shoots = []string{"a", "b(2)", "a(" + pick(r, "2000000", "4294967297", "9223372036854775807", "1099511627776") + ")"}
		case 6:
			// far below the limit, but large: nothing is refused
			shoots = []string{"a(" + k(2000+r.Intn(3000)) + ")", "b(" + k(1+r.Intn(3)) + ",4)", "a(" + k(1000+r.Intn(500)) + ",1)"}
		case 7:
			// a refused item AFTER a leading sleep / unknown name: the first error wins
			shoots = []string{pick(r, "sleep(3)", "nosuch", "a(x)"), "a(" + k(cap+1) + ")"}
		case 8:
			// the limit is per scenario, not per description: two scenarios of 3/4 of the limit each would be fine but heavy;
			// two of 50 000 steps are accepted
			shoots = []string{"a(30000)", "b(20000,1)"}
			ws = []string{"1", "1"}
		case 9:
			// weights: 16777215 + 2 (coprime) spread into 2^24 + 1 ammo
			shoots = []string{"a"}
			ws = [][]string{{"16777215", "2"}, {"16777216", "1"}, {"33554432", "2"}, {"16777217", "16777217", "3"}, {"50331651", "3"}}[r.Intn(5)]
		case 10:
			// large weights with a large common divisor spread into few ammo
			shoots = []string{"a", "b(2)"}
			ws = [][]string{{"33554432", "33554432"}, {"16777216", "33554432", "50331648"}, {"1000000007", "1000000007"}, {"3000000", "2000000", "5000000"}}[r.Intn(4)]
			n = 12
		default:
			// a moderately large ring (accepted): 99 991 + 7 (coprime)
			shoots = []string{"a(2)"}
			ws = []string{pick(r, "99991", "65537", "50021"), pick(r, "7", "2", "3")}
			n = 3
		}
	}
	var scs []string
	for i, w := range ws {
		sh := make([]string, len(shoots))
		for j, x := range shoots {
			sh[j] = escv(x)
		}
		scs = append(scs, fmt.Sprintf("s%d:%s:0:%s", i+1, w, strings.Join(sh, "|")))
	}
	return fmt.Sprintf("kind=prov n=%d rq=a|b sc=%s", n, strings.Join(scs, ";"))
}

// ---------------------------------------------------------------- kind=gun

func genGun(r *rand.Rand, inst int) string {
	names := []string{"a", "b", "c", "d"}[:2+r.Intn(3)]
	rows := 1 + r.Intn(8)
	shots := 3 + r.Intn(8)
	if inst > 1 {
		shots = 6 + r.Intn(10)
		rows = 1 + r.Intn(60)
	}
	if r.Intn(25) == 0 {
		rows = 0 // empty data source: every indexed access is an error of its step
	}
	rn := func() int {
		if rows == 0 {
			return 0
		}
		return r.Intn(rows)
	}
	// a second data source whose list has the same name (source.vars.users): its [next] counter is its own
	rows2 := -1
	if r.Intn(3) == 0 {
		rows2 = 1 + r.Intn(7)
		if inst > 1 {
			rows2 = 1 + r.Intn(40)
		}
	}
	// which variables each request produces
	type vars struct{ pre, post []string }
	prod := map[string]*vars{}
	var defs []string
	var allFields [][]string
	captured := map[string][]string{}
	for _, n := range names {
		v := &vars{}
		prod[n] = v
		method := pick(r, "G", "P")
		var pre []string
		mode := r.Intn(5) // 0: none, 1-2: source draws, 3: references, 4: template functions
		hasNext, hasM := false, false
		switch mode {
		case 1, 2:
			if rows2 >= 0 && r.Intn(2) == 0 {
				pre = append(pre, "u9=m")
				v.pre = append(v.pre, "u9")
				hasM = true
			}
			for j, k := 0, 1+r.Intn(3); j < k; j++ {
				vn := fmt.Sprintf("v%d", j)
				switch x := r.Intn(8); {
				case x <= 3 && !hasNext: // one [next] draw per request: two draws in one mapping are handed out in Go map order
					code := "n"
					if r.Intn(4) == 0 {
						code = fmt.Sprintf("N%d", r.Intn(5)) // another spelling of the same path
					}
					pre = append(pre, vn+"="+code)
					v.pre = append(v.pre, vn)
					hasNext = true
				case x == 4:
					code := "i"
					if r.Intn(4) == 0 {
						code = "I"
					}
					k := r.Intn(rows+6) - 3
					ks := fmt.Sprint(k)
					if k >= 0 && r.Intn(4) == 0 {
						ks = "+" + ks // strconv.Atoi accepts a sign
					}
					pre = append(pre, vn+"="+code+ks)
					v.pre = append(v.pre, vn)
				case x == 5:
					code := "l"
					if r.Intn(3) == 0 {
						code = fmt.Sprintf("L%d", r.Intn(3))
					}
					pre = append(pre, vn+"="+code)
					v.pre = append(v.pre, vn)
				case x == 6:
					// [rand] also with several instances: the iterator (and its rand.Rand) is shared by all of them
					pre = append(pre, fmt.Sprintf("rv%d=r", j))
				default:
					pre = append(pre, fmt.Sprintf("%s=i%d", vn, rn()))
					v.pre = append(v.pre, vn)
				}
			}
		case 4:
			for j, k := 0, 1+r.Intn(2); j < k; j++ {
				// a value that is not determined by the arguments (random letters, randInt, uuid) gets a name no template refers to
				code := genFn(r, names)
				vn := fmt.Sprintf("g%d", j)
				if fnDet(code) {
					vn = fmt.Sprintf("f%d", j)
				}
				pre = append(pre, vn+"="+code)
				v.pre = append(v.pre, vn)
			}
		case 3:
			for j, k := 0, 1+r.Intn(2); j < k; j++ {
				o := names[r.Intn(len(names))]
				vn := fmt.Sprintf("w%d", j)
				pre = append(pre, fmt.Sprintf("%s=q%s.%s.%s", vn, o, pick(r, "post", "post", "pre"), pick(r, "tok", "n", "h", "v0", "v1")))
				v.pre = append(v.pre, vn)
			}
		}
		part := func(allowErr bool) string {
			o := names[r.Intn(len(names))]
			switch x := r.Intn(10); {
			case x <= 1:
				return "c" + pick(r, "x", "lit", "0", "A-b_c")
			case x <= 4:
				return "p" + o + "." + pick(r, "tok", "tok", "n", "h", "zz")
			case x <= 7:
				return "e" + o + "." + pick(r, "v0", "v0", "v1", "w0", "nope", "f0")
			case x == 8 && allowErr && r.Intn(4) == 0:
				if r.Intn(2) == 0 {
					return pick(r, "m1", "m2", "m3", "m4") // a template that does not parse / fails after writing literal text
				}
				return fmt.Sprintf("s%d", rows+r.Intn(3))
			default:
				return fmt.Sprintf("s%d", rn())
			}
		}
		allowErr := !(inst > 1 && (hasNext || hasM))
		var uri, body, post []string
		for j, k := 0, r.Intn(4); j < k; j++ {
			uri = append(uri, part(allowErr))
		}
		if method == "P" && r.Intn(2) == 0 {
			for j, k := 0, 1+r.Intn(3); j < k; j++ {
				body = append(body, part(allowErr))
			}
		}
		for j, k := 0, r.Intn(4); j < k; j++ {
			switch x := r.Intn(16); {
			case x == 12:
				// one assert/response block with several conditions (status, body texts, header texts, size)
				var cs []string
				if r.Intn(2) == 0 {
					cs = append(cs, pick(r, "s200", "s200", "s201", "s0"))
				}
				for jj, kk := 0, r.Intn(3); jj < kk; jj++ {
					cs = append(cs, pick(r, "bT", "btok", "bn", "bZZ", "b0x"))
				}
				if r.Intn(2) == 0 {
					cs = append(cs, pick(r, "yX-Kind~Resp", "yX-Kind~Resp-k", "yx-kind~-s", "yContent-Type~json", "yX-Tok~H", "yX-None~a", "yX-Tok~Q"))
				}
				if r.Intn(2) == 0 || len(cs) == 0 {
					cs = append(cs, genSize(r))
				}
				post = append(post, "A"+strings.Join(cs, "+"))
			case x == 13:
				// a size assertion on its own (no body text in the same block)
				post = append(post, genSize(r))
			case x == 14:
				// var/header with modifiers: the captured value is transformed before it is stored
				var ms []string
				for jj, kk := 0, 1+r.Intn(3); jj < kk; jj++ {
					ms = append(ms, pick(r, "lower", "upper", fmt.Sprintf("substr(%d)", r.Intn(9)-4), fmt.Sprintf("substr(%d,%d)", r.Intn(9)-4, r.Intn(11)-5),
						"replace(x,Y)", "replace(H,)", "replace(0,zz)", "substr(2,2)", "substr(-1)", "substr(1,-1)"))
				}
				if r.Intn(12) == 0 {
					ms = append(ms, pick(r, "nosuch", "substr()", "substr(x)", "substr(1,2,3)", "replace(a)", "lower("))
				}
				vn := pick(r, "h", "h", "tok")
				post = append(post, vn2h(vn)+"="+pick(r, "X-Tok", "x-tok", "X-Kind", "X-None")+"/"+strings.Join(ms, "/"))
				if vn == "tok" {
					v.post = append(v.post, "tok")
				}
			case x == 15:
				post = append(post, pick(r, "yX-Kind~Resp-k", "yX-Tok~x", "yX-Kind~-s"))
				post[len(post)-1] = "A" + post[len(post)-1]
			case x <= 3:
				post = append(post, "jtok=tok")
				v.post = append(v.post, "tok")
			case x == 4:
				post = append(post, "jn=n")
			case x == 5:
				post = append(post, "hh=X-Tok")
			case x == 6:
				post = append(post, "hm=X-None")
			case x == 7:
				post = append(post, pick(r, "a200", "a200", "a0", "a201"))
			case x == 8:
				post = append(post, pick(r, "tT", "ttok", "tZZ"))
			case x == 9 && r.Intn(3) == 0:
				post = append(post, "jz=zz")
			case x == 9:
				// the same variable from another extractor: the later one overwrites the earlier one
				post = append(post, pick(r, "htok=X-Tok", "jtok=n"))
			default:
				post = append(post, "jtok=tok")
			}
		}
		fields := []string{n, method, strings.Join(pre, "|"), strings.Join(uri, "|"), strings.Join(body, "|"), strings.Join(post, "|")}
		if r.Intn(8) == 0 {
			// extra headers rendered from the same variables; the names url and body are legal header names
			var xh []string
			for _, hn := range []string{"url", "body", "x-extra"} {
				if r.Intn(2) == 0 {
					xh = append(xh, hn+"="+part(allowErr))
				}
			}
			if len(xh) > 0 {
				fields = append(fields, strings.Join(xh, "|"))
			}
		}
		allFields = append(allFields, fields)
		// the variables this request's extractors capture (j<var>=<key>, h<var>=<Header>…)
		for _, p := range post {
			if (p[0] == 'j' || p[0] == 'h') && strings.Contains(p, "=") {
				captured[n] = append(captured[n], strings.SplitN(p[1:], "=", 2)[0])
			}
		}
	}
	// chains of captured variables: what a request captured is, most of the time, rendered into the URI of some request
	// (possibly its own next execution) — so that a wrong captured value reaches the target's log
	for i, n := range names {
		if len(captured[n]) == 0 || r.Intn(4) == 0 {
			continue
		}
		t := (i + 1) % len(names) // mostly the request defined next (scenarios often list the requests in this order)
		if r.Intn(3) == 0 {
			t = r.Intn(len(names))
		}
		ref := "p" + n + "." + captured[n][r.Intn(len(captured[n]))]
		if allFields[t][3] == "" {
			allFields[t][3] = ref
		} else {
			allFields[t][3] += "|" + ref
		}
	}
	for _, f := range allFields {
		defs = append(defs, strings.Join(f, ":"))
	}
	nsc := 1 + r.Intn(3)
	ws := genWeights(r, nsc, false)
	var scs []string
	for i := 0; i < nsc; i++ {
		var shoots []string
		inOrder := i == 0 && r.Intn(2) == 0 // the first scenario often runs every request once, in definition order
		nItems := 1 + r.Intn(4)
		if inOrder {
			nItems = len(names)
		}
		for j, k := 0, nItems; j < k; j++ {
			n := names[r.Intn(len(names))]
			if inOrder {
				n = names[j]
			}
			switch r.Intn(7) {
			case 0:
				shoots = append(shoots, fmt.Sprintf("%s(%d)", n, 1+r.Intn(3)))
			case 1:
				shoots = append(shoots, fmt.Sprintf("%s(%d,%d)", n, 1+r.Intn(2), 1+r.Intn(3)))
			case 2:
				if j > 0 {
					shoots = append(shoots, fmt.Sprintf("sleep(%d)", 1+r.Intn(4)))
				} else {
					shoots = append(shoots, n)
				}
			default:
				shoots = append(shoots, n)
			}
		}
		scs = append(scs, fmt.Sprintf("s%d:%s:%s:%s", i+1, ws[i], pick(r, "-", "0", "3", "8"), strings.Join(shoots, "|")))
	}
	var orc []string
	for i := 0; i < inst; i++ {
		var o []string
		for j, k := 0, r.Intn(shots*4); j < k; j++ {
			switch x := r.Intn(20); {
			case x == 0:
				o = append(o, "g")
			case x == 1:
				o = append(o, "c")
			case x == 2:
				o = append(o, "b")
			case x == 3:
				o = append(o, "e")
			case x == 4:
				o = append(o, pick(r, "s404", "s500", "s201", "s503"))
			case x == 5:
				o = append(o, "t")
			case x == 6:
				o = append(o, pick(r, "r", "n", "L")) // redirect (not followed), 204 without body, 5 KiB chunked body
			default:
				o = append(o, "k")
			}
		}
		orc = append(orc, strings.Join(o, ","))
	}
	l2 := ""
	if rows2 >= 0 {
		l2 = fmt.Sprintf(" L2=%d", rows2)
	}
	return fmt.Sprintf("kind=gun inst=%d shots=%d L=%d%s%s rq=%s sc=%s or=%s", inst, shots, rows, l2, genGunOpts(r), strings.Join(defs, ";"), strings.Join(scs, ";"), strings.Join(orc, "/"))
}

// genGunOpts: options of the gun that must not change what a shot does (see gunOptions in gun.go): answlog (filters all /
// warning / error), httptrace trace / dump, a debug-level logger — alone and combined; "" two times out of three
func genGunOpts(r *rand.Rand) string {
	if r.Intn(3) != 0 {
		return ""
	}
	var o string
	switch r.Intn(4) {
	case 0:
		o = pick(r, "a", "w", "e")
	case 1:
		o = pick(r, "t", "u", "tu")
	case 2:
		o = "d"
	default:
		o = pick(r, "a", "w", "e", "") + pick(r, "t", "u", "tu", "") + pick(r, "d", "")
	}
	if o == "" {
		return ""
	}
	return " go=" + o
}

// genSize: a size condition z<op><val>; the scripted bodies are 2 ({}), 7 (truncated JSON) or about 20 bytes long
func genSize(r *rand.Rand) string {
	return "z" + pick(r, "e", "E", "l", "L", "g", "G") + fmt.Sprint(pick(r, "0", "2", "7", "15", "19", "20", "21", "22", "23", "30", "1000"))
}

// vn2h: the post code of a var/header extractor storing into variable vn
func vn2h(vn string) string { return "h" + vn }

// genModSpec: a var/header mapping value <Header>/<modifier>/… (written with '/' for '|')
func genModSpec(r *rand.Rand) string {
	var ms []string
	for jj, kk := 0, 1+r.Intn(3); jj < kk; jj++ {
		ms = append(ms, pick(r, "lower", "upper", fmt.Sprintf("substr(%d)", r.Intn(11)-5), fmt.Sprintf("substr(%d,%d)", r.Intn(11)-5, r.Intn(13)-6),
			fmt.Sprintf("substr(%d,0)", r.Intn(7)-3), "replace(x,Y)", "replace(H,)", "replace(0,zz)", "replace(Resp,r)", "substr(2,2)", "substr(-1)", "substr(1,-1)", "substr(9)", "substr(3,1)"))
	}
	if r.Intn(14) == 0 {
		ms = append(ms, pick(r, "nosuch", "substr()", "substr(x)", "substr(1,2,3)", "replace(a)", "lower(", "substr(1,y)"))
	}
	return pick(r, "X-Tok", "x-tok", "X-Kind", "X-Kind", "X-None") + "/" + strings.Join(ms, "/")
}

// genGunPost: focused cases for pandora's own postprocessors — request a captures header values through modifier
// chains and/or asserts (status, body texts, header texts, size at and around the real body length), request b renders
// what a captured, c follows; one scenario a|b|c, two or three shots, a target that mostly answers normally
func genGunPost(r *rand.Rand) string {
	var post []string
	var refs []string
	for j, k := 0, 1+r.Intn(3); j < k; j++ {
		switch r.Intn(8) {
		case 0, 1:
			vn := fmt.Sprintf("h%d", j)
			post = append(post, "h"+vn+"="+genModSpec(r))
			refs = append(refs, "pa."+vn)
		case 2:
			post = append(post, genSize(r))
		case 3:
			var cs []string
			if r.Intn(2) == 0 {
				cs = append(cs, pick(r, "s200", "s200", "s404", "s0"))
			}
			for jj, kk := 0, r.Intn(3); jj < kk; jj++ {
				cs = append(cs, pick(r, "bT", "btok", "bn", "bZZ", "b0x", "b%7D"))
			}
			if r.Intn(2) == 0 {
				cs = append(cs, pick(r, "yX-Kind~Resp", "yX-Kind~Resp-k", "yx-kind~-s", "yContent-Type~json", "yX-Tok~H", "yX-None~a", "yX-Tok~Q", "yX-Tok~0x"))
			}
			if r.Intn(2) == 0 || len(cs) == 0 {
				cs = append(cs, genSize(r))
			}
			post = append(post, "A"+strings.Join(cs, "+"))
		case 4, 5:
			// several entries in one extractor: all of them must resolve (jsonpath) / absent headers are skipped (header)
			if r.Intn(2) == 0 {
				post = append(post, "J"+fmt.Sprintf("j%d=tok", j)+"&"+pick(r, "m=n", "m=zz", "m=zz", "m=tok"))
				refs = append(refs, fmt.Sprintf("pa.j%d", j), "pa.m")
			} else {
				a, b := genModSpec(r), genModSpec(r)
				switch r.Intn(4) {
				case 0:
					a = "X-None/" + strings.SplitN(a, "/", 2)[1]
				case 1:
					b = "X-None/" + strings.SplitN(b, "/", 2)[1]
				}
				post = append(post, "H"+fmt.Sprintf("g%d=", j)+a+"&"+fmt.Sprintf("k%d=", j)+b)
				refs = append(refs, fmt.Sprintf("pa.g%d", j), fmt.Sprintf("pa.k%d", j))
			}
		default:
			post = append(post, "jtok=tok")
			refs = append(refs, "pa.tok")
		}
	}
	if len(refs) == 0 {
		refs = append(refs, "clit")
	}
	shots := 2 + r.Intn(2)
	var o []string
	for j := 0; j < shots*3; j++ {
		o = append(o, pick(r, "k", "k", "k", "k", "k", "s404", "e", "b", "t", "s201"))
	}
	return fmt.Sprintf("kind=gun inst=1 shots=%d L=2%s rq=a:%s::::%s;b:G::%s::;c:G:::: sc=s1:1:0:a|b|c or=%s",
		shots, genGunOpts(r), pick(r, "G", "P"), strings.Join(post, "|"), strings.Join(refs, "|"), strings.Join(o, ","))
}

// genFn: a template function as the value of a preprocessor mapping entry (code F…, see fnText in gun.go)
func genFn(r *rand.Rand, names []string) string {
	cnt := func() string {
		switch x := r.Intn(12); {
		case x <= 6:
			return pick(r, "1", "2", "3", "0", "12", "+2", "007")
		case x == 7:
			return pick(r, "-1", "x", "", "1.5", "99999999999")
		default:
			// a value captured by an extractor of some request (numeric only when it was cut out of X-Tok)
			return "q" + names[r.Intn(len(names))] + ".post." + pick(r, "h", "h", "tok", "n")
		}
	}
	switch x := r.Intn(16); {
	case x <= 6:
		return "FS" + cnt() + "~" + pick(r, "z", "Q", "7", "zz")
	case x == 7:
		return "FW" + cnt() + "~" + pick(r, "z", "y")
	case x == 8:
		return pick(r, "FQ2~z", "FQ3~q", "FS2~zq", "FS1~z~y", "FS", "FS4")
	case x == 9:
		return "FS" + cnt()
	case x == 10:
		return pick(r, "FI", "FI5", "FI3~9", "FI9~3", "FIx", "FI1~y", "FI1~2~3")
	case x == 11:
		return "FU"
	case x == 12:
		return pick(r, "FX", "FP")
	default:
		return "FS" + cnt() + "~" + pick(r, "z", "k")
	}
}

// genGunFn: focused cases for template functions in preprocessor mappings: request a cuts the ordinal out of X-Tok
// (a numeric string), request b computes variables from it with template functions and renders them, c follows
func genGunFn(r *rand.Rand) string {
	names := []string{"a", "b", "c"}
	apost := "hh=X-Tok/substr(3)"
	if r.Intn(4) == 0 {
		apost = pick(r, "hh=X-Tok", "hh=X-Kind/substr(5)", "jh=n", "hh=X-Tok/substr(3)/replace(0,)")
	}
	var pre, refs []string
	for j, k := 0, 1+r.Intn(2); j < k; j++ {
		code := genFn(r, names)
		if r.Intn(2) == 0 {
			code = "FS" + pick(r, "qa.post.h", "qa.post.h", "qa.post.zz", "qc.post.h") + "~" + pick(r, "z", "Q")
		}
		if fnDet(code) {
			pre = append(pre, fmt.Sprintf("f%d=%s", j, code))
			refs = append(refs, fmt.Sprintf("eb.f%d", j))
		} else {
			pre = append(pre, fmt.Sprintf("g%d=%s", j, code))
		}
	}
	shots := 2 + r.Intn(3)
	var o []string
	for j := 0; j < shots*4; j++ {
		o = append(o, pick(r, "k", "k", "k", "k", "k", "k", "s404", "r", "n"))
	}
	sc := pick(r, "a|b|c", "a|b(2)|c", "a|b|a|b", "b|a|b")
	return fmt.Sprintf("kind=gun inst=1 shots=%d L=3 rq=a:G::::%s;b:%s:%s:%s::;c:G:::: sc=s1:1:0:%s or=%s",
		shots, apost, pick(r, "G", "P"), strings.Join(pre, "|"), strings.Join(refs, "|"), sc, strings.Join(o, ","))
}

// genGunNext: focused cases for the [next] counters: two or three requests each drawing a row from source.users through
// one of the spellings of the path (same spelling = same counter; spellings that trim to the same text share it too),
// one scenario listing them, 1 or 4 instances, a target that answers normally
func genGunNext(r *rand.Rand, inst int) string {
	names := []string{"a", "b", "c"}[:2+r.Intn(2)]
	var defs, shoots []string
	for _, n := range names {
		code := pick(r, "n", "n", "N0", "N1", "N2", "N3", "N4")
		defs = append(defs, fmt.Sprintf("%s:G:v0=%s:::", n, code))
		shoots = append(shoots, pick(r, n, n, n+"(2)"))
	}
	rows := 2 + r.Intn(6)
	shots := 4 + r.Intn(6)
	if inst > 1 {
		rows = 2 + r.Intn(30)
		shots = 8 + r.Intn(8)
	}
	return fmt.Sprintf("kind=gun inst=%d shots=%d L=%d rq=%s sc=s1:1:0:%s or=", inst, shots, rows, strings.Join(defs, ";"), strings.Join(shoots, "|"))
}

// genGunPause (round 4): focused cases for the UPPER bound of the pauses (ub=1, see pauseTooLong in gun.go): one instance,
// one scenario a(1,P1)|b|c|sleep(P2)|a with pauses of 120..250 ms next to steps without a pause (the calibration), four or
// five shots, a target that answers normally
func genGunPause(r *rand.Rand) string {
	p1, p2 := 150+10*r.Intn(11), 120+10*r.Intn(9)
	sc := fmt.Sprintf("a(1,%d)|b|c|sleep(%d)|a", p1, p2)
	if r.Intn(2) == 0 {
		sc = fmt.Sprintf("b|a(1,%d)|c|b|sleep(%d)", p1, p2)
	}
	return fmt.Sprintf("kind=gun inst=1 shots=%d L=2 ub=1 rq=a:G::::;b:G::::;c:%s:::: sc=s1:1:0:%s or=", 4+r.Intn(2), pick(r, "G", "P"), sc)
}

// genGunCancel (round 6): a cancel of the gun's context at a particular point of a shot — `cx=<k>:<ms>`: <ms> ms after
// the target has received request k of the instance (inside the pause that follows step k when that step has one, in
// the middle of the next request otherwise; k = -1: before the first shot). The gun finishes the shot it has begun:
// every step is executed and reported exactly once, pauses included (the model ignores the token).
func genGunCancel(r *rand.Rand, inst int) string {
	p1, p2 := 90+10*r.Intn(8), 80+10*r.Intn(6)
	sc := pick(r,
		fmt.Sprintf("a(2,%d)|b|c", p1),
		fmt.Sprintf("a|sleep(%d)|b(1,%d)|c", p1, p2),
		fmt.Sprintf("b|a(1,%d)|c|sleep(%d)", p1, p2),
		fmt.Sprintf("a(1,%d)|b", p1))
	k := r.Intn(4)
	if r.Intn(8) == 0 {
		k = -1
	}
	d := pick2(r, 0, 20, 30, 40)
	return fmt.Sprintf("kind=gun inst=%d shots=%d L=2 cx=%d:%d rq=a:G::::jtok=tok;b:G::pa.tok::;c:%s:::: sc=s1:1:%s:%s or=",
		inst, 2*inst, k, d, pick(r, "G", "P"), pick(r, "0", "0", "300"), sc)
}

// genGunHTML (round 6, seed C15-r6-2): the html templater (`templater: {type: html}`; `tm=t`: the text templater
// configured explicitly) with templates that are expensive to parse (B<k>: a dead branch of k*200 actions) in the
// URI, a header and the body of several steps, shot by 2–8 instances whose FIRST shots overlap: every instance meets
// every template slot for the first time at about the same moment. Every step is valid: none may be reported failed.
func genGunHTML(r *rand.Rand, inst int) string {
	big := func() string { return fmt.Sprintf("B%d", 2+r.Intn(5)) }
	tm := "h"
	if r.Intn(5) == 0 {
		tm = "t"
	}
	a := "a:G::" + pick(r, big(), "clit|"+big(), "clit") + ":" + pick(r, "", big()) + ":jtok=tok"
	// a Host header of the definition (any case) is the host the target sees (prepareRequest, repair 789fa67)
	b := "b:P::pa.tok|" + big() + ":" + pick(r, big(), "pa.tok") + "::" +
		pick(r, "x-extra="+big(), "x-extra="+big(), "Host=chost.example", "host=pa.tok", "HOST=clit|x-extra="+big(), "hOsT=cexample.org")
	c := "c:G::" + pick(r, big(), "clit") + "::"
	return fmt.Sprintf("kind=gun inst=%d shots=%d L=2 tm=%s rq=%s;%s;%s sc=s1:1:0:a|b|c|b or=", inst, inst*(1+r.Intn(2)), tm, a, b, c)
}

// genGunTmplErr (round 4): focused cases for templates that cannot be used: request b carries a template that does not
// parse (m1–m3) or fails after writing literal text (m4) in its URI, its body or an extra header; a precedes it, c follows
// (and must not be executed); three or four shots, 1 or 4 instances — the failure must repeat on every shot, nothing of
// the failed rendering may show up in a later request
func genGunTmplErr(r *rand.Rand, inst int) string {
	m := pick(r, "m1", "m2", "m3", "m4", "m4")
	uri, body, xh := "clit", "", ""
	switch r.Intn(3) {
	case 0:
		uri = "cpre|" + m + "|cpost"
	case 1:
		body = "pa.tok|" + m
	default:
		xh = pick(r, "x-extra", "url", "body") + "=" + m
	}
	method := "G"
	if body != "" {
		method = "P"
	}
	sc := pick(r, "a|b|c", "a|b|c", "a(2)|b|c", "c|a|b(2)|c")
	shots := 3 + r.Intn(2)
	if inst > 1 {
		shots = 8 + r.Intn(5)
	}
	return fmt.Sprintf("kind=gun inst=%d shots=%d L=3%s rq=a:G:::pa.tok:jtok=tok;b:%s::%s:%s::%s;c:G::pa.tok|eb.v0:: sc=s1:1:0:%s;s2:1:0:a|c or=",
		inst, shots, genGunOpts(r), method, uri, body, xh, sc)
}

// ---------------------------------------------------------------- kind=first

func genFirst(r *rand.Rand, mode string, thorough bool) string {
	inst := []int{2, 2, 3, 4, 4, 5, 8}[r.Intn(7)]
	rounds := 5
	if mode == "par" {
		inst = []int{4, 8, 8, 12}[r.Intn(4)]
		rounds = 200
		if thorough {
			rounds = 400
		}
	} else if thorough {
		inst = 2 + r.Intn(15)
		rounds = 8
	}
	shots := 1 + r.Intn(3)
	rows := 1 + r.Intn(3*inst*shots)
	return fmt.Sprintf("kind=first mode=%s inst=%d shots=%d L=%d rounds=%d", mode, inst, shots, rows, rounds)
}

// ---------------------------------------------------------------- exhaustive small enumerations (thorough tier)

// every request list of 1..3 items over a small alphabet (one scenario), and every weight vector of 2..3 scenarios
// over {absent, 0, 1, 2, 3, 4, 6} plus the 4-vectors over {absent, 2, 3, 4}
func genExhaustive() []string {
	var out []string
	items := []string{"a", "a(2)", "a(0)", "a(2,3)", "b", "sleep(4)", "sleep"}
	var rec func(prefix []string, depth int)
	rec = func(prefix []string, depth int) {
		if len(prefix) > 0 {
			var es []string
			for _, it := range prefix {
				es = append(es, escv(it))
			}
			out = append(out, fmt.Sprintf("kind=prov n=9 rq=a|b sc=s1:1:0:%s", strings.Join(es, "|")))
		}
		if depth == 0 {
			return
		}
		for _, it := range items {
			rec(append(append([]string{}, prefix...), it), depth-1)
		}
	}
	rec(nil, 3)
	ws := []string{"-", "0", "1", "2", "3", "4", "6"}
	var wrec func(prefix []string, alphabet []string, depth int)
	wrec = func(prefix []string, alphabet []string, depth int) {
		if depth == 0 {
			var scs []string
			n := 0
			for i, w := range prefix {
				scs = append(scs, fmt.Sprintf("s%d:%s:0:a", i+1, w))
				switch w {
				case "-", "0":
					n++
				default:
					var v int
					fmt.Sscan(w, &v)
					n += v
				}
			}
			out = append(out, fmt.Sprintf("kind=prov n=%d rq=a sc=%s", 2*n+1, strings.Join(scs, ";")))
			return
		}
		for _, w := range alphabet {
			wrec(append(append([]string{}, prefix...), w), alphabet, depth-1)
		}
	}
	wrec(nil, ws, 2)
	wrec(nil, ws, 3)
	wrec(nil, []string{"-", "2", "3", "4"}, 4)
	return out
}

func gen(r *rand.Rand, tier string) []string {
	nProv, nGun1, nGun4, nCtl, nPar, nPost, nFn, nNext := 800, 340, 170, 12, 4, 160, 70, 50
	nPause := 6
	if tier == "thorough" {
		nProv, nGun1, nGun4, nCtl, nPar, nPost, nFn, nNext = 16000, 6000, 3000, 300, 40, 3000, 1500, 1000
		nPause = 40
	}
	var out []string
	for i := 0; i < nCtl; i++ {
		out = append(out, genFirst(r, "ctl", tier == "thorough"))
	}
	for i := 0; i < nPar; i++ {
		out = append(out, genFirst(r, "par", tier == "thorough"))
	}
	for i := 0; i < nPause; i++ {
		out = append(out, genGunPause(r))
	}
	for i := 0; i < 5*nPause; i++ {
		inst := 1
		if i%5 == 4 {
			inst = 4
		}
		out = append(out, genGunTmplErr(r, inst))
	}
	for i := 0; i < 2*nPause; i++ {
		inst := 1
		if i%4 == 3 {
			inst = 4
		}
		out = append(out, genGunCancel(r, inst))
	}
	for i := 0; i < 2*nPause; i++ {
		out = append(out, genGunHTML(r, []int{8, 4, 2, 8, 1, 6}[i%6]))
	}
	for i := 0; i < nProv; i++ {
		out = append(out, genProv(r))
	}
	// the decoder's size limits (round 6): refused lists / weights (cheap) and a few accepted lists AT the limit (heavy)
	nCap, nEdge := 40, 2
	if tier == "thorough" {
		nCap, nEdge = 400, 6
	}
	for i := 0; i < nCap; i++ {
		out = append(out, genProvCap(r, false))
	}
	for i := 0; i < nEdge; i++ {
		// drawn in every build (the stream of random numbers stays the same), run only without the race detector
		if c := genProvCap(r, true); !raceBuild {
			out = append(out, c)
		}
	}
	for i := 0; i < nGun1; i++ {
		out = append(out, genGun(r, 1))
	}
	for i := 0; i < nGun4; i++ {
		out = append(out, genGun(r, 4))
	}
	for i := 0; i < nPost; i++ {
		out = append(out, genGunPost(r))
	}
	for i := 0; i < nFn; i++ {
		out = append(out, genGunFn(r))
	}
	for i := 0; i < nNext; i++ {
		inst := 1
		if i%5 == 4 {
			inst = 4
		}
		out = append(out, genGunNext(r, inst))
	}
	if tier == "thorough" {
		out = append(out, genExhaustive()...)
		for i := 0; i < 400; i++ {
			out = append(out, genGun(r, 2))
		}
		for i := 0; i < 400; i++ {
			out = append(out, genGun(r, 8))
		}
	}
	return out
}
