package main

import "math/rand"

func gen(r *rand.Rand, tier string) []string {
	return nil
}
