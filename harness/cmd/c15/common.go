package main

// Shared encoding helpers of the C15 driver: %XX escaping of the line protocol, a YAML printer that quotes
// every key and every string, and the parsed form of the two case kinds.

import (
	"fmt"
	"strconv"
	"strings"
)

// esc keeps [A-Za-z0-9_.()+-] and writes every other byte as %XX (upper-case hex); escv additionally keeps ',' and '/'.
func escWith(s string, extra string) string {
	var b strings.Builder
	for i := 0; i < len(s); i++ {
		c := s[i]
		switch {
		case c >= 'a' && c <= 'z', c >= 'A' && c <= 'Z', c >= '0' && c <= '9',
			c == '_', c == '.', c == '(', c == ')', c == '+', c == '-', strings.IndexByte(extra, c) >= 0:
			b.WriteByte(c)
		default:
			fmt.Fprintf(&b, "%%%02X", c)
		}
	}
	return b.String()
}

func esc(s string) string  { return escWith(s, "") }
func escv(s string) string { return escWith(s, ",/") }

func unesc(s string) string {
	var b strings.Builder
	for i := 0; i < len(s); i++ {
		if s[i] == '%' && i+2 < len(s) {
			if v, err := strconv.ParseUint(s[i+1:i+3], 16, 8); err == nil {
				b.WriteByte(byte(v))
				i += 2
				continue
			}
		}
		b.WriteByte(s[i])
	}
	return b.String()
}

func splitNE(s, sep string) []string {
	if s == "" {
		return nil
	}
	return strings.Split(s, sep)
}

// yq prints a YAML double-quoted scalar.
func yq(s string) string {
	var b strings.Builder
	b.WriteByte('"')
	for _, r := range s {
		switch {
		case r == '"':
			b.WriteString(`\"`)
		case r == '\\':
			b.WriteString(`\\`)
		case r == '\n':
			b.WriteString(`\n`)
		case r == '\t':
			b.WriteString(`\t`)
		case r == '\r':
			b.WriteString(`\r`)
		case r < 0x20 || r == 0x7f:
			fmt.Fprintf(&b, `\x%02x`, r)
		case r == 0xFFFD:
			b.WriteString(`�`)
		default:
			b.WriteRune(r)
		}
	}
	b.WriteByte('"')
	return b.String()
}

// ---- scenario part shared by both kinds:  sc=<name>:<weight|->:<mwt|->:<shoot>|<shoot>;...

type scDef struct {
	name   string
	weight string // "-" = key absent
	mwt    string
	shoots []string
}

func parseSc(s string) []scDef {
	var out []scDef
	for _, one := range splitNE(s, ";") {
		f := strings.SplitN(one, ":", 4)
		for len(f) < 4 {
			f = append(f, "")
		}
		d := scDef{name: unesc(f[0]), weight: f[1], mwt: f[2]}
		for _, sh := range splitNE(f[3], "|") {
			d.shoots = append(d.shoots, unesc(sh))
		}
		out = append(out, d)
	}
	return out
}

func yamlScenarios(b *strings.Builder, scs []scDef) {
	b.WriteString("\"scenarios\":\n")
	for _, sc := range scs {
		fmt.Fprintf(b, "  - \"name\": %s\n", yq(sc.name))
		if sc.weight != "-" && sc.weight != "" {
			fmt.Fprintf(b, "    \"weight\": %s\n", sc.weight)
		}
		if sc.mwt != "-" && sc.mwt != "" {
			fmt.Fprintf(b, "    \"min_waiting_time\": %s\n", sc.mwt)
		}
		b.WriteString("    \"requests\": [")
		for i, sh := range sc.shoots {
			if i > 0 {
				b.WriteString(", ")
			}
			b.WriteString(yq(sh))
		}
		b.WriteString("]\n")
	}
}

func errClass(err error) string {
	m := err.Error()
	switch {
	case strings.Contains(m, "invalid close bracket position"), strings.Contains(m, "failed to parse count"):
		return "err=parse"
	case strings.Contains(m, "weight should not be negative"):
		return "err=negweight"
	case strings.Contains(m, "must follow a request"):
		return "err=sleepfirst"
	case strings.Contains(m, "not found"):
		return "err=notfound"
	case strings.Contains(m, "a scenario may hold at most"):
		return "err=toomany"
	case strings.Contains(m, "weights are too large"), strings.Contains(m, "weight is too large"):
		return "err=toolarge"
	}
	return "err=other:" + esc(m)
}
