package main

// kind=gun: the REAL http/scenario provider feeds the REAL http/scenario gun (both created through the
// registered plugin factories) which shoots at scripted in-process targets (one listener per instance so that
// each instance's request log is ordered). The script fails chosen steps: garbage/closed connection
// (transport error), bad JSON / missing key for a jsonpath extractor, failed assertion, non-2xx status.
//
// request def  name:method:pre:uri:body:post[:xh]  (lists '|'-separated)
//   pre   v=n (source.users[next].id)  v=m (source.vars.users[next].id: a SECOND data source, file/json, L2 rows, whose
//         list has the same name — its counter is keyed by the whole path)  v=i<k> (source.users[<k>].name)  v=l ([last].name)  v=r ([rand].name)
//         v=qX.post.y / v=qX.pre.y (request.X.postprocessor.y / request.X.preprocessor.y)
//   uri / body parts   c<lit> | pX.y ({{.request.X.postprocessor.y}}) | eX.y (…preprocessor…) | s<k> ({{(index .source.users k).name}})
//   xh    <header>=<part>   an extra request header (e.g. one literally named url or body) rendered from a part
//   post  j<var>=<key> (var/jsonpath $.key)  h<var>=<Header> (var/header)  a<code> (assert status)  t<text> (assert body)
// oracle or=<inst0>/<inst1>/…   per request ordinal: k | s<code> | b (bad json) | e ({}) | g (garbage) | c (close) | t (body cut short)
//        r (302 with a Location: not followed)  n (204, no body)  L (a body of 5 KiB, chunked)
//   pre (round 3)  v=N<k> / L<k> / I<idx> other spellings of [next] / [last] / [idx] paths;  v=F… a template function (see fnText)

import (
	"bufio"
	"context"
	"fmt"
	"io"
	"net"
	"net/http"
	"net/http/httptest"
	"os"
	"sort"
	"strconv"
	"strings"
	"sync"
	"sync/atomic"
	"time"

	httpscenario "github.com/yandex/pandora/components/guns/http_scenario"
	"github.com/yandex/pandora/core"
	"github.com/yandex/pandora/core/aggregator/netsample"
	"github.com/yandex/pandora/core/config"
	"go.uber.org/zap"
	"go.uber.org/zap/zapcore"
)

type reqDef struct {
	name, method string
	pre          [][2]string
	uri, body    []string
	post         []string
	xh           [][2]string
}

func parseReqs(s string) []reqDef {
	var out []reqDef
	for _, one := range splitNE(s, ";") {
		f := strings.Split(one, ":")
		for len(f) < 7 {
			f = append(f, "")
		}
		d := reqDef{name: f[0], method: f[1], uri: splitNE(f[3], "|"), body: splitNE(f[4], "|"), post: splitNE(f[5], "|")}
		if d.method == "P" {
			d.method = "POST"
		} else {
			d.method = "GET"
		}
		for _, p := range splitNE(f[2], "|") {
			kv := strings.SplitN(p, "=", 2)
			if len(kv) == 2 {
				d.pre = append(d.pre, [2]string{kv[0], kv[1]})
			}
		}
		for _, p := range splitNE(f[6], "|") {
			kv := strings.SplitN(p, "=", 2)
			if len(kv) == 2 {
				d.xh = append(d.xh, [2]string{kv[0], kv[1]})
			}
		}
		out = append(out, d)
	}
	return out
}

// nextSpellings: ways to write `source.users[next].id` that GetMapValue must read alike (leading dot, upper case and
// blanks inside the brackets, blanks around the segments). The counter key is the path AS WRITTEN (after trimming the
// segments): spellings 0 and 3 share the counter of the plain one, 1, 2 and 4 have counters of their own.
var nextSpellings = []string{".source.users[next].id", "source.users[NEXT].id", "source.users[ next ].id", " source . users[next] . id ", "source.users[Next ].id"}
var lastSpellings = []string{"source.users[LAST].name", "source.users[ last ].name", ".source. users[Last] .name"}

// fnArg: an argument of a template function: q<req>.<post|pre>.<var> is a path into the template variables, anything
// else is the literal text
func fnArg(a string) string {
	if strings.HasPrefix(a, "q") && strings.Count(a, ".") == 2 {
		return prePath(a)
	}
	return a
}

// fnText: the mapping value of a function code  F<kind><arg>~<arg>…
//   S randString(args)  W randString( a , b ) with blanks  Q randString(a,b without the closing bracket
//   I randInt(args)  U uuid()  X nosuch(1) (no such function: looked up as a path)  P " randString(2, z)" (blank before the name)
func fnText(code string) string {
	if len(code) < 2 {
		return code
	}
	var args []string
	for _, a := range splitNE(code[2:], "~") {
		args = append(args, fnArg(a))
	}
	switch code[1] {
	case 'S':
		return "randString(" + strings.Join(args, ", ") + ")"
	case 'W':
		return "randString( " + strings.Join(args, " ,") + " )"
	case 'Q':
		return "randString(" + strings.Join(args, ",")
	case 'I':
		return "randInt(" + strings.Join(args, ",") + ")"
	case 'U':
		return "uuid()"
	case 'X':
		return "nosuch(1)"
	case 'P':
		return " randString(2, z)"
	}
	return code
}

// fnDet: is the value of the function code determined by its arguments (randString over ONE letter)?
func fnDet(code string) bool {
	if len(code) < 2 || !strings.ContainsRune("SWQ", rune(code[1])) {
		return false
	}
	a := splitNE(code[2:], "~")
	if len(a) != 2 || a[1] == "" {
		return false
	}
	for i := 1; i < len(a[1]); i++ {
		if a[1][i] != a[1][0] {
			return false
		}
	}
	return true
}

// fnCanon: what the target reports for the value of a function code: the value itself when it is determined,
// otherwise its shape (rnd<length> / int / uuid)
func fnCanon(code, val string) string {
	if fnDet(code) {
		return val
	}
	if len(code) < 2 {
		return "bad." + val
	}
	switch code[1] {
	case 'S', 'W', 'Q':
		for _, c := range val {
			if !strings.ContainsRune("abcdefghijklmnopqrstuvwxyzABCDEFGHIJKLMNOPQRSTUVWXYZ0123456789_-)", c) {
				return "bad." + val
			}
		}
		return "rnd" + strconv.Itoa(len(val))
	case 'I':
		if _, err := strconv.Atoi(val); err == nil {
			return "int"
		}
	case 'U':
		if len(val) == 36 && val[8] == '-' && val[13] == '-' && val[18] == '-' && val[23] == '-' {
			return "uuid"
		}
	}
	return "bad." + val
}

func prePath(code string) string {
	switch {
	case code == "n":
		return "source.users[next].id"
	case code == "m":
		return "source.vars.users[next].id"
	case code == "l":
		return "source.users[last].name"
	case code == "r":
		return "source.users[rand].name"
	case strings.HasPrefix(code, "N"):
		if k, err := strconv.Atoi(code[1:]); err == nil && k >= 0 && k < len(nextSpellings) {
			return nextSpellings[k]
		}
	case strings.HasPrefix(code, "L"):
		if k, err := strconv.Atoi(code[1:]); err == nil && k >= 0 && k < len(lastSpellings) {
			return lastSpellings[k]
		}
	case strings.HasPrefix(code, "I"):
		return " source . users[ " + code[1:] + " ] . name"
	case strings.HasPrefix(code, "F"):
		return fnText(code)
	case strings.HasPrefix(code, "i"):
		return "source.users[" + code[1:] + "].name"
	case strings.HasPrefix(code, "q"):
		f := strings.Split(code[1:], ".")
		if len(f) == 3 {
			kind := "preprocessor"
			if f[1] == "post" {
				kind = "postprocessor"
			}
			return "request." + f[0] + "." + kind + "." + f[2]
		}
	}
	return code
}

func tmplPart(p string) string {
	if p == "" {
		return ""
	}
	switch p[0] {
	case 'B':
		// round 6: a template that is expensive to PARSE and renders to its own code: B<k> = a dead branch of k*200 actions (k*1000 made the -race run of a case take > 25 s at load 260: a HANG on the unchanged tree)
		// followed by the literal text B<k> (the model's rendering of an unknown code is the code itself)
		if k, err := strconv.Atoi(p[1:]); err == nil && k > 0 && k <= 64 {
			return "{{if false}}" + strings.Repeat("{{.source}}x", k*200) + "{{end}}" + p
		}
	case 'c':
		return p[1:]
	case 'p', 'e':
		f := strings.SplitN(p[1:], ".", 2)
		if len(f) == 2 {
			kind := "postprocessor"
			if p[0] == 'e' {
				kind = "preprocessor"
			}
			return "{{.request." + f[0] + "." + kind + "." + f[1] + "}}"
		}
	case 's':
		return "{{(index .source.users " + p[1:] + ").name}}"
	case 'm':
		// round 4: a template that cannot be used — m1 / m2 / m3 do not PARSE (unclosed action, unknown function, `if`
		// without a condition): getTemplate fails at every use and must not remember anything; m4 parses and fails when
		// executed after having written literal text
		switch p {
		case "m1":
			return "x{{.request."
		case "m2":
			return "{{nosuchfn 1}}"
		case "m3":
			return "y{{if}}z{{end}}"
		}
		return "lit-{{index .source.users \"x\"}}"
	}
	return p
}

func gunYAML(kv map[string]string, csvFile, jsonFile string) string {
	var b strings.Builder
	fmt.Fprintf(&b, "\"variable_sources\":\n  - \"type\": \"file/csv\"\n    \"name\": \"users\"\n    \"file\": %s\n    \"fields\": [\"id\", \"name\"]\n", yq(csvFile))
	if jsonFile != "" {
		fmt.Fprintf(&b, "  - \"type\": \"file/json\"\n    \"name\": \"vars\"\n    \"file\": %s\n", yq(jsonFile))
	}
	b.WriteString("\"requests\":\n")
	for _, r := range parseReqs(kv["rq"]) {
		fmt.Fprintf(&b, "  - \"name\": %s\n    \"method\": %s\n", yq(r.name), yq(r.method))
		uri := "/" + r.name
		for _, p := range r.uri {
			uri += "/" + tmplPart(p)
		}
		fmt.Fprintf(&b, "    \"uri\": %s\n", yq(uri))
		if kv["tm"] == "h" {
			// round 6: the html templater (its own getTemplate / cache); the values the cases render need no escaping
			b.WriteString("    \"templater\":\n      \"type\": \"html\"\n")
		} else if kv["tm"] == "t" {
			b.WriteString("    \"templater\":\n      \"type\": \"text\"\n")
		}
		{
			b.WriteString("    \"headers\":\n")
			fmt.Fprintf(&b, "      \"X-C15-Run\": %s\n", yq(runNonce))
			for _, h := range r.xh {
				fmt.Fprintf(&b, "      %s: %s\n", yq(h[0]), yq(tmplPart(h[1])))
			}
		}
		if len(r.pre) > 0 {
			for _, p := range r.pre {
				pfx := "X-V-"
				if p[1] == "n" || p[1] == "m" || strings.HasPrefix(p[1], "N") {
					pfx = "X-N-"
				}
				fmt.Fprintf(&b, "      %s: %s\n", yq(pfx+p[0]), yq("{{.request."+r.name+".preprocessor."+p[0]+"}}"))
			}
			b.WriteString("    \"preprocessor\":\n      \"mapping\":\n")
			for _, p := range r.pre {
				fmt.Fprintf(&b, "        %s: %s\n", yq(p[0]), yq(prePath(p[1])))
			}
		}
		if len(r.body) > 0 {
			var parts []string
			for _, p := range r.body {
				parts = append(parts, tmplPart(p))
			}
			fmt.Fprintf(&b, "    \"body\": %s\n", yq(strings.Join(parts, ",")))
		}
		if len(r.post) > 0 {
			b.WriteString("    \"postprocessors\":\n")
			for _, p := range r.post {
				switch p[0] {
				case 'j', 'h':
					kvp := strings.SplitN(p[1:], "=", 2)
					if len(kvp) != 2 {
						continue
					}
					if p[0] == 'j' {
						fmt.Fprintf(&b, "      - \"type\": \"var/jsonpath\"\n        \"mapping\": {%s: %s}\n", yq(kvp[0]), yq("$."+kvp[1]))
					} else {
						// <Header>/<modifier>/… is the mapping value `Header|modifier|…`
						fmt.Fprintf(&b, "      - \"type\": \"var/header\"\n        \"mapping\": {%s: %s}\n", yq(kvp[0]), yq(strings.ReplaceAll(kvp[1], "/", "|")))
					}
				case 'J', 'H':
					// several mapping entries in ONE extractor
					var es []string
					for _, e := range strings.Split(p[1:], "&") {
						kvp := strings.SplitN(e, "=", 2)
						if len(kvp) != 2 {
							continue
						}
						if p[0] == 'J' {
							es = append(es, yq(kvp[0])+": "+yq("$."+kvp[1]))
						} else {
							es = append(es, yq(kvp[0])+": "+yq(strings.ReplaceAll(kvp[1], "/", "|")))
						}
					}
					typ := "var/jsonpath"
					if p[0] == 'H' {
						typ = "var/header"
					}
					fmt.Fprintf(&b, "      - \"type\": %s\n        \"mapping\": {%s}\n", yq(typ), strings.Join(es, ", "))
				case 'a':
					assertYAML(&b, []string{"s" + p[1:]})
				case 't':
					assertYAML(&b, []string{"b" + p[1:]})
				case 'z':
					assertYAML(&b, []string{p})
				case 'A':
					assertYAML(&b, strings.Split(p[1:], "+"))
				}
			}
		}
	}
	yamlScenarios(&b, parseSc(kv["sc"]))
	return b.String()
}

// assertYAML prints one assert/response block from its conditions:
// s<code> (status_code) | b<text> (body pattern) | y<Header>~<text> (header contains) | z<op><val> (size; op e,E,l,L,g,G = eq,=,lt,<,gt,>)
func assertYAML(b *strings.Builder, conds []string) {
	b.WriteString("      - \"type\": \"assert/response\"\n")
	var bodies, hdrs []string
	for _, c := range conds {
		if c == "" {
			continue
		}
		switch c[0] {
		case 's':
			fmt.Fprintf(b, "        \"status_code\": %s\n", c[1:])
		case 'b':
			bodies = append(bodies, yq(c[1:]))
		case 'y':
			f := strings.SplitN(c[1:], "~", 2)
			if len(f) == 2 {
				hdrs = append(hdrs, yq(f[0])+": "+yq(f[1]))
			}
		case 'z':
			if len(c) > 2 {
				op := map[byte]string{'e': "eq", 'E': "=", 'l': "lt", 'L': "<", 'g': "gt", 'G': ">"}[c[1]]
				fmt.Fprintf(b, "        \"size\": {\"val\": %s, \"op\": %s}\n", c[2:], yq(op))
			}
		}
	}
	if len(bodies) > 0 {
		fmt.Fprintf(b, "        \"body\": [%s]\n", strings.Join(bodies, ", "))
	}
	if len(hdrs) > 0 {
		fmt.Fprintf(b, "        \"headers\": {%s}\n", strings.Join(hdrs, ", "))
	}
}

// bigPad: length of the padding of the large response body (oracle code L)
const bigPad = 5000

// gunOptions: the config of the gun plugin. go=<letters> switches on options of the gun that must not change what a shot
// does (round 4):  a / w / e  answlog enabled with filter all / warning / error (written to the null device),
// t httptrace.trace, u httptrace.dump, d a logger that accepts debug messages (see gunLogger)
func gunOptions(opts, target string) map[string]any {
	m := map[string]any{"type": "http/scenario", "target": target}
	al := map[string]any{}
	ht := map[string]any{}
	for _, c := range opts {
		switch c {
		case 'a', 'w', 'e':
			al["enabled"] = true
			al["path"] = os.DevNull
			al["filter"] = map[rune]string{'a': "all", 'w': "warning", 'e': "error"}[c]
		case 't':
			ht["trace"] = true
		case 'u':
			ht["dump"] = true
		}
	}
	if len(al) > 0 {
		m["answlog"] = al
	}
	if len(ht) > 0 {
		m["httptrace"] = ht
	}
	return m
}

// gunLogger: go=…d… gives the gun a logger at debug level (BaseGun.Bind then sets DebugLog: the verbose branches of
// shootStep run, the response body is read also for steps without postprocessors); the output is discarded
func gunLogger(opts string) *zap.Logger {
	if !strings.Contains(opts, "d") {
		return zap.NewNop()
	}
	enc := zapcore.NewJSONEncoder(zap.NewProductionEncoderConfig())
	return zap.New(zapcore.NewCore(enc, zapcore.AddSync(io.Discard), zapcore.DebugLevel))
}

type gunConf struct {
	Gun func() (core.Gun, error) `config:"gun"`
}

type instance struct {
	idx    int
	mu     sync.Mutex
	events []string
	rtimes []time.Time // receipt times of the requests of the current shot
	ord    int
	oracle []string
	draws  []int
	draws2 []int // rows of the second source (values w<k>)
	reqs   map[string]reqDef
	rows   int
	// cx=<k>:<ms> (round 6): the gun's context (GunDeps.Ctx) is cancelled <ms> ms after this instance's target has
	// received request number k of the case (k = -1: before the first shot)
	cancelAt    int
	cancelDelay time.Duration
	cancel      context.CancelFunc
}

func (in *instance) add(ev string) {
	in.mu.Lock()
	in.events = append(in.events, ev)
	in.mu.Unlock()
}

func (in *instance) Run(ctx context.Context, deps core.AggregatorDeps) error { return nil }

func (in *instance) Report(s *netsample.Sample) {
	e := "0"
	if s.Err() != nil {
		e = "1"
	}
	in.add("P~" + esc(s.Tags()) + "~" + strconv.Itoa(s.ProtoCode()) + "~" + e)
}

// runNonce marks the requests of this process: several harnesses run on one machine and a client of another one
// (e.g. an HTTP/2 preface "PRI *" of a gRPC client retrying a port it used before) can reach a listener of ours after
// the kernel has handed the port to us. Such requests are refused and are not part of the observation.
var runNonce = fmt.Sprintf("%d-%d", os.Getpid(), time.Now().UnixNano())

func (in *instance) ServeHTTP(w http.ResponseWriter, r *http.Request) {
	if r.Header.Get("X-C15-Run") != runNonce {
		http.Error(w, "not a request of this run", http.StatusMisdirectedRequest)
		return
	}
	now := time.Now()
	body, _ := io.ReadAll(r.Body)
	name := strings.SplitN(strings.TrimPrefix(r.URL.Path, "/"), "/", 2)[0]
	def := in.reqs[name]
	kindOf := map[string]string{}
	for _, p := range def.pre {
		kindOf[p[0]] = p[1]
	}
	var hdrs []string
	in.mu.Lock()
	for k, v := range r.Header {
		switch {
		case strings.HasPrefix(k, "X-N-"):
			hdrs = append(hdrs, "N."+strings.ToLower(k[4:])+"="+escv(v[0]))
			if strings.HasPrefix(v[0], "u") {
				if d, err := strconv.Atoi(v[0][1:]); err == nil {
					in.draws = append(in.draws, d)
				}
			}
			if strings.HasPrefix(v[0], "w") {
				if d, err := strconv.Atoi(v[0][1:]); err == nil {
					in.draws2 = append(in.draws2, d)
				}
			}
		case strings.HasPrefix(k, "X-V-"):
			vr := strings.ToLower(k[4:])
			val := v[0]
			if kindOf[vr] == "r" {
				ok := false
				if strings.HasPrefix(val, "n") {
					if d, err := strconv.Atoi(val[1:]); err == nil && d >= 0 && d < in.rows {
						ok = true
					}
				}
				if ok {
					val = "ok"
				} else {
					val = "bad." + val
				}
			}
			if strings.HasPrefix(kindOf[vr], "F") {
				val = fnCanon(kindOf[vr], val)
			}
			hdrs = append(hdrs, "V."+vr+"="+escv(val))
		}
	}
	for _, x := range def.xh {
		v := r.Header.Get(x[0])
		if strings.EqualFold(x[0], "Host") {
			// round 6 (repair 789fa67): a Host header of the request definition is the host the target sees
			v = r.Host
		}
		hdrs = append(hdrs, "H."+x[0]+"="+escv(v))
	}
	sort.Strings(hdrs)
	h := "-"
	if len(hdrs) > 0 {
		h = strings.Join(hdrs, ",")
	}
	bs := "-"
	if len(body) > 0 {
		bs = escv(string(body))
	}
	in.events = append(in.events, "R~"+r.Method+"~"+escv(r.URL.Path)+"~"+h+"~"+bs)
	in.rtimes = append(in.rtimes, now)
	k := in.ord
	in.ord++
	in.mu.Unlock()
	if in.cancel != nil && k == in.cancelAt {
		time.AfterFunc(in.cancelDelay, in.cancel)
	}

	code := "k"
	if k < len(in.oracle) && in.oracle[k] != "" {
		code = in.oracle[k]
	}
	tok := fmt.Sprintf("%dx%d", in.idx, k)
	okBody := fmt.Sprintf(`{"tok":"T%s","n":%d}`, tok, k)
	w.Header().Set("X-Kind", "Resp-"+code)
	w.Header().Set("Content-Type", "application/json")
	switch {
	case code == "t":
		// a fault in the middle of the response: the headers announce more body than is sent before the connection closes
		conn, buf, err := w.(http.Hijacker).Hijack()
		if err == nil {
			_, _ = buf.WriteString("HTTP/1.1 200 OK\r\nContent-Type: application/json\r\nContent-Length: 64\r\nX-Tok: H" + tok + "\r\n\r\n{\"tok\":")
			_ = buf.Flush()
			_ = conn.Close()
		}
	case code == "g" || (code == "c" && r.Method != "POST"):
		conn, buf, err := w.(http.Hijacker).Hijack()
		if err == nil {
			_, _ = buf.WriteString("garbage\r\n\r\n")
			_ = buf.Flush()
			_ = conn.Close()
		}
	case code == "c":
		conn, _, err := w.(http.Hijacker).Hijack()
		if err == nil {
			if tc, ok := conn.(*net.TCPConn); ok {
				_ = tc.SetLinger(0)
			}
			_ = conn.Close()
		}
	case code == "r":
		// a redirect: the gun does not follow it (the step sees status 302); a client that does would send a request no step describes
		w.Header().Set("X-Tok", "H"+tok)
		w.Header().Set("Location", "/"+name+"/moved")
		w.WriteHeader(http.StatusFound)
		_, _ = w.Write([]byte(okBody))
	case code == "n":
		// 204: a response without a body
		w.Header().Set("X-Tok", "H"+tok)
		w.WriteHeader(http.StatusNoContent)
	case code == "L":
		// a body of several KiB, sent chunked (no Content-Length)
		w.Header().Set("X-Tok", "H"+tok)
		_, _ = w.Write([]byte(fmt.Sprintf(`{"tok":"T%s","n":%d,"pad":"%s"}`, tok, k, strings.Repeat("x", bigPad))))
	case code == "b":
		w.Header().Set("X-Tok", "H"+tok)
		_, _ = w.Write([]byte(`{"tok":`))
	case code == "e":
		w.Header().Set("X-Tok", "H"+tok)
		_, _ = w.Write([]byte(`{}`))
	case strings.HasPrefix(code, "s"):
		st, err := strconv.Atoi(code[1:])
		if err != nil {
			st = 200
		}
		w.Header().Set("X-Tok", "H"+tok)
		w.WriteHeader(st)
		_, _ = w.Write([]byte(okBody))
	default:
		w.Header().Set("X-Tok", "H"+tok)
		_, _ = w.Write([]byte(okBody))
	}
}


func runGun(kv map[string]string) (obs string) {
	setup()
	nInst, _ := strconv.Atoi(kv["inst"])
	if nInst < 1 {
		nInst = 1
	}
	shots, _ := strconv.Atoi(kv["shots"])
	rows, _ := strconv.Atoi(kv["L"])
	seq := fileSeq.Add(1)
	csvFile := fmt.Sprintf("c15-users-%d.csv", seq)
	file := fmt.Sprintf("c15-gun-%d.yaml", seq)
	var csv strings.Builder
	for i := 0; i < rows; i++ {
		fmt.Fprintf(&csv, "u%d,n%d\n", i, i)
	}
	writeFile(csvFile, csv.String())
	jsonFile := ""
	if l2, ok := kv["L2"]; ok {
		rows2, _ := strconv.Atoi(l2)
		jsonFile = fmt.Sprintf("c15-vars-%d.json", seq)
		var js []string
		for i := 0; i < rows2; i++ {
			js = append(js, fmt.Sprintf(`{"id":"w%d","name":"m%d"}`, i, i))
		}
		writeFile(jsonFile, `{"users":[`+strings.Join(js, ",")+`]}`)
	}
	writeFile(file, gunYAML(kv, csvFile, jsonFile))
	defer func() {
		_ = memFs.Remove(file)
		_ = memFs.Remove(csvFile)
		if jsonFile != "" {
			_ = memFs.Remove(jsonFile)
		}
	}()
	var result string
	func() {
		defer func() {
			if r := recover(); r != nil {
				result = panicClass(r)
			}
		}()
		if kv["decoy"] != "0" {
			// every gun case (so that a failing input reproduces on its own, in a fresh process)
			runDecoyPool(kv, csvFile, jsonFile, seq)
		}
		p, err := newProvider(file)
		if err != nil {
			result = errClass(err)
			return
		}
		ammos := acquire(p, shots)
		reqs := map[string]reqDef{}
		for _, r := range parseReqs(kv["rq"]) {
			reqs[r.name] = r
		}
		orc := strings.Split(kv["or"], "/")
		insts := make([]*instance, nInst)
		guns := make([]core.Gun, nInst)
		ctx, cancel := context.WithCancel(context.Background())
		defer cancel()
		cxAt, cxDelay, cxOn := -2, time.Duration(0), false
		if f := strings.SplitN(kv["cx"], ":", 2); len(f) == 2 {
			if a, err1 := strconv.Atoi(f[0]); err1 == nil {
				if d, err2 := strconv.Atoi(f[1]); err2 == nil {
					cxAt, cxDelay, cxOn = a, time.Duration(d)*time.Millisecond, true
				}
			}
		}
		if cxOn && cxAt < 0 {
			cancel() // the context is done before the first shot
		}
		for i := range insts {
			in := &instance{idx: i, reqs: reqs, rows: rows, cancelAt: cxAt, cancelDelay: cxDelay}
			if cxOn && cxAt >= 0 {
				in.cancel = cancel
			}
			if i < len(orc) {
				in.oracle = splitNE(orc[i], ",")
			}
			insts[i] = in
			srv := httptest.NewUnstartedServer(in)
			srv.Config.ErrorLog = nil
			srv.Start()
			defer srv.Close()
			var gc gunConf
			err := config.Decode(map[string]any{"gun": gunOptions(kv["go"], srv.Listener.Addr().String())}, &gc)
			if err != nil {
				result = "err=gunconf:" + esc(err.Error())
				return
			}
			g, err := gc.Gun()
			if err != nil {
				result = "err=gun:" + esc(err.Error())
				return
			}
			if err := g.Bind(netsample.WrapAggregator(in), core.GunDeps{Ctx: ctx, Log: gunLogger(kv["go"]), InstanceID: i, PoolID: "p"}); err != nil {
				result = "err=bind:" + esc(err.Error())
				return
			}
			guns[i] = g
		}
		// ub=1: a calibrator sleeps 20 ms over and over while the case runs; the largest oversleep it saw bounds what the
		// scheduler did to sleeping goroutines during the case (see pauseTooLong)
		var calMax atomic.Int64
		if kv["ub"] == "1" {
			stopCal := make(chan struct{})
			defer close(stopCal)
			go func() {
				for {
					select {
					case <-stopCal:
						return
					default:
					}
					t0 := time.Now()
					time.Sleep(20 * time.Millisecond)
					if over := int64(time.Since(t0) - 20*time.Millisecond); over > calMax.Load() {
						calMax.Store(over)
					}
				}
			}()
		}
		var wg sync.WaitGroup
		panics := make([]string, nInst)
		for i := range insts {
			wg.Add(1)
			go func(i int) {
				defer wg.Done()
				in := insts[i]
				defer func() {
					if r := recover(); r != nil {
						panics[i] = panicClass(r)
					}
				}()
				// ub=1 (round 4): upper bound of the pauses, see pauseTooLong
				var gapLog [][]time.Duration
				var sleepsOf []time.Duration
				defer func() {
					if kv["ub"] == "1" {
						in.mu.Lock()
						for _, k := range pauseTooLong(gapLog, sleepsOf, time.Duration(calMax.Load())) {
							in.events = append(in.events, "V~long~"+strconv.Itoa(k))
						}
						in.mu.Unlock()
					}
				}()
				for j := i; j < len(ammos); j += nInst {
					a := ammos[j]
					in.mu.Lock()
					start := len(in.events)
					in.events = append(in.events, "S~"+strconv.Itoa(j)+"~"+esc(a.Name))
					in.rtimes = in.rtimes[:0]
					in.mu.Unlock()
					t0 := time.Now()
					guns[i].Shoot(a)
					t1 := time.Now()
					in.mu.Lock()
					// pauses: a successful step k is followed by at least Requests[k].Sleep before the next request / the end
					okSteps := 0
					for _, ev := range in.events[start:] {
						if strings.HasPrefix(ev, "P~") && strings.HasSuffix(ev, "~0") {
							okSteps++
						}
					}
					var gaps []time.Duration
					for k := 0; k < okSteps && k < len(in.rtimes) && k < len(a.Requests); k++ {
						next := t1
						if k+1 < len(in.rtimes) {
							next = in.rtimes[k+1]
						}
						if next.Sub(in.rtimes[k]) < a.Requests[k].Sleep {
							in.events = append(in.events, "V~pause~"+strconv.Itoa(k))
						}
						gaps = append(gaps, next.Sub(in.rtimes[k]))
					}
					if okSteps == len(a.Requests) && len(gaps) == len(a.Requests) {
						gapLog = append(gapLog, gaps)
						sleepsOf = sleepsOf[:0]
						for _, rq := range a.Requests {
							sleepsOf = append(sleepsOf, rq.Sleep)
						}
					}
					if okSteps == len(a.Requests) && t1.Sub(t0) < a.MinWaitingTime {
						in.events = append(in.events, "V~mwt")
					}
					in.mu.Unlock()
				}
			}(i)
		}
		wg.Wait()
		var parts []string
		var draws, draws2 []int
		for i, in := range insts {
			if panics[i] != "" {
				in.events = append(in.events, "X~"+panics[i])
			}
			parts = append(parts, fmt.Sprintf("i%d=%s", i, strings.Join(in.events, "|")))
			draws = append(draws, in.draws...)
			draws2 = append(draws2, in.draws2...)
		}
		sort.Ints(draws)
		var ds []string
		for _, d := range draws {
			ds = append(ds, strconv.Itoa(d))
		}
		result = "ok " + strings.Join(parts, " ") + " rows=" + strings.Join(ds, ",")
		if jsonFile != "" {
			sort.Ints(draws2)
			var ds2 []string
			for _, d := range draws2 {
				ds2 = append(ds2, strconv.Itoa(d))
			}
			result += " rows2=" + strings.Join(ds2, ",")
		}
	}()
	return result
}

// runDecoyPool (round 4; every kind=gun case unless decoy=0): ANOTHER pool of the same process — a second provider whose ammo file uses the same
// scenario and request names with different texts (every URI is /<name>/decoy, no body, no processors) and a gun of its own
// shoot a few times at a target of their own BEFORE the pool under observation is created. Nothing of it belongs to the
// observation; state kept per process instead of per provider / per gun (a package-level templater or cache, a pooled
// object) leaks from it into the observed pool.
func runDecoyPool(kv map[string]string, csvFile, jsonFile string, seq int64) {
	defer func() { _ = recover() }()
	var defs []string
	for _, r := range parseReqs(kv["rq"]) {
		defs = append(defs, r.name+":G::cdecoy:::")
	}
	kv2 := map[string]string{"rq": strings.Join(defs, ";"), "sc": kv["sc"]}
	file := fmt.Sprintf("c15-decoy-%d.yaml", seq)
	writeFile(file, gunYAML(kv2, csvFile, jsonFile))
	defer func() { _ = memFs.Remove(file) }()
	p, err := newProvider(file)
	if err != nil {
		return
	}
	ammos := acquire(p, 3)
	in := &instance{idx: 99, reqs: map[string]reqDef{}}
	srv := httptest.NewUnstartedServer(in)
	srv.Config.ErrorLog = nil
	srv.Start()
	defer srv.Close()
	var gc gunConf
	if err := config.Decode(map[string]any{"gun": gunOptions("", srv.Listener.Addr().String())}, &gc); err != nil {
		return
	}
	g, err := gc.Gun()
	if err != nil {
		return
	}
	ctx, cancel := context.WithCancel(context.Background())
	defer cancel()
	if err := g.Bind(netsample.WrapAggregator(in), core.GunDeps{Ctx: ctx, Log: zap.NewNop(), InstanceID: 99, PoolID: "decoy"}); err != nil {
		return
	}
	for _, a := range ammos {
		g.Shoot(a)
	}
	if c, ok := g.(io.Closer); ok {
		_ = c.Close()
	}
}

// pauseTooLong (round 4, cases with ub=1: one instance, one scenario, every shot successful): the steps whose pause was
// LONGER than stated. gaps[shot][k] = time from the receipt of request k to the receipt of the next one (or the end of
// the shot). Two calibrations taken during the same case: o = the largest gap of the steps WITHOUT a stated pause (the
// overhead of a step), os = the largest oversleep of a goroutine of the harness that sleeps 20 ms over and over (what the
// scheduler does to sleepers). A step with a stated pause P >= 40 ms is reported only when in EVERY one of at least four
// shots its gap exceeded 1.5*P + 4*o + 3*os + 30 ms. A loaded machine inflates o and os and with them the bound (then
// nothing is reported — the first version, without os and with P + 4*o + 50 ms over three shots, gave one false alarm in
// 160 cases at load 170); a gun that sleeps twice the stated time, or in a coarser unit, exceeds it on every shot of a
// calm machine.
func pauseTooLong(gaps [][]time.Duration, sleeps []time.Duration, os time.Duration) []int {
	if len(gaps) < 4 {
		return nil
	}
	var o time.Duration
	calibrated := false
	for _, g := range gaps {
		if len(g) != len(sleeps) {
			return nil
		}
		for k, d := range g {
			if sleeps[k] == 0 {
				calibrated = true
				if d > o {
					o = d
				}
			}
		}
	}
	if !calibrated {
		return nil
	}
	var out []int
	for k, p := range sleeps {
		if p < 40*time.Millisecond {
			continue
		}
		min := gaps[0][k]
		for _, g := range gaps[1:] {
			if g[k] < min {
				min = g[k]
			}
		}
		if min > p+p/2+4*o+3*os+30*time.Millisecond {
			out = append(out, k)
		}
	}
	return out
}

var _ = bufio.NewReader
var _ = httpscenario.EmptyTag
