package main

// kind=first: FIRST-USE interleavings of `[next]` across instances.
//
// One provider, `rounds` scenarios s<j> = [r<j>] (each scenario has its own NextIterator, each request its own
// preprocessor object `v0 = source.users[next].id`). In round j all `inst` instances (real http/scenario guns, one
// scripted listener each) shoot scenario j AT THE SAME MOMENT — this is the first lookup of the path on a fresh
// iterator — and then `shots-1` more times each, free-running. The rows the targets saw in a round must be, as a
// multiset, {k mod L | k < inst*shots}: consecutive rows, each handed out once per lap, over ALL instances.
//
//	mode=par  the instances meet at a spin barrier placed in the ammo's VariableStorage (`Shoot` reads the source variables
//	          right before the first preprocessor runs): the last one to arrive releases all
//	mode=ctl  controlled schedule: the harness takes the iterator's own sync.Mutex (found by reflection: field `mx`
//	          of type sync.Mutex of the object behind the preprocessor's `iterator`), lets every instance queue up
//	          in its first Lock() for more than the mutex's starvation threshold (1 ms), releases and immediately
//	          re-takes the mutex (the woken waiter finds it taken after > 1 ms and switches the mutex to starvation
//	          mode) and releases it for good. In starvation mode every Unlock hands the mutex to the longest waiting
//	          goroutine and a new Lock() queues at the tail: the critical sections of the instances run strictly in
//	          FIFO order, so a `Next` made of TWO critical sections (lookup; insert) has all its lookups executed
//	          before the first insert. A `Next` that is one critical section is unaffected by any of this.
//	          When the mutex cannot be found (field renamed, other lock type) the round falls back to mode=par.
//
// Observation: `ok n=<rounds> distinct=<m1>/<m2>/…` — the distinct sorted row multisets seen over the rounds (one
// for a correct iterator, whatever the schedule). A case stops early after 10 s (the rounds done so far count).

import (
	"context"
	"fmt"
	"net/http/httptest"
	"reflect"
	"runtime"
	"sort"
	"strconv"
	"strings"
	"sync"
	"sync/atomic"
	"time"
	"unsafe"

	httpscenario "github.com/yandex/pandora/components/guns/http_scenario"
	"github.com/yandex/pandora/core"
	"github.com/yandex/pandora/core/aggregator/netsample"
	"github.com/yandex/pandora/core/config"
	"go.uber.org/zap"
)

// barrierVS is a SourceStorage whose first `n` calls meet at a spin barrier: the last one to arrive releases all. A
// short bare spin keeps the early ones on their CPUs, after that they yield (a bare spin starves the others when the
// machine is oversubscribed).
type barrierVS struct {
	inner   httpscenario.SourceStorage
	n       int32
	arrived atomic.Int32
}

func (b *barrierVS) Variables() map[string]any {
	if b.arrived.Add(1) <= b.n {
		for i := 0; b.arrived.Load() < b.n; i++ {
			if i > 3000 {
				runtime.Gosched()
			}
		}
	}
	return b.inner.Variables()
}

// iterMutex finds the sync.Mutex guarding the NextIterator shared by the steps of a scenario ammo.
func iterMutex(a *httpscenario.Scenario) (mx *sync.Mutex) {
	defer func() {
		if r := recover(); r != nil {
			mx = nil
		}
	}()
	if unsafe.Sizeof(sync.Mutex{}) != 8 {
		return nil
	}
	for _, rq := range a.Requests {
		v := reflect.ValueOf(rq.Preprocessor)
		if v.Kind() != reflect.Ptr || v.IsNil() || v.Elem().Kind() != reflect.Struct {
			continue
		}
		f := v.Elem().FieldByName("iterator")
		if !f.IsValid() || f.Kind() != reflect.Interface || f.IsNil() {
			continue
		}
		it := f.Elem()
		if it.Kind() != reflect.Ptr || it.IsNil() || it.Elem().Kind() != reflect.Struct {
			continue
		}
		s := it.Elem()
		for i := 0; i < s.NumField(); i++ {
			fl := s.Field(i)
			if fl.Type() == reflect.TypeOf(sync.Mutex{}) && fl.CanAddr() {
				return (*sync.Mutex)(unsafe.Pointer(fl.UnsafeAddr()))
			}
		}
	}
	return nil
}

// state word of a sync.Mutex (first field, int32): bit0 locked, bit1 woken, bit2 starving, bits 3.. waiters
func mutexState(mx *sync.Mutex) int32 { return atomic.LoadInt32((*int32)(unsafe.Pointer(mx))) }

func firstYAML(rounds int, csvFile string) string {
	var b strings.Builder
	fmt.Fprintf(&b, "\"variable_sources\":\n  - \"type\": \"file/csv\"\n    \"name\": \"users\"\n    \"file\": %s\n    \"fields\": [\"id\", \"name\"]\n", yq(csvFile))
	b.WriteString("\"requests\":\n")
	for j := 0; j < rounds; j++ {
		n := "r" + strconv.Itoa(j)
		fmt.Fprintf(&b, "  - \"name\": %s\n    \"method\": \"GET\"\n    \"uri\": %s\n", yq(n), yq("/"+n))
		fmt.Fprintf(&b, "    \"headers\":\n      \"X-C15-Run\": %s\n      \"X-N-v0\": %s\n", yq(runNonce), yq("{{.request."+n+".preprocessor.v0}}"))
		fmt.Fprintf(&b, "    \"preprocessor\":\n      \"mapping\":\n        \"v0\": \"source.users[next].id\"\n")
	}
	b.WriteString("\"scenarios\":\n")
	for j := 0; j < rounds; j++ {
		fmt.Fprintf(&b, "  - \"name\": %s\n    \"weight\": 1\n    \"min_waiting_time\": 0\n    \"requests\": [%s]\n", yq("s"+strconv.Itoa(j)), yq("r"+strconv.Itoa(j)))
	}
	return b.String()
}

func runFirst(kv map[string]string) (obs string) {
	setup()
	nInst, _ := strconv.Atoi(kv["inst"])
	shots, _ := strconv.Atoi(kv["shots"])
	rows, _ := strconv.Atoi(kv["L"])
	rounds, _ := strconv.Atoi(kv["rounds"])
	if nInst < 1 || nInst > 64 || shots < 1 || shots > 64 || rows < 1 || rounds < 1 || rounds > 400 {
		return "err=badcase"
	}
	ctl := kv["mode"] == "ctl"
	seq := fileSeq.Add(1)
	csvFile := fmt.Sprintf("c15-users-%d.csv", seq)
	file := fmt.Sprintf("c15-first-%d.yaml", seq)
	var csv strings.Builder
	for i := 0; i < rows; i++ {
		fmt.Fprintf(&csv, "u%d,n%d\n", i, i)
	}
	writeFile(csvFile, csv.String())
	writeFile(file, firstYAML(rounds, csvFile))
	defer func() { _ = memFs.Remove(file); _ = memFs.Remove(csvFile) }()
	defer func() {
		if r := recover(); r != nil {
			obs = panicClass(r)
		}
	}()
	p, err := newProvider(file)
	if err != nil {
		return errClass(err)
	}
	ammos := acquire(p, rounds)
	if len(ammos) != rounds {
		return fmt.Sprintf("err=acquired:%d", len(ammos))
	}
	byName := map[string]*httpscenario.Scenario{}
	for _, a := range ammos {
		byName[a.Name] = a
	}
	insts := make([]*instance, nInst)
	guns := make([]core.Gun, nInst)
	ctx, cancel := context.WithCancel(context.Background())
	defer cancel()
	for i := range insts {
		in := &instance{idx: i, reqs: map[string]reqDef{}, rows: rows}
		insts[i] = in
		srv := httptest.NewUnstartedServer(in)
		srv.Config.ErrorLog = nil
		srv.Start()
		defer srv.Close()
		var gc gunConf
		if err := config.Decode(map[string]any{"gun": map[string]any{"type": "http/scenario", "target": srv.Listener.Addr().String()}}, &gc); err != nil {
			return "err=gunconf:" + esc(err.Error())
		}
		g, err := gc.Gun()
		if err != nil {
			return "err=gun:" + esc(err.Error())
		}
		if err := g.Bind(netsample.WrapAggregator(in), core.GunDeps{Ctx: ctx, Log: zap.NewNop(), InstanceID: i, PoolID: "p"}); err != nil {
			return "err=bind:" + esc(err.Error())
		}
		guns[i] = g
	}
	// warm the connections up on a scenario of their own? No: every scenario is used for exactly one round, and a
	// round needs no warm connection — the [next] lookup happens in the preprocessor, before anything is sent.
	seen := map[string]bool{}
	var order []string
	panicked := ""
	var pmu sync.Mutex
	began := time.Now()
	for j := 0; j < rounds; j++ {
		if j > 0 && time.Since(began) > 10*time.Second {
			break // time budget (loaded machine, race detector): the rounds done so far are the observation
		}
		a := byName["s"+strconv.Itoa(j)]
		if a == nil {
			return "err=noscenario"
		}
		for _, in := range insts {
			in.mu.Lock()
			in.draws = in.draws[:0]
			in.events = in.events[:0]
			in.mu.Unlock()
		}
		var mx *sync.Mutex
		if ctl {
			mx = iterMutex(a) // nil (-> spin barrier) when the iterator has no sync.Mutex field any more
		}
		var ready, wg sync.WaitGroup
		if mx != nil {
			mx.Lock()
		} else {
			// the barrier sits in the ammo's public VariableStorage: `Shoot` asks it for the source variables right
			// before it runs the first step's preprocessor
			a.VariableStorage = &barrierVS{inner: a.VariableStorage, n: int32(nInst)}
		}
		for i := 0; i < nInst; i++ {
			wg.Add(1)
			ready.Add(1)
			go func(i int) {
				defer wg.Done()
				defer func() {
					if r := recover(); r != nil {
						pmu.Lock()
						panicked = panicClass(r)
						pmu.Unlock()
					}
				}()
				ready.Done()
				for k := 0; k < shots; k++ {
					guns[i].Shoot(a)
				}
			}(i)
		}
		ready.Wait()
		if mx != nil {
			// every instance queues up in its first Lock()
			deadline := time.Now().Add(time.Second)
			for int(mutexState(mx)>>3) < nInst && time.Now().Before(deadline) {
				time.Sleep(50 * time.Microsecond)
			}
			if int(mutexState(mx)>>3) == 0 {
				ctl = false // nobody takes this mutex on the way to the first row: no point in waiting again
			}
			time.Sleep(3 * time.Millisecond) // > starvation threshold (1 ms)
			mx.Unlock()
			mx.Lock() // barge in front of the woken waiter: it finds the mutex taken after > 1 ms -> starvation mode
			deadline = time.Now().Add(200 * time.Millisecond)
			for mutexState(mx)&4 == 0 && time.Now().Before(deadline) {
				time.Sleep(20 * time.Microsecond)
			}
			mx.Unlock()
		}
		wg.Wait()
		var draws []int
		for _, in := range insts {
			in.mu.Lock()
			draws = append(draws, in.draws...)
			in.mu.Unlock()
		}
		sort.Ints(draws)
		ds := make([]string, len(draws))
		for i, d := range draws {
			ds[i] = strconv.Itoa(d)
		}
		m := strings.Join(ds, ",")
		if !seen[m] {
			seen[m] = true
			order = append(order, m)
		}
	}
	if panicked != "" {
		return panicked
	}
	sort.Strings(order)
	return fmt.Sprintf("ok n=%d distinct=%s", rounds, strings.Join(order, "/"))
}
