package main

// kind=prov: a generated scenario description (YAML, every key quoted) goes through the REAL registered
// `http/scenario` provider plugin (config decode -> ReadAmmoConfig -> decodeAmmo); the provider is run and
// n ammo are acquired: the ring (scenario names in delivery order) and the expanded step list of every
// delivered scenario are the observation.

import (
	"context"
	"fmt"
	"strconv"
	"strings"
	"sync"
	"sync/atomic"
	"time"

	"github.com/spf13/afero"
	httpscenario "github.com/yandex/pandora/components/guns/http_scenario"
	scnimport "github.com/yandex/pandora/components/providers/scenario/import"
	"github.com/yandex/pandora/core"
	"github.com/yandex/pandora/core/config"
	coreimport "github.com/yandex/pandora/core/import"
	"go.uber.org/zap"

	"verifharness/drv"
)

var (
	setupOnce sync.Once
	memFs     = afero.NewMemMapFs()
	fileSeq   atomic.Int64
)

func setup() {
	setupOnce.Do(func() {
		coreimport.Import(memFs)
		httpscenario.Import(memFs)
		scnimport.Import(memFs)
		// core/config compiles its decode hooks lazily on first use (the real program decodes its config on one
		// goroutine): do that once here, before the parallel workers start decoding
		var warm struct{}
		_ = config.Decode(map[string]any{}, &warm)
	})
}

func writeFile(name, content string) {
	if err := afero.WriteFile(memFs, name, []byte(content), 0o644); err != nil {
		panic(err)
	}
}

type poolConf struct {
	Ammo core.Provider `config:"ammo"`
}

func newProvider(file string) (core.Provider, error) { return newProviderPL(file, "") }

// newProviderPL: pl = "<passes>,<limit>" sets the provider options `passes` / `limit` (0 = unlimited)
func newProviderPL(file, pl string) (core.Provider, error) {
	var pc poolConf
	m := map[string]any{"type": "http/scenario", "file": file}
	if f := strings.Split(pl, ","); len(f) == 2 {
		if v, err := strconv.Atoi(f[0]); err == nil {
			m["passes"] = v
		}
		if v, err := strconv.Atoi(f[1]); err == nil {
			m["limit"] = v
		}
	}
	err := config.Decode(map[string]any{"ammo": m}, &pc)
	return pc.Ammo, err
}

func provYAML(kv map[string]string) string {
	var b strings.Builder
	b.WriteString("\"requests\":\n")
	for _, n := range splitNE(kv["rq"], "|") {
		n = unesc(n)
		fmt.Fprintf(&b, "  - \"name\": %s\n    \"method\": \"GET\"\n    \"uri\": \"/\"\n", yq(n))
	}
	if kv["rq"] == "" {
		b.Reset()
		b.WriteString("\"requests\": []\n")
	}
	yamlScenarios(&b, parseSc(kv["sc"]))
	return b.String()
}

// acquire runs the provider and takes n ammo; the provider is stopped by cancelling its context. A provider whose
// Run has returned and whose sink stays empty (no ammo at all) ends the acquisition.
func acquire(p core.Provider, n int) []*httpscenario.Scenario {
	ctx, cancel := context.WithCancel(context.Background())
	done := make(chan struct{})
	go func() {
		defer close(done)
		_ = p.Run(ctx, core.ProviderDeps{Log: zap.NewNop(), PoolID: "p"})
	}()
	ch := make(chan core.Ammo)
	stop := make(chan struct{})
	go func() {
		for {
			a, ok := p.Acquire()
			if !ok {
				close(ch)
				return
			}
			select {
			case ch <- a:
			case <-stop:
				return
			}
		}
	}()
	var out []*httpscenario.Scenario
	runDone := false
loop:
	for len(out) < n {
		if !runDone {
			select {
			case a, ok := <-ch:
				if !ok {
					break loop
				}
				out = append(out, a.(*httpscenario.Scenario))
			case <-done:
				runDone = true
			}
			continue
		}
		select {
		case a, ok := <-ch:
			if !ok {
				break loop
			}
			out = append(out, a.(*httpscenario.Scenario))
		case <-time.After(100 * time.Millisecond):
			break loop
		}
	}
	close(stop)
	cancel()
	select {
	case <-done:
	case <-time.After(5 * time.Second):
	}
	return out
}

// describeSteps: `<scenario>@<mwt>[<step>/<pause>,…]`; a run of k > 1 equal consecutive entries is written once as
// `<step>/<pause>*k` (round 6: scenarios of up to 2^20 steps are within the domain)
func describeSteps(s *httpscenario.Scenario) string {
	var parts []string
	prevName, prevSleep, run := "", int64(0), 0
	flush := func() {
		if run == 0 {
			return
		}
		e := esc(prevName) + "/" + strconv.FormatInt(prevSleep, 10)
		if run > 1 {
			e += "*" + strconv.Itoa(run)
		}
		parts = append(parts, e)
	}
	for i := range s.Requests {
		r := &s.Requests[i]
		ms := int64(r.Sleep / time.Millisecond)
		if run > 0 && r.Name == prevName && ms == prevSleep {
			run++
			continue
		}
		flush()
		prevName, prevSleep, run = r.Name, ms, 1
	}
	flush()
	return esc(s.Name) + "@" + strconv.FormatInt(int64(s.MinWaitingTime/time.Millisecond), 10) + "[" + strings.Join(parts, ",") + "]"
}

func panicClass(r any) string {
	m := fmt.Sprint(r)
	switch {
	case strings.Contains(m, "index out of range"):
		return "panic:index"
	case strings.Contains(m, "makeslice"):
		return "panic:makeslice"
	case strings.Contains(m, "divide by zero"):
		return "panic:div0"
	}
	return "panic:" + esc(m)
}

func runProv(kv map[string]string) (obs string) {
	setup()
	defer func() {
		if r := recover(); r != nil {
			obs = panicClass(r)
		}
	}()
	n, _ := strconv.Atoi(kv["n"])
	file := fmt.Sprintf("c15-prov-%d.yaml", fileSeq.Add(1))
	writeFile(file, provYAML(kv))
	defer func() { _ = memFs.Remove(file) }()
	p, err := newProviderPL(file, kv["pl"])
	if err != nil {
		return errClass(err)
	}
	ammos := acquire(p, n)
	var ring, descr []string
	seenScn := map[string]bool{}
	for _, a := range ammos {
		ring = append(ring, esc(a.Name))
		// distinct scenario objects are recognised by (name, steps) text: clones share Requests
		d := describeSteps(a)
		if !seenScn[d] {
			seenScn[d] = true
			descr = append(descr, d)
		}
	}
	return "ok ring=" + strings.Join(ring, "|") + " sc=" + strings.Join(descr, ";")
}

var _ = drv.Clean
