package main

// C15 correspondence driver: scenario descriptions -> REAL scenario provider (expanded step lists, ring) and
// REAL http/scenario gun against scripted targets (request log, samples, data-source rows), compared with the
// Lean model (lean/Pandora/Model/C15*.lean) by lean/Pandora/Drv/C15.lean.

import (
	"bufio"
	"bytes"
	"fmt"
	"io"
	"os"
	"os/exec"
	"strings"
	"sync"
	"time"

	"verifharness/drv"
)

// ---- child processes -------------------------------------------------------------------------------------------
//
// The cases are executed in child processes (this binary with C15_CHILD=1, one case at a time per child, protocol:
// one input line in, one observation line out). A Go runtime FATAL error of the code under test — `concurrent map
// writes`, a detected data race in the -race build (GORACE=halt_on_error=1), a deadlock — cannot be recovered in
// process and would take the whole run down without naming a case; this way it kills one child, the case in flight
// gets the observation `FATAL <first line of the runtime's message>` (a concrete failing input) and a fresh child
// takes over.

type child struct {
	cmd    *exec.Cmd
	in     io.WriteCloser
	out    *bufio.Reader
	errBuf *tailBuf
}

type tailBuf struct {
	mu sync.Mutex
	b  bytes.Buffer
}

func (t *tailBuf) Write(p []byte) (int, error) {
	t.mu.Lock()
	defer t.mu.Unlock()
	if t.b.Len() < 1<<16 {
		t.b.Write(p)
	}
	return len(p), nil
}

func (t *tailBuf) firstFatal() string {
	t.mu.Lock()
	defer t.mu.Unlock()
	for _, l := range strings.Split(t.b.String(), "\n") {
		l = strings.TrimSpace(l)
		switch {
		case strings.HasPrefix(l, "fatal error:"), strings.HasPrefix(l, "WARNING: DATA RACE"), strings.HasPrefix(l, "panic:"):
			return l
		}
	}
	return "child process died"
}

func startChild() (*child, error) {
	cmd := exec.Command(os.Args[0])
	cmd.Env = append(os.Environ(), "C15_CHILD=1", "GORACE=halt_on_error=1")
	in, err := cmd.StdinPipe()
	if err != nil {
		return nil, err
	}
	out, err := cmd.StdoutPipe()
	if err != nil {
		return nil, err
	}
	tb := &tailBuf{}
	cmd.Stderr = tb
	cmd.WaitDelay = 2 * time.Second
	if err := cmd.Start(); err != nil {
		return nil, err
	}
	return &child{cmd: cmd, in: in, out: bufio.NewReaderSize(out, 1<<20), errBuf: tb}, nil
}

func (c *child) kill() {
	_ = c.in.Close()
	_ = c.cmd.Process.Kill()
	// Wait (not Process.Wait): it returns when the child's stderr has been copied into errBuf, so that firstFatal sees
	// the runtime's message of a child that died by itself; WaitDelay bounds it
	_ = c.cmd.Wait()
}

var (
	poolOnce sync.Once
	pool     chan *child
)

const nChildren = 4

func runViaChild(input string) string { return runViaChildT(input, 25*time.Second, false) }

// runAlone: the second run of a case on which the driver gave up (drv.Prop.GaveUp): a fresh child process, nothing else
// in flight, four times the time limit.
func runAlone(input string) string { return runViaChildT(input, 100*time.Second, true) }

// gaveUp: the driver's own time limit, a child that died without a message of the Go runtime (killed from outside) or
// could not be started. `FATAL fatal error: …`, `FATAL WARNING: DATA RACE`, `FATAL panic: …` say what the code under
// test did and are never run again.
func gaveUp(obs string) bool {
	return obs == "HANG" || obs == "FATAL child process died" || strings.HasPrefix(obs, "err=child:")
}

func runViaChildT(input string, limit time.Duration, fresh bool) string {
	poolOnce.Do(func() {
		pool = make(chan *child, nChildren)
		for i := 0; i < nChildren; i++ {
			pool <- nil // started lazily
		}
	})
	c := <-pool
	if c != nil && fresh {
		c.kill()
		c = nil
	}
	if c == nil {
		var err error
		if c, err = startChild(); err != nil {
			pool <- nil
			return "err=child:" + esc(err.Error())
		}
	}
	type res struct {
		line string
		err  error
	}
	done := make(chan res, 1)
	go func() {
		if _, err := io.WriteString(c.in, input+"\n"); err != nil {
			done <- res{"", err}
			return
		}
		l, err := c.out.ReadString('\n')
		done <- res{strings.TrimRight(l, "\n"), err}
	}()
	select {
	case r := <-done:
		if r.err != nil {
			c.kill()
			pool <- nil
			return "FATAL " + drv.Clean(c.errBuf.firstFatal())
		}
		pool <- c
		return r.line
	case <-time.After(limit):
		c.kill()
		pool <- nil
		return "HANG"
	}
}

func childLoop() {
	in := bufio.NewReaderSize(os.Stdin, 1<<20)
	out := bufio.NewWriter(os.Stdout)
	for {
		l, err := in.ReadString('\n')
		if err != nil {
			return
		}
		obs := func() (o string) {
			defer func() {
				if r := recover(); r != nil {
					o = "PANIC " + drv.Clean(fmt.Sprint(r))
				}
			}()
			return run(strings.TrimRight(l, "\n"))
		}()
		_, _ = out.WriteString(strings.ReplaceAll(obs, "\n", " ") + "\n")
		_ = out.Flush()
	}
}

func run(input string) string {
	kv := drv.KV(input)
	switch kv["kind"] {
	case "prov":
		return runProv(kv)
	case "gun":
		return runGun(kv)
	case "first":
		return runFirst(kv)
	}
	return "err=badkind"
}

func class(input, obs string) string {
	kv := drv.KV(input)
	c := kv["kind"]
	switch {
	case strings.HasPrefix(obs, "FATAL"):
		return c + "/fatal"
	case strings.HasPrefix(obs, "panic"):
		return c + "/panic"
	case strings.HasPrefix(obs, "err="):
		return c + "/" + strings.SplitN(obs, ":", 2)[0]
	}
	if c == "prov" {
		if strings.Count(kv["sc"], ";") > 0 {
			return "prov/weighted"
		}
		return "prov/single"
	}
	if c == "first" {
		return "first/" + kv["mode"] + "/inst" + kv["inst"]
	}
	if c == "gun" {
		k := "gun/inst" + kv["inst"]
		// round 6: the focused dimensions are reported separately
		if kv["cx"] != "" {
			k = "gun/cancel/inst" + kv["inst"]
		} else if kv["tm"] != "" {
			k = "gun/templater-" + kv["tm"] + "/inst" + kv["inst"]
		}
		if strings.Contains(obs, "~1|") || strings.HasSuffix(obs, "~1") || strings.Contains(obs, "~1 ") {
			return k + "/failed-step"
		}
		return k + "/all-ok"
	}
	return ""
}

func main() {
	if os.Getenv("C15_CHILD") == "1" {
		childLoop()
		return
	}
	defer func() {
		if pool == nil {
			return
		}
		for i := 0; i < nChildren; i++ {
			select {
			case c := <-pool:
				if c != nil {
					c.kill()
				}
			default:
			}
		}
	}()
	drv.Main(&drv.Prop{
		ID:      "C15",
		Gen:     gen,
		Run:     runViaChild,
		Class:   class,
		Workers: 4,
		Timeout: 30 * time.Second,
		// a case the driver gave up on is run once more, alone, in a fresh child with a larger limit (drv.Prop.GaveUp)
		GaveUp:       gaveUp,
		RunAlone:     runAlone,
		AloneTimeout: 110 * time.Second,
		Rule: "kind=prov: random request lists (name(n,sleep), sleep(ms), malformed items, several weighted scenarios, duplicate names) through the real http/scenario provider plugin; " +
			"kind=gun: random scenarios with chains of captured variables (what a request captures is mostly rendered by the request defined next; the first scenario often lists every request in definition order), [next]/[idx]/[last]/[rand] preprocessors, jsonpath/header extractors (header values through lower/upper/substr/replace modifier chains, several mapping entries per extractor, malformed modifiers) and assert/response blocks (status, body texts, header texts, size eq/lt/gt at and around the real body length, alone and combined) shot by the real http/scenario gun (1 and 4 instances) at scripted targets that fail chosen steps (transport, body cut short after the headers, bad JSON, missing key, status), data sources of 0..60 rows; plus focused three-request cases a|b|c for the postprocessors; every case runs in a child process so that a runtime fatal error (concurrent map writes, data race in the -race build) is attributed to its input; " +
			"kind=first: all instances (2..16) make the FIRST [next] lookup of a path on a fresh iterator at the same moment, under a schedule forced through the iterator's own mutex (mode=ctl) or released by a spin barrier (mode=par); " +
			"non-trivial = at least two steps or two scenarios or two instances",
	})
}
