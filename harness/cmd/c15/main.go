package main

// C15 correspondence driver: scenario descriptions -> REAL scenario provider (expanded step lists, ring) and
// REAL http/scenario gun against scripted targets (request log, samples, data-source rows), compared with the
// Lean model (lean/Pandora/Model/C15*.lean) by lean/Pandora/Drv/C15.lean.

import (
	"strings"
	"time"

	"verifharness/drv"
)

func run(input string) string {
	kv := drv.KV(input)
	switch kv["kind"] {
	case "prov":
		return runProv(kv)
	case "gun":
		return runGun(kv)
	case "first":
		return runFirst(kv)
	}
	return "err=badkind"
}

func class(input, obs string) string {
	kv := drv.KV(input)
	c := kv["kind"]
	switch {
	case strings.HasPrefix(obs, "panic"):
		return c + "/panic"
	case strings.HasPrefix(obs, "err="):
		return c + "/" + strings.SplitN(obs, ":", 2)[0]
	}
	if c == "prov" {
		if strings.Count(kv["sc"], ";") > 0 {
			return "prov/weighted"
		}
		return "prov/single"
	}
	if c == "first" {
		return "first/" + kv["mode"] + "/inst" + kv["inst"]
	}
	if c == "gun" {
		k := "gun/inst" + kv["inst"]
		if strings.Contains(obs, "~1|") || strings.HasSuffix(obs, "~1") || strings.Contains(obs, "~1 ") {
			return k + "/failed-step"
		}
		return k + "/all-ok"
	}
	return ""
}

func main() {
	drv.Main(&drv.Prop{
		ID:      "C15",
		Gen:     gen,
		Run:     run,
		Class:   class,
		Workers: 4,
		Timeout: 30 * time.Second,
		Rule: "kind=prov: random request lists (name(n,sleep), sleep(ms), malformed items, several weighted scenarios, duplicate names) through the real http/scenario provider plugin; " +
			"kind=gun: random scenarios with chains of captured variables, [next]/[idx]/[last]/[rand] preprocessors, jsonpath/header extractors and assertions shot by the real http/scenario gun (1 and 4 instances) at scripted targets that fail chosen steps (transport, bad JSON, missing key, status), data sources of 0..60 rows; " +
			"kind=first: all instances (2..16) make the FIRST [next] lookup of a path on a fresh iterator at the same moment, under a schedule forced through the iterator's own mutex (mode=ctl) or released by a spin barrier (mode=par); " +
			"non-trivial = at least two steps or two scenarios or two instances",
	})
}
