//go:build race

package main

// raceBuild: the driver was built with -race (the check runs the cases a second time under the race detector); the few
// accepted request lists AT the 2^20 limit are left to the ordinary build there (some hundred MB each, minutes under -race)
const raceBuild = true
