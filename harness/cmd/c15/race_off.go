//go:build !race

package main

const raceBuild = false
