//go:build !c05instr

package main

import (
	"context"

	"github.com/yandex/pandora/core/engine"
	"go.uber.org/zap"
)

// the plain worker: cli/cli.go's unexported functions are reachable only in the instrumented build (cli_on.go)

func cliAvailable() bool { return false }

func cliAwait(*engine.Engine, func(), chan error, *zap.Logger) {}

func cliRunEngine(context.Context, *engine.Engine, chan error) {}
