package main

import (
	"fmt"
	"math/rand"
	"strings"

	"verifharness/drv"
)

type pspec struct {
	inst, ammo, shots int
	per               int
	prov, agg         string
	gun               string
	fail              string
	slow              string
	ek                string // "" (plain errors) | "dl" (errors caused by the component's own context.DeadlineExceeded)
	pv                string // "" | err | int: the value of the planned panic
	rg                string // "" | a registered gun factory (real.go)
	su                string // "" (all instances at once) | step<ms> | inf<ms>
	blk               string // "" | the call of this pool that blocks and ignores every context (gen3.go)
	rs                string // "" (once) | step<ms> | past: the tokens of the rps schedule (use.go)
	do                int    // 1 = discard_overflow
	rp                string // "" | <kind>.<k>.<tail>: a provider of the repo's own over a written source (prov.go)
}

func basePool() pspec {
	return pspec{inst: 2, ammo: 4, shots: 3, per: 1, prov: "late.nil", agg: "late.nil", gun: "cw", fail: "-", slow: "-"}
}

func (p pspec) String() string {
	s := fmt.Sprintf("inst:%d,ammo:%d,shots:%d,per:%d,prov:%s,agg:%s,gun:%s,fail:%s,slow:%s",
		p.inst, p.ammo, p.shots, p.per, p.prov, p.agg, p.gun, p.fail, p.slow)
	if p.ek != "" {
		s += ",ek:" + p.ek
	}
	if p.pv != "" {
		s += ",pv:" + p.pv
	}
	if p.rg != "" {
		s += ",rg:" + p.rg
	}
	if p.su != "" {
		s += ",su:" + p.su
	}
	if p.blk != "" {
		s += ",blk:" + p.blk
	}
	if p.rs != "" {
		s += ",rs:" + p.rs
	}
	if p.do != 0 {
		s += ",do:1"
	}
	if p.rp != "" {
		s += ",rp:" + p.rp
	}
	return s
}

func line(cancel string, rep int, pools ...pspec) string {
	return lineX(cancel, "", rep, pools...)
}

// lineX: extra = further top-level tokens (hold=… cli=… sig=…)
func lineX(cancel, extra string, rep int, pools ...pspec) string {
	var b strings.Builder
	fmt.Fprintf(&b, "pools=%d cancel=%s rep=%d", len(pools), cancel, rep)
	if extra != "" {
		b.WriteString(" " + extra)
	}
	for i, p := range pools {
		fmt.Fprintf(&b, " p%d=%s", i, p.String())
	}
	return b.String()
}

type planT struct {
	cancel string
	pools  []pspec
	weight int    // 0 = normal repetition, 1 = expensive (hang-prone / slow): few repetitions
	extra  string // hold=… cli=… sig=…
}

func systematic() []planT {
	var out []planT
	add := func(cancel string, w int, pools ...pspec) {
		out = append(out, planT{cancel: cancel, pools: pools, weight: w})
	}
	with := func(f func(p *pspec)) pspec { p := basePool(); f(&p); return p }

	// clean runs: out-of-ammo ending, schedule ending, shared schedule, 0..3 instances
	for _, inst := range []int{0, 1, 2, 3} {
		for _, per := range []int{0, 1} {
			add("none", 0, with(func(p *pspec) { p.inst = inst; p.per = per; p.ammo = 3; p.shots = 5 }))
			add("none", 0, with(func(p *pspec) { p.inst = inst; p.per = per; p.ammo = 9; p.shots = 2 }))
		}
	}
	add("none", 0, with(func(p *pspec) { p.gun = "-" }))
	add("none", 0, with(func(p *pspec) { p.gun = "c" }))
	add("none", 0, with(func(p *pspec) { p.gun = "w" }))
	add("none", 0, with(func(p *pspec) { p.prov = "end.nil" }))
	add("none", 0, with(func(p *pspec) { p.prov = "late.ctx"; p.agg = "late.ctx" }))

	// provider / aggregator faults at each position
	for _, pos := range []string{"pre", "mid0", "mid1", "mid3", "end", "late"} {
		for _, per := range []int{0, 1} {
			add("none", 0, with(func(p *pspec) { p.prov = pos + ".err"; p.per = per }))
		}
	}
	add("none", 0, with(func(p *pspec) { p.prov = "late.err"; p.inst = 1; p.ammo = 1; p.shots = 1 }))
	add("none", 0, with(func(p *pspec) { p.prov = "late.err"; p.inst = 3; p.ammo = 2; p.shots = 5 }))
	add("none", 0, with(func(p *pspec) { p.prov = "end.err"; p.inst = 1; p.ammo = 1; p.shots = 1 }))
	for _, pos := range []string{"pre", "mid1", "mid2", "late"} {
		for _, per := range []int{0, 1} {
			add("none", 0, with(func(p *pspec) { p.agg = pos + ".err"; p.per = per }))
		}
	}
	add("none", 0, with(func(p *pspec) { p.agg = "late.err"; p.inst = 1; p.ammo = 1; p.shots = 1 }))
	add("none", 0, with(func(p *pspec) { p.agg = "late.err"; p.prov = "late.err" }))
	add("none", 0, with(func(p *pspec) { p.agg = "pre.err"; p.prov = "pre.err" }))

	// gun creation / bind / warm-up / schedule factory
	for _, f := range []string{"newgun@0", "newgun@1", "newgun@2", "newgun@3", "bind@1", "bind@2", "bind@3", "warmup",
		"sched@1", "sched@2", "sched@3"} {
		for _, per := range []int{0, 1} {
			w := 0
			if f == "sched@1" && per == 0 {
				w = 1
			}
			add("none", w, with(func(p *pspec) { p.fail = f; p.per = per; p.inst = 3 }))
		}
	}
	add("none", 0, with(func(p *pspec) { p.fail = "bind@1"; p.gun = "c"; p.inst = 1 }))
	add("none", 0, with(func(p *pspec) { p.fail = "bind@1"; p.gun = "-"; p.inst = 1 }))
	add("none", 0, with(func(p *pspec) { p.fail = "newgun@1+bind@1" }))
	add("none", 0, with(func(p *pspec) { p.fail = "bind@2+panic@1"; p.inst = 3 }))
	// shot panic at first / middle / last shot
	for _, k := range []int{1, 2, 4} {
		for _, per := range []int{0, 1} {
			add("none", 0, with(func(p *pspec) { p.fail = fmt.Sprintf("panic@%d", k); p.per = per; p.ammo = 4; p.shots = 4 }))
		}
	}
	add("none", 0, with(func(p *pspec) { p.fail = "panic@1"; p.prov = "late.err" }))
	// a panic value need not be a text: an error, an int
	for _, pv := range []string{"err", "int"} {
		for _, k := range []int{1, 3} {
			add("none", 2, with(func(p *pspec) { p.fail = fmt.Sprintf("panic@%d", k); p.pv = pv; p.ammo = 4; p.shots = 4 }))
		}
		add("none", 2, with(func(p *pspec) { p.fail = "panic@2"; p.pv = pv; p.per = 0; p.inst = 3 }), basePool())
	}
	// cancelled before the run starts: whatever fails then, the caller gets the cancellation error
	for _, f := range []string{"newgun@0", "warmup", "sched@1"} {
		add("pre", 2, with(func(p *pspec) { p.fail = f; p.per = 0 }))
		add("pre", 2, basePool(), with(func(p *pspec) { p.fail = f; p.per = 0 }))
	}

	// the same faults with errors whose CAUSE is a context-kind error that is not the engine's (the component's own
	// deadline): errutil.IsCtxError must compare with the error of the engine's context, not with "some context error"
	for _, pos := range []string{"pre", "mid1", "end", "late"} {
		add("none", 0, with(func(p *pspec) { p.prov = pos + ".err"; p.ek = "dl" }))
	}
	for _, pos := range []string{"pre", "mid1", "late"} {
		add("none", 0, with(func(p *pspec) { p.agg = pos + ".err"; p.ek = "dl" }))
	}
	add("none", 0, with(func(p *pspec) { p.prov = "late.err"; p.ek = "dl"; p.inst = 1; p.ammo = 1; p.shots = 1 }))
	add("none", 0, with(func(p *pspec) {
		p.agg = "late.err"
		p.ek = "dl"
		p.inst = 1
		p.ammo = 1
		p.shots = 1
		p.per = 0
	}))
	for _, f := range []string{"newgun@0", "newgun@1", "newgun@2", "bind@1", "bind@3", "warmup", "sched@1", "sched@2"} {
		add("none", 0, with(func(p *pspec) { p.fail = f; p.inst = 3; p.ek = "dl" }))
	}
	// a %w-wrapped context error (http provider, preload interrupted): a component failure for the engine
	for _, pos := range []string{"late", "end", "pre"} {
		add("none", 0, with(func(p *pspec) { p.prov = pos + ".err"; p.ek = "fw" }))
	}
	add("none", 0, with(func(p *pspec) { p.agg = "late.err"; p.ek = "fw" }))
	// a slow preload: no ammo before the context is done. Nothing to shoot (0 instances): the engine's own cancel
	// interrupts it; with instances the caller's cancel does (the instances wait for ammo)
	for _, ek := range []string{"fw", "", "dl"} {
		add("none", 0, with(func(p *pspec) { p.prov = "load.err"; p.ek = ek; p.inst = 0 }))
		for _, c := range []string{"pre", "warm", "bind"} {
			add(c, 0, with(func(p *pspec) { p.prov = "load.err"; p.ek = ek }))
		}
	}
	add("none", 0, with(func(p *pspec) { p.prov = "load.nil"; p.inst = 0 }))
	add("none", 0, with(func(p *pspec) { p.prov = "load.ctx"; p.inst = 0 }))
	add("bind", 0, with(func(p *pspec) { p.prov = "load.ctxw" }))
	// ... and the context's own error wrapped by the component (errors.Cause must be used): still a clean end
	add("none", 0, with(func(p *pspec) { p.prov = "late.ctxw"; p.agg = "late.ctxw" }))
	add("none", 0, with(func(p *pspec) { p.prov = "late.ctxw"; p.inst = 1; p.ammo = 1; p.shots = 1 }))

	// instances that never finish on their own (slow:block, endless ammo): the run context is live until the engine
	// reacts, so every component error - also one whose cause is a context.Canceled of the component's own (ek:cn) -
	// must come out as the failure of the run
	blk := func(f func(p *pspec)) pspec {
		p := basePool()
		p.ammo, p.shots, p.slow = -1, 50, "block"
		f(&p)
		return p
	}
	for _, ek := range []string{"cn", "dl", ""} {
		for _, per := range []int{0, 1} {
			add("none", 0, blk(func(p *pspec) { p.agg = "pre.err"; p.ek = ek; p.per = per }))
			add("none", 0, blk(func(p *pspec) { p.agg = "mid1.err"; p.ek = ek; p.per = per }))
		}
		for _, f := range []string{"newgun@0", "warmup", "newgun@1", "bind@1", "sched@1", "newgun@2", "bind@2", "sched@2"} {
			add("none", 0, blk(func(p *pspec) { p.fail = f; p.ek = ek }))
		}
		// the shared schedule runs out while one instance is still shooting: the instance start is cancelled,
		// the run is not
		add("none", 0, blk(func(p *pspec) { p.agg = "mid1.err"; p.ek = ek; p.per = 0; p.shots = 1 }))
		add("none", 0, blk(func(p *pspec) { p.fail = "bind@2"; p.ek = ek; p.per = 0; p.shots = 1; p.inst = 3 }))
	}
	add("shot1", 0, blk(func(p *pspec) {}))

	// external cancel at every phase, clean and with a failing component
	for _, c := range []string{"pre", "warm", "bind", "shot1", "shot2", "drain", "after"} {
		for _, per := range []int{0, 1} {
			add(c, 0, with(func(p *pspec) { p.per = per; p.ammo = 6; p.shots = 6 }))
		}
		add(c, 0, with(func(p *pspec) { p.prov = "late.err"; p.ammo = 6; p.shots = 6 }))
		add(c, 0, with(func(p *pspec) { p.agg = "late.err"; p.ammo = 6; p.shots = 6 }))
		add(c, 0, with(func(p *pspec) { p.ammo = -1; p.shots = 50; p.inst = 3 }))
	}
	add("shot1", 0, with(func(p *pspec) { p.fail = "panic@2"; p.ammo = 6; p.shots = 6 }))
	add("bind", 0, with(func(p *pspec) { p.fail = "bind@1" }))
	add("warm", 0, with(func(p *pspec) { p.fail = "warmup" }))
	// promptness: a component that ignores its context for a while after the cancel
	for _, s := range []string{"prov", "agg", "shot"} {
		add("shot1", 5, with(func(p *pspec) { p.slow = s; p.ammo = 6; p.shots = 6 }))
	}

	// two pools
	clean := basePool()
	add("none", 0, clean, clean)
	add("none", 0, with(func(p *pspec) { p.prov = "late.err" }), clean)
	add("none", 0, clean, with(func(p *pspec) { p.prov = "late.err" }))
	add("none", 0, with(func(p *pspec) { p.prov = "pre.err" }), with(func(p *pspec) { p.ammo = -1; p.shots = 1000 }))
	add("none", 0, with(func(p *pspec) { p.agg = "mid1.err" }), with(func(p *pspec) { p.prov = "mid1.err" }))
	add("none", 0, with(func(p *pspec) { p.fail = "warmup" }), clean)
	add("none", 0, with(func(p *pspec) { p.fail = "newgun@1" }), with(func(p *pspec) { p.ammo = -1; p.shots = 1000 }))
	add("none", 0, with(func(p *pspec) { p.fail = "panic@1" }), with(func(p *pspec) { p.fail = "bind@2" }))
	add("none", 1, with(func(p *pspec) { p.fail = "sched@1"; p.per = 0 }), clean)
	add("shot1@p1", 0, clean, with(func(p *pspec) { p.ammo = 6; p.shots = 6 }))
	add("shot2", 0, with(func(p *pspec) { p.ammo = -1; p.shots = 50 }), with(func(p *pspec) { p.ammo = -1; p.shots = 50 }))
	add("drain", 0, clean, with(func(p *pspec) { p.prov = "late.err" }))
	add("pre", 0, clean, clean)

	// three pools: the 1-slot result channel of Engine.Run takes one late result, the goroutine of the third pool
	// must leave through the engine context (goroutine leak otherwise)
	endless := with(func(p *pspec) { p.ammo = -1; p.shots = 1000 })
	add("none", 0, with(func(p *pspec) { p.prov = "pre.err" }), endless, endless)
	add("none", 0, clean, with(func(p *pspec) { p.agg = "late.err" }), clean)
	add("none", 0, clean, clean, clean)
	add("shot1@p2", 0, endless, endless, endless)

	// more instances than the run-result channel has slots (64): senders block until the await loop has read
	add("none", 1, with(func(p *pspec) { p.inst = 70; p.ammo = 150; p.shots = 3 }))
	add("none", 1, with(func(p *pspec) { p.inst = 70; p.ammo = 150; p.shots = 3; p.prov = "late.err" }))
	add("shot2", 1, with(func(p *pspec) { p.inst = 70; p.ammo = -1; p.shots = 50 }))
	add("none", 1, with(func(p *pspec) { p.inst = 70; p.ammo = 300; p.shots = 3; p.fail = "bind@66" }))
	return out
}

// exhaustiveSmall: thorough tier: the full cross product of one small pool's fault plan
// (provider x aggregator x factory/bind/warm-up/shot fault x schedule sharing x error kind x cancel)
func exhaustiveSmall() []planT {
	var out []planT
	for _, prov := range []string{"pre.err", "mid0.err", "end.err", "late.err", "end.nil", "late.nil", "late.ctx"} {
		for _, agg := range []string{"pre.err", "mid1.err", "late.err", "late.nil"} {
			for _, fail := range []string{"-", "newgun@0", "newgun@1", "newgun@2", "bind@1", "bind@2", "warmup", "sched@1", "sched@2", "panic@1"} {
				for per := 0; per < 2; per++ {
					if fail == "sched@1" && per == 0 {
						continue // the shared-factory failure: systematic plans (expensive on a tree that hangs there)
					}
					for _, ek := range []string{"", "dl"} {
						for _, c := range []string{"none", "shot1"} {
							p := basePool()
							p.inst, p.ammo, p.shots = 2, 2, 2
							p.prov, p.agg, p.fail, p.per, p.ek = prov, agg, fail, per, ek
							out = append(out, planT{cancel: c, pools: []pspec{p}})
						}
					}
				}
			}
		}
	}
	return out
}

func randomPlan(r *rand.Rand) planT {
	np := 1
	switch r.Intn(12) {
	case 0, 1, 2:
		np = 2
	case 3:
		np = 3
	}
	pl := planT{cancel: "none"}
	for i := 0; i < np; i++ {
		p := basePool()
		p.inst = r.Intn(4)
		if r.Intn(8) == 0 {
			p.inst = 4 + r.Intn(5)
		}
		if r.Intn(40) == 0 {
			p.inst = 60 + r.Intn(20) // around the 64 slots of the run-result channel
		}
		p.ammo = r.Intn(8)
		if r.Intn(6) == 0 {
			p.ammo = -1
		}
		p.shots = 1 + r.Intn(6)
		if p.ammo < 0 {
			p.shots = 20 + r.Intn(30)
		}
		p.per = r.Intn(2)
		p.gun = []string{"cw", "c", "w", "-"}[r.Intn(4)]
		switch r.Intn(5) {
		case 0:
			p.prov = []string{"pre", "mid0", "mid1", "mid2", "end", "late"}[r.Intn(6)] + ".err"
		case 1:
			p.prov = []string{"end.nil", "late.ctx", "late.nil", "late.ctxw"}[r.Intn(4)]
		}
		switch r.Intn(5) {
		case 0:
			p.agg = []string{"pre", "mid1", "mid2", "late"}[r.Intn(4)] + ".err"
		case 1:
			p.agg = []string{"late.ctx", "late.ctxw"}[r.Intn(2)]
		}
		switch r.Intn(8) {
		case 0, 1:
			p.ek = "dl"
		case 2:
			p.ek = "fw"
		}
		if r.Intn(3) == 0 {
			var fs []string
			for n := 1 + r.Intn(2); n > 0; n-- {
				switch r.Intn(5) {
				case 0:
					fs = append(fs, fmt.Sprintf("newgun@%d", r.Intn(4)))
				case 1:
					fs = append(fs, fmt.Sprintf("bind@%d", 1+r.Intn(3)))
				case 2:
					fs = append(fs, "warmup")
				case 3:
					k := 1 + r.Intn(3)
					if p.per == 0 && k == 1 {
						k = 2 // the shared-factory failure is covered by the systematic plans (expensive on a defective tree)
					}
					fs = append(fs, fmt.Sprintf("sched@%d", k))
				case 4:
					fs = append(fs, fmt.Sprintf("panic@%d", 1+r.Intn(4)))
				}
			}
			// keep at most one of each kind
			seen := map[string]bool{}
			var uniq []string
			for _, f := range fs {
				k := strings.SplitN(f, "@", 2)[0]
				if !seen[k] {
					seen[k] = true
					uniq = append(uniq, f)
				}
			}
			p.fail = strings.Join(uniq, "+")
		}
		if r.Intn(6) == 0 {
			p.su = []string{"step1", "step3", "inf2"}[r.Intn(3)]
			if p.su == "inf2" && p.ammo < 0 {
				p.su = "step1" // endless ammo and an endless start never end on their own
			}
		}
		if r.Intn(12) == 0 {
			p.rg = []string{"http", "hs"}[r.Intn(2)]
		}
		// round 4: how the schedule hands out its tokens, and discard_overflow
		if r.Intn(5) == 0 {
			p.rs = []string{"step1", "step2", "past"}[r.Intn(3)]
			if p.rs != "past" && p.shots > 10 {
				p.shots = 4 + r.Intn(5)
			}
		}
		if r.Intn(4) == 0 {
			p.do = 1
		}
		pl.pools = append(pl.pools, p)
	}
	if r.Intn(3) == 0 {
		c := []string{"pre", "warm", "bind", "shot1", "shot2", "shot3", "drain", "after"}[r.Intn(8)]
		if np == 2 && r.Intn(2) == 0 {
			c += "@p1"
		}
		pl.cancel = c
	}
	return pl
}

// repetitions of one plan by weight: 0 = the runtime's select orders are sampled (many), 1 = expensive plans, 2 = plans
// of round 2 that run in the plain worker, 3 / 4 = plans whose interleaving is forced (instrumented worker)
func repsOf(weight int, tier string) int {
	q, t := 24, 300
	switch weight {
	case 1:
		q, t = 2, 6
	case 2:
		q, t = 6, 40
	case 3:
		q, t = 1, 3
	case 4:
		q, t = 3, 12
	case 5: // a component that ignores its context for 2 s
		q, t = 1, 6
	case 6: // a forced interleaving in which one select still has two ready cases
		q, t = 8, 32
	case 7: // many plans of one family, each once
		q, t = 1, 1
	case 8: // a call that does not come back (gen3.go); on a tree that waits for it every repetition costs 2 s
		q, t = 2, 10
	case 9:
		q, t = 1, 5
	case 10: // round 4: many nearly deterministic plans
		q, t = 2, 12
	}
	if tier == "thorough" {
		return t
	}
	return q
}

func gen(r *rand.Rand, tier string) []string {
	nrand, randReps := 60, 6
	if tier == "thorough" {
		nrand, randReps = 1500, 12
	}
	// the instrumented worker is built while the plain worker runs the cases that do not need it
	pts, scanErr := instrScan()
	if scanErr == "" {
		instrStart()
	}
	var out []string
	// every other case is run by a caller that does NOT cancel its own context after Engine.Run returned (nc=1):
	// Engine.Wait must return all the same (the engine's deferred cancel reaches every pool)
	ncExtra := func(extra string, n int) string {
		if n%2 == 0 || strings.Contains(extra, "cli=") {
			return extra
		}
		return strings.TrimSpace(extra + " nc=1")
	}
	emit := func(pls []planT) {
		for i, pl := range pls {
			for k := 0; k < repsOf(pl.weight, tier); k++ {
				pools := pl.pools
				if pl.weight == 0 && pl.extra == "" {
					pools = varyTiming(pools, k)
				}
				out = append(out, lineX(pl.cancel, ncExtra(pl.extra, i+k), k, pools...))
			}
		}
	}
	emit(systematic())
	emit(plainRound2())
	emit(plainRound3())
	emit(plainRound4())
	emit(plainRound6())
	for i := 0; i < nrand/3; i++ {
		pl := randomBlk(r)
		for k := 0; k < 2; k++ {
			out = append(out, lineX(pl.cancel, ncExtra("", i+k), k, pl.pools...))
		}
	}
	for i := 0; i < nrand/2; i++ {
		pl := randomRp(r)
		for k := 0; k < 2; k++ {
			out = append(out, lineX(pl.cancel, ncExtra("", i+k), k, pl.pools...))
		}
	}
	for i := 0; i < nrand; i++ {
		pl := randomPlan(r)
		for k := 0; k < randReps; k++ {
			out = append(out, lineX(pl.cancel, ncExtra("", i+k), k, pl.pools...))
		}
	}
	if tier == "thorough" {
		for _, pl := range exhaustiveSmall() {
			for k := 0; k < 6; k++ {
				out = append(out, line(pl.cancel, k, pl.pools...))
			}
		}
	}
	if scanErr == "" {
		emit(instrRound2(pointSet(pts), r, tier))
		emit(instrRound3(pointSet(pts), r, tier))
	}
	return out
}

// varyTiming: the plans that are repeated many times to sample select orders are not all run with every token of the
// rps schedule due at once and all instances started at once: every fourth repetition hands the tokens out 1 ms
// apart (the Waiter sleeps on its timer against the run context) and another fourth starts the instances 1 ms apart
func varyTiming(pools []pspec, k int) []pspec {
	if k%4 != 2 && k%4 != 3 {
		return pools
	}
	out := append([]pspec(nil), pools...)
	for i := range out {
		p := &out[i]
		if k%4 == 2 && p.rs == "" && p.shots <= 6 {
			p.rs = "step1"
		}
		if k%4 == 3 && p.su == "" && p.inst >= 1 && p.inst <= 3 {
			p.su = "step1"
		}
	}
	return out
}

// class: coverage class of a case = planned faults + cancel phase + pools + result kind; "" for a clean, uncancelled run
func class(input, obs string) string {
	kv := drv.KV(input)
	var tags []string
	for i := 0; i < 4; i++ {
		spec, ok := kv[fmt.Sprintf("p%d", i)]
		if !ok {
			break
		}
		for _, t := range strings.Split(spec, ",") {
			switch {
			case strings.HasPrefix(t, "prov:") && strings.HasSuffix(t, ".err"):
				tags = append(tags, t)
			case strings.HasPrefix(t, "agg:") && strings.HasSuffix(t, ".err"):
				tags = append(tags, t)
			case strings.HasPrefix(t, "fail:") && t != "fail:-":
				tags = append(tags, t)
			case strings.HasPrefix(t, "slow:") && t != "slow:-":
				tags = append(tags, t)
			case strings.HasPrefix(t, "ek:") && t != "ek:plain":
				tags = append(tags, t)
			case strings.HasSuffix(t, ".ctxw"):
				tags = append(tags, t)
			case strings.HasPrefix(t, "rg:") || strings.HasPrefix(t, "su:") || strings.HasPrefix(t, "pv:") || strings.HasPrefix(t, "blk:") || strings.HasPrefix(t, "rs:") || strings.HasPrefix(t, "do:") || strings.HasPrefix(t, "rp:"):
				tags = append(tags, t)
			}
		}
	}
	if c := kv["cancel"]; c != "" && c != "none" {
		if strings.HasPrefix(c, "at:") {
			// the function the point is in
			f := c[3:]
			if j := strings.LastIndexByte(f, '.'); j > 0 {
				f = f[:j]
			}
			c = "at:" + f
		}
		tags = append(tags, "cancel:"+c)
	}
	if kv["hold"] != "" {
		tags = append(tags, "hold")
	}
	if kv["nc"] == "1" && len(tags) > 0 {
		tags = append(tags, "nc")
	}
	if v := kv["cli"]; v != "" {
		tags = append(tags, "cli:"+v)
		if kv["sig"] != "" {
			tags = append(tags, "sig-at-point")
		}
	}
	if len(tags) == 0 {
		return ""
	}
	res := drv.KV(obs)["res"]
	if i := strings.IndexByte(res, ':'); i >= 0 {
		res = res[:i]
	}
	return "pools" + kv["pools"] + "/" + strings.Join(tags, "+") + "/" + res
}
