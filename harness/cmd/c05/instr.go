package main

// Scheduling points INSIDE the engine. The source has none, so the harness builds a second worker binary from the SAME
// source tree with `go build -overlay`: before every statement of every function of core/engine/engine.go,
// core/engine/instance.go and of awaitPandoraTermination / runEngine of cli/cli.go (logging statements excepted) a call
// `verifhook.At("<point>")` is inserted; nothing else of the source is changed (lib/verifhook is the repo's own no-op
// hook package; with the build tag `verif` it calls the function the harness installs). A point is named after the
// function and the statement it precedes:
//
//	<Recv>.<Func>[/f<i>].<what>[#<k>]     e.g.  instancePool.Run.select   runAwaitHandle.onErrAwaited.select
//	                                            runAwaitHandle.awaitRun.set:providerErr   Engine.Run/f2.select
//
// (/f<i>: the i-th function literal of the function, in source order; #k: the k-th statement of that name, k >= 2).
// The names are never written down in the generator: it enumerates the points the instrumentation found in the tree
// under test, so refactorings change the set of cases, not their meaning.  The overlay also adds one file to package
// cli that exports awaitPandoraTermination / runEngine to the harness (cli=… cases, build tag c05instr).

import (
	"crypto/sha1"
	"encoding/json"
	"fmt"
	"go/ast"
	"go/parser"
	"go/token"
	"os"
	"os/exec"
	"path/filepath"
	"runtime"
	"sort"
	"strings"
	"sync"
	"sync/atomic"
	"time"

	"verifharness/drv"
)

type instrIns struct {
	off  int
	text string
}

// instrDesc: what the statement does, as a short stable name ("" = no point before it)
func instrDesc(st ast.Stmt) string {
	last := func(e ast.Expr) string {
		switch v := e.(type) {
		case *ast.Ident:
			return v.Name
		case *ast.SelectorExpr:
			return v.Sel.Name
		case *ast.StarExpr:
			if id, ok := v.X.(*ast.Ident); ok {
				return id.Name
			}
		case *ast.IndexExpr:
			if id, ok := v.X.(*ast.Ident); ok {
				return id.Name
			}
		}
		return "x"
	}
	callee := func(c *ast.CallExpr) string {
		switch f := c.Fun.(type) {
		case *ast.Ident:
			return f.Name
		case *ast.SelectorExpr:
			return f.Sel.Name
		case *ast.FuncLit:
			return "func"
		}
		return "x"
	}
	isLog := func(c *ast.CallExpr) bool {
		se, ok := c.Fun.(*ast.SelectorExpr)
		if !ok {
			return false
		}
		switch se.Sel.Name {
		case "Debug", "Info", "Warn", "Error", "Write":
		default:
			return false
		}
		switch r := se.X.(type) {
		case *ast.Ident:
			return r.Name == "log" || r.Name == "ent"
		case *ast.SelectorExpr:
			return r.Sel.Name == "log"
		}
		return false
	}
	switch s := st.(type) {
	case *ast.DeclStmt, *ast.EmptyStmt, *ast.LabeledStmt, *ast.BlockStmt:
		return ""
	case *ast.ReturnStmt:
		return "return"
	case *ast.SelectStmt:
		return "select"
	case *ast.GoStmt:
		return "go:" + callee(s.Call)
	case *ast.DeferStmt:
		return "defer:" + callee(s.Call)
	case *ast.IfStmt:
		return "if"
	case *ast.ForStmt, *ast.RangeStmt:
		return "for"
	case *ast.SwitchStmt, *ast.TypeSwitchStmt:
		return "switch"
	case *ast.SendStmt:
		return "send:" + last(s.Chan)
	case *ast.IncDecStmt:
		return "incdec:" + last(s.X)
	case *ast.BranchStmt:
		return ""
	case *ast.ExprStmt:
		switch e := s.X.(type) {
		case *ast.CallExpr:
			if isLog(e) {
				return ""
			}
			return "call:" + callee(e)
		case *ast.UnaryExpr:
			if e.Op == token.ARROW {
				return "recv:" + last(e.X)
			}
		}
		return "stmt"
	case *ast.AssignStmt:
		if len(s.Rhs) == 1 {
			if c, ok := s.Rhs[0].(*ast.CallExpr); ok {
				return "call:" + callee(c)
			}
			if u, ok := s.Rhs[0].(*ast.UnaryExpr); ok && u.Op == token.ARROW {
				return "recv:" + last(u.X)
			}
		}
		if len(s.Lhs) >= 1 {
			return "set:" + last(s.Lhs[0])
		}
		return "stmt"
	}
	return "stmt"
}

// instrumentFile returns the instrumented text of one Go file and the points inserted; only the functions `only`
// names are instrumented (nil = all).
func instrumentFile(path string, only map[string]bool) (string, []string, error) {
	src, err := os.ReadFile(path)
	if err != nil {
		return "", nil, err
	}
	fset := token.NewFileSet()
	f, err := parser.ParseFile(fset, path, src, parser.ParseComments)
	if err != nil {
		return "", nil, err
	}
	var ins []instrIns
	var points []string
	for _, d := range f.Decls {
		fd, ok := d.(*ast.FuncDecl)
		if !ok || fd.Body == nil {
			continue
		}
		if only != nil && !only[fd.Name.Name] {
			continue
		}
		prefix := fd.Name.Name
		if fd.Recv != nil && len(fd.Recv.List) == 1 {
			switch t := fd.Recv.List[0].Type.(type) {
			case *ast.StarExpr:
				if id, ok := t.X.(*ast.Ident); ok {
					prefix = id.Name + "." + prefix
				}
			case *ast.Ident:
				prefix = t.Name + "." + prefix
			}
		}
		seen := map[string]int{}
		nlit := 0
		var walk func(list []ast.Stmt, pre string)
		var lits func(n ast.Node, pre string)
		var nested func(st ast.Stmt, pre string)
		point := func(st ast.Stmt, pre string) {
			d := instrDesc(st)
			if d == "" {
				return
			}
			name := pre + "." + d
			seen[name]++
			if k := seen[name]; k > 1 {
				name = fmt.Sprintf("%s#%d", name, k)
			}
			points = append(points, name)
			ins = append(ins, instrIns{fset.Position(st.Pos()).Offset, fmt.Sprintf("verifhook.At(%q); ", name)})
		}
		// function literals of one statement (not those of nested statement lists, which walk reaches itself)
		lits = func(n ast.Node, pre string) {
			if n == nil {
				return
			}
			ast.Inspect(n, func(x ast.Node) bool {
				switch v := x.(type) {
				case *ast.BlockStmt:
					return false
				case *ast.FuncLit:
					nlit++
					walk(v.Body.List, fmt.Sprintf("%s/f%d", prefix, nlit))
					return false
				}
				return true
			})
		}
		walk = func(list []ast.Stmt, pre string) {
			for _, st := range list {
				point(st, pre)
				nested(st, pre)
			}
		}
		nested = func(st ast.Stmt, pre string) {
			switch s := st.(type) {
			case *ast.BlockStmt:
				walk(s.List, pre)
			case *ast.IfStmt:
				lits(s.Init, pre)
				lits(s.Cond, pre)
				walk(s.Body.List, pre)
				if s.Else != nil {
					nested(s.Else, pre)
				}
			case *ast.ForStmt:
				lits(s.Init, pre)
				lits(s.Cond, pre)
				lits(s.Post, pre)
				walk(s.Body.List, pre)
			case *ast.RangeStmt:
				lits(s.X, pre)
				walk(s.Body.List, pre)
			case *ast.SwitchStmt:
				lits(s.Init, pre)
				lits(s.Tag, pre)
				for _, c := range s.Body.List {
					walk(c.(*ast.CaseClause).Body, pre)
				}
			case *ast.TypeSwitchStmt:
				for _, c := range s.Body.List {
					walk(c.(*ast.CaseClause).Body, pre)
				}
			case *ast.SelectStmt:
				for _, c := range s.Body.List {
					walk(c.(*ast.CommClause).Body, pre)
				}
			case *ast.LabeledStmt:
				// no point between a label and its statement (`continue L` needs the label on the loop)
				nested(s.Stmt, pre)
			default:
				lits(st, pre)
			}
		}
		walk(fd.Body.List, prefix)
	}
	if len(ins) == 0 {
		return "", nil, nil
	}
	const hookPath = "github.com/yandex/pandora/lib/verifhook"
	imported := false
	for _, im := range f.Imports {
		if strings.Trim(im.Path.Value, `"`) == hookPath {
			imported = true
		}
	}
	if !imported {
		ins = append(ins, instrIns{fset.Position(f.Name.End()).Offset, "; import \"" + hookPath + "\""})
	}
	sort.SliceStable(ins, func(a, b int) bool { return ins[a].off > ins[b].off })
	out := string(src)
	for _, i := range ins {
		out = out[:i.off] + i.text + out[i.off:]
	}
	return out, points, nil
}

const cliExportSrc = `package cli

import (
	"context"

	"github.com/yandex/pandora/core/engine"
	"go.uber.org/zap"
)

// added by the C05 verification harness through go build -overlay: nothing but two exports
func VerifC05Await(p *engine.Engine, gracefulShutdown func(), errs chan error, log *zap.Logger) {
	awaitPandoraTermination(p, gracefulShutdown, errs, log)
}

func VerifC05RunEngine(ctx context.Context, e *engine.Engine, errs chan error) {
	runEngine(ctx, e, errs)
}
`

type instrFile struct {
	rel  string
	only map[string]bool
}

var instrFiles = []instrFile{
	{"core/engine/engine.go", nil},
	{"core/engine/instance.go", nil},
	{"cli/cli.go", map[string]bool{"awaitPandoraTermination": true, "runEngine": true}},
}

var (
	instrScanOnce sync.Once
	instrTexts    map[string]string // rel path -> instrumented text
	instrPts      []string
	instrScanErr  string
)

func repoDir() string {
	if r, err := filepath.Abs(drv.RepoDir); err == nil {
		return r
	}
	return drv.RepoDir
}

// instrScan instruments the sources in memory (no build): the generator needs the list of points.
func instrScan() ([]string, string) {
	instrScanOnce.Do(func() {
		instrTexts = map[string]string{}
		repo := repoDir()
		for _, f := range instrFiles {
			txt, pts, err := instrumentFile(filepath.Join(repo, f.rel), f.only)
			if err != nil {
				instrScanErr = "parse:" + f.rel
				return
			}
			if txt != "" {
				instrTexts[f.rel] = txt
				instrPts = append(instrPts, pts...)
			}
		}
		if len(instrPts) == 0 {
			instrScanErr = "nothing-to-instrument"
		}
	})
	return instrPts, instrScanErr
}

var (
	instrOnce    sync.Once
	instrStarted atomic.Bool
	instrReady   = make(chan struct{})
	instrBin     string
	instrErr     string
)

func writeIfChanged(path, content string) error {
	if b, err := os.ReadFile(path); err == nil && string(b) == content {
		return nil
	}
	tmp := fmt.Sprintf("%s.%d.tmp", path, os.Getpid())
	if err := os.WriteFile(tmp, []byte(content), 0o644); err != nil {
		return err
	}
	return os.Rename(tmp, path)
}

// instrStart starts (once) the build of the instrumented worker in the background; instrWorker waits for it.
func instrStart() {
	instrOnce.Do(func() {
		instrStarted.Store(true)
		go func() {
			defer close(instrReady)
			instrBuild()
		}()
	})
}

func instrWorker() (string, string) {
	instrStart()
	<-instrReady
	return instrBin, instrErr
}

func instrBuild() {
	if _, e := instrScan(); e != "" {
		instrErr = e
		return
	}
	_, self, _, ok := runtime.Caller(0)
	if !ok {
		instrErr = "no-source-path"
		return
	}
	hdir := filepath.Dir(filepath.Dir(filepath.Dir(self))) // …/harness
	if _, err := os.Stat(filepath.Join(hdir, "go.mod")); err != nil {
		instrErr = "no-harness-module"
		return
	}
	repo := repoDir()
	base := "/verif/.build"
	if wd, err := os.Getwd(); err == nil {
		if _, err := os.Stat(filepath.Join(wd, ".build")); err == nil {
			base = filepath.Join(wd, ".build")
		}
	}
	h := sha1.Sum([]byte(repo))
	dir := filepath.Join(base, fmt.Sprintf("c05-inst-%x", h[:4]))
	if err := os.MkdirAll(dir, 0o755); err != nil {
		instrErr = "mkdir"
		return
	}
	if old, _ := filepath.Glob(filepath.Join(dir, "worker-*")); old != nil {
		for _, o := range old { // binaries of runs that were killed
			if st, err := os.Stat(o); err == nil && time.Since(st.ModTime()) > 2*time.Hour {
				_ = os.Remove(o)
			}
		}
	}
	overlay := map[string]string{}
	for rel, txt := range instrTexts {
		out := filepath.Join(dir, strings.ReplaceAll(rel, "/", "__"))
		if err := writeIfChanged(out, txt); err != nil {
			instrErr = "write"
			return
		}
		overlay[filepath.Join(repo, rel)] = out
	}
	exp := filepath.Join(dir, "cli__verif_c05_export.go")
	if err := writeIfChanged(exp, cliExportSrc); err != nil {
		instrErr = "write"
		return
	}
	overlay[filepath.Join(repo, "cli", "verif_c05_export.go")] = exp
	ob, _ := json.Marshal(map[string]any{"Replace": overlay})
	ovl := filepath.Join(dir, "overlay.json")
	if err := writeIfChanged(ovl, string(ob)); err != nil {
		instrErr = "write"
		return
	}
	// a private go.mod that names THIS source tree (the shared one may be rewritten by a concurrent check)
	gm, err := os.ReadFile(filepath.Join(hdir, "go.mod"))
	if err != nil {
		instrErr = "go.mod"
		return
	}
	var lines []string
	for _, l := range strings.Split(string(gm), "\n") {
		if strings.HasPrefix(strings.TrimSpace(l), "replace github.com/yandex/pandora ") {
			l = "replace github.com/yandex/pandora => " + repo
		}
		lines = append(lines, l)
	}
	if err := writeIfChanged(filepath.Join(dir, "go.mod"), strings.Join(lines, "\n")); err != nil {
		instrErr = "write"
		return
	}
	if gs, err := os.ReadFile(filepath.Join(repo, "go.sum")); err == nil {
		_ = writeIfChanged(filepath.Join(dir, "go.sum"), string(gs))
	}
	bin := filepath.Join(dir, fmt.Sprintf("worker-%d", os.Getpid()))
	cmd := exec.Command("go", "build", "-tags", "verif,c05instr", "-overlay", ovl, "-modfile", filepath.Join(dir, "go.mod"), "-o", bin, "./cmd/c05")
	cmd.Dir = hdir
	cmd.Env = append(os.Environ(), "GOFLAGS=-mod=mod", "GOPROXY=off", "GOSUMDB=off", "GOTOOLCHAIN=local", "CGO_ENABLED=0")
	t0 := time.Now()
	if b, err := cmd.CombinedOutput(); err != nil {
		instrErr = "build:" + strings.ReplaceAll(drv.Trunc(drv.Clean(string(b)), 300), " ", "_")
		fmt.Fprintf(os.Stderr, "c05: instrumented worker not built: %s\n", instrErr)
		return
	}
	fmt.Fprintf(os.Stderr, "c05: instrumented worker built in %.1fs (%d files, %d points)\n", time.Since(t0).Seconds(), len(instrTexts), len(instrPts))
	instrBin = bin
}

func removeInstrumentedWorker() {
	if !instrStarted.Load() {
		return
	}
	<-instrReady
	if instrBin != "" {
		_ = os.Remove(instrBin)
	}
}
