package main

// C05: run outcome and termination. The REAL engine.Engine is run under a fault plan with mock components;
// a zap observer core records the engine's own Debug/Info entries, which give, per pool, the exact order in
// which runAwaitHandle.awaitRun consumed results and which branch onErrAwaited took. The Lean driver
// (lean/Pandora/Drv/C05.lean) replays the model on that order and must reproduce result, wait, gun closes.
//
// input  : pools=N cancel=<phase>[@pK] rep=R p0=<spec> [p1=<spec>]
// spec   : inst:N,ammo:K,shots:M,per:0|1,prov:<pos>.<ret>,agg:<pos>.<ret>,gun:[c][w]|-,fail:<f>[+<f>]|-,slow:<c>|-
//   prov pos: pre | mid<k> | end | late      ret: nil | err | ctx
//   agg  pos: pre | mid<k> | late
//   fail    : newgun@k (k-th NewGun call, 0 = warm-up call) | bind@k (k-th Bind, 1-based) | warmup |
//             sched@k (k-th NewRPSSchedule call, 1-based) | panic@k (k-th Shoot, 1-based)
//   cancel  : none | pre | warm | bind | shot<k> | drain | after   (hook inside pool K's mock, default p0)
//   slow    : prov | agg | shot  (that component ignores its context for slowDelay after the cancel; prov<ms> / agg<ms>:
//                              for that many milliseconds instead)
//   pv      : str (default) | err | int   the value a planned Shoot panic carries: a string, an error, an int
//             block           (every Shoot reports and then blocks until the gun's context is done: the instances never
//                              finish on their own, so the run context stays live until the engine reacts to a fault)
//   ek      : plain (default) | dl | cn  (optional token; dl: every error the mocks of this pool return has the CAUSE
//             context.DeadlineExceeded - the component's own deadline, wrapped with pkg/errors - which is a component
//             failure and never "the error of the engine's context"; cn: the cause is context.Canceled of a context of
//             the component's own - a component failure as long as the engine's context is live, which the generator
//             guarantees by using it only together with slow:block and faults that do not end the instances;
//             fw: context.Canceled wrapped with fmt.Errorf("%w") - what the http provider's loadAmmo returns when its
//             preload is interrupted - which errors.Cause does not see through: a component failure)
//   prov pos additionally: load = the provider hands out no ammo and blocks (a slow preload) until its context is done
//   prov/agg ret additionally: ctxw = the context's error wrapped with pkg/errors (still the context's error)
// output : res=<cls> canc=<0|1> lat=<fast|mid|slow|-> wait=<ok|hang> busy=<calls of mock components still in progress
//          when Engine.Wait returned> leak=<n> eng=<pool results Engine.Run consumed>
//          (a failure marked `!` was read after the caller's cancel was complete) engc=<0|1> sup=<pool results that were suppressed>
//          pK.main=<..> pK.aw=<trace> pK.guns=<created> pK.closes=<sorted Close counts of the created guns>
//          pK.errs=<component errors the mocks of pool K actually returned, sorted>
//          [cli=<what awaitPandoraTermination did>] and per real-gun pool pK.gcl / pK.icl / pK.srvopen (real.go)
//   blk     : <phase>[@k]  (optional pool token) the k-th call of that phase in this pool BLOCKS and ignores every context
//             until the harness has seen Engine.Run return (or, failing that, for blkMax): newgun@k (0 = the warm-up
//             call) | warm | close@k (k-th Gun.Close, 1-based) | sched@k | bind@k | prov | agg (the start of
//             Provider.Run / Aggregator.Run) | shot@k.  cancel=blk[@pK]: the caller's cancel fires when that stub has
//             been entered; cancel=blkq[@pK]: … and every other pool's Run has finished.  Observed: blk=run (every
//             stub that was entered was released because Engine.Run had returned) | deadline (one waited blkMax) | -
//   further input tokens: cancel=at:<point>, hold=…, sig=… (sched.go), cli=run|int|term (the run goes through
//   cli.runEngine + cli.awaitPandoraTermination), pool tokens rg:<registered gun> and su:<startup schedule> (real.go)
//   nc=1 (top-level token): the harness does not cancel its own context between the return of Engine.Run and Engine.Wait
//   canc=1: the planned cancel fired before Engine.Run returned. lat: time from that cancel to the return of
//   Engine.Run (fast < 500 ms, slow > 1500 ms; a "slow:" component ignores its context for 2 s).

import (
	"bufio"
	"context"
	"errors"
	"fmt"
	"io"
	"math/rand"
	"os"
	"os/exec"
	"regexp"
	"runtime"
	"sort"
	"strconv"
	"strings"
	"sync"
	"sync/atomic"
	"time"

	"verifharness/drv"

	pkgerrors "github.com/pkg/errors"
	"github.com/yandex/pandora/core"
	"github.com/yandex/pandora/core/engine"
	"github.com/yandex/pandora/core/schedule"
	"github.com/yandex/pandora/core/warmup"
	"github.com/yandex/pandora/lib/monitoring"
	"github.com/yandex/pandora/lib/verifhook"
	"go.uber.org/zap"
	"go.uber.org/zap/zapcore"
	"go.uber.org/zap/zaptest/observer"
)

const (
	slowDelay   = 2000 * time.Millisecond
	waitTimeout = 5 * time.Second
	runTimeout  = 8 * time.Second
	latFast     = 500 * time.Millisecond
	latSlow     = 1500 * time.Millisecond
	sigFallback = 120 * time.Millisecond
	// cli/cli.go: awaitTimeout of the failure path of awaitPandoraTermination
	cliAwaitTimeout = 3 * time.Second
	// a blocking stub (blk:) gives up when Engine.Run has not returned this long after the stub was entered
	blkMax            = 2000 * time.Millisecond
	blkCancelFallback = 150 * time.Millisecond
	// after that many runs that were late although nothing but a context-ignoring stub stood in the way the
	// remaining blk cases are not run (each costs blkMax)
	maxSlows = 6
)

// ---------------------------------------------------------------- plan

type posRet struct {
	pos string // pre | mid | end | late
	k   int
	ret string // nil | err | ctx
}

type poolSpec struct {
	inst, ammo, shots int
	per               bool
	prov, agg         posRet
	closable, warm    bool
	failNewGun        int // -1 none
	failBind          int // 0 none
	failWarm          bool
	failSched         int // 0 none
	panicShot         int // 0 none
	slow              string
	ek                string // "" | "dl"
	slowMs            int    // 0 = slowDelay
	pv                string // "" (string) | err | int: the value of a planned panic
	rg                string // "" | name of a registered gun factory (real.go)
	su                string // "" (once) | step | inf
	suMs              int
	blk               string // "" | newgun | warm | close | sched | bind | prov | agg | shot: that call blocks (sched.go)
	blkK              int
	rs                string // "" (all tokens at once) | step (tokens rsMs apart: the Waiter's timer path) | past (tokens 3 s overdue) | late (use.go)
	rsMs              int
	do                bool // discard_overflow
	rp                *rpSpec // rp:<kind>.<k>.<tail>: the provider is one of the repo's own over a source the harness writes (prov.go)
}

type plan struct {
	pools      []poolSpec
	cancel     string // none|pre|warm|bind|shot|drain|after|at
	cancelK    int
	cancelPool int
	cancelAt   *pointRef
	holds      []holdRule
	cli        string // "" | run | int | term
	noCancel   bool   // nc=1: the caller does NOT cancel its context after Engine.Run returned (a library user that only calls Wait)
	cliVar     string // "" | 2 (int2 / term2: a second signal while Engine.Wait is blocked) | T (runT: the tasks of a failed run outlast the cli's 3 s await timeout)
	sigAt      *pointRef
	rep        int
}

// needsInstr: the case refers to points inside the engine or to cli/cli.go, which only the instrumented worker has
func (pl *plan) needsInstr() bool {
	eng := func(r pointRef) bool { return !strings.HasPrefix(r.name, "m.") }
	if pl.cli != "" {
		return true
	}
	if pl.cancelAt != nil && eng(*pl.cancelAt) {
		return true
	}
	for _, h := range pl.holds {
		if eng(h.a) || eng(h.b) {
			return true
		}
	}
	return false
}

func parsePosRet(s string) (posRet, error) {
	var pr posRet
	i := strings.IndexByte(s, '.')
	if i < 0 {
		return pr, fmt.Errorf("bad posret %q", s)
	}
	pos, ret := s[:i], s[i+1:]
	if strings.HasPrefix(pos, "mid") {
		k, err := strconv.Atoi(pos[3:])
		if err != nil {
			return pr, err
		}
		pr.pos, pr.k = "mid", k
	} else {
		pr.pos = pos
	}
	pr.ret = ret
	switch pr.pos {
	case "pre", "mid", "end", "late", "load":
	default:
		return pr, fmt.Errorf("bad pos %q", pos)
	}
	switch ret {
	case "nil", "err", "ctx", "ctxw":
	default:
		return pr, fmt.Errorf("bad ret %q", ret)
	}
	return pr, nil
}

func parsePool(s string) (poolSpec, error) {
	ps := poolSpec{inst: 1, ammo: 1, shots: 1, failNewGun: -1,
		prov: posRet{pos: "late", ret: "nil"}, agg: posRet{pos: "late", ret: "nil"}}
	for _, kv := range strings.Split(s, ",") {
		i := strings.IndexByte(kv, ':')
		if i < 0 {
			return ps, fmt.Errorf("bad pool token %q", kv)
		}
		k, v := kv[:i], kv[i+1:]
		var err error
		switch k {
		case "inst":
			ps.inst, err = strconv.Atoi(v)
		case "ammo":
			ps.ammo, err = strconv.Atoi(v)
		case "shots":
			ps.shots, err = strconv.Atoi(v)
		case "per":
			ps.per = v == "1"
		case "prov":
			ps.prov, err = parsePosRet(v)
		case "agg":
			ps.agg, err = parsePosRet(v)
		case "gun":
			ps.closable = strings.Contains(v, "c")
			ps.warm = strings.Contains(v, "w")
		case "slow":
			if v != "-" {
				ps.slow = v
				for _, c := range []string{"prov", "agg", "close"} {
					if strings.HasPrefix(v, c) && len(v) > len(c) {
						ps.slow = c
						ps.slowMs, err = strconv.Atoi(v[len(c):])
					}
				}
			}
		case "pv":
			switch v {
			case "str", "-":
			case "err", "int":
				ps.pv = v
			default:
				return ps, fmt.Errorf("bad pv %q", v)
			}
		case "rg":
			switch v {
			case "-":
			case "http", "http2", "connect", "hs", "h2s":
				ps.rg = v
			default:
				return ps, fmt.Errorf("bad rg %q", v)
			}
		case "su":
			switch {
			case v == "once" || v == "-":
			case strings.HasPrefix(v, "step"):
				ps.su = "step"
				ps.suMs, err = strconv.Atoi(v[4:])
			case strings.HasPrefix(v, "inf"):
				ps.su = "inf"
				ps.suMs, err = strconv.Atoi(v[3:])
			default:
				return ps, fmt.Errorf("bad su %q", v)
			}
			if err == nil && (ps.suMs < 0 || ps.suMs > 1000) {
				return ps, fmt.Errorf("bad su %q", v)
			}
		case "rs":
			switch {
			case v == "once" || v == "-":
			case v == "past" || v == "late":
				ps.rs = v
			case strings.HasPrefix(v, "step"):
				ps.rs = "step"
				ps.rsMs, err = strconv.Atoi(v[4:])
				if err == nil && (ps.rsMs < 0 || ps.rsMs > 200) {
					return ps, fmt.Errorf("bad rs %q", v)
				}
			default:
				return ps, fmt.Errorf("bad rs %q", v)
			}
		case "do":
			ps.do = v == "1"
		case "rp":
			if v != "-" {
				var r rpSpec
				r, err = parseRp(v)
				ps.rp = &r
			}
		case "blk":
			if v == "-" {
				break
			}
			name, arg := v, 0
			if j := strings.IndexByte(v, '@'); j >= 0 {
				name = v[:j]
				arg, err = strconv.Atoi(v[j+1:])
			}
			switch name {
			case "newgun", "warm", "close", "sched", "bind", "prov", "agg", "shot":
				ps.blk, ps.blkK = name, arg
			default:
				return ps, fmt.Errorf("bad blk %q", v)
			}
		case "ek":
			switch v {
			case "plain", "-":
			case "dl", "cn", "fw":
				ps.ek = v
			default:
				return ps, fmt.Errorf("bad ek %q", v)
			}
		case "fail":
			if v == "-" {
				break
			}
			for _, f := range strings.Split(v, "+") {
				name, arg := f, 0
				if j := strings.IndexByte(f, '@'); j >= 0 {
					name = f[:j]
					arg, err = strconv.Atoi(f[j+1:])
					if err != nil {
						return ps, err
					}
				}
				switch name {
				case "newgun":
					ps.failNewGun = arg
				case "bind":
					ps.failBind = arg
				case "warmup":
					ps.failWarm = true
				case "sched":
					ps.failSched = arg
				case "panic":
					ps.panicShot = arg
				default:
					return ps, fmt.Errorf("bad fail %q", f)
				}
			}
		default:
			return ps, fmt.Errorf("bad pool key %q", k)
		}
		if err != nil {
			return ps, err
		}
	}
	if ps.inst < 0 || ps.inst > 200 || ps.shots < 0 || ps.ammo < -1 {
		return ps, fmt.Errorf("out of range")
	}
	return ps, nil
}

func parsePlan(input string) (*plan, error) {
	kv := drv.KV(input)
	n, err := strconv.Atoi(kv["pools"])
	if err != nil || n < 0 || n > 4 {
		return nil, fmt.Errorf("bad pools")
	}
	pl := &plan{cancel: "none"}
	pl.rep, _ = strconv.Atoi(kv["rep"])
	for i := 0; i < n; i++ {
		ps, err := parsePool(kv[fmt.Sprintf("p%d", i)])
		if err != nil {
			return nil, err
		}
		pl.pools = append(pl.pools, ps)
	}
	c := kv["cancel"]
	if c == "" {
		c = "none"
	}
	if j := strings.Index(c, "@p"); j >= 0 {
		pl.cancelPool, err = strconv.Atoi(c[j+2:])
		if err != nil || pl.cancelPool >= n {
			return nil, fmt.Errorf("bad cancel pool")
		}
		c = c[:j]
	}
	if strings.HasPrefix(c, "shot") {
		pl.cancelK, err = strconv.Atoi(c[4:])
		if err != nil {
			return nil, err
		}
		c = "shot"
	}
	if strings.HasPrefix(c, "at:") {
		r, err := parsePointRef(c[3:])
		if err != nil {
			return nil, err
		}
		pl.cancelAt = &r
		c = "at"
	}
	switch c {
	case "none", "pre", "warm", "bind", "shot", "drain", "after", "at", "blk", "blkq":
	default:
		return nil, fmt.Errorf("bad cancel %q", c)
	}
	pl.cancel = c
	if pl.holds, err = parseHolds(kv["hold"]); err != nil {
		return nil, err
	}
	switch kv["cli"] {
	case "", "-":
	case "run", "int", "term":
		pl.cli = kv["cli"]
	case "int2", "term2":
		pl.cli, pl.cliVar = strings.TrimSuffix(kv["cli"], "2"), "2"
	case "runT":
		pl.cli, pl.cliVar = "run", "T"
	default:
		return nil, fmt.Errorf("bad cli %q", kv["cli"])
	}
	pl.noCancel = kv["nc"] == "1"
	if sg := kv["sig"]; sg != "" && sg != "-" {
		r, err := parsePointRef(sg)
		if err != nil {
			return nil, err
		}
		pl.sigAt = &r
	}
	return pl, nil
}

// ---------------------------------------------------------------- runtime of one case

type caseRt struct {
	pl         *plan
	cancel     context.CancelFunc
	cancelOnce sync.Once
	cancelAt   atomic.Int64 // unix nanos of the harness cancel, 0 = none
	jit        *rand.Rand
	jitMu      sync.Mutex
	hk         *hookRt
	doneMu     sync.Mutex
	cancelDone time.Time

	// blocking stubs (blk:)
	release     chan struct{} // closed when the harness has seen Engine.Run return (or has given up waiting for it)
	releaseOnce sync.Once
	blkEntered  atomic.Int64
	blkLate     atomic.Int64 // stubs that waited blkMax
	blkMax      time.Duration
	poolsDone   func() int // pools whose Run has finished (the engine's own log)
}

func (c *caseRt) releaseStubs() { c.releaseOnce.Do(func() { close(c.release) }) }

// blockIf: the planned blocking call.  It ignores every context: it returns when the harness lets it, i.e. after
// Engine.Run has been seen to return, or after blkMax.  Entering it is the phase `blk` of the caller's cancel.
func (p *poolRt) blockIf(phase string, k int) {
	if p.spec.blk != phase || p.spec.blkK != k {
		return
	}
	c := p.c
	c.blkEntered.Add(1)
	if c.pl.cancelPool == p.idx {
		if c.pl.cancel == "blkq" && c.poolsDone != nil {
			// … only when every other pool has finished: nobody else is left to notice the cancel
			for dl := time.Now().Add(500 * time.Millisecond); c.poolsDone() < len(c.pl.pools)-1 && time.Now().Before(dl); {
				time.Sleep(200 * time.Microsecond)
			}
			time.Sleep(2 * time.Millisecond)
			c.hook(p.idx, "blkq", 0)
		}
		c.hook(p.idx, "blk", 0)
	}
	if c.pl.cancel != "none" && c.pl.cli == "" {
		// the planned cancel belongs to a moment the run may never reach (a point on a path not taken, a phase of a
		// pool that has failed before): it then comes now, while this call is in progress
		for dl := time.Now().Add(blkCancelFallback); c.cancelAt.Load() == 0 && time.Now().Before(dl); {
			select {
			case <-c.release:
				return
			case <-time.After(200 * time.Microsecond):
			}
		}
		c.doCancel()
	}
	tm := time.NewTimer(c.blkMax)
	defer tm.Stop()
	select {
	case <-c.release:
	case <-tm.C:
		c.blkLate.Add(1)
	}
}

func (c *caseRt) doCancel() {
	c.cancelOnce.Do(func() {
		c.cancelAt.Store(time.Now().UnixNano())
		c.cancel()
		c.doneMu.Lock()
		c.cancelDone = time.Now() // from here on every reader of ctx.Done() sees it closed
		c.doneMu.Unlock()
	})
}

// hook: phase reached inside pool p's mocks
func (c *caseRt) hook(p int, phase string, k int) {
	if c.pl.cancel == phase && c.pl.cancelPool == p && (phase != "shot" || k == c.pl.cancelK) {
		c.doCancel()
	}
}

// jitter perturbs goroutine scheduling so that repeated runs of one plan sample different select orders
func (c *caseRt) jitter() {
	c.jitMu.Lock()
	n := c.jit.Intn(6)
	c.jitMu.Unlock()
	switch n {
	case 0:
		runtime.Gosched()
	case 1:
		time.Sleep(time.Duration(20+n*30) * time.Microsecond)
	case 2:
		for i := 0; i < 3; i++ {
			runtime.Gosched()
		}
	}
}

type poolRt struct {
	c    *caseRt
	idx  int
	spec poolSpec

	ammoCh     chan core.Ammo
	reports    atomic.Int64
	aggTrig    chan struct{}
	aggOnce    sync.Once
	gunCalls   atomic.Int64
	bindCalls  atomic.Int64
	shotCalls  atomic.Int64
	schedCall  atomic.Int64
	closeCalls atomic.Int64
	busy       atomic.Int64 // calls of this pool's mock components that are in progress
	acqFail    atomic.Int64 // Acquire calls that found the provider dry (use.go)
	discarded  atomic.Int64 // samples reported by the engine itself instead of a shot (discard_overflow)
	scheds     []*schedObs  // every schedule NewRPSSchedule handed out (guarded by mu)

	mu   sync.Mutex
	guns []*gunBase
	errs map[string]bool // component errors the mocks of this pool have actually returned (or panicked with)

	realNew       func() (core.Gun, error) // rg pools
	gcl, icl, gwu bool
}

// enter: a call of a mock component begins; the returned func ends it
func (p *poolRt) enter() func() {
	p.busy.Add(1)
	return func() { p.busy.Add(-1) }
}

// verr makes the error a mock component returns and records that it did
func (p *poolRt) verr(comp string) error {
	p.mu.Lock()
	if p.errs == nil {
		p.errs = map[string]bool{}
	}
	p.errs[comp] = true
	p.mu.Unlock()
	if p.spec.ek == "dl" {
		// the component ran into its OWN deadline: the cause is a context-kind error, but not the error of any
		// context of the engine (those are only ever cancelled)
		return pkgerrors.WithMessage(pkgerrors.WithStack(context.DeadlineExceeded), fmt.Sprintf("verr.%s.p%d", comp, p.idx))
	}
	if p.spec.ek == "fw" {
		// a context error wrapped with fmt's %w: pkg/errors.Cause does not see through it, so for the engine
		// (errutil.IsCtxError, pinned by lib/errutil's own test) and by the component contract (core.Provider.Run:
		// "error caused ctx.Err() in terms of github.com/pkg/errors.Cause") this is a component failure
		return fmt.Errorf("verr.%s.p%d: %w", comp, p.idx, context.Canceled)
	}
	if p.spec.ek == "cn" {
		return pkgerrors.WithMessage(pkgerrors.WithStack(context.Canceled), fmt.Sprintf("verr.%s.p%d", comp, p.idx))
	}
	return fmt.Errorf("verr.%s.p%d", comp, p.idx)
}

func (p *poolRt) retOf(ctx context.Context, ret, comp string) error {
	p.c.hk.at("m." + comp + ".ret")
	switch ret {
	case "err":
		return p.verr(comp)
	case "ctx":
		return ctx.Err()
	case "ctxw":
		if e := ctx.Err(); e != nil {
			return pkgerrors.WithMessage(pkgerrors.WithStack(e), "stopped")
		}
	}
	return nil
}

func (p *poolRt) slowIf(comp string) {
	if p.spec.slow == comp {
		if p.spec.slowMs > 0 {
			time.Sleep(time.Duration(p.spec.slowMs) * time.Millisecond)
			return
		}
		time.Sleep(slowDelay)
	}
}

// --- provider

type provMock struct{ p *poolRt }

func (m provMock) Run(ctx context.Context, _ core.ProviderDeps) error {
	p := m.p
	defer p.enter()()
	s := p.spec.prov
	p.blockIf("prov", 0)
	if s.pos == "pre" {
		close(p.ammoCh)
		return p.retOf(ctx, s.ret, "prov")
	}
	if s.pos == "load" {
		<-ctx.Done()
		close(p.ammoCh)
		p.c.jitter()
		return p.retOf(ctx, s.ret, "prov")
	}
	for i := 0; p.spec.ammo < 0 || i < p.spec.ammo; i++ {
		if s.pos == "mid" && i == s.k {
			close(p.ammoCh)
			return p.retOf(ctx, s.ret, "prov")
		}
		select {
		case p.ammoCh <- p.mkAmmo(i):
		case <-ctx.Done():
			close(p.ammoCh)
			p.slowIf("prov")
			if s.pos == "late" {
				return p.retOf(ctx, s.ret, "prov")
			}
			return nil
		}
	}
	p.c.hook(p.idx, "drain", 0)
	close(p.ammoCh)
	if s.pos == "end" || s.pos == "mid" {
		p.c.jitter()
		return p.retOf(ctx, s.ret, "prov")
	}
	<-ctx.Done()
	p.c.hook(p.idx, "after", 0)
	p.slowIf("prov")
	p.c.jitter()
	return p.retOf(ctx, s.ret, "prov")
}

func (m provMock) Acquire() (core.Ammo, bool) {
	a, ok := <-m.p.ammoCh
	if !ok {
		m.p.acqFail.Add(1)
	}
	return a, ok
}

func (m provMock) Release(core.Ammo) {}

// --- aggregator

type aggMock struct{ p *poolRt }

func (m aggMock) Run(ctx context.Context, _ core.AggregatorDeps) error {
	p := m.p
	defer p.enter()()
	s := p.spec.agg
	p.blockIf("agg", 0)
	if s.pos == "pre" {
		return p.retOf(ctx, s.ret, "agg")
	}
	select {
	case <-p.aggTrig:
		return p.retOf(ctx, s.ret, "agg")
	case <-ctx.Done():
		p.slowIf("agg")
		p.c.jitter()
		if s.pos == "late" {
			return p.retOf(ctx, s.ret, "agg")
		}
		return nil
	}
}

func (m aggMock) Report(smp core.Sample) {
	if _, mock := smp.(struct{}); !mock {
		m.p.discarded.Add(1) // not a sample of one of our guns: the engine's own "discarded shot" sample
	}
	n := m.p.reports.Add(1)
	if m.p.spec.agg.pos == "mid" && int(n) >= m.p.spec.agg.k {
		m.p.aggOnce.Do(func() { close(m.p.aggTrig) })
	}
}

// --- guns: four concrete types so that io.Closer / warmup.WarmedUp are present exactly when planned

type gunBase struct {
	p      *poolRt
	n      int
	aggr   core.Aggregator
	closes atomic.Int64
	ctx    context.Context
	inner  core.Gun // rg pools: the gun the registered factory made
}

func (g *gunBase) Bind(aggr core.Aggregator, deps core.GunDeps) error {
	defer g.p.enter()()
	g.p.c.hk.at("m.bind")
	k := int(g.p.bindCalls.Add(1))
	g.aggr = aggr
	g.ctx = deps.Ctx
	if k == 1 {
		g.p.c.hook(g.p.idx, "bind", 0)
	}
	g.p.blockIf("bind", k)
	if k == g.p.spec.failBind {
		return g.p.verr("bind")
	}
	if g.inner != nil {
		return g.inner.Bind(aggr, deps)
	}
	return nil
}

func (g *gunBase) Shoot(ammo core.Ammo) {
	defer g.p.enter()()
	g.p.c.hk.at("m.shot")
	k := int(g.p.shotCalls.Add(1))
	g.p.c.hook(g.p.idx, "shot", k)
	g.p.blockIf("shot", k)
	if g.p.spec.slow == "shot" && g.p.c.pl.cancel == "shot" && k == g.p.c.pl.cancelK {
		time.Sleep(slowDelay)
	}
	if k == g.p.spec.panicShot {
		e := g.p.verr("panic")
		switch g.p.spec.pv {
		case "err":
			panic(e)
		case "int":
			panic(4200 + g.p.idx) // a value that is neither an error nor a string
		}
		panic(e.Error())
	}
	if g.inner != nil {
		g.inner.Shoot(ammo)
		return
	}
	g.aggr.Report(struct{}{})
	if g.p.spec.slow == "block" {
		select {
		case <-g.ctx.Done():
		case <-time.After(runTimeout + waitTimeout):
		}
	}
}

func (g *gunBase) doClose() error {
	defer g.p.enter()()
	g.p.c.hk.at("m.close")
	g.closes.Add(1)
	if g.p.spec.slow == "close" {
		time.Sleep(time.Duration(g.p.spec.slowMs) * time.Millisecond) // Close takes a while (and knows no context)
	}
	g.p.blockIf("close", int(g.p.closeCalls.Add(1)))
	if c, ok := g.inner.(io.Closer); ok {
		return c.Close()
	}
	return nil
}

func (g *gunBase) doWarm(o *warmup.Options) (interface{}, error) {
	defer g.p.enter()()
	g.p.c.hk.at("m.warm")
	g.p.c.hook(g.p.idx, "warm", 0)
	g.p.blockIf("warm", 0)
	if g.p.spec.failWarm {
		return nil, g.p.verr("warmup")
	}
	if w, ok := g.inner.(warmup.WarmedUp); ok {
		return w.WarmUp(o)
	}
	return "shared", nil
}

type gunC struct{ *gunBase }

func (g gunC) Close() error { return g.doClose() }

type gunW struct{ *gunBase }

func (g gunW) WarmUp(o *warmup.Options) (interface{}, error) { return g.doWarm(o) }

type gunCW struct{ *gunBase }

func (g gunCW) Close() error                                  { return g.doClose() }
func (g gunCW) WarmUp(o *warmup.Options) (interface{}, error) { return g.doWarm(o) }

func (p *poolRt) newGun() (core.Gun, error) {
	defer p.enter()()
	p.c.hk.at("m.newgun")
	n := int(p.gunCalls.Add(1)) - 1
	p.blockIf("newgun", n)
	if n == p.spec.failNewGun {
		return nil, p.verr("newgun")
	}
	g := &gunBase{p: p, n: n}
	closable, warm := p.spec.closable, p.spec.warm
	if p.realNew != nil {
		// the decorator shows the engine exactly the optional interfaces of the gun the registered factory made
		inner, err := p.realNew()
		if err != nil || inner == nil {
			return nil, pkgerrors.WithMessage(err, "real gun factory")
		}
		g.inner = inner
		_, closable = inner.(io.Closer)
		_, warm = inner.(warmup.WarmedUp)
		p.mu.Lock()
		p.gcl = closable
		p.gwu = warm
		p.icl = innerCloser(inner)
		p.mu.Unlock()
	}
	p.mu.Lock()
	p.guns = append(p.guns, g)
	p.mu.Unlock()
	switch {
	case closable && warm:
		return gunCW{g}, nil
	case closable:
		return gunC{g}, nil
	case warm:
		return gunW{g}, nil
	}
	return g, nil
}

func (p *poolRt) mkAmmo(i int) core.Ammo {
	if p.spec.rg != "" {
		return realAmmo(p.spec.rg, i)
	}
	return i
}

func (p *poolRt) startup() core.Schedule {
	switch p.spec.su {
	case "step":
		return &stepSched{n: p.spec.inst, d: time.Duration(p.spec.suMs) * time.Millisecond}
	case "inf":
		return &stepSched{n: -1, d: time.Duration(p.spec.suMs) * time.Millisecond}
	}
	return schedule.NewOnce(int64(p.spec.inst))
}

func (p *poolRt) newSched() (core.Schedule, error) {
	defer p.enter()()
	p.c.hk.at("m.sched")
	k := int(p.schedCall.Add(1))
	p.blockIf("sched", k)
	if k == p.spec.failSched {
		return nil, p.verr("sched")
	}
	return p.observeSched(p.rpsSchedule()), nil
}

// ---------------------------------------------------------------- classification

var reVerr = regexp.MustCompile(`verr\.([a-z]+)\.p([0-9]+)`)
var rePoolFail = regexp.MustCompile(`"p([0-9]+)" pool run failed`)

func errCls(err error) string {
	if err == nil {
		return "ok"
	}
	// an error made by a mock component is a component error whatever its cause is (ek:dl: its own deadline)
	msg := err.Error()
	if m := reVerr.FindStringSubmatch(msg); m != nil {
		return "e." + m[1]
	}
	if strings.Contains(msg, "shoot panic") {
		return "e.panic" // a panic value that is not a text (pv:int)
	}
	c := pkgerrors.Cause(err)
	if c == context.Canceled || c == context.DeadlineExceeded || errors.Is(err, context.Canceled) {
		return "ctx"
	}
	if strings.Contains(msg, "Out of ammo") {
		return "ooa"
	}
	return "other"
}

// resCls: ok | ctx | err:p<pool>:<wrapper>:<component> | other:<text>
func resCls(err error) string {
	if err == nil {
		return "ok"
	}
	if err == context.Canceled || err == context.DeadlineExceeded {
		return "ctx"
	}
	msg := err.Error()
	m := reVerr.FindStringSubmatch(msg)
	if m == nil && strings.Contains(msg, "shoot panic") {
		// a panic value that is not a text (pv:int): the pool is named by the engine's wrapper
		if pm := rePoolFail.FindStringSubmatch(msg); pm != nil {
			m = []string{"", "panic", pm[1]}
		}
	}
	if m == nil {
		if errors.Is(err, context.Canceled) || pkgerrors.Cause(err) == context.Canceled {
			return "wrappedctx"
		}
		return "other:" + sanitize(msg)
	}
	wrap := "raw"
	switch {
	case strings.Contains(msg, "provider failed"):
		wrap = "provider"
	case strings.Contains(msg, "aggregator failed"):
		wrap = "aggregator"
	case strings.Contains(msg, "instances start failed"):
		wrap = "start"
	case strings.Contains(msg, "run failed: "+"shoot panic") || strings.Contains(msg, "shoot panic"):
		wrap = "instance"
	case strings.Contains(msg, "instance "):
		wrap = "instance"
	case strings.Contains(msg, "gun warm up failed"):
		wrap = "warmup"
	case strings.Contains(msg, "can't initiate a gun"):
		wrap = "newgun"
	}
	if !strings.Contains(msg, "pool run failed") {
		wrap += "-nopool"
	}
	return "err:p" + m[2] + ":" + wrap + ":" + m[1]
}

func sanitize(s string) string {
	var b strings.Builder
	for _, r := range s {
		if r == ' ' || r == '\t' || r == '=' || r == ',' {
			b.WriteByte('_')
		} else if r < 128 && r > 32 {
			b.WriteRune(r)
		}
	}
	out := b.String()
	if len(out) > 60 {
		out = out[:60]
	}
	return out
}

func fieldErr(fs []zap.Field) error {
	for _, f := range fs {
		if f.Key == "error" {
			if e, ok := f.Interface.(error); ok {
				return e
			}
		}
	}
	return nil
}

func fieldInt(fs []zap.Field, key string) int {
	for _, f := range fs {
		if f.Key == key {
			return int(f.Integer)
		}
	}
	return -1
}

func fieldStr(fs []zap.Field, key string) string {
	for _, f := range fs {
		if f.Key == key {
			return f.String
		}
	}
	return ""
}

// ---------------------------------------------------------------- one run

var runMu sync.Mutex // goroutine accounting needs exclusive runs

// After maxHangs cases in which Engine.Run or Engine.Wait did not return, the remaining cases are not run: every
// hang costs its full timeout (and leaves goroutines behind), the violation is already established, and a tree that
// hangs on most plans would otherwise take hours.
const maxHangs = 4

var hangs atomic.Int64

// the same for cases that leave goroutines behind
const maxLeaks = 8

var leaks atomic.Int64

// … and for runs that came back only when a blocking stub gave up
var slows atomic.Int64

func (pl *plan) hasBlk() bool {
	for _, ps := range pl.pools {
		if ps.blk != "" {
			return true
		}
	}
	return false
}

func runCase(input string) string {
	pl, err := parsePlan(input)
	if err != nil {
		return "BADINPUT " + err.Error()
	}
	runMu.Lock()
	defer runMu.Unlock()

	// goroutines that live as long as the process must exist before the baseline is taken: the target server of real
	// guns, the runtime's signal loop
	for _, ps := range pl.pools {
		if ps.rg != "" {
			if _, e := realServer(); e != "" {
				return "NOREAL " + e
			}
		}
	}
	if pl.cli != "" {
		signalWarm()
	}
	baseline := settleGoroutines(-1, 200*time.Millisecond)

	if pl.cli != "" && !cliAvailable() {
		return "NOINSTR cli cases need the instrumented worker"
	}
	core_, logs := observer.New(zap.DebugLevel)
	ctx, cancel := context.WithCancel(context.Background())
	defer cancel()
	c := &caseRt{pl: pl, cancel: cancel, jit: rand.New(rand.NewSource(int64(pl.rep)*7919 + 17))}
	c.hk = &hookRt{holds: pl.holds, cancel: pl.cancelAt, onCan: c.doCancel}
	c.release = make(chan struct{})
	c.blkMax = blkMax
	if pl.cliVar == "T" {
		c.blkMax = cliAwaitTimeout + 2*time.Second
	}
	c.poolsDone = func() int { return logs.FilterMessage("Pool run finished").Len() }
	defer c.releaseStubs()
	curHook.Store(c.hk)
	defer curHook.Store(nil)

	var rts []*poolRt
	conf := engine.Config{}
	anyReal := false
	for i, ps := range pl.pools {
		p := &poolRt{c: c, idx: i, spec: ps, ammoCh: make(chan core.Ammo), aggTrig: make(chan struct{})}
		if ps.rg != "" {
			f, err := realFactory(ps.rg)
			if err != nil {
				return "NOREAL " + sanitize(err.Error())
			}
			p.realNew = f
			anyReal = true
		}
		rts = append(rts, p)
		var prov core.Provider = provMock{p}
		if ps.rp != nil {
			inner, err := realProvider(*ps.rp)
			if err != nil {
				return "NOREAL " + sanitize(err.Error())
			}
			prov = provReal{p: p, inner: inner}
		}
		conf.Pools = append(conf.Pools, engine.InstancePoolConfig{
			ID:              fmt.Sprintf("p%d", i),
			Provider:        prov,
			Aggregator:      aggMock{p},
			NewGun:          p.newGun,
			RPSPerInstance:  ps.per,
			DiscardOverflow: ps.do,
			NewRPSSchedule:  p.newSched,
			StartupSchedule: p.startup(),
		})
	}
	if anyReal {
		realSettle(300 * time.Millisecond) // leftovers of an earlier case
	}
	m := engine.Metrics{
		Request: &monitoring.Counter{}, Response: &monitoring.Counter{},
		InstanceStart: &monitoring.Counter{}, InstanceFinish: &monitoring.Counter{},
	}
	cs := &cliState{sendDone: make(chan struct{}), secondDone: make(chan struct{})}
	log := zap.New(core_)
	var e *engine.Engine
	if pl.cli != "" {
		log = zap.New(core_, zap.WithFatalHook(cliFatalHook{cs: cs, eng: func() *engine.Engine { return e }}),
			zap.Hooks(func(en zapcore.Entry) error {
				// "SIGINT received. Graceful shutdown." / "SIGTERM received. Trying to stop gracefully."
				if en.Level == zapcore.InfoLevel && strings.HasPrefix(en.Message, "SIG") {
					cs.add("rcv")
				}
				return nil
			}))
	}
	e = engine.New(log, m, conf)

	if pl.cancel == "pre" {
		c.doCancel()
	}
	resCh := make(chan error, 1)
	var retAt atomic.Int64
	hungRun := false
	var res error
	if pl.cli == "" {
		go func() {
			r := e.Run(ctx)
			retAt.Store(time.Now().UnixNano())
			resCh <- r
		}()
		select {
		case res = <-resCh:
		case <-time.After(runTimeout):
			hungRun = true
		}
		c.releaseStubs() // Engine.Run has returned (or never will): the blocking stubs may go on
	} else {
		// what cli.ReadConfigAndRunEngine does: Engine.Run in a goroutine (runEngine), then awaitPandoraTermination
		// with the cancel of the run context as gracefulShutdown.  The harness sits between runEngine and the channel
		// awaitPandoraTermination reads, only to see what Engine.Run returned and when.
		if pl.cli != "run" {
			sigAt := pointRef{name: "awaitPandoraTermination.select", n: 1}
			if pl.sigAt != nil {
				sigAt = *pl.sigAt
			}
			c.hk.sigAt = &sigAt
			c.hk.onSig = func() { cs.sendSignal(c.hk, pl.cli) }
			// a point the run never reaches: the signal comes anyway (a blocked run has nothing else to end it)
			tm := time.AfterFunc(sigFallback, func() { cs.sendSignal(c.hk, pl.cli) })
			defer func() { cs.quiesce(tm.Stop()) }()
		}
		errs0 := make(chan error)
		errs := make(chan error)
		go cliRunEngine(ctx, e, errs0)
		fwdDone := make(chan struct{})
		go func() {
			defer close(fwdDone)
			r := <-errs0
			retAt.Store(time.Now().UnixNano())
			switch pl.cliVar {
			case "":
				c.releaseStubs()
			case "T":
				// the tasks of the failed run need longer than the cli is willing to wait
				time.AfterFunc(cliAwaitTimeout+400*time.Millisecond, c.releaseStubs)
			}
			resCh <- r
			select {
			case errs <- r:
				if pl.cliVar == "2" {
					// awaitPandoraTermination has the result and now waits for Engine.Wait, which the blocking stub
					// holds up: the user insists
					cs.secondStarted.Store(true)
					go cs.sendSecond(pl.cli)
				}
			case <-cs.gone: // awaitPandoraTermination ended without reading the result
			}
		}()
		cs.gone = make(chan struct{})
		go func() {
			defer close(cs.gone)
			defer cs.returned() // runs on a normal return and on the Goexit of a Fatal
			cliAwait(e, func() {
				cs.add("gs")
				if cs.signalled() {
					c.doCancel() // the user's interrupt: the caller's cancel of the property
				} else {
					cancel()
				}
			}, errs, log)
		}()
		select {
		case <-cs.gone:
		case <-time.After(runTimeout):
			cs.add("hang")
		}
		c.releaseStubs()
		select {
		case res = <-resCh:
		case <-time.After(200 * time.Millisecond):
			hungRun = true
		}
		go func() { <-fwdDone }()
	}
	// what cli.go does on failure: cancel (graceful shutdown), then Engine.Wait
	cancelled := c.cancelAt.Load()
	if pl.cli != "" && cancelled != 0 && retAt.Load() != 0 && cancelled > retAt.Load() {
		cancelled = 0 // the signal came after Engine.Run had returned
	}
	if !pl.noCancel || pl.cli != "" {
		cancel()
	}
	// nc=1: whoever only waits for Engine.Wait (no cancel of its own after Run returned) must get it back too: the
	// engine's own deferred cancel is what stops the pools that are still running
	waited := make(chan struct{})
	go func() { e.Wait(); close(waited) }()
	waitOK := true
	busy := int64(0)
	select {
	case <-waited:
		// Engine.Wait has returned: nothing the engine started may still be at work
		for _, p := range rts {
			busy += p.busy.Load()
		}
	case <-time.After(waitTimeout):
		waitOK = false
	}
	extra := 0
	if !waitOK {
		extra++ // our own waiter goroutine stays blocked
	}
	if hungRun {
		extra++
	}
	srvOpen := 0
	if anyReal {
		srvOpen = realSettle(400 * time.Millisecond)
	}
	after := settleGoroutines(baseline+extra, 1500*time.Millisecond)
	if after > baseline+extra && !hungRun && waitOK {
		// a loaded machine: give the exiting goroutines more time before calling it a leak
		// (after a hang the goroutines of the run are stuck anyway and the worker is replaced)
		after = settleGoroutines(baseline+extra, 4*time.Second)
	}
	leak := after - baseline - extra
	if leak < 0 {
		leak = 0
	}

	// ---- observation
	var b strings.Builder
	if hungRun {
		b.WriteString("res=runhang")
	} else {
		b.WriteString("res=" + resCls(res))
	}
	lat := "-"
	if cancelled != 0 {
		b.WriteString(" canc=1")
	} else {
		b.WriteString(" canc=0")
	}
	if cancelled != 0 && !hungRun {
		d := time.Duration(retAt.Load() - cancelled)
		switch {
		case d < latFast:
			lat = "fast"
		case d > latSlow:
			lat = "slow"
		default:
			lat = "mid"
		}
	}
	b.WriteString(" lat=" + lat)
	if waitOK {
		b.WriteString(" wait=ok")
	} else {
		b.WriteString(" wait=hang")
	}
	fmt.Fprintf(&b, " busy=%d leak=%d", busy, leak)

	aw := make([][]string, len(rts))
	mains := make([][]string, len(rts))
	var eng, sup []string
	engCanceled := false
	for _, en := range logs.All() {
		ctxf := en.Context
		pid := fieldStr(ctxf, "pool")
		pi := -1
		if strings.HasPrefix(pid, "p") {
			pi, _ = strconv.Atoi(pid[1:])
		}
		switch en.Message {
		case "Pool awaited":
			tok := fmt.Sprintf("%s.%s", fieldStr(ctxf, "id"), errCls(fieldErr(ctxf)))
			// `!`: Engine.Run read this failure when the caller's cancel was already complete (the entry is logged
			// after the receive, both times are readings of the process's monotonic clock): its non-blocking look at
			// the context that follows must find it done
			c.doneMu.Lock()
			if fieldErr(ctxf) != nil && !c.cancelDone.IsZero() && en.Time.After(c.cancelDone) {
				tok += "!"
			}
			c.doneMu.Unlock()
			eng = append(eng, tok)
		case "Engine run canceled":
			engCanceled = true
		case "Pool run result suppressed":
			sup = append(sup, fmt.Sprintf("%s.%s", fieldStr(ctxf, "id"), errCls(fieldErr(ctxf))))
		}
		if pi < 0 || pi >= len(rts) {
			continue
		}
		switch en.Message {
		case "AmmoQueue awaited":
			aw[pi] = append(aw[pi], "P."+errCls(fieldErr(ctxf)))
		case "Aggregator awaited":
			aw[pi] = append(aw[pi], "A."+errCls(fieldErr(ctxf)))
		case "Instances start awaited":
			aw[pi] = append(aw[pi], fmt.Sprintf("S%d.%s", fieldInt(ctxf, "started"), errCls(fieldErr(ctxf))))
		case "Instance run awaited":
			aw[pi] = append(aw[pi], fmt.Sprintf("R%d.%s", fieldInt(ctxf, "id"), errCls(fieldErr(ctxf))))
		case "Canceling instance start because out of ammo":
			aw[pi] = append(aw[pi], "c")
		case "Error suppressed after run cancel":
			aw[pi] = append(aw[pi], "x")
		case "All instances runs awaited.":
			aw[pi] = append(aw[pi], "a")
		case "Pool wait finished":
			aw[pi] = append(aw[pi], "w")
		case "Pool execution canceled":
			mains[pi] = append(mains[pi], "cancel")
		case "Pool failed. Canceling started tasks":
			mains[pi] = append(mains[pi], "fail."+errCls(fieldErr(ctxf)))
		case "Pool run finished successfully":
			mains[pi] = append(mains[pi], "ok")
		case "Pool run finished":
			mains[pi] = append(mains[pi], "fin")
		}
	}
	b.WriteString(" eng=" + joinOrDash(eng))
	if engCanceled {
		b.WriteString(" engc=1")
	} else {
		b.WriteString(" engc=0")
	}
	sort.Strings(sup)
	b.WriteString(" sup=" + joinOrDash(sup))
	for _, ps := range pl.pools {
		if ps.blk != "" {
			switch {
			case c.blkLate.Load() > 0:
				b.WriteString(" blk=deadline")
			case c.blkEntered.Load() > 0:
				b.WriteString(" blk=run")
			default:
				b.WriteString(" blk=-")
			}
			break
		}
	}
	if pl.cli != "" {
		b.WriteString(" cli=" + joinOrDash(cs.events()))
		fmt.Fprintf(&b, " csig=%d", b2i(cs.signalled())+b2i(cs.second.Load()))
	}
	for i, p := range rts {
		fmt.Fprintf(&b, " p%d.main=%s p%d.aw=%s", i, joinOrDash(mains[i]), i, joinOrDash(aw[i]))
		p.mu.Lock()
		var cl []int
		for _, g := range p.guns {
			cl = append(cl, int(g.closes.Load()))
		}
		p.mu.Unlock()
		sort.Ints(cl)
		var cls []string
		for _, x := range cl {
			cls = append(cls, strconv.Itoa(x))
		}
		var es []string
		p.mu.Lock()
		for en := range p.errs {
			es = append(es, en)
		}
		p.mu.Unlock()
		sort.Strings(es)
		fmt.Fprintf(&b, " p%d.guns=%d p%d.closes=%s p%d.errs=%s", i, len(cl), i, joinOrDash(cls), i, joinOrDash(es))
		fmt.Fprintf(&b, " p%d.use=%s", i, p.useObs())
		if p.spec.rg != "" {
			// all real-gun pools of a case shoot at the same server: the open connections are reported with each
			fmt.Fprintf(&b, " p%d.gcl=%d p%d.gwu=%d p%d.icl=%d p%d.srvopen=%d", i, b2i(p.gcl), i, b2i(p.gwu), i, b2i(p.icl), i, srvOpen)
		}
	}
	return b.String()
}

func b2i(b bool) int {
	if b {
		return 1
	}
	return 0
}

func joinOrDash(xs []string) string {
	if len(xs) == 0 {
		return "-"
	}
	return strings.Join(xs, ",")
}

// settleGoroutines waits until the goroutine count is <= target (or stable when target < 0) and returns it.
func settleGoroutines(target int, max time.Duration) int {
	deadline := time.Now().Add(max)
	prev := runtime.NumGoroutine()
	stable := 0
	for {
		n := runtime.NumGoroutine()
		if target >= 0 && n <= target {
			return n
		}
		if target < 0 {
			if n == prev {
				stable++
				if stable >= 3 {
					return n
				}
			} else {
				stable = 0
			}
			prev = n
		}
		if time.Now().After(deadline) {
			return n
		}
		time.Sleep(200 * time.Microsecond)
	}
}

// ---------------------------------------------------------------- supervisor / worker
//
// The engine runs in a WORKER process (this binary with C05_WORKER=1; inputs on stdin, one observation line per input
// on stdout). A panic in one of the engine's own goroutines (e.g. "sync: negative WaitGroup counter" after a second
// onWaitDone) cannot be recovered and kills the process it happens in: the supervisor then reports the case in flight
// as `PANIC process died: <panic line>` - a concrete failing input - and starts a fresh worker for the next case.

type tailBuf struct {
	mu sync.Mutex
	b  []byte
}

func (t *tailBuf) Write(p []byte) (int, error) {
	t.mu.Lock()
	t.b = append(t.b, p...)
	if len(t.b) > 1<<16 {
		t.b = t.b[len(t.b)-1<<15:]
	}
	t.mu.Unlock()
	return len(p), nil
}

func (t *tailBuf) panicLine() string {
	t.mu.Lock()
	defer t.mu.Unlock()
	for _, l := range strings.Split(string(t.b), "\n") {
		if strings.HasPrefix(l, "panic:") || strings.HasPrefix(l, "fatal error:") {
			return sanitize(l)
		}
	}
	return "no-panic-line"
}

// one supervised worker process: the plain one (this binary) or the instrumented one (instr.go)
type workerSup struct {
	exe    func() (string, string) // path of the worker binary, or "" and why there is none
	cmd    *exec.Cmd
	in     io.WriteCloser
	out    *bufio.Reader
	errBuf *tailBuf
}

var (
	supMu     sync.Mutex // one case at a time, whichever worker runs it
	supDeaths int
	plainSup  = &workerSup{exe: func() (string, string) {
		exe, err := os.Executable()
		if err != nil {
			return "", err.Error()
		}
		return exe, ""
	}}
	instrSup = &workerSup{exe: instrWorker}
)

const (
	maxDeaths    = 6
	childTimeout = 19 * time.Second // < the framework's per-case timeout (20 s)
)

func (w *workerSup) start() string {
	exe, why := w.exe()
	if exe == "" {
		return why
	}
	cmd := exec.Command(exe)
	cmd.Env = append(os.Environ(), "C05_WORKER=1")
	in, err := cmd.StdinPipe()
	if err != nil {
		return err.Error()
	}
	out, err := cmd.StdoutPipe()
	if err != nil {
		return err.Error()
	}
	eb := &tailBuf{}
	cmd.Stderr = eb
	if err := cmd.Start(); err != nil {
		return err.Error()
	}
	w.cmd, w.in, w.out, w.errBuf = cmd, in, bufio.NewReaderSize(out, 1<<16), eb
	return ""
}

func (w *workerSup) kill() {
	if w.cmd != nil {
		_ = w.in.Close()
		_ = w.cmd.Process.Kill()
		_ = w.cmd.Wait()
		w.cmd = nil
	}
}

func supervisedRun(input string) string {
	pl, err := parsePlan(input)
	if err != nil {
		return "BADINPUT " + err.Error()
	}
	supMu.Lock()
	defer supMu.Unlock()
	if hangs.Load() >= maxHangs || supDeaths >= maxDeaths || leaks.Load() >= maxLeaks {
		return "SKIPPED-AFTER-HANGS"
	}
	if pl.hasBlk() && slows.Load() >= maxSlows {
		return "SKIPPED-AFTER-HANGS"
	}
	w := plainSup
	if pl.needsInstr() {
		w = instrSup
	}
	if w.cmd == nil {
		if why := w.start(); why != "" {
			if w == instrSup {
				// the source of the tree under test could not be instrumented or the instrumented build failed: the
				// Lean driver reports the case as not run (the tree builds, or the check had stopped earlier)
				return "NOINSTR " + sanitize(why)
			}
			return "BADINPUT cannot start worker: " + why
		}
	}
	if _, err := io.WriteString(w.in, input+"\n"); err != nil {
		line := w.errBuf.panicLine()
		w.kill()
		supDeaths++
		return "PANIC process died: " + line
	}
	type rd struct {
		s   string
		err error
	}
	ch := make(chan rd, 1)
	out := w.out
	go func() {
		s, err := out.ReadString('\n')
		ch <- rd{s, err}
	}()
	select {
	case r := <-ch:
		if r.err != nil {
			// give the dying process a moment to flush its panic message
			done := make(chan struct{})
			cmd := w.cmd
			go func() { _ = cmd.Wait(); close(done) }()
			select {
			case <-done:
			case <-time.After(2 * time.Second):
			}
			line := w.errBuf.panicLine()
			w.cmd = nil
			supDeaths++
			return "PANIC process died: " + line
		}
		obs := strings.TrimRight(r.s, "\n")
		if strings.Contains(obs, "res=runhang") || strings.Contains(obs, "wait=hang") {
			hangs.Add(1)
			// goroutines of a hung run stay behind: continue in a fresh process
			w.kill()
		} else if strings.HasPrefix(obs, "res=") && !strings.Contains(obs, " leak=0 ") {
			// leaked goroutines: every such case costs the full settle time; a few establish the violation
			leaks.Add(1)
			w.kill()
		}
		if strings.Contains(obs, " blk=deadline") {
			slows.Add(1)
		}
		return obs
	case <-time.After(childTimeout):
		w.kill()
		hangs.Add(1)
		return "HANG worker did not answer"
	}
}

var curHook atomic.Pointer[hookRt]

func workerLoop() {
	verifhook.Yield = func(pt string) { curHook.Load().at(pt) }
	in := bufio.NewReaderSize(os.Stdin, 1<<16)
	out := bufio.NewWriter(os.Stdout)
	for {
		line, err := in.ReadString('\n')
		line = strings.TrimRight(line, "\n")
		if line != "" {
			obs := func() (o string) {
				defer func() {
					if r := recover(); r != nil {
						o = "PANIC " + sanitize(fmt.Sprint(r))
					}
				}()
				return runCase(line)
			}()
			fmt.Fprintln(out, drv.Clean(obs))
			_ = out.Flush()
		}
		if err != nil {
			return
		}
	}
}

func main() {
	if os.Getenv("C05_WORKER") == "1" {
		workerLoop()
		return
	}
	if os.Getenv("C05_POINTS") != "" { // debugging aid: list the scheduling points of the tree
		drv.RepoDir = os.Getenv("C05_POINTS")
		pts, e := instrScan()
		fmt.Println(strings.Join(pts, "\n"))
		if e != "" {
			fmt.Println("error:", e)
		}
		return
	}
	defer removeInstrumentedWorker()
	defer instrSup.kill()
	defer plainSup.kill()
	drv.Main(&drv.Prop{
		ID:      "C05",
		Gen:     gen,
		Run:     supervisedRun,
		Class:   class,
		Workers: 1,
		Timeout: 20 * time.Second,
		Rule: "fault plans = (component x position x return kind) + gun/bind/warm-up/schedule-factory failures + shot panic (text, error " +
			"and int values) + external cancel at each phase (also before the start, with a failing pool), plain and own-deadline error " +
			"causes, over 1-3 pools, 0-3 (and 60-80) instances, shared or per-instance schedule, startup at once / over time / without " +
			"end, mock guns and the guns of the repo's registered factories shooting at an in-process server; every plan is repeated to " +
			"sample the runtime's select orders; in a second worker built from the same tree with scheduling points before every " +
			"statement of the engine (go build -overlay): the caller's cancel at every statement, forced orderings between two " +
			"goroutines (a point is held until another one is reached) and runs through cli.runEngine / awaitPandoraTermination with " +
			"SIGINT / SIGTERM at every kind of moment; a case is non-trivial when a fault, a cancel, a forced ordering or a signal is planned",
	})
}
