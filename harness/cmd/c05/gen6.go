package main

// Round 6 plan families.
//
// (1) The provider is one of the repo's own (rp:, prov.go) reading a source that is complete, cut short inside an ammo,
// malformed, cannot be opened (at once / only after a while, when the instances already wait in Acquire) or fails while
// it is read - at the very beginning (k = 0), in the middle, and exactly where the demand of the schedules ends; with one
// and several instances, a shared schedule and one per instance, startup over time, a second pool that is still busy,
// and a caller's cancel.  (2) A caller that does not cancel after Engine.Run returned (nc=1) is a dimension of every
// family (gen.go).

import "math/rand"

var rpKinds = []string{"json", "gj", "hj", "hjp"}

func rpTails(kind string) []string {
	switch kind {
	case "json":
		return []string{"ok", "tr", "bad", "nofile", "slowopen", "rderr"}
	case "hj", "hjp":
		return []string{"ok", "tr", "bad"}
	}
	return []string{"ok", "tr", "bad", "nofile", "slowopen"}
}

func rpTok(kind string, k int, tail string) string {
	return kind + "." + itoa(k) + "." + tail
}

func itoa(n int) string {
	if n == 0 {
		return "0"
	}
	s := ""
	for ; n > 0; n /= 10 {
		s = string(rune('0'+n%10)) + s
	}
	return s
}

func plainRound6() []planT {
	var out []planT
	add := func(cancel string, w int, pools ...pspec) {
		out = append(out, planT{cancel: cancel, pools: pools, weight: w})
	}
	rp := func(kind string, k int, tail string, f func(p *pspec)) pspec {
		return with(func(p *pspec) {
			p.rp = rpTok(kind, k, tail)
			p.prov = "late.nil"
			p.ammo = k
			p.shots = 50 // the schedules ask for more than the source holds
			if f != nil {
				f(p)
			}
		})
	}
	endless := with(func(p *pspec) { p.ammo = -1; p.shots = 1000 })
	for _, kind := range rpKinds {
		for _, tail := range rpTails(kind) {
			for _, k := range []int{0, 1, 3} {
				if k == 0 && (kind == "hj" || kind == "hjp") {
					continue // the http provider reads the head of its file when it is constructed
				}
				for _, per := range []int{0, 1} {
					add("none", 10, rp(kind, k, tail, func(p *pspec) { p.per = per }))
				}
			}
			add("none", 10, rp(kind, 2, tail, func(p *pspec) { p.inst = 1 }))
			add("none", 10, rp(kind, 5, tail, func(p *pspec) { p.inst = 4; p.su = "step2" }))
			// the source holds exactly what the schedules ask for / less than they ask for by one
			add("none", 10, rp(kind, 6, tail, func(p *pspec) { p.inst = 2; p.shots = 3 }))
			add("none", 10, rp(kind, 5, tail, func(p *pspec) { p.inst = 2; p.shots = 3 }))
			// another pool is still busy when this one's provider gives up; the caller cancels meanwhile
			add("none", 10, rp(kind, 1, tail, nil), endless)
			add("none", 10, endless, rp(kind, 2, tail, func(p *pspec) { p.per = 0 }))
			add("shot1", 10, rp(kind, 4, tail, nil))
			add("shot1@p1", 10, rp(kind, 1, tail, nil), endless)
		}
		// a long source, many instances
		add("none", 9, rp(kind, 300, "tr", func(p *pspec) { p.inst = 8 }))
		add("none", 9, rp(kind, 300, "ok", func(p *pspec) { p.inst = 8 }))
		if kind == "json" || kind == "gj" {
			add("none", 9, rp(kind, 40, "slowopen", func(p *pspec) { p.inst = 70 }))
		}
	}
	return out
}

// randomRp: a random plan whose first pool reads a random source
func randomRp(r *rand.Rand) planT {
	pl := randomPlan(r)
	kind := rpKinds[r.Intn(len(rpKinds))]
	tails := rpTails(kind)
	p := &pl.pools[0]
	k := r.Intn(7)
	if kind == "hj" || kind == "hjp" {
		k++
	}
	p.rp = rpTok(kind, k, tails[r.Intn(len(tails))])
	p.prov = "late.nil"
	p.ammo = k
	p.rg = "" // the guns of a registered factory want that factory's kind of ammo
	if p.inst == 0 {
		p.inst = 1
	}
	return pl
}
