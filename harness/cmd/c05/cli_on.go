//go:build c05instr

package main

import (
	"context"

	"github.com/yandex/pandora/cli"
	"github.com/yandex/pandora/core/engine"
	"go.uber.org/zap"
)

// the instrumented worker: the overlay adds cli/verif_c05_export.go (instr.go), which exports the two functions

func cliAvailable() bool { return true }

func cliAwait(e *engine.Engine, gracefulShutdown func(), errs chan error, log *zap.Logger) {
	cli.VerifC05Await(e, gracefulShutdown, errs, log)
}

func cliRunEngine(ctx context.Context, e *engine.Engine, errs chan error) {
	cli.VerifC05RunEngine(ctx, e, errs)
}
