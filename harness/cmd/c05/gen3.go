package main

// Round 3 plan families.
//
// "Cancel at phase P of pool k" with a call that does not come back: the planned call (blk:<phase>) ignores every
// context and returns only when the harness has seen Engine.Run return (or after blkMax = 2 s).  Whatever a pool is
// doing - the warm-up gun's factory, WarmUp, its Close, the shared schedule factory (all three inside Pool.Run's own
// goroutine, BEFORE it starts to watch its context), the first instance's schedule / gun factory / Bind (start
// goroutine), a later instance's (instance goroutine), the start of Provider.Run / Aggregator.Run, a shot, a Close -
// the caller's cancel must make Engine.Run return the cancellation error at once, and once the call does come back
// everything must stop and Engine.Wait return.

import (
	"fmt"
	"math/rand"
)

// blkPhases: every call of a pool that can be the one that does not come back; `goroutine` says who makes it
var blkPhases = []struct {
	blk       string
	per       int    // -1: both
	goroutine string // documentation only
}{
	{"newgun@0", -1, "Pool.Run (warmUpGun)"},
	{"warm", -1, "Pool.Run (warmUpGun)"},
	{"close@1", -1, "Pool.Run (warmUpGun, deferred closeGun)"},
	{"sched@1", 0, "Pool.Run (runAsync: the shared schedule)"},
	{"sched@1", 1, "start goroutine (newInstance of the first instance)"},
	{"newgun@1", -1, "start goroutine (newInstance of the first instance)"},
	{"bind@1", -1, "start goroutine (newInstance of the first instance)"},
	{"sched@2", 1, "instance goroutine (runNewInstance)"},
	{"newgun@2", -1, "instance goroutine (runNewInstance)"},
	{"bind@2", -1, "instance goroutine (runNewInstance)"},
	{"prov", -1, "provider goroutine"},
	{"agg", -1, "aggregator goroutine"},
	{"shot@1", -1, "instance goroutine (Shoot)"},
	{"shot@3", -1, "instance goroutine (Shoot)"},
	{"close@2", -1, "instance goroutine (deferred Close)"},
}

func blkPool(blk string, f func(p *pspec)) pspec {
	p := basePool()
	p.blk = blk
	if f != nil {
		f(&p)
	}
	return p
}

func plainRound3() []planT {
	var out []planT
	add := func(cancel string, w int, pools ...pspec) {
		out = append(out, planT{cancel: cancel, pools: pools, weight: w})
	}
	clean := basePool()
	endless := with(func(p *pspec) { p.ammo = -1; p.shots = 1000 })

	for _, ph := range blkPhases {
		for per := 0; per < 2; per++ {
			if ph.per >= 0 && ph.per != per {
				continue
			}
			// one pool: the cancel arrives while that call is in progress
			add("blk", 8, blkPool(ph.blk, func(p *pspec) { p.per = per }))
		}
		per := 1
		if ph.per >= 0 {
			per = ph.per
		}
		// … the call that does not come back would also have failed
		switch ph.blk {
		case "newgun@0", "newgun@1", "newgun@2", "bind@1", "bind@2", "sched@1", "sched@2":
			add("blk", 8, blkPool(ph.blk, func(p *pspec) { p.per = per; p.fail = ph.blk }))
		case "warm":
			add("blk", 8, blkPool(ph.blk, func(p *pspec) { p.per = per; p.fail = "warmup" }))
		}
		// several pools: the others have finished (successfully) when the cancel comes: nobody but Engine.Run itself is
		// left to notice it; the others still shoot: each of them reports the cancel; another pool fails meanwhile
		add("blkq@p1", 8, clean, blkPool(ph.blk, func(p *pspec) { p.per = per }))
		add("blkq@p2", 9, clean, with(func(p *pspec) { p.inst = 0 }), blkPool(ph.blk, func(p *pspec) { p.per = per }))
		add("blk@p1", 8, endless, blkPool(ph.blk, func(p *pspec) { p.per = per }))
		add("shot2@p0", 9, endless, blkPool(ph.blk, func(p *pspec) { p.per = per }))
		add("none", 9, with(func(p *pspec) { p.prov = "mid1.err" }), blkPool(ph.blk, func(p *pspec) { p.per = per; p.ammo = -1; p.shots = 1000 }))
	}
	// the pool that blocks is the first one; two pools block in different calls
	add("blkq@p0", 8, blkPool("warm", nil), clean)
	add("blk@p0", 8, blkPool("warm", nil), blkPool("sched@1", func(p *pspec) { p.per = 0 }))
	add("blk@p1", 8, blkPool("newgun@0", nil), blkPool("close@1", nil), clean)
	// guns that are no io.Closer / no WarmedUp: the warm-up phase is the factory call alone
	add("blk", 8, blkPool("newgun@0", func(p *pspec) { p.gun = "-" }))
	add("blk", 8, blkPool("warm", func(p *pspec) { p.gun = "w" }))
	add("blk", 8, blkPool("close@1", func(p *pspec) { p.gun = "c" }))
	// startup over time: the cancel comes while the start goroutine waits for the next tick and an instance is stuck
	add("blk", 8, blkPool("shot@1", func(p *pspec) { p.su = "inf2"; p.ammo = -1; p.shots = 50 }))
	add("blk", 8, blkPool("bind@2", func(p *pspec) { p.su = "step2"; p.inst = 3 }))
	// a Close that takes a while (it knows no context): Engine.Wait must not return before the guns are closed, whatever
	// ended the run
	for _, per := range []int{0, 1} {
		add("none", 2, with(func(p *pspec) { p.slow = "close30"; p.per = per }))
		add("none", 2, with(func(p *pspec) { p.slow = "close30"; p.per = per; p.prov = "mid1.err"; p.inst = 3 }))
		add("shot2", 2, with(func(p *pspec) { p.slow = "close30"; p.per = per; p.ammo = -1; p.shots = 50; p.inst = 3 }))
	}
	add("none", 2, with(func(p *pspec) { p.slow = "close30"; p.fail = "bind@2"; p.inst = 3 }))
	add("none", 2, with(func(p *pspec) { p.slow = "close30"; p.agg = "pre.err"; p.su = "step2"; p.inst = 3 }))
	add("none", 2, with(func(p *pspec) { p.slow = "close30"; p.fail = "warmup" }), with(func(p *pspec) { p.slow = "close30"; p.ammo = -1; p.shots = 1000 }))
	// an engine without pools: nothing to run, nothing to wait for
	add("none", 9)
	add("pre", 9)
	// many instances, one of them stuck
	add("blk", 9, blkPool("shot@40", func(p *pspec) { p.inst = 70; p.ammo = -1; p.shots = 50 }))
	return out
}

// randomBlk: a random plan in which a random call of a random pool does not come back
func randomBlk(r *rand.Rand) planT {
	pl := randomPlan(r)
	k := r.Intn(len(pl.pools))
	ph := blkPhases[r.Intn(len(blkPhases))]
	p := &pl.pools[k]
	p.blk = ph.blk
	if ph.per >= 0 {
		p.per = ph.per
	}
	if p.inst < 2 {
		p.inst = 2
	}
	if p.ammo >= 0 && p.ammo < 4 {
		p.ammo = 4
	}
	if p.shots < 3 {
		p.shots = 3
	}
	p.rg = ""
	p.slow = "-"
	c := []string{"blk", "blk", "blkq"}[r.Intn(3)]
	pl.cancel = fmt.Sprintf("%s@p%d", c, k)
	return pl
}

// instrRound3: plans for the instrumented worker (cli in process, cancel at a statement of the engine)
func instrRound3(pts pointSet, r *rand.Rand, tier string) []planT {
	var out []planT
	add := func(cancel, extra string, w int, pools ...pspec) {
		out = append(out, planT{cancel: cancel, pools: pools, weight: w, extra: extra})
	}
	thorough := tier == "thorough"
	endlessBlk := func(blk string) pspec {
		return blkPool(blk, func(p *pspec) { p.ammo = -1; p.shots = 1000 })
	}
	// the user's interrupt while a call does not come back: Engine.Run must return at once, the process then waits for
	// Engine.Wait (the call comes back once Engine.Run has returned)
	for i, blk := range []string{"newgun@0", "warm", "sched@1", "bind@1", "shot@1", "prov"} {
		sg := []string{"int", "term"}[i%2]
		per := 1
		if blk == "sched@1" {
			per = 0
		}
		add("none", "cli="+sg, 8, blkPool(blk, func(p *pspec) { p.per = per; p.ammo = -1; p.shots = 1000 }))
		if thorough {
			add("none", "cli="+sg, 8, basePool(), blkPool(blk, func(p *pspec) { p.per = per; p.ammo = -1; p.shots = 1000 }))
		}
	}
	// … and the user insists: a second signal while Engine.Wait is held up by that call ends the process at once
	for _, sg := range []string{"int2", "term2"} {
		add("none", "cli="+sg, 8, endlessBlk("warm"))
		add("none", "cli="+sg, 8, endlessBlk("shot@1"))
		add("none", "cli="+sg, 9, basePool(), endlessBlk("newgun@0"))
	}
	if thorough {
		// a failed run whose tasks need longer to stop than the cli waits (3 s): the process exits without them
		add("none", "cli=runT", 7, with(func(p *pspec) { p.prov = "pre.err" }), endlessBlk("shot@1"))
		add("none", "cli=runT", 7, with(func(p *pspec) { p.fail = "warmup" }), endlessBlk("agg"))
	}
	// the caller's cancel at a statement of one pool's engine code while another pool sits in a call that does not
	// come back
	eng := pts.engine()
	stride := 7
	if thorough {
		stride = 1
	}
	for i := r.Intn(stride); i < len(eng); i += stride {
		blk := []string{"warm", "newgun@0", "sched@1", "close@1"}[i%4]
		per := 1
		if blk == "sched@1" {
			per = 0
		}
		add("at:"+eng[i], "", 7, with(func(p *pspec) { p.ammo = 6; p.shots = 6 }), blkPool(blk, func(p *pspec) { p.per = per }))
	}
	return out
}
