package main

// What the harness sees of cli.awaitPandoraTermination (cli=… cases): its acknowledgement of a signal in the log
// (`rcv`), the calls of gracefulShutdown (`gs`), every entry logged at Fatal level - the process would exit with status 1 there -
// as `fatal.w1` / `fatal.w0` (Engine.Wait had / had not returned at that moment: an exit before that loses what the
// aggregators still hold), a normal return (`ok`: exit status 0), `hang`; separately (`csig`) whether the process sent
// itself the signal before awaitPandoraTermination ended.

import (
	"os"
	"os/signal"
	"runtime"
	"sync"
	"sync/atomic"
	"syscall"
	"time"

	"github.com/yandex/pandora/core/engine"
	"go.uber.org/zap/zapcore"
)

var signalWarmOnce sync.Once

// signalAck: the harness's own handler channel: every SIGINT / SIGTERM the process gets arrives here too, which tells
// the sender that the runtime has handed the signal to the registered channels
var signalAck = make(chan os.Signal, 16)

// signalWarm registers a handler of the harness's own for SIGINT / SIGTERM once per process: the runtime's signal
// goroutine is started, and from now on neither signal can kill the worker, whenever it arrives.
func signalWarm() {
	signalWarmOnce.Do(func() {
		signal.Notify(signalAck, syscall.SIGINT, syscall.SIGTERM)
		time.Sleep(time.Millisecond)
	})
}

type cliState struct {
	mu      sync.Mutex
	evs     []string
	sig     bool
	done    bool
	gone    chan struct{}
	sigOnce sync.Once

	sendStarted atomic.Bool
	sendDone    chan struct{}

	second        atomic.Bool // a second signal was sent (and delivered) while awaitPandoraTermination was still there
	secondDone    chan struct{}
	secondStarted atomic.Bool
}

// sendSecond: the second signal of an int2 / term2 case: only after the first one was acted on (`gs`) and the result
// of Engine.Run was read, so that awaitPandoraTermination sits in its innermost select
func (c *cliState) sendSecond(kind string) {
	defer close(c.secondDone)
	time.Sleep(10 * time.Millisecond)
	c.mu.Lock()
	ok := c.sig && !c.done
	c.mu.Unlock()
	if !ok {
		return
	}
	sg := syscall.SIGINT
	if kind == "term" {
		sg = syscall.SIGTERM
	}
	signalDrain()
	c.second.Store(true)
	_ = syscall.Kill(os.Getpid(), sg)
	select {
	case <-signalAck:
	case <-time.After(2 * time.Second):
	}
	time.Sleep(time.Millisecond)
}

func (c *cliState) add(ev string) {
	c.mu.Lock()
	dead := false
	for _, e := range c.evs {
		if len(e) >= 5 && e[:5] == "fatal" {
			dead = true // the process has exited there; what the goroutines the harness kept alive do later is not its behaviour
		}
	}
	if (!c.done && !dead) || ev == "hang" {
		c.evs = append(c.evs, ev)
	}
	c.mu.Unlock()
}

func (c *cliState) signalled() bool {
	c.mu.Lock()
	defer c.mu.Unlock()
	return c.sig
}

func (c *cliState) events() []string {
	c.mu.Lock()
	defer c.mu.Unlock()
	return append([]string(nil), c.evs...)
}

// returned: awaitPandoraTermination's goroutine ended; without a Fatal before, it returned normally
func (c *cliState) returned() {
	c.mu.Lock()
	fatal := false
	for _, e := range c.evs {
		if len(e) >= 5 && e[:5] == "fatal" {
			fatal = true
		}
	}
	if !fatal {
		c.evs = append(c.evs, "ok")
	}
	c.done = true
	c.mu.Unlock()
}

// sendSignal: the process interrupts itself.  Never before awaitPandoraTermination has registered its handler
// (signal.Notify precedes its first select), or the signal would kill the worker.
func (c *cliState) sendSignal(h *hookRt, kind string) {
	c.sigOnce.Do(func() {
		c.sendStarted.Store(true)
		defer close(c.sendDone)
		c.sendSignal1(h, kind)
	})
}

// quiesce: the case is over; a signal that is being sent right now (the fallback timer had fired) must be through
// before the next case registers its handler
func (c *cliState) quiesce(timerStopped bool) {
	if !timerStopped {
		for i := 0; i < 1000 && !c.sendStarted.Load(); i++ {
			time.Sleep(100 * time.Microsecond)
		}
	}
	if c.sendStarted.Load() {
		select {
		case <-c.sendDone:
		case <-time.After(3 * time.Second):
		}
	}
	if c.secondStarted.Load() {
		select {
		case <-c.secondDone:
		case <-time.After(3 * time.Second):
		}
	}
	signalDrain()
}

func (c *cliState) sendSignal1(h *hookRt, kind string) {
	if !h.waitFor(pointRef{name: "awaitPandoraTermination.select", n: 1}, 2*time.Second) {
		return
	}
	c.mu.Lock()
	if c.done {
		c.mu.Unlock()
		return
	}
	c.sig = true
	c.mu.Unlock()
	sg := syscall.SIGINT
	if kind == "term" {
		sg = syscall.SIGTERM
	}
	signalDrain()
	_ = syscall.Kill(os.Getpid(), sg)
	// the signal reaches the channels through the runtime's signal goroutine: wait until it has (the harness's own
	// channel got it), so that a case that signals at a point of the engine has the signal pending when the engine goes
	// on, and no case ends with a signal still on its way (the next case would get it)
	select {
	case <-signalAck:
	case <-time.After(2 * time.Second):
	}
	time.Sleep(time.Millisecond)
}

// cliFatalHook: zap's hook for Fatal entries: instead of os.Exit(1) it records the exit, probes whether Engine.Wait
// returns at once, and ends the calling goroutine.
type cliFatalHook struct {
	cs  *cliState
	eng func() *engine.Engine
}

func (h cliFatalHook) OnWrite(*zapcore.CheckedEntry, []zapcore.Field) {
	waited := make(chan struct{})
	go func() { h.eng().Wait(); close(waited) }()
	select {
	case <-waited:
		h.cs.add("fatal.w1")
	case <-time.After(100 * time.Millisecond):
		h.cs.add("fatal.w0")
	}
	runtime.Goexit()
}

func signalDrain() {
	for {
		select {
		case <-signalAck:
		default:
			return
		}
	}
}
