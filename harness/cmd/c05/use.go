package main

// Round 4: what a pool's run consumed.  The clause "a run succeeds only if every pool ran out of ammo or schedule" is
// judged per instance: an instance whose Run returned nil (`R<id>.ok` in the await log) must have seen its schedule
// finished.  The harness therefore keeps every schedule the pool's NewRPSSchedule factory handed out and asks it, after
// Engine.Wait, how many tokens are left; and it counts how often Acquire found the provider dry, how many shots were
// fired and how many were discarded by the engine itself (discard_overflow).
//
//   pK.use = f<Acquire calls that returned !ok>.z<schedules with Left()==0>.n<schedules handed out>.s<Shoot calls>.d<discarded>
//
// pool tokens: rs:once (default: schedule.NewOnce(shots)) | rs:step<ms> (shots tokens <ms> apart: Waiter.Wait goes through
// its timer and the select on the context) | rs:past (shots tokens that are 3 s overdue: Waiter.IsSlowDown is true);
// rs:late (token 1 at once, token 2 after 5 ms, every further token 20 s after the one before: an instance that has slept
// once already sleeps again, far longer than any run of the harness lasts, and only the run context can wake it);
// do:1 = discard_overflow (with rs:past the engine reports a discarded sample instead of shooting).

import (
	"fmt"
	"sync"
	"time"

	"github.com/yandex/pandora/core"
	"github.com/yandex/pandora/core/schedule"
)

// schedObs: a schedule as the factory made it, remembered by the harness (nothing is changed or delayed)
type schedObs struct{ core.Schedule }

func (p *poolRt) observeSched(s core.Schedule) core.Schedule {
	o := &schedObs{s}
	p.mu.Lock()
	p.scheds = append(p.scheds, o)
	p.mu.Unlock()
	return o
}

func (p *poolRt) rpsSchedule() core.Schedule {
	switch p.spec.rs {
	case "step":
		return &stepSched{n: p.spec.shots, d: time.Duration(p.spec.rsMs) * time.Millisecond}
	case "past":
		return &pastSched{n: p.spec.shots}
	case "late":
		return &lateSched{n: p.spec.shots}
	}
	return schedule.NewOnce(int64(p.spec.shots))
}

// pastSched: n tokens, each 3 s overdue when it is asked for
type pastSched struct {
	mu   sync.Mutex
	k, n int
}

func (s *pastSched) Start(time.Time) {}

func (s *pastSched) Next() (time.Time, bool) {
	s.mu.Lock()
	defer s.mu.Unlock()
	t := time.Now().Add(-3 * time.Second)
	if s.k >= s.n {
		return t, false
	}
	s.k++
	return t, true
}

func (s *pastSched) Left() int {
	s.mu.Lock()
	defer s.mu.Unlock()
	return s.n - s.k
}

// lateSched: see the comment at the top
type lateSched struct {
	mu    sync.Mutex
	start time.Time
	k, n  int
}

func (s *lateSched) Start(time.Time) {}

func (s *lateSched) Next() (time.Time, bool) {
	s.mu.Lock()
	defer s.mu.Unlock()
	if s.start.IsZero() {
		s.start = time.Now()
	}
	if s.k >= s.n {
		return s.start, false
	}
	s.k++
	switch s.k {
	case 1:
		return s.start, true
	case 2:
		return s.start.Add(5 * time.Millisecond), true
	}
	return s.start.Add(time.Duration(s.k-2) * 20 * time.Second), true
}

func (s *lateSched) Left() int {
	s.mu.Lock()
	defer s.mu.Unlock()
	return s.n - s.k
}

func (p *poolRt) useObs() string {
	p.mu.Lock()
	scheds := append([]*schedObs(nil), p.scheds...)
	p.mu.Unlock()
	z := 0
	for _, s := range scheds {
		if s.Left() == 0 {
			z++
		}
	}
	return fmt.Sprintf("f%d.z%d.n%d.s%d.d%d", p.acqFail.Load(), z, len(scheds), p.shotCalls.Load(), p.discarded.Load())
}
