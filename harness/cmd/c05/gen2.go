package main

// Round 2 plan families: startup over time (su:), guns of the registered factories (rg:), and - in the instrumented
// worker - the caller's cancel at every statement of the engine, forced orderings between two goroutines (hold=),
// and runs through cli.runEngine / cli.awaitPandoraTermination with and without a signal.

import (
	"fmt"
	"math/rand"
	"strings"
)

var mockPoints = []string{"m.prov.ret", "m.agg.ret", "m.newgun", "m.bind", "m.warm", "m.sched", "m.shot", "m.close"}

type pointSet []string

// pick: the first point of the tree with this prefix and suffix ("" when the tree has none: the cases that need it are
// then not generated)
func (ps pointSet) pick(prefix, suffix string) string {
	for _, p := range ps {
		if strings.HasPrefix(p, prefix) && strings.HasSuffix(p, suffix) {
			return p
		}
	}
	return ""
}

func (ps pointSet) engine() []string {
	var out []string
	for _, p := range ps {
		if strings.HasPrefix(p, "awaitPandoraTermination") || strings.HasPrefix(p, "runEngine") {
			continue
		}
		out = append(out, p)
	}
	return out
}

func with(f func(p *pspec)) pspec { p := basePool(); f(&p); return p }

func blockPool(f func(p *pspec)) pspec {
	p := basePool()
	p.ammo, p.shots, p.slow = -1, 50, "block"
	f(&p)
	return p
}

// plainRound2: plans that need no instrumentation
func plainRound2() []planT {
	var out []planT
	add := func(cancel string, w int, pools ...pspec) {
		out = append(out, planT{cancel: cancel, pools: pools, weight: w})
	}

	// instances started over time; `inf`: the startup schedule never ends, so only running out of ammo (the await loop
	// cancels the instance start), the end of the shared schedule, a failure or a cancel ends the run
	for _, su := range []string{"step2", "inf2"} {
		for _, per := range []int{0, 1} {
			add("none", 2, with(func(p *pspec) { p.su = su; p.per = per; p.inst = 3; p.ammo = 5; p.shots = 3 }))
			add("none", 2, with(func(p *pspec) { p.su = su; p.per = per; p.inst = 3; p.ammo = 2; p.shots = 30 }))
		}
		add("none", 2, with(func(p *pspec) { p.su = su; p.per = 0; p.inst = 3; p.ammo = 40; p.shots = 3 }))
		for _, f := range []string{"newgun@2", "bind@2", "bind@3", "sched@2", "panic@2"} {
			add("none", 2, with(func(p *pspec) { p.su = su; p.fail = f; p.inst = 4; p.ammo = 9; p.shots = 4 }))
		}
		add("none", 2, with(func(p *pspec) { p.su = su; p.prov = "mid1.err"; p.inst = 3 }))
		add("none", 2, with(func(p *pspec) { p.su = su; p.agg = "mid1.err"; p.inst = 3 }))
		add("none", 2, with(func(p *pspec) { p.su = su; p.prov = "late.err"; p.inst = 3; p.ammo = 3; p.shots = 3 }))
		add("shot2", 2, with(func(p *pspec) { p.su = su; p.inst = 3; p.ammo = -1; p.shots = 5 }))
		add("shot3", 2, with(func(p *pspec) { p.su = su; p.inst = 3; p.ammo = -1; p.shots = 50; p.per = 0 }))
	}
	// a slow start: the ammo is gone long before the second instance is due
	add("none", 2, with(func(p *pspec) { p.su = "step40"; p.inst = 3; p.ammo = 2; p.shots = 3 }))
	add("none", 2, with(func(p *pspec) { p.su = "step40"; p.inst = 3; p.ammo = 20; p.shots = 2; p.per = 0 }))
	add("none", 2, with(func(p *pspec) { p.su = "inf1"; p.inst = 1; p.ammo = 30; p.shots = 1 }),
		with(func(p *pspec) { p.su = "step1"; p.inst = 5; p.ammo = 3; p.shots = 2 }))

	// the guns the repo registers, made by the registry's factories, shooting at an in-process server: after the run no
	// connection of a gun may be left open (closable guns are closed), whatever ends the run
	for _, g := range []string{"http", "hs"} {
		add("none", 2, with(func(p *pspec) { p.rg = g }))
		add("none", 2, with(func(p *pspec) { p.rg = g; p.per = 0; p.inst = 3; p.ammo = 9; p.shots = 6 }))
		add("none", 2, with(func(p *pspec) { p.rg = g; p.fail = "bind@2"; p.inst = 3 }))
		add("none", 2, with(func(p *pspec) { p.rg = g; p.prov = "late.err" }))
		add("none", 2, with(func(p *pspec) { p.rg = g; p.agg = "mid2.err" }))
		add("shot2", 2, with(func(p *pspec) { p.rg = g; p.ammo = -1; p.shots = 40 }))
		add("none", 2, with(func(p *pspec) { p.rg = g; p.su = "step2"; p.inst = 3; p.ammo = 8 }))
	}
	for _, g := range []string{"http2", "connect", "h2s"} {
		// no target for these in the harness: created, bound, closed without a shot (what the gun exposes to the engine)
		add("none", 2, with(func(p *pspec) { p.rg = g; p.inst = 2; p.ammo = 0 }))
	}
	add("none", 2, with(func(p *pspec) { p.rg = "http" }), with(func(p *pspec) { p.prov = "mid1.err" }))
	return out
}

// instrRound2: plans for the instrumented worker, derived from the scheduling points of the tree under test
func instrRound2(pts pointSet, r *rand.Rand, tier string) []planT {
	var out []planT
	add := func(cancel, extra string, w int, pools ...pspec) {
		out = append(out, planT{cancel: cancel, pools: pools, weight: w, extra: extra})
	}
	thorough := tier == "thorough"
	eng := pts.engine()

	planA := basePool()
	planB := with(func(p *pspec) { p.agg = "mid1.err"; p.per = 0 })
	planC := with(func(p *pspec) { p.fail = "newgun@1" })
	planD := with(func(p *pspec) { p.prov = "late.err"; p.ammo = 6; p.shots = 6 })
	planS := with(func(p *pspec) { p.su = "step1"; p.inst = 3; p.fail = "bind@3" })

	// 1. the caller's cancel at every statement of the engine
	for _, p := range eng {
		add("at:"+p, "", 3, planA)
		add("at:"+p, "", 3, planB)
		if thorough {
			add("at:"+p, "", 3, planC)
			add("at:"+p, "", 3, planS)
			add("at:"+p, "", 3, planA, planD)
			add("at:"+p+"~2", "", 3, planA)
			add("at:"+p+"~2", "", 3, planD)
		}
	}

	// 2. orderings between two goroutines that the runtime rarely produces on its own
	runSel := pts.pick("instancePool.Run.", ".select")
	onErrSel := pts.pick("runAwaitHandle.onErrAwaited.", ".select")
	awaitDone := pts.pick("instancePool.awaitRunAsync/", ".call:onWaitDone")
	runCancel := pts.pick("runAwaitHandle.checkAllInstancesAreFinished.", ".call:runCancel")
	awaitedInc := pts.pick("runAwaitHandle.awaitRun.", ".incdec:awaitedInstances")
	startSend := pts.pick("instancePool.runAsync/", ".send:startRes")
	engSend := pts.pick("Engine.Run/", ".select")
	engDefer := pts.pick("Engine.Run/", ".call:cancel")
	hold := func(a, b string) string {
		if a == "" || b == "" {
			return ""
		}
		return "hold=" + a + "@" + b
	}
	errPlans := []pspec{
		with(func(p *pspec) { p.prov = "pre.err" }),
		with(func(p *pspec) { p.agg = "pre.err" }),
		with(func(p *pspec) { p.fail = "newgun@1" }),
		with(func(p *pspec) { p.fail = "bind@2"; p.inst = 3 }),
		with(func(p *pspec) { p.fail = "panic@1" }),
		with(func(p *pspec) { p.fail = "sched@2" }),
		with(func(p *pspec) { p.prov = "mid1.err"; p.ek = "dl" }),
		blockPool(func(p *pspec) { p.agg = "pre.err" }),
		blockPool(func(p *pspec) { p.fail = "bind@2"; p.ek = "cn" }),
	}
	// … a component error is handed to onErrAwaited before Pool.Run has reached its select
	if h := hold(runSel, onErrSel); h != "" {
		for _, pl := range errPlans {
			add("none", h, 4, pl)
		}
		add("none", h, 4, with(func(p *pspec) { p.prov = "pre.err" }), planA)
	}
	// … the await goroutine has finished before Pool.Run has reached its select
	if h := hold(runSel, awaitDone); h != "" {
		add("none", h, 4, with(func(p *pspec) { p.inst = 0 }))
		add("none", h, 4, with(func(p *pspec) { p.inst = 1; p.ammo = 1; p.shots = 1 }))
	}
	// … a provider / aggregator error that arrives after the engine has cancelled the run context, and one that arrives
	// while the first instance result is being handled
	if h := hold("m.prov.ret", runCancel); h != "" {
		add("none", h, 4, with(func(p *pspec) { p.prov = "end.err" }))
		add("none", h, 4, with(func(p *pspec) { p.prov = "end.err"; p.ek = "dl"; p.inst = 1; p.ammo = 1; p.shots = 1 }))
		add("none", h, 4, with(func(p *pspec) { p.prov = "mid4.err"; p.per = 0 }))
	}
	if h := hold("m.agg.ret", runCancel); h != "" {
		add("none", h, 4, with(func(p *pspec) { p.agg = "mid2.err" }))
		add("none", h, 4, with(func(p *pspec) { p.agg = "mid1.err"; p.ek = "dl"; p.inst = 1; p.ammo = 1; p.shots = 1 }))
	}
	if h := hold(awaitedInc, "m.prov.ret"); h != "" {
		add("none", h, 4, with(func(p *pspec) { p.prov = "end.err" }))
		add("none", h, 4, with(func(p *pspec) { p.prov = "mid1.err" }))
	}
	// … the start result arrives after every run result ("there is a race between run and start results")
	if h := hold(startSend, awaitedInc+"~2"); h != "" && awaitedInc != "" {
		add("none", h, 4, planA)
		add("none", h, 4, with(func(p *pspec) { p.fail = "panic@1" }))
	}
	// … a pool result that becomes ready when Engine.Run has already returned / two results at the same moment
	if h := hold(engSend+"~2", engDefer); h != "" && engSend != "" {
		add("none", h, 4, with(func(p *pspec) { p.prov = "pre.err" }), planA)
		add("none", h, 4, with(func(p *pspec) { p.prov = "pre.err" }), with(func(p *pspec) { p.agg = "pre.err" }))
		add("none", h, 4, with(func(p *pspec) { p.fail = "warmup" }), with(func(p *pspec) { p.fail = "newgun@0" }), planA)
	}
	// … every statement of the pool goroutine of Engine.Run: the second and the third pool to get there wait until
	// Engine.Run has returned (all three pools fail at once, whichever comes first ends the run)
	if goRun := pts.pick("Engine.Run/", ".call:Run"); goRun != "" && engDefer != "" {
		lit := goRun[:strings.LastIndex(goRun, ".call:Run")+1]
		for _, p := range pts {
			if !strings.HasPrefix(p, lit) || p == goRun {
				continue
			}
			h := "hold=" + p + "~2@" + engDefer + ";" + p + "~3@" + engDefer
			if engMain := pts.pick("Engine.Run.", ".select"); engMain != "" {
				// … and the main loop reads the first result only when all three goroutines have got there
				h += ";" + engMain + "@" + p + "~3"
			}
			add("none", h, 4, with(func(p *pspec) { p.fail = "warmup" }), with(func(p *pspec) { p.fail = "newgun@0" }),
				with(func(p *pspec) { p.fail = "sched@1"; p.per = 0 }))
		}
	}
	// … the main loop of Engine.Run reads a pool's failure when the caller has already cancelled: cancelled before the
	// start (the pool goroutines may still get their failure into the channel), and cancelled by another pool's first
	// shot while the failure of the first pool sits in the channel
	if engMain := pts.pick("Engine.Run.", ".select"); engMain != "" && engSend != "" {
		fails := []pspec{with(func(p *pspec) { p.fail = "warmup" }), with(func(p *pspec) { p.fail = "newgun@0" }),
			with(func(p *pspec) { p.fail = "sched@1"; p.per = 0 })}
		add("pre", "hold="+engMain+"@"+engSend+"~3", 6, fails...)
		add("pre", "hold="+engMain+"@"+engSend, 6, fails[0])
		add("shot1@p1", "hold="+engMain+"@m.shot", 6, fails[0], with(func(p *pspec) { p.ammo = -1; p.shots = 50 }))
		add("shot1@p1", "hold="+engMain+"@m.shot", 6, fails[2], with(func(p *pspec) { p.ammo = -1; p.shots = 50 }))
	}
	if h := hold(engSend, engSend+"~2"); h != "" && engSend != "" {
		add("none", h, 4, planA, with(func(p *pspec) { p.prov = "late.err" }))
		add("none", h, 4, with(func(p *pspec) { p.agg = "pre.err" }), with(func(p *pspec) { p.prov = "pre.err" }))
	}

	// 3. random plans with random orderings and a cancel at a random point
	all := append(append([]string(nil), eng...), mockPoints...)
	nrand := 70
	if thorough {
		nrand = 500 // a hold on a point the plan never reaches costs holdMax
	}
	for i := 0; i < nrand && len(all) > 0; i++ {
		pl := randomPlan(r)
		var hs []string
		for n := 1 + r.Intn(2); n > 0; n-- {
			a, b := all[r.Intn(len(all))], all[r.Intn(len(all))]
			if a == b {
				continue
			}
			if r.Intn(4) == 0 {
				b += fmt.Sprintf("~%d", 2+r.Intn(2))
			}
			hs = append(hs, a+"@"+b)
		}
		extra := ""
		if len(hs) > 0 {
			extra = "hold=" + strings.Join(hs, ";")
		}
		cancel := pl.cancel
		if r.Intn(3) == 0 {
			cancel = "at:" + all[r.Intn(len(all))]
		}
		add(cancel, extra, 7, pl.pools...)
	}

	// 4. through cli.runEngine + cli.awaitPandoraTermination: every kind of result, then signals
	for _, pl := range [][]pspec{
		{planA}, {with(func(p *pspec) { p.inst = 0 })}, {with(func(p *pspec) { p.prov = "pre.err" })}, {planD},
		{with(func(p *pspec) { p.agg = "late.err" })}, {with(func(p *pspec) { p.fail = "warmup" })},
		{with(func(p *pspec) { p.fail = "sched@1"; p.per = 0 })}, {with(func(p *pspec) { p.fail = "newgun@1" })},
		{with(func(p *pspec) { p.fail = "panic@2" })}, {planA, with(func(p *pspec) { p.agg = "mid1.err" })},
		{blockPool(func(p *pspec) { p.agg = "mid1.err" }), planA},
	} {
		add("none", "cli=run", 4, pl...)
	}
	for _, sg := range []string{"int", "term"} {
		add("none", "cli="+sg, 4, blockPool(func(p *pspec) {}))
		add("none", "cli="+sg, 4, planA)
		add("none", "cli="+sg, 4, blockPool(func(p *pspec) { p.prov = "late.err" }))
		add("none", "cli="+sg, 4, blockPool(func(p *pspec) {}), planA)
		add("none", "cli="+sg, 4, with(func(p *pspec) { p.su = "inf2"; p.ammo = -1; p.shots = 5 }))
	}
	add("none", "cli=term", 5, with(func(p *pspec) { p.ammo = -1; p.shots = 1000000; p.slow = "agg" }))
	// a component that needs 300 ms to stop: the process must not exit before Engine.Wait has returned
	add("none", "cli=run", 4, with(func(p *pspec) { p.prov = "pre.err"; p.slow = "agg300" }))
	add("none", "cli=run", 4, with(func(p *pspec) { p.fail = "panic@1"; p.slow = "prov300"; p.ammo = -1; p.shots = 1000000 }))
	add("none", "cli=int", 4, with(func(p *pspec) { p.ammo = -1; p.shots = 1000000; p.slow = "agg300" }))
	add("none", "cli=term", 4, with(func(p *pspec) { p.ammo = -1; p.shots = 1000000; p.slow = "prov300" }))
	// the signal at a point of the engine's own work
	stride := 9
	if thorough {
		stride = 1
	}
	for i := 0; i < len(eng); i += stride {
		sg := []string{"int", "term"}[i%2]
		add("none", "cli="+sg+" sig="+eng[i], 7, blockPool(func(p *pspec) {}))
		if thorough {
			add("none", "cli="+sg+" sig="+eng[i], 7, planD)
		}
	}
	return out
}
