package main

// Two more input dimensions of a pool:
//
//	rg:<name>   the guns of the pool are made by the factory the repo REGISTERS under <name> (http | http2 | connect |
//	            http/scenario | http2/scenario, written hs / h2s for the last two), obtained from the plugin registry like
//	            the config decoder does, and shoot at an in-process HTTP server.  The harness decorates every gun only to
//	            count creations / Close calls; the decorator is an io.Closer / warmup.WarmedUp exactly when the gun the
//	            factory returned is one, so the engine sees the interfaces of the real gun.  Observed in addition:
//	            pK.gcl / pK.gwu (the factory's guns are io.Closer / warmup.WarmedUp), pK.icl (the gun, or the gun it wraps, is an io.Closer) and
//	            pK.srvopen: connections of this run the server still holds open after Engine.Wait returned.
//	su:<kind>   the startup schedule: once (default: all instances at once) | step<ms> (one instance every <ms> ms) |
//	            inf<ms> (an instance every <ms> ms without end: only running out of ammo, the end of a shared schedule,
//	            a failure or a cancel stops the start of new instances)

import (
	"fmt"
	"io"
	"net"
	"net/http"
	"net/http/httptest"
	"reflect"
	"strings"
	"sync"
	"time"

	"github.com/spf13/afero"
	phttp "github.com/yandex/pandora/components/guns/http"
	httpscenario "github.com/yandex/pandora/components/guns/http_scenario"
	phttpimport "github.com/yandex/pandora/components/phttp/import"
	httpammo "github.com/yandex/pandora/components/providers/http/ammo"
	"github.com/yandex/pandora/components/providers/scenario/http/templater"
	"github.com/yandex/pandora/core"
	"github.com/yandex/pandora/core/plugin"
)

// ---------------------------------------------------------------- startup schedule

type stepSched struct {
	mu    sync.Mutex
	start time.Time
	k, n  int // n < 0: unlimited
	d     time.Duration
}

func (s *stepSched) Start(at time.Time) {
	s.mu.Lock()
	if s.start.IsZero() {
		s.start = at
	}
	s.mu.Unlock()
}

func (s *stepSched) Next() (time.Time, bool) {
	s.mu.Lock()
	defer s.mu.Unlock()
	if s.start.IsZero() {
		s.start = time.Now()
	}
	if s.n >= 0 && s.k >= s.n {
		return s.start.Add(time.Duration(s.k) * s.d), false
	}
	t := s.start.Add(time.Duration(s.k) * s.d)
	s.k++
	return t, true
}

func (s *stepSched) Left() int {
	s.mu.Lock()
	defer s.mu.Unlock()
	if s.n < 0 {
		return -1
	}
	return s.n - s.k
}

// ---------------------------------------------------------------- the in-process target of real guns

var realSrv struct {
	once  sync.Once
	srv   *httptest.Server
	addr  string
	mu    sync.Mutex
	conns map[net.Conn]http.ConnState
	err   string
}

func realServer() (string, string) {
	realSrv.once.Do(func() {
		defer func() {
			if r := recover(); r != nil {
				realSrv.err = sanitize(fmt.Sprint(r))
			}
		}()
		phttpimport.Import(afero.NewMemMapFs())
		realSrv.conns = map[net.Conn]http.ConnState{}
		s := httptest.NewUnstartedServer(http.HandlerFunc(func(w http.ResponseWriter, r *http.Request) {
			_, _ = io.WriteString(w, "ok")
		}))
		s.Config.ConnState = func(c net.Conn, st http.ConnState) {
			realSrv.mu.Lock()
			if st == http.StateClosed || st == http.StateHijacked {
				delete(realSrv.conns, c)
			} else {
				realSrv.conns[c] = st
			}
			realSrv.mu.Unlock()
		}
		s.Start()
		realSrv.srv = s
		realSrv.addr = strings.TrimPrefix(s.URL, "http://")
	})
	return realSrv.addr, realSrv.err
}

func realOpenConns() int {
	realSrv.mu.Lock()
	defer realSrv.mu.Unlock()
	return len(realSrv.conns)
}

// realSettle waits until the server sees no open connection (at most max) and returns how many are left; those are
// closed from the server side so that the next case starts from zero.
func realSettle(max time.Duration) int {
	deadline := time.Now().Add(max)
	for realOpenConns() > 0 && time.Now().Before(deadline) {
		time.Sleep(500 * time.Microsecond)
	}
	n := realOpenConns()
	if n > 0 && realSrv.srv != nil {
		realSrv.srv.CloseClientConnections()
		d2 := time.Now().Add(500 * time.Millisecond)
		for realOpenConns() > 0 && time.Now().Before(d2) {
			time.Sleep(500 * time.Microsecond)
		}
	}
	return n
}

func realName(s string) string {
	switch s {
	case "hs":
		return "http/scenario"
	case "h2s":
		return "http2/scenario"
	}
	return s
}

// realFactory asks the plugin registry for the gun factory registered under name, configured like a config file with
// only `target:` set.
func realFactory(name string) (func() (core.Gun, error), error) {
	addr, e := realServer()
	if e != "" {
		return nil, fmt.Errorf("real server: %s", e)
	}
	var fptr *func() (core.Gun, error)
	f, err := plugin.NewFactory(reflect.TypeOf(fptr).Elem(), realName(name), func(c interface{}) error {
		gc, ok := c.(*phttp.GunConfig)
		if !ok {
			return fmt.Errorf("unexpected gun config %T", c)
		}
		gc.Target = addr
		return nil
	})
	if err != nil {
		return nil, err
	}
	return f.(func() (core.Gun, error)), nil
}

// innerCloser: the gun, or a gun it wraps in an exported field named Gun, is an io.Closer
func innerCloser(g core.Gun) bool {
	if _, ok := g.(io.Closer); ok {
		return true
	}
	v := reflect.ValueOf(g)
	for v.Kind() == reflect.Ptr || v.Kind() == reflect.Interface {
		if v.IsNil() {
			return false
		}
		v = v.Elem()
	}
	if v.Kind() != reflect.Struct {
		return false
	}
	f := v.FieldByName("Gun")
	if !f.IsValid() || !f.CanInterface() {
		return false
	}
	_, ok := f.Interface().(io.Closer)
	return ok
}

type realVars struct{}

func (realVars) Variables() map[string]any { return map[string]any{} }

// realAmmo: the i-th ammo for the guns registered under name
func realAmmo(name string, i int) core.Ammo {
	addr, _ := realServer()
	switch realName(name) {
	case "http/scenario", "http2/scenario":
		return &httpscenario.Scenario{
			ID:              uint64(i),
			Name:            "s",
			VariableStorage: realVars{},
			Requests: []httpscenario.Request{{Method: "GET", URI: "/", Name: "r", Headers: map[string]string{},
				Templater: templater.NewTextTemplater()}},
		}
	}
	req, _ := http.NewRequest("GET", "http://"+addr+"/", nil)
	a := httpammo.NewGunAmmo(req, "t", uint64(i))
	return &a
}
