package main

// Round 4 plan families: what ends an instance.
//
// instance.Run leaves its loop through coreutil.Waiter (IsFinished / Wait / IsSlowDown over the pool's rps schedule) or
// because Acquire found the provider dry.  The plans vary what the engine only passes through: how the schedule hands
// out its tokens (all at once, over time - the Waiter's timer against the run context -, overdue), rps-per-instance
// against a shared schedule (the engine's finish callback cancels the instance start), discard_overflow, the number of
// tokens against the number of ammo and of instances (1 token per instance, more instances than tokens, far more
// instances than the 64 slots of the run-result channel or than fit a small integer type), and combine them with the
// faults and cancels of the earlier rounds.

func plainRound4() []planT {
	var out []planT
	add := func(cancel string, w int, pools ...pspec) {
		out = append(out, planT{cancel: cancel, pools: pools, weight: w})
	}
	endless := func(f func(p *pspec)) pspec {
		return with(func(p *pspec) { p.ammo = -1; f(p) })
	}
	for _, per := range []int{0, 1} {
		for _, rs := range []string{"", "step1", "step3", "past"} {
			for _, do := range []int{0, 1} {
				// the schedule decides: endless ammo, 1 / 2 / 5 tokens
				for _, shots := range []int{1, 2, 5} {
					add("none", 10, endless(func(p *pspec) { p.per = per; p.rs = rs; p.do = do; p.shots = shots; p.inst = 3 }))
				}
				// the ammo decides
				add("none", 10, with(func(p *pspec) { p.per = per; p.rs = rs; p.do = do; p.shots = 6; p.ammo = 3; p.inst = 2 }))
				// exactly as many ammo as tokens
				add("none", 10, with(func(p *pspec) { p.per = per; p.rs = rs; p.do = do; p.shots = 2; p.inst = 2; p.ammo = 2 + 2*per }))
			}
			// more instances than tokens of a shared schedule / than ammo
			add("none", 10, endless(func(p *pspec) { p.per = per; p.rs = rs; p.shots = 2; p.inst = 6 }))
			add("none", 10, with(func(p *pspec) { p.per = per; p.rs = rs; p.shots = 3; p.inst = 6; p.ammo = 2 }))
			// instances that start over time while the schedule / the ammo runs out
			add("none", 10, endless(func(p *pspec) { p.per = per; p.rs = rs; p.shots = 3; p.inst = 4; p.su = "step2" }))
			add("none", 10, with(func(p *pspec) { p.per = per; p.rs = rs; p.shots = 3; p.inst = 4; p.su = "inf2"; p.ammo = 5 }))
			// a fault or a cancel while an instance waits for its next token
			if rs != "" {
				add("shot2", 10, endless(func(p *pspec) { p.per = per; p.rs = rs; p.shots = 40 }))
				add("none", 10, endless(func(p *pspec) { p.per = per; p.rs = rs; p.shots = 40; p.agg = "mid2.err" }))
				add("none", 10, with(func(p *pspec) { p.per = per; p.rs = rs; p.shots = 40; p.ammo = 30; p.prov = "mid3.err" }))
				add("none", 10, endless(func(p *pspec) { p.per = per; p.rs = rs; p.shots = 40; p.fail = "panic@3" }))
			}
		}
		// two pools that end for different reasons
		add("none", 10, endless(func(p *pspec) { p.per = per; p.shots = 2 }), with(func(p *pspec) { p.per = 1 - per; p.ammo = 1; p.shots = 9 }))
		add("none", 10, endless(func(p *pspec) { p.per = per; p.rs = "step2"; p.shots = 4; p.do = 1 }), endless(func(p *pspec) { p.per = per; p.rs = "past"; p.shots = 4; p.do = 1 }))
	}
	// an instance that sleeps for a token that is 20 s away - not its first sleep - when the run ends around it: a
	// component fails, the caller cancels, the other pool fails.  Only the run context can wake it; Engine.Wait must return
	for _, per := range []int{0, 1} {
		late := func(f func(p *pspec)) pspec {
			return endless(func(p *pspec) { p.per = per; p.rs = "late"; p.shots = 6; p.inst = 1; f(p) })
		}
		add("none", 9, late(func(p *pspec) { p.agg = "mid2.err" }))
		add("none", 9, late(func(p *pspec) { p.agg = "mid2.err"; p.inst = 2 }))
		add("shot2", 9, late(func(p *pspec) { p.inst = 2 }))
		add("none", 9, late(func(p *pspec) {}), with(func(p *pspec) { p.prov = "end.err"; p.rs = "step4"; p.shots = 4; p.ammo = 4; p.inst = 1 }))
	}
	// far more instances than result slots; more than a small integer holds
	for _, n := range []int{130, 200} {
		add("none", 9, with(func(p *pspec) { p.inst = n; p.ammo = n + 5; p.shots = 2 }))
		add("none", 9, endless(func(p *pspec) { p.inst = n; p.per = 0; p.shots = n / 2 }))
		add("none", 9, with(func(p *pspec) { p.inst = n; p.ammo = 40; p.shots = 1; p.su = "step1" }))
	}
	add("none", 9, with(func(p *pspec) { p.inst = 130; p.ammo = -1; p.shots = 1; p.fail = "bind@129" }))
	add("shot100", 9, with(func(p *pspec) { p.inst = 130; p.ammo = -1; p.shots = 3 }))
	return out
}
