package main

// Round 6: the ammo PROVIDER of a pool is one of the repo's own (pool token rp:<kind>.<k>.<tail>), built through its
// public constructor over an ammo source the harness writes:
//
//	kind  json   core/provider.NewJSONProvider (DecodeProvider + JSONAmmoDecoder, passes: 1) over a core.DataSource
//	      gj     components/providers/grpc/grpcjson.NewProvider (base components/providers/grpc.Provider) over an afero file
//	      hj/hjp components/providers/http.NewProvider with the jsonline decoder, full scan / preload (tails ok | tr | bad)
//	k     number of complete ammo at the head of the source
//	tail  ok        the source ends after them
//	      tr        … then an ammo that is cut short by the end of the source (a writer died, a truncated file)
//	      bad       … then a record that is not JSON, and one more complete ammo
//	      nofile    the source cannot be opened (fails at once)
//	      slowopen  the source cannot be opened and says so only after 25 ms (a stale mount): the instances are parked in
//	                Acquire by then, and only the provider can let them go
//	      rderr     (json) after the complete ammo every Read fails with an I/O error
//
// The provider is decorated only to see what its Run returned (a non-nil error that is not the error of the context it
// was given is recorded as the component error `prov` of the pool and gets the harness's tag in its MESSAGE; cause and
// kind are untouched) and to count the Acquire calls that found it dry.  What the run must come to is decided from the
// input alone (Spec): a source that is broken after k ammo, in a pool whose schedules ask for more than k, must not give
// a successful run.

import (
	"bytes"
	"context"
	"errors"
	"fmt"
	"io"
	"os"
	"strconv"
	"strings"
	"time"

	pkgerrors "github.com/pkg/errors"
	"github.com/spf13/afero"
	"github.com/yandex/pandora/components/providers/grpc/grpcjson"
	httpprov "github.com/yandex/pandora/components/providers/http"
	httpconf "github.com/yandex/pandora/components/providers/http/config"
	"github.com/yandex/pandora/core"
	"github.com/yandex/pandora/core/provider"
)

type rpSpec struct {
	kind string
	k    int
	tail string
}

func parseRp(v string) (rpSpec, error) {
	f := strings.Split(v, ".")
	if len(f) != 3 {
		return rpSpec{}, fmt.Errorf("bad rp %q", v)
	}
	k, err := strconv.Atoi(f[1])
	if err != nil || k < 0 || k > 500 {
		return rpSpec{}, fmt.Errorf("bad rp %q", v)
	}
	switch f[0] {
	case "json", "gj":
	case "hj", "hjp":
		if f[2] == "nofile" || f[2] == "slowopen" {
			return rpSpec{}, fmt.Errorf("bad rp %q", v) // the http provider opens its file when it is constructed, not in Run
		}
	default:
		return rpSpec{}, fmt.Errorf("bad rp kind %q", v)
	}
	switch f[2] {
	case "ok", "tr", "bad", "nofile", "slowopen":
	case "rderr":
		if f[0] != "json" {
			return rpSpec{}, fmt.Errorf("bad rp %q", v)
		}
	default:
		return rpSpec{}, fmt.Errorf("bad rp tail %q", v)
	}
	return rpSpec{f[0], k, f[2]}, nil
}

const rpSlowOpen = 25 * time.Millisecond

var errRpIO = errors.New("input/output error")

func (s rpSpec) content() []byte {
	var b bytes.Buffer
	rec := func(i int) string {
		if s.kind == "gj" {
			return fmt.Sprintf(`{"tag":"t%d","call":"pkg.Svc.Do","payload":{"n":%d}}`, i, i)
		}
		if s.kind == "hj" || s.kind == "hjp" {
			return fmt.Sprintf(`{"host":"example.org","method":"GET","uri":"/a?n=%d","tag":"t%d","headers":{"X-N":"%d"}}`, i, i, i)
		}
		return fmt.Sprintf(`{"N":%d,"S":"ammo-%d"}`, i, i)
	}
	for i := 0; i < s.k; i++ {
		b.WriteString(rec(i) + "\n")
	}
	switch s.tail {
	case "tr":
		r := rec(s.k)
		b.WriteString(r[:len(r)/2]) // no closing brace, no newline
	case "bad":
		b.WriteString("}} this is not an ammo {{\n" + rec(s.k+1) + "\n")
	}
	return b.Bytes()
}

// --- core.DataSource of the json kind

type rpSource struct{ s rpSpec }

type rpReader struct {
	r     *bytes.Reader
	after error // what Read says once the content is through (nil: io.EOF)
}

func (r *rpReader) Read(p []byte) (int, error) {
	n, err := r.r.Read(p)
	if err == io.EOF && r.after != nil {
		return n, r.after
	}
	return n, err
}
func (r *rpReader) Close() error { return nil }

func (d rpSource) OpenSource() (io.ReadCloser, error) {
	switch d.s.tail {
	case "nofile":
		return nil, &os.PathError{Op: "open", Path: "ammo.json", Err: os.ErrNotExist}
	case "slowopen":
		time.Sleep(rpSlowOpen)
		return nil, &os.PathError{Op: "open", Path: "ammo.json", Err: errRpIO}
	}
	rd := &rpReader{r: bytes.NewReader(d.s.content())}
	if d.s.tail == "rderr" {
		rd.after = errRpIO
	}
	return rd, nil
}

type rpAmmo struct {
	N int
	S string
}

// --- afero.Fs of the gj kind: a memory file system whose Open may fail (late)

type rpFs struct {
	afero.Fs
	s rpSpec
}

func (f rpFs) Open(name string) (afero.File, error) {
	switch f.s.tail {
	case "nofile":
		return nil, &os.PathError{Op: "open", Path: name, Err: os.ErrNotExist}
	case "slowopen":
		time.Sleep(rpSlowOpen)
		return nil, &os.PathError{Op: "open", Path: name, Err: errRpIO}
	}
	return f.Fs.Open(name)
}

func realProvider(s rpSpec) (core.Provider, error) {
	switch s.kind {
	case "json":
		conf := provider.DefaultJSONProviderConfig()
		conf.Decode.Source = rpSource{s}
		conf.Decode.Passes = 1
		return provider.NewJSONProvider(func() core.Ammo { return &rpAmmo{} }, conf), nil
	case "gj":
		mem := afero.NewMemMapFs()
		if err := afero.WriteFile(mem, "ammo.json", s.content(), 0o644); err != nil {
			return nil, err
		}
		return grpcjson.NewProvider(rpFs{mem, s}, grpcjson.Config{File: "ammo.json", Passes: 1}), nil
	case "hj", "hjp":
		// components/providers/http.NewProvider with the jsonline decoder (full scan / preload), one pass
		mem := afero.NewMemMapFs()
		if err := afero.WriteFile(mem, "ammo.jsonline", s.content(), 0o644); err != nil {
			return nil, err
		}
		return httpprov.NewProvider(mem, httpconf.Config{Decoder: httpconf.DecoderJSONLine, File: "ammo.jsonline", Passes: 1, Preload: s.kind == "hjp"})
	}
	return nil, fmt.Errorf("unknown provider kind %q", s.kind)
}

// --- the decorator

type provReal struct {
	p     *poolRt
	inner core.Provider
}

func (m provReal) Run(ctx context.Context, deps core.ProviderDeps) error {
	p := m.p
	defer p.enter()()
	err := m.inner.Run(ctx, deps)
	if err == nil {
		return nil
	}
	if ce := ctx.Err(); ce != nil && pkgerrors.Cause(err) == ce {
		return err
	}
	p.mu.Lock()
	if p.errs == nil {
		p.errs = map[string]bool{}
	}
	p.errs["prov"] = true
	p.mu.Unlock()
	return pkgerrors.WithMessage(err, fmt.Sprintf("verr.prov.p%d", p.idx))
}

func (m provReal) Acquire() (core.Ammo, bool) {
	a, ok := m.inner.Acquire()
	if !ok {
		m.p.acqFail.Add(1)
	}
	return a, ok
}

func (m provReal) Release(a core.Ammo) { m.inner.Release(a) }
