package main

// Controlled scheduling over named points: the points the instrumentation put into the engine (instr.go; only in the
// instrumented worker) and the points of the mock components (`m.prov.ret`, `m.agg.ret`, `m.newgun`, `m.bind`, `m.warm`,
// `m.sched`, `m.shot`, `m.close`; in every worker).
//
//	cancel=at:<P>[~n]        the caller's cancel fires when point P is reached for the n-th time (default: first)
//	hold=<A>[~n]@<B>[~m];…   the goroutine that reaches A (n-th time) waits there until B has been reached (m-th time) and
//	                         holdSettle longer - time for the goroutine that reached B to run into its next blocking
//	                         operation -, at most holdMax (then it goes on: the case then shows another interleaving)
//	sig=<int|term>[@<P>[~n]] cli cases: the process sends itself that signal when P is reached (default: the first
//	                         select of awaitPandoraTermination, i.e. after signal.Notify)

import (
	"fmt"
	"strconv"
	"strings"
	"sync"
	"time"
)

const (
	holdMax    = 80 * time.Millisecond
	holdSettle = 3 * time.Millisecond
)

type pointRef struct {
	name string
	n    int
}

func parsePointRef(s string) (pointRef, error) {
	r := pointRef{name: s, n: 1}
	if i := strings.LastIndexByte(s, '~'); i >= 0 {
		n, err := strconv.Atoi(s[i+1:])
		if err != nil || n < 1 {
			return r, fmt.Errorf("bad point ref %q", s)
		}
		r.name, r.n = s[:i], n
	}
	if r.name == "" {
		return r, fmt.Errorf("empty point")
	}
	return r, nil
}

type holdRule struct{ a, b pointRef }

func parseHolds(s string) ([]holdRule, error) {
	if s == "" || s == "-" {
		return nil, nil
	}
	var out []holdRule
	for _, t := range strings.Split(s, ";") {
		i := strings.IndexByte(t, '@')
		if i < 0 {
			return nil, fmt.Errorf("bad hold %q", t)
		}
		a, err := parsePointRef(t[:i])
		if err != nil {
			return nil, err
		}
		b, err := parsePointRef(t[i+1:])
		if err != nil {
			return nil, err
		}
		out = append(out, holdRule{a, b})
	}
	return out, nil
}

type hookRt struct {
	mu     sync.Mutex
	hits   map[string]int
	holds  []holdRule
	cancel *pointRef
	sigAt  *pointRef
	onCan  func()
	onSig  func()
}

func (h *hookRt) count(name string) int {
	h.mu.Lock()
	defer h.mu.Unlock()
	return h.hits[name]
}

func (h *hookRt) waitFor(b pointRef, max time.Duration) bool {
	deadline := time.Now().Add(max)
	for {
		if h.count(b.name) >= b.n {
			return true
		}
		if time.Now().After(deadline) {
			return false
		}
		time.Sleep(100 * time.Microsecond)
	}
}

func (h *hookRt) at(pt string) {
	if h == nil {
		return
	}
	h.mu.Lock()
	if h.hits == nil {
		h.hits = map[string]int{}
	}
	h.hits[pt]++
	n := h.hits[pt]
	var waits []holdRule
	for _, r := range h.holds {
		if r.a.name == pt && r.a.n == n {
			waits = append(waits, r)
		}
	}
	doCancel := h.cancel != nil && h.cancel.name == pt && h.cancel.n == n
	doSig := h.sigAt != nil && h.sigAt.name == pt && h.sigAt.n == n
	h.mu.Unlock()
	if doCancel && h.onCan != nil {
		h.onCan()
	}
	if doSig && h.onSig != nil {
		h.onSig()
	}
	for _, r := range waits {
		if h.waitFor(r.b, holdMax) {
			time.Sleep(holdSettle)
		}
	}
}
