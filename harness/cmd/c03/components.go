package main

// The components the real engine.Engine is run with: a bounded mock provider or a REAL provider (provider.NewJSONProvider =
// DecodeProvider + AmmoQueue, or provider.NewNum) behind a logging wrapper; the REAL schedules of core/schedule behind a
// logging wrapper; a gun with a scripted shot duration; a counting mock aggregator or the REAL phout aggregator behind a
// logging wrapper.  Every wrapper performs the real operation and logs it under the recorder's mutex.

import (
	"context"
	"strings"
	"time"

	"github.com/spf13/afero"
	"github.com/yandex/pandora/core"
	"github.com/yandex/pandora/core/aggregator/netsample"
	"github.com/yandex/pandora/core/datasource"
	"github.com/yandex/pandora/core/provider"
	"github.com/yandex/pandora/core/schedule"
)

// ---------------------------------------------------------------- providers

type ammo struct{ n int }

// prov: mock provider with `left` items (-1 = unbounded).
type prov struct {
	r    *recorder
	left int
	n    int
	av   string // what an ammo VALUE is (core.Ammo is interface{}: every value is a valid ammo, see ammoValue)
}

var sameAmmo = &ammo{n: -1}

// ammoValue: the value the mock provider hands out for its n-th item. "" = a fresh pointer per item (the items can be told
// apart by the object); every other kind is a value the instances cannot tell apart — the untyped nil of the built-in `dummy`
// provider (for guns that need no ammo), a typed nil pointer, zero values of basic types, an empty struct, one object for
// all items. The engine must treat each of them as an item like any other: what says "no more ammo" is `ok == false`.
func ammoValue(av string, n int) core.Ammo {
	switch av {
	case "nil":
		return nil
	case "nilptr":
		return (*ammo)(nil)
	case "zero":
		return 0
	case "estr":
		return ""
	case "false":
		return false
	case "unit":
		return struct{}{}
	case "same":
		return sameAmmo
	}
	return &ammo{n: n}
}

func (p *prov) Run(ctx context.Context, _ core.ProviderDeps) error { <-ctx.Done(); return nil }
func (p *prov) Acquire() (core.Ammo, bool) {
	p.r.gate()
	p.r.mu.Lock()
	defer p.r.mu.Unlock()
	t := p.r.tid()
	if p.left == 0 {
		p.r.logf("e%d", p.r.lid(t))
		p.r.rest(t)
		p.r.startCancelled(true)
		return nil, false
	}
	if p.left > 0 {
		p.left--
	}
	p.n++
	a := ammoValue(p.av, p.n)
	p.r.acquired(t, a)
	p.r.logf("a%d", p.r.lid(t))
	return a, true
}
func (p *prov) Release(a core.Ammo) {
	p.r.gate()
	p.r.mu.Lock()
	defer p.r.mu.Unlock()
	t := p.r.tid()
	p.r.logf("r%d:%d", p.r.lid(t), p.r.released(t, a))
}

type jsonAmmo struct {
	ID int `json:"id"`
}

// wprov: a real provider behind the log. The inner Acquire runs under the recorder's mutex, so that "queue closed and
// drained" can never be logged before the Acquire that took the last item (the provider's own Run goroutine never needs
// that mutex).
type wprov struct {
	r     *recorder
	inner core.Provider
	ids   map[any]int // content of a JSON ammo at the moment it was acquired
}

func (p *wprov) Run(ctx context.Context, deps core.ProviderDeps) error { return p.inner.Run(ctx, deps) }
func (p *wprov) Acquire() (core.Ammo, bool) {
	p.r.gate()
	var a core.Ammo
	var ok bool
	if p.r.loose {
		a, ok = p.inner.Acquire()
		p.r.mu.Lock()
		defer p.r.mu.Unlock()
	} else {
		p.r.mu.Lock()
		defer p.r.mu.Unlock()
		a, ok = p.inner.Acquire()
	}
	t := p.r.tid()
	if !ok {
		p.r.logf("e%d", p.r.lid(t))
		p.r.rest(t)
		p.r.startCancelled(true)
		return a, false
	}
	p.r.acquired(t, a)
	if ja, isJ := a.(*jsonAmmo); isJ {
		p.ids[a] = ja.ID
	}
	p.r.logf("a%d", p.r.lid(t))
	return a, true
}
func (p *wprov) Release(a core.Ammo) {
	p.r.gate()
	p.r.mu.Lock()
	t := p.r.tid()
	p.r.logf("r%d:%d", p.r.lid(t), p.r.released(t, a))
	if p.r.loose {
		p.r.mu.Unlock()
		p.inner.Release(a)
		return
	}
	defer p.r.mu.Unlock()
	p.inner.Release(a)
}

// mkProvider: kind mock | json | jsonlimit | jsonpass | num | dummy ; n items (-1 = unbounded).
func mkProvider(r *recorder, kind string, n int) core.Provider {
	switch kind {
	case "dummy":
		// the built-in provider for guns that need no ammo: every Acquire answers (nil, true), it never runs out
		if n >= 0 {
			r.indistinct = true
			return &prov{r: r, left: n, av: "nil"}
		}
		r.indistinct = true
		return &wprov{r: r, inner: provider.Dummy{}, ids: map[any]int{}}
	case "json", "jsonlimit", "jsonpass":
		conf := provider.DefaultJSONProviderConfig()
		conf.Decode.Queue.AmmoQueueSize = 4
		lines, limit, passes := n, 0, 1
		switch {
		case n < 0: // unbounded: a small file read again and again
			lines, limit, passes = 3, 0, 0
		case kind == "jsonlimit": // more lines than the limit
			lines, limit, passes = n+3, n, 1
			if n == 0 { // Limit 0 means unlimited: an empty file instead
				lines, limit = 0, 0
			}
		case kind == "jsonpass" && n > 0 && n%2 == 0: // two passes over half the items
			lines, limit, passes = n/2, 0, 2
		}
		var sb strings.Builder
		for i := 0; i < lines; i++ {
			sb.WriteString(`{"id": ` + itoa(i) + "}\n")
		}
		conf.Decode.Source = datasource.NewString(sb.String())
		conf.Decode.Limit = limit
		conf.Decode.Passes = passes
		inner := provider.NewJSONProvider(func() core.Ammo { return &jsonAmmo{} }, conf)
		return &wprov{r: r, inner: inner, ids: map[any]int{}}
	case "num":
		if n == 0 {
			// NewNum(0) is unlimited; a provider with no items at all is the mock
			return &prov{r: r, left: 0}
		}
		lim := n
		if n < 0 {
			lim = 0
		}
		return &wprov{r: r, inner: provider.NewNum(lim), ids: map[any]int{}}
	default:
		return &prov{r: r, left: n}
	}
}

// ---------------------------------------------------------------- schedule

type sched struct {
	r      *recorder
	inner  core.Schedule
	past   int
	late   time.Duration // how far in the past every past-th token lies
	drawn  int
	shared bool // one object for all instances: the engine cancels the instance start when it is finished
}

func (s *sched) Start(t time.Time) { s.inner.Start(t) }
func (s *sched) Next() (time.Time, bool) {
	var tx time.Time
	var ok bool
	if !s.r.isFine() {
		s.r.gate()
	}
	if s.r.isFine() {
		// (no gate: the scheduling point is the one right before the atomic access inside the real Next)
		// the real Next runs outside the mutex and parks at its own scheduling points; its result is logged when it returns
		s.r.enter()
		tx, ok = s.inner.Next()
		s.r.mu.Lock()
		defer s.r.mu.Unlock()
		delete(s.r.inCall, s.r.tid())
	} else if s.r.loose {
		tx, ok = s.inner.Next()
		s.r.mu.Lock()
		defer s.r.mu.Unlock()
	} else {
		s.r.mu.Lock()
		defer s.r.mu.Unlock()
		tx, ok = s.inner.Next()
	}
	t := s.r.tid()
	if ok {
		s.r.logf("n%d", s.r.lid(t))
		s.drawn++
		if s.past > 0 && s.drawn%s.past == 0 {
			tx = tx.Add(-s.late) // overdue by more than MaxOverdueDuration: discarded when discard_overflow is on
		}
	} else {
		s.r.logf("x%d", s.r.lid(t))
		if s.shared {
			s.r.startCancelled(false)
		}
	}
	return tx, ok
}
func (s *sched) Left() int {
	var l int
	if !s.r.isFine() {
		s.r.gate()
	}
	if s.r.isFine() {
		s.r.enter()
		l = s.inner.Left()
		s.r.mu.Lock()
		defer s.r.mu.Unlock()
		delete(s.r.inCall, s.r.tid())
	} else if s.r.loose {
		l = s.inner.Left()
		s.r.mu.Lock()
		defer s.r.mu.Unlock()
	} else {
		s.r.mu.Lock()
		defer s.r.mu.Unlock()
		l = s.inner.Left()
	}
	t := s.r.tid()
	s.r.logf("c%d:%d", s.r.lid(t), l)
	if l == 0 {
		s.r.rest(t)
		if s.shared {
			s.r.startCancelled(false)
		}
	}
	return l
}

// czParts: `cz:<p>.<p>…` — a composite given part by part: `<n>` = once(n) (n = 0: once(0) at even positions, a const
// pause of 0 ops at odd ones), `<n>c` = a const part of n tokens, one per millisecond.
func czParts(kind string) []core.Schedule {
	var out []core.Schedule
	for k, p := range strings.Split(strings.TrimPrefix(kind, "cz:"), ".") {
		if strings.HasSuffix(p, "c") {
			n := atoi(strings.TrimSuffix(p, "c"))
			if n == 0 {
				out = append(out, schedule.NewConst(0, time.Millisecond))
			} else {
				out = append(out, schedule.NewConst(1000, time.Duration(n)*time.Millisecond+time.Microsecond))
			}
			continue
		}
		n := atoi(p)
		if n == 0 && k%2 == 1 {
			out = append(out, schedule.NewConst(0, time.Millisecond))
		} else {
			out = append(out, schedule.NewOnce(int64(n)))
		}
	}
	return out
}

// mkParts: the parts of a finite profile of (about) `tokens` tokens (one part = the leaf itself); nil = the kind is built
// by a constructor of its own (step).
func mkParts(kind string, tokens int) []core.Schedule {
	f := float64(tokens)
	switch {
	case strings.HasPrefix(kind, "cz:"):
		return czParts(kind)
	case kind == "const": // tokens spread over 20 ms
		if tokens == 0 {
			return []core.Schedule{schedule.NewConst(0, 20*time.Millisecond)}
		}
		return []core.Schedule{schedule.NewConst(f*50+1, 20*time.Millisecond)}
	case strings.HasPrefix(kind, "paced"): // paced<ms>: one token every <ms> milliseconds
		ms := atoi(strings.TrimPrefix(kind, "paced"))
		if ms <= 0 {
			ms = 5
		}
		if tokens == 0 {
			return []core.Schedule{schedule.NewConst(0, time.Millisecond)}
		}
		return []core.Schedule{schedule.NewConst(1000/float64(ms), time.Duration(tokens*ms)*time.Millisecond+time.Microsecond)}
	case kind == "comp":
		a := tokens / 2
		return []core.Schedule{schedule.NewOnce(int64(a)), schedule.NewConst(0, time.Millisecond), schedule.NewOnce(int64(tokens - a))}
	case kind == "line": // rising rate over 20 ms
		return []core.Schedule{schedule.NewLine(f*10, f*90, 20*time.Millisecond)}
	case kind == "step":
		return nil
	case kind == "comp2": // once + paced tail
		a := tokens / 2
		return []core.Schedule{schedule.NewOnce(int64(a)), schedule.NewConst(f*50+1, time.Duration(10*(tokens-a))*time.Millisecond/10)}
	default:
		return []core.Schedule{schedule.NewOnce(int64(tokens))}
	}
}

// mkSchedule: a finite profile of (about) `tokens` tokens; the exact number is read from a twin's Left().
func mkSchedule(kind string, tokens int) core.Schedule {
	if ps := mkParts(kind, tokens); ps != nil {
		return schedule.NewComposite(ps...) // one part: the part itself
	}
	// step: two steps of 8 ms
	if tokens == 0 {
		return schedule.NewConst(0, time.Millisecond)
	}
	return schedule.NewStep(float64(tokens)*42, float64(tokens)*84, int64(tokens*42), 8*time.Millisecond)
}

// partsLeft: the tokens of every part of the profile (Left() of fresh twins of the parts), "" = not known part by part.
func partsLeft(kind string, tokens int) string {
	ps := mkParts(kind, tokens)
	if ps == nil {
		return ""
	}
	out := make([]string, len(ps))
	for k, p := range ps {
		out[k] = itoa(p.Left())
	}
	return strings.Join(out, ",")
}

// startSched: the startup schedule behind a scheduling point (sctl): the goroutine that starts the instances parks before
// every Next().
type startSched struct {
	r     *recorder
	inner core.Schedule
}

func (s *startSched) Start(t time.Time) { s.inner.Start(t) }
func (s *startSched) Left() int         { return s.inner.Left() }
func (s *startSched) Next() (time.Time, bool) {
	s.r.gateStarter()
	tx, ok := s.inner.Next()
	if c := s.r.ctl; c != nil && c.sctl {
		s.r.mu.Lock()
		if ok {
			c.launched++
		} else {
			c.starterDone = true
		}
		s.r.mu.Unlock()
		c.poke()
	}
	return tx, ok
}

// mkStartup: once | ramp<ms> (one instance every <ms> milliseconds)
func mkStartup(kind string, inst int) core.Schedule {
	if strings.HasPrefix(kind, "ramp") {
		ms := atoi(strings.TrimPrefix(kind, "ramp"))
		if ms <= 0 {
			ms = 5
		}
		if inst == 0 {
			return schedule.NewOnce(0)
		}
		return schedule.NewConst(1000/float64(ms), time.Duration(inst*ms)*time.Millisecond+time.Microsecond)
	}
	return schedule.NewOnce(int64(inst))
}

// ---------------------------------------------------------------- gun

type gun struct {
	r       *recorder
	shot    time.Duration
	aggr    core.Aggregator
	report  bool // report a sample per shot (real aggregator)
	ids     map[any]int
	panicAt int  // fault plan: the panicAt-th Shoot of the pool panics (0 = never)
	warm    bool // the gun instancePool.Run makes for the warm-up (closed before any instance exists)
}

// made: called by the gun factories; the first gun of a pool is the warm-up gun
func (g *gun) made() *gun {
	g.r.mu.Lock()
	g.warm = g.r.guns == 0
	g.r.guns++
	g.r.mu.Unlock()
	return g
}

// Close: runNewInstance closes the instance (its gun) after Run returned. The controlled starter uses the count to know
// which instances have left Run even on a tree whose InstanceFinish counter is wrong.
func (g *gun) Close() error {
	g.r.mu.Lock()
	if !g.warm {
		g.r.gunsClosed++
	}
	g.r.mu.Unlock()
	return nil
}

func (g *gun) Bind(a core.Aggregator, _ core.GunDeps) error { g.aggr = a; return nil }
func (g *gun) Shoot(a core.Ammo) {
	g.r.gate()
	g.r.mu.Lock()
	t := g.r.tid()
	k := g.r.used(t, a)
	if ja, isJ := a.(*jsonAmmo); isJ && g.ids != nil {
		if id, ok := g.ids[a]; !ok || id != ja.ID {
			g.r.uar = true // the content changed while held: the object is being reused
		}
	}
	g.r.logf("s%d:%d", g.r.lid(t), k)
	g.r.shots++
	boom := g.panicAt > 0 && g.r.shots == g.panicAt
	if boom {
		g.r.rest(t) // the instance leaves Run through the panic
	}
	g.r.mu.Unlock()
	if boom {
		panic("injected gun fault")
	}
	if g.shot > 0 {
		time.Sleep(g.shot)
	}
	if g.report && g.aggr != nil {
		s := netsample.Acquire("shot")
		s.SetProtoCode(200)
		g.aggr.Report(s)
	}
	g.r.mu.Lock()
	g.r.stillHeld(t, k)
	g.r.mu.Unlock()
}

// ---------------------------------------------------------------- aggregators

type aggr struct {
	r     *recorder
	inner core.Aggregator // nil = mock
}

func (a *aggr) Run(ctx context.Context, deps core.AggregatorDeps) error {
	if a.inner != nil {
		return a.inner.Run(ctx, deps)
	}
	<-ctx.Done()
	return nil
}
func (a *aggr) Report(s core.Sample) {
	ns, ok := s.(*netsample.Sample)
	if ok && ns.Tags() == netsample.DiscardedShootTag {
		a.r.gate()
		a.r.mu.Lock()
		a.r.logf("d%d", a.r.lid(a.r.tid()))
		if a.r.loose {
			a.r.mu.Unlock()
			if a.inner != nil {
				a.inner.Report(s)
			}
			return
		}
		if a.inner != nil {
			a.inner.Report(s)
		}
		a.r.mu.Unlock()
		return
	}
	if a.inner != nil {
		a.inner.Report(s)
	}
}

func mkAggregator(r *recorder, kind string) (core.Aggregator, error) {
	if kind == "phout" {
		conf := netsample.DefaultPhoutConfig()
		conf.Destination = "/phout.log"
		conf.SampleQueueSize = 4096
		ph, err := netsample.NewPhout(afero.NewMemMapFs(), conf)
		if err != nil {
			return nil, err
		}
		return &aggr{r: r, inner: netsample.WrapAggregator(ph)}, nil
	}
	return &aggr{r: r}, nil
}
