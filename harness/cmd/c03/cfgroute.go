package main

// The construction route of a real run: the pool is written as YAML TEXT and goes through the real config reader —
// `cfg=cli`: cli.readConfig itself (viper / yaml.v3, key folding, discard_overflow defaulting, config.DecodeAndValidate with
// all hooks of core/import and the plugin registry); `cfg=yaml2`: yaml.v2 + config.DecodeAndValidate into cli.DefaultConfig()
// (the way tests/acceptance reads its configs).  The load profile (`rps:`) and the startup schedule are the REAL registered
// schedule plugins in every spelling the decoder accepts (`rpsy=` / `stay=`: one mapping, a YAML list of one / several
// parts, an explicit `type: composite`), the provider is the real JSON provider over an inline source / the real Num
// provider / the mock, the aggregator the real phout / the mock; `NewRPSSchedule` and `NewGun` are the factories the
// plugin registry built.  Only AFTER decoding the components are put behind the logging wrappers of components.go
// (the factory results too: each schedule the real factory returns is wrapped when the engine asks for it).
//
// The number of tokens of one profile is still learnt from a twin built by hand (mkSchedule) from the same numbers.

import (
	"fmt"
	"os"
	"strconv"
	"strings"
	"sync"
	"time"
	_ "unsafe" // go:linkname

	"github.com/spf13/afero"
	"github.com/yandex/pandora/cli"
	"github.com/yandex/pandora/core"
	"github.com/yandex/pandora/core/config"
	"github.com/yandex/pandora/core/engine"
	coreimport "github.com/yandex/pandora/core/import"
	"github.com/yandex/pandora/core/provider"
	"github.com/yandex/pandora/core/register"
	"go.uber.org/zap"
	yaml2 "gopkg.in/yaml.v2"
)

//go:linkname cliReadConfig github.com/yandex/pandora/cli.readConfig
func cliReadConfig(args []string) *cli.CliConfig

type cfgMockProvConf struct {
	Items int    `config:"items"`
	Av    string `config:"av"`
}

type cfgGunConf struct {
	ShotUs  int  `config:"shotus"`
	Report  bool `config:"report"`
	PanicAt int  `config:"panic-at"`
}

var (
	cfgSetupOnce sync.Once
	cfgFs        afero.Fs
)

// cfgSetup: what /repo/main.go does before cli.Run (core plugins only), plus the harness' own plugin types.
func cfgSetup() {
	cfgSetupOnce.Do(func() {
		cfgFs = afero.NewMemMapFs()
		coreimport.Import(cfgFs)
		register.Provider("c03mock", func(c cfgMockProvConf) core.Provider { return &prov{left: c.Items, av: c.Av} })
		coreimport.RegisterCustomJSONProvider("c03json", func() core.Ammo { return &jsonAmmo{} })
		register.Provider("c03num", provider.NewNumConf)
		register.Aggregator("c03aggr", func() core.Aggregator { return &aggr{} })
		register.Gun("c03gun", func(c cfgGunConf) core.Gun {
			return &gun{shot: time.Duration(c.ShotUs) * time.Microsecond, report: c.Report, panicAt: c.PanicAt}
		})
	})
}

func cfgFloat(f float64) string { return strconv.FormatFloat(f, 'g', -1, 64) }

func cfgDur(d time.Duration) string { return strconv.FormatInt(int64(d/time.Microsecond), 10) + "us" }

// cfgOnce: `once` refuses times: 0 (validate min=1); a part without tokens is then written as a const of 0 ops.
func cfgOnce(n int) string {
	if n <= 0 {
		return cfgConst(0, time.Millisecond)
	}
	return fmt.Sprintf("{type: once, times: %d}", n)
}

// cfgConst: the decoder wants a duration of at least 1 ms (the hand-built twin of a part without tokens may have 0).
func cfgConst(ops float64, d time.Duration) string {
	if d < time.Millisecond {
		d = time.Millisecond
	}
	return fmt.Sprintf("{type: const, ops: %s, duration: %s}", cfgFloat(ops), cfgDur(d))
}

// cfgParts: the profile mkSchedule(kind, tokens) builds, as the plugin configs of its parts (same numbers).
func cfgParts(kind string, tokens int) []string {
	f := float64(tokens)
	once, konst := cfgOnce, cfgConst
	switch {
	case strings.HasPrefix(kind, "cz:"): // the same parts as czParts
		var out []string
		for _, p := range strings.Split(strings.TrimPrefix(kind, "cz:"), ".") {
			if strings.HasSuffix(p, "c") {
				if n := atoi(strings.TrimSuffix(p, "c")); n == 0 {
					out = append(out, konst(0, time.Millisecond))
				} else {
					out = append(out, konst(1000, time.Duration(n)*time.Millisecond+time.Microsecond))
				}
				continue
			}
			out = append(out, once(atoi(p)))
		}
		return out
	case kind == "const":
		if tokens == 0 {
			return []string{konst(0, 20*time.Millisecond)}
		}
		return []string{konst(f*50+1, 20*time.Millisecond)}
	case strings.HasPrefix(kind, "paced"):
		ms := atoi(strings.TrimPrefix(kind, "paced"))
		if ms <= 0 {
			ms = 5
		}
		if tokens == 0 {
			return []string{konst(0, time.Millisecond)}
		}
		return []string{konst(1000/float64(ms), time.Duration(tokens*ms)*time.Millisecond+time.Microsecond)}
	case kind == "comp":
		a := tokens / 2
		return []string{once(a), konst(0, time.Millisecond), once(tokens - a)}
	case kind == "line":
		return []string{fmt.Sprintf("{type: line, from: %s, to: %s, duration: %s}", cfgFloat(f*10), cfgFloat(f*90), cfgDur(20*time.Millisecond))}
	case kind == "step":
		if tokens == 0 {
			return []string{konst(0, time.Millisecond)}
		}
		return []string{fmt.Sprintf("{type: step, from: %s, to: %s, step: %d, duration: %s}", cfgFloat(f*42), cfgFloat(f*84), tokens*42, cfgDur(8*time.Millisecond))}
	case kind == "comp2":
		a := tokens / 2
		return []string{once(a), konst(f*50+1, time.Duration(10*(tokens-a))*time.Millisecond/10)}
	default:
		return []string{once(tokens)}
	}
}

// cfgSpell writes a schedule of the given parts in one of the spellings the decoder accepts:
//
//	map    one part: the mapping itself; several parts: {type: composite, nested: [...]}
//	list   a YAML list of the parts (flow style)      — what the docs and the shipped configs use
//	block  the same list in block style with the keys on lines of their own
//	nest   a list whose only element is an explicit composite of the parts
//	split  (once profiles only) a list of two once parts that add up to the same number of tokens
func cfgSpell(spelling string, parts []string, indent string) string {
	join := func(ps []string) string { return "[" + strings.Join(ps, ", ") + "]" }
	switch spelling {
	case "list":
		return " " + join(parts)
	case "block":
		var sb strings.Builder
		for _, p := range parts {
			kvs := strings.Split(strings.Trim(p, "{}"), ", ")
			for i, kv := range kvs {
				if i == 0 {
					sb.WriteString("\n" + indent + "- " + kv)
				} else {
					sb.WriteString("\n" + indent + "  " + kv)
				}
			}
		}
		return sb.String()
	case "nest":
		return " [{type: composite, nested: " + join(parts) + "}]"
	default: // map
		if len(parts) == 1 {
			return " " + parts[0]
		}
		return " {type: composite, nested: " + join(parts) + "}"
	}
}

// cfgYAML: the configuration text of the whole engine.
func cfgYAML(m map[string]string, npools int) string {
	var sb strings.Builder
	poolsKey := "pools"
	if m["fold"] == "1" { // the keys of a configuration file are case-insensitive (cli route)
		poolsKey = "Pools"
	}
	sb.WriteString(poolsKey + ":\n")
	for j := 0; j < npools; j++ {
		get := func(k string) string {
			if v, ok := m[k+"."+itoa(j)]; ok {
				return v
			}
			return m[k]
		}
		tokens, inst, n := atoi(get("tokens")), atoi(get("inst")), atoi(get("ammo"))
		fmt.Fprintf(&sb, "  - id: p%d\n", j)
		// ---- provider
		switch kind := get("prov"); kind {
		case "json", "jsonlimit", "jsonpass":
			lines, limit, passes := n, 0, 1
			switch {
			case n < 0:
				lines, limit, passes = 3, 0, 0
			case kind == "jsonlimit":
				lines, limit, passes = n+3, n, 1
				if n == 0 {
					lines, limit = 0, 0
				}
			case kind == "jsonpass" && n > 0 && n%2 == 0:
				lines, limit, passes = n/2, 0, 2
			}
			var data strings.Builder
			for i := 0; i < lines; i++ {
				data.WriteString(`{\"id\": ` + itoa(i) + `}\n`)
			}
			if lines == 0 {
				// the inline source wants some data: blank lines hold no ammo
				data.WriteString(`\n`)
			}
			fmt.Fprintf(&sb, "    ammo: {type: c03json, source: {type: inline, data: \"%s\"}, limit: %d, passes: %d, ammo-queue-size: 4}\n", data.String(), limit, passes)
		case "num":
			if n == 0 {
				sb.WriteString("    ammo: {type: c03mock, items: 0}\n")
			} else {
				lim := n
				if n < 0 {
					lim = 0
				}
				fmt.Fprintf(&sb, "    ammo: {type: c03num, limit: %d}\n", lim)
			}
		case "dummy":
			if n < 0 {
				sb.WriteString("    ammo: {type: dummy}\n") // the registered built-in provider
			} else {
				fmt.Fprintf(&sb, "    ammo: {type: c03mock, items: %d, av: \"nil\"}\n", n)
			}
		default:
			if av := get("av"); av != "" {
				fmt.Fprintf(&sb, "    ammo: {type: c03mock, items: %d, av: \"%s\"}\n", n, av)
			} else {
				fmt.Fprintf(&sb, "    ammo: {type: c03mock, items: %d}\n", n)
			}
		}
		// ---- aggregator
		if get("aggr") == "phout" {
			fmt.Fprintf(&sb, "    result: {type: phout, destination: /phout-%d.log, sample-queue-size: 4096}\n", j)
		} else {
			sb.WriteString("    result: {type: c03aggr}\n")
		}
		// ---- gun
		fmt.Fprintf(&sb, "    gun: {type: c03gun, shotus: %d, report: %v, panic-at: %d}\n", atoi(get("shotus")), get("aggr") == "phout", atoi(get("panic")))
		// ---- profile
		if get("shared") == "0" {
			sb.WriteString("    rps-per-instance: true\n")
		} else if (tokens+inst)%2 == 0 {
			sb.WriteString("    rps-per-instance: false\n")
		} // else: left out
		parts := cfgParts(get("sched"), tokens)
		spelling := get("rpsy")
		if spelling == "split" {
			if k := get("sched"); k == "" || k == "once" {
				parts = []string{cfgOnce(tokens - tokens/3), cfgOnce(tokens / 3)}
			}
			spelling = "list"
		}
		sb.WriteString("    rps:" + cfgSpell(spelling, parts, "      ") + "\n")
		// ---- startup
		var sparts []string
		if st := get("start"); strings.HasPrefix(st, "ramp") {
			ms := atoi(strings.TrimPrefix(st, "ramp"))
			if ms <= 0 {
				ms = 5
			}
			if inst == 0 {
				sparts = []string{cfgOnce(0)}
			} else {
				sparts = []string{cfgConst(1000/float64(ms), time.Duration(inst*ms)*time.Millisecond+time.Microsecond)}
			}
		} else {
			sparts = []string{cfgOnce(inst)}
		}
		sb.WriteString("    startup:" + cfgSpell(get("stay"), sparts, "      ") + "\n")
		// ---- discard_overflow: 1 | 0 | absent (the cli route then says true, the plain decoder false)
		switch get("discard") {
		case "1":
			sb.WriteString("    discard_overflow: true\n")
		case "absent":
		default:
			sb.WriteString("    discard_overflow: false\n")
		}
	}
	sb.WriteString("log:\n  level: error\n")
	return sb.String()
}

// cfgDecode: YAML text -> engine.Config through the real reader of the given route.
func cfgDecode(route, text string) (conf engine.Config, err error) {
	cfgSetup()
	switch route {
	case "cli":
		f, e := os.CreateTemp("", "c03-*.yaml")
		if e != nil {
			return conf, e
		}
		name := f.Name()
		defer os.Remove(name)
		if _, e := f.WriteString(text); e != nil {
			f.Close()
			return conf, e
		}
		f.Close()
		// readConfig ends the process on a config it refuses (this worker then dies: observation CRASH)
		c := cliReadConfig([]string{name})
		zap.ReplaceGlobals(zap.NewNop())
		return c.Engine, nil
	default: // yaml2
		mapCfg := map[string]any{}
		if e := yaml2.Unmarshal([]byte(text), &mapCfg); e != nil {
			return conf, e
		}
		c := cli.DefaultConfig()
		if e := config.DecodeAndValidate(mapCfg, c); e != nil {
			return conf, e
		}
		return c.Engine, nil
	}
}

// cfgPools: the decoded pools behind the logging wrappers.
func cfgPools(m map[string]string, npools int) ([]*poolRun, engine.Config, error) {
	conf, err := cfgDecode(m["cfg"], cfgYAML(m, npools))
	if err != nil {
		return nil, conf, err
	}
	if len(conf.Pools) != npools {
		return nil, conf, fmt.Errorf("decoded %d pools of %d", len(conf.Pools), npools)
	}
	var prs []*poolRun
	for j := range conf.Pools {
		j := j
		get := func(k string) string {
			if v, ok := m[k+"."+itoa(j)]; ok {
				return v
			}
			return m[k]
		}
		rec := newRecorder()
		pr := &poolRun{rec: rec}
		tokens := atoi(get("tokens"))
		pr.exact = mkSchedule(get("sched"), tokens).Left()
		pr.parts = partsLeft(get("sched"), tokens)
		if k := get("sched"); get("rpsy") == "split" && (k == "" || k == "once") {
			pr.parts = itoa(tokens-tokens/3) + "," + itoa(tokens/3)
		}
		pr.cap = mkStartup(get("start"), atoi(get("inst"))).Left()
		pc := &conf.Pools[j]
		var ids map[any]int
		switch p := pc.Provider.(type) {
		case *prov:
			p.r = rec
			rec.indistinct = p.av != ""
		default:
			ids = map[any]int{}
			if _, isDummy := p.(provider.Dummy); isDummy {
				rec.indistinct = true
			}
			pc.Provider = &wprov{r: rec, inner: p, ids: ids}
		}
		switch a := pc.Aggregator.(type) {
		case *aggr:
			a.r = rec
		default:
			pc.Aggregator = &aggr{r: rec, inner: a}
		}
		newGun := pc.NewGun
		pc.NewGun = func() (core.Gun, error) {
			g, err := newGun()
			if err != nil {
				return nil, err
			}
			gg, ok := g.(*gun)
			if !ok {
				return nil, fmt.Errorf("gun factory made a %T", g)
			}
			gg.r, gg.ids = rec, ids
			return gg.made(), nil
		}
		past := atoi(get("past"))
		late := 3 * time.Second
		if v := atoi(get("late")); v > 0 {
			late = time.Duration(v) * time.Millisecond
		}
		newSched := pc.NewRPSSchedule
		shared := get("shared") != "0"
		pc.NewRPSSchedule = func() (core.Schedule, error) {
			s, err := newSched()
			if err != nil {
				return nil, err
			}
			return &sched{r: rec, inner: s, past: past, late: late, shared: shared}, nil
		}
		pc.StartupSchedule = &startSched{r: rec, inner: pc.StartupSchedule}
		pr.conf = *pc
		prs = append(prs, pr)
	}
	return prs, conf, nil
}
