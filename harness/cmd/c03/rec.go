package main

// recorder: every observable operation of an instance (Left check, Acquire, Next, Shoot, discarded-sample Report,
// Release) is performed AND logged under one mutex, so the log order is the order of the operations.
// ctl: optional controlled scheduling — every operation first parks at a gate; a controller goroutine waits until all
// live instances are parked and then lets exactly one of them proceed (seeded random choice, or an explicit path for
// systematic enumeration of interleavings of the REAL engine).

import (
	"bytes"
	"fmt"
	"math/rand"
	"runtime"
	"sort"
	"strconv"
	"strings"
	"sync"
	"time"
)

func goid() int64 {
	var buf [64]byte
	n := runtime.Stack(buf[:], false)
	f := bytes.Fields(buf[:n])
	id, _ := strconv.ParseInt(string(f[1]), 10, 64)
	return id
}

type item struct {
	holder int
	rels   int
}

type recorder struct {
	mu    *sync.Mutex // one for all pools of an engine (a controlled run of several pools has ONE controller)
	tids  map[int64]int
	lids  map[int]int // tid -> number in the log (order of the first LOGGED operation = the model's start order)
	evs   []string
	uar   bool // ammo used while not held by the shooting instance
	dbl   bool // release of an item that is not held
	items []item
	cur   map[any]int // ammo object -> item number (acquisition order)
	// ammo values the instances cannot tell apart (nil, zero values, one object for all items): the item is then identified
	// by the instance that holds it, and the value handed to Shoot / Release must be the one Acquire returned
	indistinct bool
	held       map[int]int // instance -> the item it holds
	vals       []any       // indistinct: the value of each item
	ctl   *ctl
	loose bool // race-detector runs: real operations happen outside mu, the log is only counted (not replayed)
	// fine-grained mode (instrumented worker): instances that are inside a schedule call of the logging wrapper
	inCall map[int]bool
	// runaway guard: a pool over a finite profile performs a bounded number of operations; far beyond that bound the run
	// is cut (observation res=runaway) instead of spinning until the time limit
	shots      int // Shoot calls so far
	guns       int // guns made for this pool (the first one is the warm-up gun of instancePool.Run)
	gunsClosed int // instance guns closed = instances whose runNewInstance is on its way out (after Run returned)
	maxEvs     int
	onRunaway  func()
	runaway    bool
}

func newRecorder() *recorder {
	return &recorder{mu: &sync.Mutex{}, tids: map[int64]int{}, lids: map[int]int{}, cur: map[any]int{}, inCall: map[int]bool{}, held: map[int]int{}}
}

// tid: instances are numbered in the order of their first operation. Call with mu held.
func (r *recorder) tid() int {
	g := goid()
	t, ok := r.tids[g]
	if !ok {
		t = len(r.tids)
		r.tids[g] = t
	}
	return t
}

// lid: the instance's number in the log. Call with mu held, at the moment its operation is logged.
func (r *recorder) lid(t int) int {
	l, ok := r.lids[t]
	if !ok {
		l = len(r.lids)
		r.lids[t] = l
	}
	return l
}

func (r *recorder) logf(format string, a ...any) {
	r.evs = append(r.evs, fmt.Sprintf(format, a...))
	if r.maxEvs > 0 && len(r.evs) > r.maxEvs && !r.runaway && r.onRunaway != nil {
		r.runaway = true
		go r.onRunaway()
	}
}

// acquired registers a freshly acquired ammo object. Call with mu held.
func (r *recorder) acquired(t int, a any) int {
	k := len(r.items)
	r.items = append(r.items, item{holder: t})
	if r.indistinct {
		r.held[t] = k
		r.vals = append(r.vals, a)
		return k
	}
	r.cur[a] = k
	return k
}

// itemOf: the item an ammo value stands for when instance t uses it. Call with mu held.
func (r *recorder) itemOf(t int, a any, release bool) (int, bool) {
	if r.indistinct {
		k, ok := r.held[t]
		if !ok || r.vals[k] != a {
			return 0, false
		}
		if release {
			delete(r.held, t)
		}
		return k, true
	}
	k, ok := r.cur[a]
	return k, ok
}

const unknownItem = 999999

// used: a Shoot of ammo object a by instance t. Call with mu held.
func (r *recorder) used(t int, a any) int {
	k, ok := r.itemOf(t, a, false)
	if !ok {
		r.uar = true
		return unknownItem
	}
	if r.items[k].rels > 0 || r.items[k].holder != t {
		r.uar = true
	}
	return k
}

// stillHeld: checked again when Shoot returns.
func (r *recorder) stillHeld(t int, k int) {
	if k == unknownItem || r.items[k].rels > 0 || r.items[k].holder != t {
		r.uar = true
	}
}

// released: a Release of ammo object a. Call with mu held.
func (r *recorder) released(t int, a any) int {
	k, ok := r.itemOf(t, a, true)
	if !ok {
		r.dbl = true
		return unknownItem
	}
	if r.items[k].rels > 0 {
		r.dbl = true
	}
	r.items[k].rels++
	return k
}

func (r *recorder) relMinMax() (int, int) {
	if len(r.items) == 0 {
		return 1, 0
	}
	mn, mx := r.items[0].rels, r.items[0].rels
	for _, it := range r.items {
		if it.rels < mn {
			mn = it.rels
		}
		if it.rels > mx {
			mx = it.rels
		}
	}
	return mn, mx
}

// ---------------------------------------------------------------- controlled scheduling

type ctl struct {
	r         *recorder
	wake      chan struct{}
	parked    map[int]chan struct{}
	resting   map[int]bool // the last operation told the instance to leave its loop (Left()==0 / Acquire !ok)
	started   func() int   // metrics.InstanceStart
	stop      chan struct{}
	stopped   bool
	wait      time.Duration // how long to wait for a running instance to park again before deciding without it
	first     int           // instances to wait for before the first decision
	rng       *rand.Rand
	style     int
	path      []int
	pb        []preempt // preemption-bounded mode: run the same instance on unless one of these says otherwise
	isPB      bool
	firstWait time.Duration
	pos       int
	last      int
	br        []byte           // per decision: number of options, choice (base 36)
	partial   int              // decisions taken while a live instance was not parked
	fine      bool             // park also at the scheduling points inside the schedule's Next / Left
	comp      bool             // fine, composite profile: the points are the ones before its Lock / RLock (between its critical sections), not the leaf's
	pending   map[int][]string // fine: the shared-state accesses the parked instance performs when it goes on
	// sctl: the goroutine that starts the instances (startInstances) is a controlled participant too: it parks before
	// every Next() of the startup schedule, so instances can run, finish, run out of ammo … before the others exist
	sctl        bool
	launched    int        // successful Next() calls of the startup schedule = instances launched
	starterDone bool       // the startup schedule is exhausted, or the starter was let go after the start was cancelled
	cancelKnown bool       // the engine cancels the instance start (shared profile finished / out of ammo seen)
	sawEmpty    bool       // an out-of-ammo was logged since the last decision (its start cancel is asynchronous)
	finished    func() int // metrics.InstanceFinish
}

const starterTid = -1

// gateStarter parks the goroutine that starts the instances until the controller lets it draw the next startup token.
func (r *recorder) gateStarter() {
	c := r.ctl
	if c == nil || !c.sctl {
		return
	}
	r.mu.Lock()
	if c.stopped {
		r.mu.Unlock()
		return
	}
	ch := make(chan struct{})
	c.parked[starterTid] = ch
	r.mu.Unlock()
	c.poke()
	select {
	case <-ch:
	case <-c.stop:
	}
}

// startCancelled: the harness has seen what makes the engine cancel the instance start. Call with mu held.
func (r *recorder) startCancelled(empty bool) {
	if c := r.ctl; c != nil && c.sctl {
		c.cancelKnown = true
		if empty {
			c.sawEmpty = true
		}
	}
}

// preempt: at decision number step, switch to the k-th OTHER parked instance.
type preempt struct{ step, k int }

const b36 = "0123456789abcdefghijklmnopqrstuvwxyz"

func (c *ctl) poke() {
	select {
	case c.wake <- struct{}{}:
	default:
	}
}

// gate parks the calling instance until the controller lets it go.
func (r *recorder) gate() {
	c := r.ctl
	if c == nil {
		return
	}
	r.mu.Lock()
	t := r.tid()
	if c.stopped {
		r.mu.Unlock()
		return
	}
	ch := make(chan struct{})
	c.parked[t] = ch
	delete(c.resting, t)
	r.mu.Unlock()
	c.poke()
	select {
	case <-ch:
	case <-c.stop:
	}
}

// isFine: scheduling points inside the schedule's operations are in use (the operation itself is then NOT performed
// under the recorder's mutex: the controller lets one instance run at a time).
func (r *recorder) isFine() bool { return r.ctl != nil && r.ctl.fine }

// enter / leave: the calling instance is inside a schedule call of the logging wrapper.
func (r *recorder) enter() {
	r.mu.Lock()
	r.inCall[r.tid()] = true
	r.mu.Unlock()
}

// yield: a scheduling point inside the schedule's own code (instrumented worker, see instr.go). The instance parks
// only before a statement that touches the schedule's shared state; the access is logged when it is let go.
func (r *recorder) yield(point string) {
	c := r.ctl
	if c == nil || !c.fine {
		return
	}
	bar := strings.IndexByte(point, '|')
	if bar < 0 || bar == len(point)-1 {
		return // a statement without shared access: no scheduling point needed
	}
	// a composite's points are the ones before its Lock / RLock statements; the points inside the leaves are then inside
	// the composite's critical sections and must not park
	if strings.HasSuffix(point, "Lock") != c.comp {
		return
	}
	g := goid()
	r.mu.Lock()
	t, ok := r.tids[g]
	if !ok || !r.inCall[t] || c.stopped {
		r.mu.Unlock()
		return
	}
	ch := make(chan struct{})
	c.parked[t] = ch
	c.pending[t] = strings.Split(point[bar+1:], ",")
	delete(c.resting, t)
	r.mu.Unlock()
	c.poke()
	select {
	case <-ch:
	case <-c.stop:
	}
}

// rest: the operation just performed makes the instance leave its loop. Call with mu held.
func (r *recorder) rest(t int) {
	if r.ctl != nil {
		r.ctl.resting[t] = true
		r.ctl.poke()
	}
}

func (c *ctl) choose(opts []int) int {
	n := len(opts)
	if c.isPB {
		step := c.pos
		c.pos++
		for _, p := range c.pb {
			if p.step == step {
				var others []int
				for k, t := range opts {
					if t != c.last {
						others = append(others, k)
					}
				}
				if len(others) > 0 {
					return others[p.k%len(others)]
				}
			}
		}
		for k, t := range opts {
			if t == c.last {
				return k
			}
		}
		return 0
	}
	if c.path != nil {
		k := 0
		if c.pos < len(c.path) {
			k = c.path[c.pos] % n
		}
		c.pos++
		return k
	}
	switch c.style {
	case 1: // sticky: keep running the same instance
		if c.rng.Intn(5) != 0 {
			for k, t := range opts {
				if t == c.last {
					return k
				}
			}
		}
	case 2: // lock step: the instance after the last one
		if c.rng.Intn(8) != 0 {
			for k, t := range opts {
				if t > c.last {
					return k
				}
			}
			return 0
		}
	}
	return c.rng.Intn(n)
}

func (c *ctl) loop() {
	r := c.r
	first := true
	for {
		deadline := time.Now().Add(c.wait)
		if first {
			deadline = time.Now().Add(c.firstWait)
		}
		for {
			r.mu.Lock()
			np := len(c.parked)
			want := c.started() - len(c.resting)
			if first && c.first > want {
				want = c.first
			}
			if c.sctl {
				// every launched instance that has not left Run parks sooner or later; so does the starter until the
				// startup schedule is exhausted or the start is cancelled
				want = c.launched - c.finished()
				if !c.starterDone {
					if _, here := c.parked[starterTid]; here || !c.cancelKnown {
						want++
					}
				}
			}
			grace := c.sctl && c.sawEmpty
			c.sawEmpty = false
			stopped := c.stopped
			r.mu.Unlock()
			if grace {
				time.Sleep(300 * time.Microsecond) // out of ammo: the pool cancels the start asynchronously
				continue
			}
			if stopped {
				return
			}
			if np > 0 && np >= want {
				break
			}
			if np > 0 && time.Now().After(deadline) {
				c.partial++
				break
			}
			select {
			case <-c.wake:
			case <-time.After(40 * time.Microsecond):
			case <-c.stop:
				return
			}
		}
		first = false
		r.mu.Lock()
		opts := make([]int, 0, len(c.parked))
		for t := range c.parked {
			opts = append(opts, t)
		}
		if len(opts) == 0 {
			r.mu.Unlock()
			continue
		}
		sort.Ints(opts)
		k := c.choose(opts)
		t := opts[k]
		ch := c.parked[t]
		delete(c.parked, t)
		c.last = t
		if t == starterTid && c.cancelKnown {
			c.starterDone = true // it starts one more instance and then finds the start cancelled
		}
		if acc, ok := c.pending[t]; ok {
			for _, a := range acc {
				r.logf("t%d:%s", r.lid(t), a)
			}
			delete(c.pending, t)
		}
		if len(c.br) < 4000 {
			c.br = append(c.br, b36[len(opts)%36], b36[k%36])
		}
		r.mu.Unlock()
		close(ch)
	}
}

func (c *ctl) halt() {
	c.r.mu.Lock()
	if !c.stopped {
		c.stopped = true
		close(c.stop)
	}
	c.r.mu.Unlock()
}
