package main

// The engine is run in worker processes (this same binary started with `-worker`): a panic in a goroutine of the engine
// (e.g. "send on closed channel" in the pool's bookkeeping) or a dead lock then costs one worker, not the whole run, and
// becomes the observation `CRASH …` / `HANG` of exactly the input that caused it.

import (
	"bufio"
	"fmt"
	"io"
	"os"
	"os/exec"
	"regexp"
	"runtime"
	"strings"
	"sync"
	"sync/atomic"
	"time"

	"verifharness/drv"
)

var hexAddr = regexp.MustCompile(`0x[0-9a-fA-F]+`)

type tail struct {
	mu  sync.Mutex
	buf []byte
}

func (t *tail) Write(p []byte) (int, error) {
	t.mu.Lock()
	t.buf = append(t.buf, p...)
	if len(t.buf) > 65536 {
		t.buf = t.buf[len(t.buf)-65536:]
	}
	t.mu.Unlock()
	return len(p), nil
}

func (t *tail) String() string {
	t.mu.Lock()
	defer t.mu.Unlock()
	return string(t.buf)
}

type worker struct {
	cmd *exec.Cmd
	in  io.WriteCloser
	out *bufio.Reader
	err *tail
}

func startWorker(bin string, env ...string) (*worker, error) {
	cmd := exec.Command(bin, "-worker")
	if len(env) > 0 {
		cmd.Env = append(os.Environ(), env...)
	}
	in, err := cmd.StdinPipe()
	if err != nil {
		return nil, err
	}
	out, err := cmd.StdoutPipe()
	if err != nil {
		return nil, err
	}
	t := &tail{}
	cmd.Stderr = t
	if err := cmd.Start(); err != nil {
		return nil, err
	}
	return &worker{cmd: cmd, in: in, out: bufio.NewReaderSize(out, 1<<20), err: t}, nil
}

func (w *worker) kill() {
	_ = w.in.Close()
	_ = w.cmd.Process.Kill()
	_, _ = w.cmd.Process.Wait()
}

var (
	poolOnce sync.Once
	pool     chan *worker // workers of this binary
	poolInst chan *worker // workers of the instrumented binary (scheduling points inside the schedules, instr.go)
	poolRace chan *worker // workers of the binary built with the race detector (instr.go)
)

const poolSize = 12

func getPool(inst, race bool) chan *worker {
	poolOnce.Do(func() {
		pool = make(chan *worker, poolSize)
		poolInst = make(chan *worker, poolSize)
		poolRace = make(chan *worker, poolSize)
		for i := 0; i < poolSize; i++ {
			pool <- nil // started lazily
			poolInst <- nil
			poolRace <- nil
		}
	})
	if race {
		return poolRace
	}
	if inst {
		return poolInst
	}
	return pool
}

// isRaceInput: the input is to be run on the worker built with the race detector.
func isRaceInput(input string) bool {
	return strings.Contains(" "+input+" ", " race=1 ")
}

// isFineInput: the input asks for scheduling points inside the schedule's operations.
func isFineInput(input string) bool {
	return strings.Contains(" "+input+" ", " fine=1 ")
}

// crashLine: the interesting part of a Go crash report, on one line.
func crashLine(stderr string) string {
	lines := strings.Split(stderr, "\n")
	var keep []string
	for i, l := range lines {
		l = strings.TrimSpace(l)
		if strings.HasPrefix(l, "WARNING: DATA RACE") {
			// the race detector's report: the first functions of the project on the two stacks
			keep = append(keep, "DATA RACE")
			for _, m := range lines[i+1:] {
				m = strings.TrimSpace(m)
				if strings.Contains(m, "yandex/pandora") && !strings.HasPrefix(m, "/") && len(keep) < 5 {
					keep = append(keep, m)
				}
			}
			break
		}
		if strings.Contains(l, "\tFATAL\t") {
			// zap's Fatal (cli.readConfig refusing a configuration): the message and its fields
			if k := strings.Index(l, "FATAL\t"); k >= 0 {
				keep = append(keep, "FATAL "+l[k+6:])
			}
			break
		}
		if strings.HasPrefix(l, "panic:") || strings.HasPrefix(l, "fatal error:") {
			keep = append(keep, l)
			for _, m := range lines[i+1:] {
				m = strings.TrimSpace(m)
				if strings.Contains(m, "yandex/pandora") && !strings.HasPrefix(m, "/") && len(keep) < 4 {
					keep = append(keep, m)
				}
			}
			break
		}
	}
	if len(keep) == 0 {
		if len(stderr) > 300 {
			stderr = stderr[len(stderr)-300:]
		}
		keep = []string{stderr}
	}
	s := drv.Clean(strings.Join(keep, " | "))
	s = hexAddr.ReplaceAllString(s, "0x?")
	s = strings.ReplaceAll(s, " ", "_")
	// no addresses / goroutine numbers in an observation
	return drv.Trunc(s, 300)
}

// execute runs one input in a worker process; an input whose worker dies is tried once more on a fresh worker (the
// first death may be the late effect of the previous input).
func execute(input string) string {
	if stuckSeen.Load() >= 40 {
		// dozens of runs did not end: each one is already reported as a failure; the rest would only cost time
		return "res=giveup why=too-many-runs-of-this-check-did-not-end"
	}
	o := execute1(input)
	if strings.HasPrefix(o, "CRASH ") {
		o = execute1(input)
	}
	if strings.Contains(o, "res=err:context_deadline_exceeded") && stuckSeen.Load() < 6 {
		// the harness' own time limit (15 s) cut the run: on a badly overloaded machine (load average 200+) a controlled
		// run can starve. Run it once more with a longer limit; a pool that really never ends is cut again and reported
		o = execute1(input + " __tmo=30000")
	}
	if o == "HANG" || strings.HasPrefix(o, "CRASH ") || strings.Contains(o, "deadline_exceeded") {
		stuckSeen.Add(1)
	}
	return o
}

// stuckSeen: runs of this process that did not end by themselves. On an intact tree there are none; once several have
// been seen the tree is broken anyway and the remaining runs get a short time limit, so that a pool that never ends
// costs seconds, not minutes, per check.
var stuckSeen atomic.Int64

func execute1(input string) string {
	bin := os.Args[0]
	inst := isFineInput(input)
	race := isRaceInput(input)
	var env []string
	if race {
		if inst {
			return "res=noinstr why=race-and-fine-exclude-each-other"
		}
		b, why := raceWorker()
		if b == "" {
			return "res=noinstr why=" + why
		}
		bin = b
		env = []string{"GORACE=halt_on_error=1"}
	} else if inst {
		b, why := instrumentedWorker()
		if b == "" {
			return "res=noinstr why=" + why
		}
		bin = b
	}
	p := getPool(inst, race)
	w := <-p
	defer func() { p <- w }()
	if w == nil {
		var err error
		w, err = startWorker(bin, env...)
		if err != nil {
			w = nil
			return "res=err:cannot_start_worker"
		}
	}
	line := input
	if stuckSeen.Load() >= 6 {
		line += " __tmo=2500"
	}
	if _, err := io.WriteString(w.in, line+"\n"); err != nil {
		msg := w.err.String()
		w.kill()
		w = nil
		return "CRASH " + crashLine(msg)
	}
	type res struct {
		line string
		err  error
	}
	ch := make(chan res, 1)
	go func(w *worker) {
		l, err := w.out.ReadString('\n')
		ch <- res{l, err}
	}(w)
	select {
	case r := <-ch:
		if r.err != nil {
			_, _ = w.cmd.Process.Wait()
			msg := w.err.String()
			w.kill()
			w = nil
			return "CRASH " + crashLine(msg)
		}
		return strings.TrimRight(r.line, "\n")
	case <-time.After(25 * time.Second):
		w.kill()
		w = nil
		return "HANG"
	}
}

// workerMain: the loop of a worker process.
func workerMain() {
	in := bufio.NewReaderSize(os.Stdin, 1<<20)
	out := bufio.NewWriter(os.Stdout)
	base := runtime.NumGoroutine()
	for {
		l, err := in.ReadString('\n')
		if l = strings.TrimRight(l, "\n"); l != "" {
			obs := func() (obs string) {
				defer func() {
					if r := recover(); r != nil {
						obs = "PANIC " + strings.ReplaceAll(drv.Clean(fmt.Sprint(r)), " ", "_")
					}
				}()
				o := runReal(l)
				// let stragglers of the engine (goroutines that outlive Run/Wait) finish or crash within THIS case
				for k := 0; k < 30 && runtime.NumGoroutine() > base; k++ {
					time.Sleep(100 * time.Microsecond)
				}
				return o
			}()
			_, _ = out.WriteString(drv.Clean(obs) + "\n")
			_ = out.Flush()
		}
		if err != nil {
			return
		}
	}
}
