package main

// C03: the REAL engine.Engine with recording mocks. Every observable operation of an instance
// (Left check, Acquire, Next, Shoot, discarded-sample Report, Release) is performed and logged under one
// mutex, so the log order is the order of the operations; the Lean driver replays the log through the
// model's labelled transition system (trace inclusion) and evaluates the Spec on the terminal counters.

import (
	"bytes"
	"context"
	"fmt"
	"math/rand"
	"runtime"
	"strconv"
	"strings"
	"sync"
	"time"

	"verifharness/drv"

	"github.com/yandex/pandora/core"
	"github.com/yandex/pandora/core/aggregator/netsample"
	"github.com/yandex/pandora/core/engine"
	"github.com/yandex/pandora/core/schedule"
	"github.com/yandex/pandora/lib/monitoring"
	"go.uber.org/zap"
)

func goid() int64 {
	var buf [64]byte
	n := runtime.Stack(buf[:], false)
	f := bytes.Fields(buf[:n])
	id, _ := strconv.ParseInt(string(f[1]), 10, 64)
	return id
}

type recorder struct {
	mu   sync.Mutex
	tids map[int64]int
	evs  []string
	uar  bool // ammo used while not held
	dbl  bool // double release / release of foreign ammo
}

func (r *recorder) tid() int {
	g := goid()
	t, ok := r.tids[g]
	if !ok {
		t = len(r.tids)
		r.tids[g] = t
	}
	return t
}

type ammo struct {
	id    int
	state int // 1 held, 2 released
}

type prov struct {
	r    *recorder
	left int // -1 unbounded
	n    int
}

func (p *prov) Run(ctx context.Context, _ core.ProviderDeps) error { <-ctx.Done(); return nil }
func (p *prov) Acquire() (core.Ammo, bool) {
	p.r.mu.Lock()
	defer p.r.mu.Unlock()
	t := p.r.tid()
	if p.left == 0 {
		p.r.evs = append(p.r.evs, fmt.Sprintf("e%d", t))
		return nil, false
	}
	if p.left > 0 {
		p.left--
	}
	p.n++
	p.r.evs = append(p.r.evs, fmt.Sprintf("a%d", t))
	return &ammo{id: p.n, state: 1}, true
}
func (p *prov) Release(a core.Ammo) {
	p.r.mu.Lock()
	defer p.r.mu.Unlock()
	am, ok := a.(*ammo)
	if !ok || am.state != 1 {
		p.r.dbl = true
	} else {
		am.state = 2
	}
	p.r.evs = append(p.r.evs, fmt.Sprintf("r%d", p.r.tid()))
}

type sched struct {
	r     *recorder
	inner core.Schedule
	past  int
	drawn int
}

func (s *sched) Start(t time.Time) { s.inner.Start(t) }
func (s *sched) Next() (time.Time, bool) {
	s.r.mu.Lock()
	defer s.r.mu.Unlock()
	tx, ok := s.inner.Next()
	t := s.r.tid()
	if ok {
		s.r.evs = append(s.r.evs, fmt.Sprintf("n%d", t))
		s.drawn++
		if s.past > 0 && s.drawn%s.past == 0 {
			tx = tx.Add(-3 * time.Second) // 3 s overdue: discarded when discard_overflow is on
		}
	} else {
		s.r.evs = append(s.r.evs, fmt.Sprintf("x%d", t))
	}
	return tx, ok
}
func (s *sched) Left() int {
	s.r.mu.Lock()
	defer s.r.mu.Unlock()
	l := s.inner.Left()
	s.r.evs = append(s.r.evs, fmt.Sprintf("c%d:%d", s.r.tid(), l))
	return l
}

type gun struct {
	r    *recorder
	shot time.Duration
}

func (g *gun) Bind(core.Aggregator, core.GunDeps) error { return nil }
func (g *gun) Shoot(a core.Ammo) {
	g.r.mu.Lock()
	am, ok := a.(*ammo)
	if !ok || am.state != 1 {
		g.r.uar = true
	}
	g.r.evs = append(g.r.evs, fmt.Sprintf("s%d", g.r.tid()))
	g.r.mu.Unlock()
	if g.shot > 0 {
		time.Sleep(g.shot)
	}
	g.r.mu.Lock()
	if ok && am.state != 1 {
		g.r.uar = true
	}
	g.r.mu.Unlock()
}

type aggr struct{ r *recorder }

func (a *aggr) Run(ctx context.Context, _ core.AggregatorDeps) error { <-ctx.Done(); return nil }
func (a *aggr) Report(s core.Sample) {
	if ns, ok := s.(*netsample.Sample); ok && ns.Tags() == netsample.DiscardedShootTag {
		a.r.mu.Lock()
		a.r.evs = append(a.r.evs, fmt.Sprintf("d%d", a.r.tid()))
		a.r.mu.Unlock()
	}
}

func mkSchedule(kind string, tokens int) core.Schedule {
	switch kind {
	case "const": // tokens spread over 20 ms
		if tokens == 0 {
			return schedule.NewConst(0, 20*time.Millisecond)
		}
		return schedule.NewConst(float64(tokens)*50+1, 20*time.Millisecond)
	case "comp":
		a := tokens / 2
		return schedule.NewComposite(schedule.NewOnce(int64(a)), schedule.NewConst(0, time.Millisecond), schedule.NewOnce(int64(tokens-a)))
	default:
		return schedule.NewOnce(int64(tokens))
	}
}

func run(input string) string {
	m := drv.KV(input)
	atoi := func(k string) int { v, _ := strconv.Atoi(m[k]); return v }
	rec := &recorder{tids: map[int64]int{}}
	tokens := atoi("tokens")
	// the real schedule may round (const): learn the exact token count from a twin
	twin := mkSchedule(m["sched"], tokens)
	exact := twin.Left()
	p := &prov{r: rec, left: atoi("ammo")}
	metrics := engine.Metrics{Request: &monitoring.Counter{}, Response: &monitoring.Counter{},
		InstanceStart: &monitoring.Counter{}, InstanceFinish: &monitoring.Counter{}}
	conf := engine.Config{Pools: []engine.InstancePoolConfig{{
		Provider:        p,
		Aggregator:      &aggr{r: rec},
		NewGun:          func() (core.Gun, error) { return &gun{r: rec, shot: time.Duration(atoi("shotus")) * time.Microsecond}, nil },
		RPSPerInstance:  m["shared"] == "0",
		NewRPSSchedule:  func() (core.Schedule, error) { return &sched{r: rec, inner: mkSchedule(m["sched"], tokens), past: atoi("past")}, nil },
		StartupSchedule: schedule.NewOnce(int64(atoi("inst"))),
		DiscardOverflow: m["discard"] == "1",
	}}}
	eng := engine.New(zap.NewNop(), metrics, conf)
	ctx, cancel := context.WithTimeout(context.Background(), 15*time.Second)
	defer cancel()
	err := eng.Run(ctx)
	eng.Wait()
	res := "ok"
	if err != nil {
		res = "err:" + strings.ReplaceAll(drv.Clean(err.Error()), " ", "_")
	}
	rec.mu.Lock()
	defer rec.mu.Unlock()
	b := func(x bool) int {
		if x {
			return 1
		}
		return 0
	}
	return fmt.Sprintf("res=%s exact=%d started=%d finished=%d req=%d resp=%d uar=%d dbl=%d log=%s", res, exact,
		metrics.InstanceStart.Get(), metrics.InstanceFinish.Get(), metrics.Request.Get(), metrics.Response.Get(),
		b(rec.uar), b(rec.dbl), strings.Join(rec.evs, ","))
}

func gen(r *rand.Rand, tier string) []string {
	var out []string
	insts := []int{1, 2, 3, 8}
	toks := []int{0, 1, 5, 17}
	ammos := []int{-1, 0, 3, 5, 40}
	if tier == "thorough" {
		insts = []int{1, 2, 3, 5, 8, 32}
		toks = []int{0, 1, 2, 5, 17, 40}
		ammos = []int{-1, 0, 1, 3, 5, 17, 40, 100}
	}
	for _, inst := range insts {
		for _, shared := range []int{0, 1} {
			for _, t := range toks {
				for _, a := range ammos {
					for _, disc := range []int{0, 1} {
						kind := []string{"once", "const", "comp"}[r.Intn(3)]
						past := []int{0, 2, 3}[r.Intn(3)]
						shot := []int{0, 0, 30, 200}[r.Intn(4)]
						out = append(out, fmt.Sprintf("inst=%d shared=%d tokens=%d ammo=%d discard=%d past=%d shotus=%d sched=%s", inst, shared, t, a, disc, past, shot, kind))
					}
				}
			}
		}
	}
	n := 150
	if tier == "thorough" {
		n = 3000
	}
	for i := 0; i < n; i++ {
		out = append(out, fmt.Sprintf("inst=%d shared=%d tokens=%d ammo=%d discard=%d past=%d shotus=%d sched=%s",
			1+r.Intn(12), r.Intn(2), r.Intn(30), []int{-1, r.Intn(40)}[r.Intn(2)], r.Intn(2), r.Intn(4), []int{0, 20, 100}[r.Intn(3)],
			[]string{"once", "const", "comp"}[r.Intn(3)]))
	}
	return out
}

func main() {
	drv.Main(&drv.Prop{
		ID: "C03", Gen: gen, Run: run, Workers: 8, Timeout: 30 * time.Second,
		Class: func(in, obs string) string {
			m := drv.KV(in)
			o := drv.KV(obs)
			if o["log"] == "" {
				return ""
			}
			c := "shared"
			if m["shared"] == "0" {
				c = "per-instance"
			}
			if strings.Contains(o["log"], "x") {
				c += "/unfired"
			}
			if strings.Contains(o["log"], "d") {
				c += "/discard"
			}
			if strings.Contains(o["log"], "e") {
				c += "/out-of-ammo"
			}
			return c
		},
		Rule: "real engine.Engine, one pool, matrix instances x shared/per-instance x tokens x ammo bound x discard_overflow with random schedule kind (once/const/composite), overdue tokens and shot duration, plus random cells; non-trivial = at least one event logged; distinct input lines",
	})
}
