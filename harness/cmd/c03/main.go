package main

// C03: the REAL engine.Engine, one pool, with logging components (components.go). Every observable operation of an
// instance (Left check, Acquire, Next, Shoot, discarded-sample Report, Release) is performed and logged under one mutex,
// so the log order is the order of the operations; the Lean driver replays the log through the model's labelled
// transition system (trace inclusion, item identities included) and evaluates the Spec on the terminal counters.
//
// input keys: inst (tokens of the startup schedule) shared (1 = one shared profile, 0 = rps-per-instance) tokens ammo
// (-1 = unbounded) discard past (every past-th token is overdue by late ms, default 3000) shotus sched (once|const|comp|comp2|line|step|paced<ms>|cz:<part>.<part>…)
// start (once|ramp<ms>) prov (mock|json|jsonlimit|jsonpass|num) aggr (mock|phout)
// ctl (""|rand:<seed>:<style>|path:<base-36 choices>|pb:<step>.<k>,… = preemption-bounded schedule)

import (
	"context"
	"encoding/json"
	"fmt"
	"math/rand"
	"os"
	"regexp"
	"strconv"
	"strings"
	"sync"
	"time"

	"verifharness/drv"

	"github.com/yandex/pandora/core"
	"github.com/yandex/pandora/core/engine"
	"github.com/yandex/pandora/lib/monitoring"
	"github.com/yandex/pandora/lib/verifhook"
	"go.uber.org/zap"
)

func atoi(s string) int { v, _ := strconv.Atoi(s); return v }
func itoa(i int) string { return strconv.Itoa(i) }

var (
	cacheMu sync.Mutex
	cache   = map[string]string{} // observations of runs already made while generating (systematic enumeration)
)

func run(input string) string {
	cacheMu.Lock()
	if o, ok := cache[input]; ok {
		delete(cache, input)
		cacheMu.Unlock()
		return o
	}
	cacheMu.Unlock()
	return execute(input)
}

// poolRun: one pool of the engine with its own recorder.
type poolRun struct {
	rec        *recorder
	exact, cap int
	parts      string // tokens of every part of the profile ("" = not known part by part)
	conf       engine.InstancePoolConfig
}

func mkPool(get func(string) string, metrics engine.Metrics) (*poolRun, error) {
	rec := newRecorder()
	tokens := atoi(get("tokens"))
	inst := atoi(get("inst"))
	pr := &poolRun{rec: rec}
	// the real schedule may round (const, line, step): learn the exact token count from a twin
	pr.exact = mkSchedule(get("sched"), tokens).Left()
	pr.parts = partsLeft(get("sched"), tokens)
	pr.cap = mkStartup(get("start"), inst).Left()
	p := mkProvider(rec, get("prov"), atoi(get("ammo")))
	if pp, ok := p.(*prov); ok && get("av") != "" {
		pp.av = get("av")
		rec.indistinct = true
	}
	var ids map[any]int
	if wp, ok := p.(*wprov); ok {
		ids = wp.ids
	}
	ag, err := mkAggregator(rec, get("aggr"))
	if err != nil {
		return nil, err
	}
	shot := time.Duration(atoi(get("shotus"))) * time.Microsecond
	schedKind, past, phout := get("sched"), atoi(get("past")), get("aggr") == "phout"
	late := 3 * time.Second
	if v := atoi(get("late")); v > 0 {
		late = time.Duration(v) * time.Millisecond
	}
	pr.conf = engine.InstancePoolConfig{
		Provider:   p,
		Aggregator: ag,
		NewGun: func() (core.Gun, error) {
			return (&gun{r: rec, shot: shot, report: phout, ids: ids, panicAt: atoi(get("panic"))}).made(), nil
		},
		RPSPerInstance: get("shared") == "0",
		NewRPSSchedule: func() (core.Schedule, error) {
			return &sched{r: rec, inner: mkSchedule(schedKind, tokens), past: past, late: late, shared: get("shared") != "0"}, nil
		},
		StartupSchedule: &startSched{r: rec, inner: mkStartup(get("start"), inst)},
		DiscardOverflow: get("discard") == "1",
	}
	return pr, nil
}

func runReal(input string) string {
	m := drv.KV(input)
	metrics := engine.Metrics{Request: &monitoring.Counter{}, Response: &monitoring.Counter{},
		InstanceStart: &monitoring.Counter{}, InstanceFinish: &monitoring.Counter{}}
	npools := atoi(m["pools"])
	if npools < 1 {
		npools = 1
	}
	var prs []*poolRun
	var conf engine.Config
	if m["cfg"] != "" {
		// the pools are written as YAML text and decoded by the real config reader (cfgroute.go)
		var err error
		prs, conf, err = cfgPools(m, npools)
		if err != nil {
			return "res=err:config:" + strings.ReplaceAll(drv.Trunc(drv.Clean(err.Error()), 200), " ", "_")
		}
	}
	for j := 0; j < npools && m["cfg"] == ""; j++ {
		j := j
		get := func(k string) string { // `key.j` overrides `key` for pool j
			if v, ok := m[k+"."+itoa(j)]; ok {
				return v
			}
			return m[k]
		}
		pr, err := mkPool(get, metrics)
		if err != nil {
			return "res=err:aggregator"
		}
		prs = append(prs, pr)
		conf.Pools = append(conf.Pools, pr.conf)
	}
	rec := prs[0].rec
	if m["race"] == "1" {
		// race-detector runs: the real operations are performed OUTSIDE the recorder's mutex (which would order them and
		// hide every data race of the code under test); the log is then not in operation order and only counted
		if m["ctl"] != "" {
			return "res=noinstr why=race-excludes-ctl"
		}
		for _, pr := range prs {
			pr.rec.loose = true
		}
	}
	var c *ctl
	comp := false
	if m["fine"] == "1" {
		// scheduling points inside Next / Left: a leaf profile is parked before each of its accesses to its shared state, a
		// (flat) composite before each of its Lock / RLock statements, i.e. between its critical sections
		if npools != 1 || m["ctl"] == "" || prs[0].parts == "" {
			return "res=noinstr why=fine-needs-one-pool-known-parts-ctl"
		}
		comp = strings.Contains(prs[0].parts, ",")
	}
	if npools > 1 && (m["sctl"] == "1" || m["fine"] == "1") {
		return "res=noinstr why=sctl-and-fine-need-one-pool"
	}
	if spec := m["ctl"]; spec != "" {
		// several pools: ONE controller for the instances of all pools (they share the lock and the numbering of the
		// goroutines; each pool keeps its own log)
		cap := 0
		for _, pr := range prs {
			cap += pr.cap
			pr.rec.mu, pr.rec.tids = rec.mu, rec.tids
		}
		c = &ctl{r: rec, wake: make(chan struct{}, 1), parked: map[int]chan struct{}{}, resting: map[int]bool{},
			started: func() int { return int(metrics.InstanceStart.Get()) }, stop: make(chan struct{}),
			wait: 300 * time.Microsecond, firstWait: 20 * time.Millisecond, last: -1,
			fine: m["fine"] == "1", comp: comp, pending: map[int][]string{},
			sctl: m["sctl"] == "1" && (m["start"] == "" || m["start"] == "once"), finished: func() int { // (called with rec.mu held)
				if n := int(metrics.InstanceFinish.Get()); n > rec.gunsClosed {
					return n
				}
				return rec.gunsClosed
			}}
		if c.sctl {
			c.last = -2
		}
		parts := strings.Split(spec, ":")
		systematic := func() {
			// systematic modes: operations are instantaneous (once profile, no shot time), so a long patience costs
			// nothing and keeps the enumeration deterministic on a loaded machine
			c.wait = 400 * time.Millisecond
			c.firstWait = time.Second
			if (m["start"] == "" || m["start"] == "once") && !c.sctl {
				c.first = cap
			}
		}
		switch parts[0] {
		case "path":
			c.path = []int{}
			if len(parts) > 1 {
				for _, ch := range parts[1] {
					c.path = append(c.path, strings.IndexRune(b36, ch))
				}
			}
			systematic()
		case "pb": // pb:<step>.<k>,<step>.<k>…  preemption-bounded schedule
			c.isPB = true
			if len(parts) > 1 && parts[1] != "" {
				for _, it := range strings.Split(parts[1], ",") {
					sk := strings.SplitN(it, ".", 2)
					if len(sk) == 2 {
						c.pb = append(c.pb, preempt{atoi(sk[0]), atoi(sk[1])})
					}
				}
			}
			systematic()
		default: // rand:<seed>:<style>
			seed, style := int64(1), 0
			if len(parts) > 1 {
				seed, _ = strconv.ParseInt(parts[1], 10, 64)
			}
			if len(parts) > 2 {
				style = atoi(parts[2])
			}
			c.rng = rand.New(rand.NewSource(seed))
			c.style = style
			if c.fine && (m["sched"] == "once" || m["sched"] == "" || m["sched"] == "comp" || strings.HasPrefix(m["sched"], "cz:")) && !strings.Contains(m["sched"], "c.") && !strings.HasSuffix(m["sched"], "c") && atoi(m["shotus"]) == 0 {
				// nothing sleeps: a long patience costs nothing and keeps "one instance runs at a time" true
				c.wait = 400 * time.Millisecond
				c.firstWait = time.Second
				if (m["start"] == "" || m["start"] == "once") && !c.sctl {
					c.first = cap
				}
			}
		}
		for _, pr := range prs {
			pr.rec.ctl = c
		}
		if c.fine {
			verifhook.Yield = rec.yield
			defer func() { verifhook.Yield = nil }()
		}
		go c.loop()
	}
	eng := engine.New(zap.NewNop(), metrics, conf)
	limit := 15 * time.Second
	if v := atoi(m["__tmo"]); v > 0 {
		limit = time.Duration(v) * time.Millisecond
	}
	ctx, cancel := context.WithTimeout(context.Background(), limit)
	defer cancel()
	if c != nil {
		// controlled runs use instantaneous profiles of a few tokens: (tokens + instances) iterations of at most 7 logged
		// operations each is all a pool can do
		for _, pr := range prs {
			tk := pr.exact
			pr.rec.maxEvs = 64*(tk*pr.cap+pr.cap+4) + 256
			pr.rec.onRunaway = func() {
				c.halt()
				cancel()
			}
		}
	}
	err := eng.Run(ctx)
	if c != nil {
		c.halt()
	}
	eng.Wait()
	res := "ok"
	if err != nil {
		res = "err:" + strings.ReplaceAll(drv.Clean(err.Error()), " ", "_")
	}
	rec.mu.Lock()
	for _, pr := range prs {
		if pr.rec.runaway {
			res = "runaway"
		}
	}
	rec.mu.Unlock()
	b := func(x bool) int {
		if x {
			return 1
		}
		return 0
	}
	var sb strings.Builder
	fmt.Fprintf(&sb, "res=%s started=%d finished=%d req=%d resp=%d", res, metrics.InstanceStart.Get(), metrics.InstanceFinish.Get(),
		metrics.Request.Get(), metrics.Response.Get())
	for j, pr := range prs {
		sfx := ""
		if npools > 1 {
			sfx = "." + itoa(j)
		}
		pr.rec.mu.Lock()
		mn, mx := pr.rec.relMinMax()
		fmt.Fprintf(&sb, " exact%s=%d cap%s=%d uar%s=%d dbl%s=%d relmin%s=%d relmax%s=%d", sfx, pr.exact, sfx, pr.cap, sfx, b(pr.rec.uar),
			sfx, b(pr.rec.dbl), sfx, mn, sfx, mx)
		if pr.parts != "" {
			fmt.Fprintf(&sb, " parts%s=%s", sfx, pr.parts)
		}
		if c != nil && j == 0 {
			fmt.Fprintf(&sb, " partial=%d br=%s", c.partial, string(c.br))
		}
		fmt.Fprintf(&sb, " log%s=%s", sfx, strings.Join(pr.rec.evs, ","))
		pr.rec.mu.Unlock()
	}
	return sb.String()
}

// ---------------------------------------------------------------- systematic enumeration of interleavings

// dfs runs the real engine under the controlled scheduler along every choice path (depth first, lexicographic), at most
// maxRuns runs. Returns the inputs (their observations are cached) and whether the tree was exhausted.
func dfs(base string, maxRuns int) ([]string, bool) {
	var out []string
	path := []int{}
	for runs := 0; runs < maxRuns; runs++ {
		var sb strings.Builder
		for _, k := range path {
			sb.WriteByte(b36[k])
		}
		in := base + " ctl=path:" + sb.String()
		obs := execute(in)
		if !strings.HasPrefix(obs, "res=ok ") {
			// crash, hang, abnormal end or runaway: report it for this input and stop enumerating this configuration
			cacheMu.Lock()
			cache[in] = obs
			cacheMu.Unlock()
			return append(out, in), false
		}
		cacheMu.Lock()
		cache[in] = obs
		cacheMu.Unlock()
		out = append(out, in)
		br := drv.KV(obs)["br"]
		j := len(br)/2 - 1
		for j >= 0 && strings.IndexByte(b36, br[2*j+1])+1 >= strings.IndexByte(b36, br[2*j]) {
			j--
		}
		if j < 0 {
			return out, true
		}
		path = path[:0]
		for i := 0; i < j; i++ {
			path = append(path, strings.IndexByte(b36, br[2*i+1]))
		}
		path = append(path, strings.IndexByte(b36, br[2*j+1])+1)
	}
	return out, false
}

var dfsComplete, dfsCapped int

func dfsAll(bases []string, maxRuns int) []string {
	res := make([][]string, len(bases))
	done := make([]bool, len(bases))
	var wg sync.WaitGroup
	sem := make(chan struct{}, 10)
	for i, b := range bases {
		wg.Add(1)
		go func(i int, b string) {
			defer wg.Done()
			sem <- struct{}{}
			res[i], done[i] = dfs(b, maxRuns)
			<-sem
		}(i, b)
	}
	wg.Wait()
	var out []string
	defer func() {
		fmt.Fprintf(os.Stderr, "c03: enumeration: %d configurations, %d exhausted, %d cut at %d runs, %d runs\n", len(bases), dfsComplete, dfsCapped, maxRuns, len(out))
	}()
	for i := range res {
		out = append(out, res[i]...)
		if done[i] {
			dfsComplete++
		} else {
			dfsCapped++
		}
	}
	return out
}

// ---------------------------------------------------------------- generator

func line(inst, shared, tokens, ammo, disc, past, shot int, sched string, extra string) string {
	s := fmt.Sprintf("inst=%d shared=%d tokens=%d ammo=%d discard=%d past=%d shotus=%d sched=%s", inst, shared, tokens, ammo, disc, past, shot, sched)
	if extra != "" {
		s += " " + extra
	}
	if past > 0 { // how late the overdue tokens are: 2.5 s … 1 h
		s += " late=" + []string{"2500", "3000", "5000", "9000", "3600000"}[(inst+tokens+past+shot+len(extra))%5]
	}
	return s
}

func pick[T any](r *rand.Rand, xs ...T) T { return xs[r.Intn(len(xs))] }

var (
	avKinds = []string{"nil", "nil", "nilptr", "zero", "estr", "false", "unit", "same"}
	reProv  = regexp.MustCompile(`prov=[a-z]+`)
)

// oddAmmo: now and then the provider hands out ammo VALUES that are unusual but valid (core.Ammo is interface{}): the mock
// with av=<kind> (untyped nil, typed nil pointer, zero values, an empty struct, one object for all items), or the built-in
// `dummy` provider (every item is the untyped nil). What the engine must do does not depend on the value of an item.
func oddAmmo(r *rand.Rand, extra string) string {
	switch r.Intn(8) {
	case 0, 1:
		if strings.Contains(extra, "prov=mock") {
			return extra + " av=" + pick(r, avKinds...)
		}
	case 2:
		return reProv.ReplaceAllString(extra, "prov=dummy")
	}
	return extra
}

func gen(r *rand.Rand, tier string) []string {
	thorough := tier == "thorough"
	var out []string
	kinds := []string{"once", "const", "comp", "line", "step", "comp2"}
	provs := []string{"mock", "mock", "json", "jsonlimit", "jsonpass", "num"}
	aggrs := []string{"mock", "mock", "phout"}

	// 1. the matrix: instances x shared/per-instance x tokens x ammo bound x discard, everything else random
	insts := []int{1, 2, 3, 8}
	toks := []int{0, 1, 5, 17}
	ammos := []int{-1, 0, 3, 5, 40}
	if thorough {
		insts = []int{1, 2, 3, 5, 8, 32}
		toks = []int{0, 1, 2, 5, 17, 40}
		ammos = []int{-1, 0, 1, 3, 5, 17, 40, 100}
	}
	reps := 1
	if thorough {
		reps = 3
	}
	for rep := 0; rep < reps; rep++ {
		for _, inst := range insts {
			for _, shared := range []int{0, 1} {
				for _, t := range toks {
					for _, a := range ammos {
						for _, disc := range []int{0, 1} {
							extra := oddAmmo(r, "prov="+pick(r, provs...)+" aggr="+pick(r, aggrs...))
							if r.Intn(3) == 0 {
								extra += " start=ramp" + itoa(pick(r, 1, 2, 5))
							}
							if r.Intn(3) == 0 {
								extra += fmt.Sprintf(" ctl=rand:%d:%d", r.Intn(1000000), r.Intn(3))
							}
							out = append(out, line(inst, shared, t, a, disc, pick(r, 0, 1, 2, 3), pick(r, 0, 0, 30, 200), pick(r, kinds...), extra))
						}
					}
				}
			}
		}
	}

	// 2. random cells
	n := 150
	if thorough {
		n = 8000
	}
	for i := 0; i < n; i++ {
		extra := oddAmmo(r, "prov="+pick(r, provs...)+" aggr="+pick(r, aggrs...))
		if r.Intn(3) == 0 {
			extra += " start=ramp" + itoa(pick(r, 1, 2, 5))
		}
		if r.Intn(2) == 0 {
			extra += fmt.Sprintf(" ctl=rand:%d:%d", r.Intn(1000000), r.Intn(3))
		}
		if r.Intn(6) == 0 {
			extra += " panic=" + itoa(1+r.Intn(6)) // fault plan: the k-th Shoot of the pool panics
		}
		out = append(out, line(1+r.Intn(12), r.Intn(2), r.Intn(30), pick(r, -1, r.Intn(40)), r.Intn(2), r.Intn(4), pick(r, 0, 20, 100), pick(r, kinds...), extra))
	}

	// 3. a paced profile with the startup ramp still running when the ammo ends (and the other way round):
	//    instances hold an item and sleep in Wait while others run out of ammo / finish the schedule / are being started
	n = 40
	if thorough {
		n = 1500
	}
	for i := 0; i < n; i++ {
		inst := 2 + r.Intn(3)
		tokens := 4 + r.Intn(9)
		am := 1 + r.Intn(tokens-1) // bounded, fewer than the tokens of one profile
		if r.Intn(4) == 0 {
			am = pick(r, -1, tokens, tokens+2)
		}
		extra := oddAmmo(r, fmt.Sprintf("start=ramp%d prov=%s aggr=%s", pick(r, 3, 5, 8, 12), pick(r, provs...), pick(r, aggrs...)))
		out = append(out, line(inst, r.Intn(2), tokens, am, r.Intn(2), pick(r, 0, 0, 3), pick(r, 0, 100, 1500), "paced"+itoa(pick(r, 2, 4, 7, 11)), extra))
	}

	// 4. controlled scheduling, seeded: many interleavings of the same small configuration
	n = 150
	if thorough {
		n = 48000
	}
	for i := 0; i < n; i++ {
		inst := 2 + r.Intn(4)
		tokens := r.Intn(7)
		extra := oddAmmo(r, fmt.Sprintf("prov=%s aggr=%s ctl=rand:%d:%d", pick(r, "mock", "mock", "json", "num"), pick(r, aggrs...), r.Intn(1000000), r.Intn(3)))
		if r.Intn(2) == 0 {
			extra += " sctl=1" // the goroutine that starts the instances takes part in the controlled interleaving
		}
		if r.Intn(10) == 0 {
			extra += " panic=" + itoa(1+r.Intn(4))
		}
		out = append(out, line(inst, r.Intn(2), tokens, pick(r, -1, r.Intn(8), tokens, tokens+1), r.Intn(2), pick(r, 0, 0, 1, 2), 0, pick(r, "once", "once", "comp"), extra))
	}

	// 4f. the same with scheduling points INSIDE the schedule's Next / Left (instrumented worker, instr.go): an instance
	//     can be parked between the atomic operations of one call while the others go on
	n = 260
	if thorough {
		n = 24000
	}
	for i := 0; i < n; i++ {
		inst := 2 + r.Intn(5)
		tokens := r.Intn(5)
		shared := 1
		if r.Intn(3) == 0 {
			shared = 0
		}
		extra := oddAmmo(r, fmt.Sprintf("prov=%s aggr=%s ctl=rand:%d:%d fine=1", pick(r, "mock", "mock", "mock", "json", "num"), pick(r, aggrs...), r.Intn(1000000), r.Intn(3)))
		if r.Intn(3) == 0 {
			extra += " sctl=1"
		}
		out = append(out, line(inst, shared, tokens, pick(r, -1, -1, r.Intn(8), tokens, tokens+1), r.Intn(2), pick(r, 0, 0, 1, 2), 0, "once", extra))
	}

	// 4c. … and INSIDE a composite profile (a profile written as a list of parts, zero-token parts anywhere): the
	//     scheduling points are the ones before the composite's Lock / RLock statements, so an instance can be parked
	//     between the critical sections of ONE Next() — after the reader section that found the current part drained,
	//     before the writer section that starts the next part — while the others drop parts, drain them, start again
	n = 220
	if thorough {
		n = 12000
	}
	for i := 0; i < n; i++ {
		inst := 2 + r.Intn(3)
		np := 2 + r.Intn(3)
		ps := make([]string, np)
		sum := 0
		for k := range ps {
			v := pick(r, 0, 0, 0, 1, 1, 2, 3)
			ps[k] = itoa(v)
			if r.Intn(6) == 0 {
				ps[k] += "c" // a const part instead of a once part
			}
			sum += v
		}
		kind := "cz:" + strings.Join(ps, ".")
		if r.Intn(6) == 0 {
			kind = "comp"
			sum = r.Intn(6)
		}
		shared := 1
		if r.Intn(4) == 0 {
			shared = 0
		}
		extra := fmt.Sprintf("prov=%s aggr=%s ctl=rand:%d:%d fine=1", pick(r, "mock", "mock", "mock", "json", "num"), pick(r, aggrs...), r.Intn(1000000), r.Intn(3))
		switch r.Intn(6) {
		case 0:
			extra += " sctl=1"
		case 1: // the same list read by the real config reader
			extra += " cfg=" + pick(r, "cli", "yaml2") + " rpsy=" + pick(r, "list", "block", "nest", "map")
		}
		total := sum
		if shared == 0 {
			total = sum * inst
		}
		out = append(out, line(inst, shared, sum, pick(r, -1, -1, total, total, r.Intn(8), total+1), r.Intn(2), pick(r, 0, 0, 0, 1, 2), 0, kind, extra))
	}

	// 4b. engines with two or three pools that share the Request / Response counters
	n = 40
	if thorough {
		n = 1500
	}
	for i := 0; i < n; i++ {
		np := 2 + r.Intn(2)
		l := line(1+r.Intn(5), r.Intn(2), r.Intn(12), pick(r, -1, r.Intn(15)), r.Intn(2), r.Intn(4), pick(r, 0, 20), pick(r, kinds...),
			fmt.Sprintf("pools=%d prov=%s aggr=%s", np, pick(r, provs...), pick(r, aggrs...)))
		for j := 1; j < np; j++ {
			l += fmt.Sprintf(" shared.%d=%d tokens.%d=%d ammo.%d=%d inst.%d=%d discard.%d=%d", j, r.Intn(2), j, r.Intn(12), j, pick(r, -1, r.Intn(15)),
				j, 1+r.Intn(4), j, r.Intn(2))
			if r.Intn(2) == 0 {
				l += fmt.Sprintf(" start.%d=ramp%d sched.%d=%s", j, pick(r, 1, 3), j, pick(r, kinds...))
			}
		}
		if i%2 == 1 { // one controller interleaves the instances of all pools
			l += fmt.Sprintf(" ctl=rand:%d:%d", r.Intn(1000000), r.Intn(3))
		}
		out = append(out, l)
	}

	// 7. the pool written as YAML TEXT and read by the real config reader (cfgroute.go): both routes x every spelling of
	//    the profile x shared / per-instance x instance count, everything else random.  What the engine must do does not
	//    depend on the route or the spelling.
	spellings := []string{"map", "list", "block", "nest", "split"}
	reps = 2
	cinsts := []int{1, 2, 3}
	if thorough {
		reps = 30
		cinsts = []int{1, 2, 3, 5, 9}
	}
	for rep := 0; rep < reps; rep++ {
		for _, route := range []string{"cli", "yaml2"} {
			for _, sp := range spellings {
				for _, shared := range []int{0, 1} {
					for _, inst := range cinsts {
						kind := pick(r, kinds...)
						if sp == "split" {
							kind = "once"
						}
						extra := oddAmmo(r, fmt.Sprintf("cfg=%s rpsy=%s prov=%s aggr=%s", route, sp, pick(r, provs...), pick(r, aggrs...)))
						if r.Intn(3) == 0 {
							extra += " stay=" + pick(r, "list", "block", "nest")
						}
						if r.Intn(4) == 0 {
							extra += " start=ramp" + itoa(pick(r, 1, 2, 5))
						}
						if r.Intn(5) == 0 && route == "cli" {
							extra += " fold=1"
						}
						leaf := kind == "once" || kind == "comp" // (a split list and comp are composites: parked between their critical sections)
						switch r.Intn(4) {
						case 0:
							extra += fmt.Sprintf(" ctl=rand:%d:%d", r.Intn(1000000), r.Intn(3))
							if leaf && r.Intn(2) == 0 {
								extra += " fine=1"
							}
						}
						tokens := 1 + r.Intn(9)
						disc := r.Intn(3)
						l := line(inst, shared, tokens, pick(r, -1, -1, r.Intn(12), tokens, inst*tokens), disc%2, pick(r, 0, 0, 1, 3), pick(r, 0, 0, 30), kind, extra)
						if disc == 2 {
							l = strings.Replace(l, " discard=0 ", " discard=absent ", 1)
						}
						out = append(out, l)
					}
				}
			}
		}
	}
	// 7b. engines with several pools read from one configuration text
	n = 16
	if thorough {
		n = 600
	}
	for i := 0; i < n; i++ {
		np := 2 + r.Intn(2)
		l := line(1+r.Intn(4), r.Intn(2), r.Intn(10), pick(r, -1, r.Intn(15)), r.Intn(2), r.Intn(4), pick(r, 0, 20), pick(r, kinds...),
			fmt.Sprintf("pools=%d cfg=%s rpsy=%s prov=%s aggr=%s", np, pick(r, "cli", "yaml2"), pick(r, "map", "list", "block", "nest"), pick(r, provs...), pick(r, aggrs...)))
		for j := 1; j < np; j++ {
			l += fmt.Sprintf(" shared.%d=%d tokens.%d=%d ammo.%d=%d inst.%d=%d discard.%d=%d rpsy.%d=%s", j, r.Intn(2), j, r.Intn(10), j, pick(r, -1, r.Intn(15)),
				j, 1+r.Intn(4), j, r.Intn(2), j, pick(r, "map", "list", "block", "nest"))
		}
		out = append(out, l)
	}

	// 8. the same engine on a worker built with the race detector (instr.go): uncontrolled runs of several instances
	//    spinning on a shared or an own profile; the real operations are performed outside the recorder's mutex, a data
	//    race in the engine / schedule / provider / aggregator code stops the worker and fails the case
	n = 70
	if thorough {
		n = 1500
	}
	for i := 0; i < n; i++ {
		extra := oddAmmo(r, fmt.Sprintf("race=1 prov=%s aggr=%s", pick(r, "json", "num", "jsonlimit", "mock"), pick(r, aggrs...)))
		switch r.Intn(4) {
		case 0:
			extra += " cfg=" + pick(r, "cli", "yaml2") + " rpsy=" + pick(r, "map", "list", "nest")
		case 1:
			extra += " start=ramp" + itoa(pick(r, 1, 2))
		}
		tokens := 10 + r.Intn(50)
		l := line(2+r.Intn(7), r.Intn(2), tokens, pick(r, -1, -1, tokens/2, 3*tokens), r.Intn(2), pick(r, 0, 0, 3, 7), pick(r, 0, 0, 0, 20), pick(r, kinds...), extra)
		if i%8 == 0 {
			l += fmt.Sprintf(" pools=2 shared.1=%d tokens.1=%d ammo.1=-1 inst.1=%d discard.1=0", r.Intn(2), 5+r.Intn(20), 2+r.Intn(3))
		}
		out = append(out, l)
	}

	// 5. systematic enumeration: EVERY interleaving (at the granularity of the logged operations) of tiny pools
	var bases []string
	maxRuns := 500
	if thorough {
		maxRuns = 15000
	}
	for _, shared := range []int{1, 0} {
		for _, t := range []int{0, 1} {
			for _, a := range []int{-1, 0, 1, 2} {
				for _, pd := range [][2]int{{0, 0}, {1, 1}} { // (past, discard): all fired / all discarded
					if !thorough && (t == 0 && a > 0 || pd[0] == 1 && a == 0) {
						continue
					}
					bases = append(bases, line(2, shared, t, a, pd[1], pd[0], 0, "once", ""))
				}
			}
		}
	}
	if thorough {
		// three instances / two tokens: too many interleavings to finish, explored up to the cap
		for _, shared := range []int{1, 0} {
			for _, a := range []int{-1, 1, 2} {
				bases = append(bases, line(3, shared, 1, a, 0, 0, 0, "once", ""))
				bases = append(bases, line(2, shared, 2, a, 1, 2, 0, "once", ""))
				bases = append(bases, line(2, shared, 2, a, 0, 0, 0, "once", "prov=json"))
			}
		}
	}
	// 5f. … and of the interleavings at the granularity of the schedule's atomic operations
	for _, a := range []int{-1, 1, 2} {
		bases = append(bases, line(2, 1, 1, a, 0, 0, 0, "once", "fine=1"))
	}
	bases = append(bases, line(2, 0, 1, 1, 1, 1, 0, "once", "fine=1"))
	// 5v. … with ammo values the instances cannot tell apart (every item is the untyped nil)
	bases = append(bases, line(2, 1, 1, 1, 0, 0, 0, "once", "av=nil"))
	if thorough {
		bases = append(bases, line(2, 0, 1, 2, 0, 0, 0, "once", "prov=dummy"), line(2, 1, 1, -1, 1, 1, 0, "once", "prov=dummy cfg=cli rpsy=list"))
	}
	// 5s. … and with the goroutine that starts the instances as one more participant (an instance may run, finish the
	//     profile or run out of ammo before the next one exists; the start may be cut)
	bases = append(bases, line(2, 1, 1, 1, 0, 0, 0, "once", "sctl=1"), line(2, 0, 1, 1, 0, 0, 0, "once", "sctl=1"),
		line(3, 1, 0, -1, 0, 0, 0, "once", "sctl=1"), line(3, 1, 1, 0, 0, 0, 0, "once", "sctl=1"), line(2, 1, 1, -1, 1, 1, 0, "once", "sctl=1"))
	if thorough {
		bases = append(bases, line(3, 1, 1, 1, 0, 0, 0, "once", "sctl=1"), line(3, 0, 1, 2, 0, 0, 0, "once", "sctl=1"),
			line(2, 1, 1, 1, 0, 0, 0, "once", "sctl=1 fine=1"), line(2, 1, 2, -1, 0, 0, 0, "once", "sctl=1"))
	}
	if thorough {
		bases = append(bases, line(2, 0, 1, -1, 0, 0, 0, "once", "fine=1"), line(2, 1, 0, -1, 0, 0, 0, "once", "fine=1"),
			line(2, 1, 2, -1, 1, 2, 0, "once", "fine=1"), line(3, 1, 1, -1, 0, 0, 0, "once", "fine=1"), line(3, 1, 1, 2, 0, 0, 0, "once", "fine=1"))
	}
	// 5g. … and of the interleavings of the critical sections of a composite profile whose first parts have no tokens
	bases = append(bases, line(2, 1, 1, 1, 0, 0, 0, "cz:0.0.1", "fine=1"))
	if thorough {
		bases = append(bases, line(2, 1, 1, -1, 0, 0, 0, "cz:0.0.1", "fine=1"), line(2, 1, 2, 2, 0, 0, 0, "cz:1.0.1", "fine=1"),
			line(3, 1, 1, 1, 0, 0, 0, "cz:0.1", "fine=1"), line(2, 0, 1, -1, 0, 0, 0, "cz:0.0.1", "fine=1"))
	}
	// 5c. … and of pools built by the real config reader from a profile written as a list
	bases = append(bases, line(2, 0, 1, 1, 0, 0, 0, "once", "cfg=cli rpsy=list"), line(2, 0, 1, -1, 1, 1, 0, "once", "cfg=yaml2 rpsy=list"))
	if thorough {
		bases = append(bases, line(2, 1, 1, 1, 0, 0, 0, "once", "cfg=cli rpsy=block fine=1"), line(2, 0, 2, -1, 0, 0, 0, "once", "cfg=cli rpsy=split"))
	}
	out = append(out, dfsAll(bases, maxRuns)...)

	// 6. preemption-bounded enumeration (every schedule that runs each instance on until it ends, except for at most
	//    1 (quick) / 2 (thorough) forced switches at any step to any other instance) of somewhat larger pools
	var pbBases []string
	if thorough {
		for _, shared := range []int{1, 0} {
			pbBases = append(pbBases,
				line(3, shared, 2, -1, 0, 0, 0, "once", ""),
				line(3, shared, 2, 3, 1, 2, 0, "once", ""),
				line(3, shared, 3, 2, 0, 0, 0, "once", "prov=json"),
				line(4, shared, 2, 5, 1, 3, 0, "comp", ""),
				line(4, shared, 1, -1, 0, 0, 0, "once", "aggr=phout"),
				line(2, shared, 4, 3, 1, 2, 0, "once", "prov=num"),
				line(5, shared, 1, 2, 0, 0, 0, "once", ""),
				line(3, shared, 4, -1, 1, 3, 0, "comp", "prov=jsonpass aggr=phout"))
		}
	} else {
		pbBases = append(pbBases, line(3, 1, 2, -1, 0, 0, 0, "once", ""), line(3, 0, 2, 3, 1, 2, 0, "once", ""),
			line(3, 1, 2, 2, 0, 0, 0, "cz:1.0.1", "fine=1"),
			line(3, 1, 1, -1, 0, 0, 0, "once", "fine=1"), line(3, 1, 2, 2, 0, 0, 0, "once", "sctl=1"),
			line(3, 0, 2, 4, 0, 0, 0, "once", "cfg=cli rpsy=list"),
			line(3, 1, 2, -1, 0, 0, 0, "once", "prov=dummy"),
			line(2, 1, 1, -1, 0, 0, 0, "once", "pools=2 shared.1=0 tokens.1=1 ammo.1=2 inst.1=2 discard.1=0"))
	}
	if thorough {
		pbBases = append(pbBases, line(3, 1, 2, -1, 0, 0, 0, "once", "fine=1"), line(4, 1, 1, 3, 0, 0, 0, "once", "fine=1"),
			line(2, 1, 2, 2, 0, 0, 0, "cz:0.0.2", "fine=1"), line(3, 1, 3, 3, 0, 0, 0, "comp", "fine=1"), line(3, 1, 1, 1, 0, 0, 0, "cz:0.0.0.1", "fine=1 cfg=cli rpsy=list"),
			line(3, 0, 2, 3, 1, 2, 0, "once", "fine=1"),
			line(2, 1, 2, 3, 1, 2, 0, "once", "pools=2 shared.1=0 tokens.1=2 ammo.1=-1 inst.1=2 discard.1=0 aggr=phout"),
			line(2, 0, 1, -1, 0, 0, 0, "once", "pools=3 shared.1=1 tokens.1=2 ammo.1=1 inst.1=2 discard.1=0 shared.2=1 tokens.2=1 ammo.2=-1 inst.2=1 discard.2=0 cfg=cli rpsy=list"))
	}
	for _, b := range pbBases {
		base := execute(b + " ctl=pb:")
		steps := len(drv.KV(base)["br"])/2 + 6
		others := atoi(drv.KV(b)["inst"]) - 1
		for j := 1; j < atoi(drv.KV(b)["pools"]); j++ {
			others += atoi(drv.KV(b)["inst."+itoa(j)])
		}
		if drv.KV(b)["sctl"] == "1" {
			others++
		}
		out = append(out, b+" ctl=pb:")
		for s1 := 0; s1 < steps; s1++ {
			for k1 := 0; k1 < others; k1++ {
				out = append(out, fmt.Sprintf("%s ctl=pb:%d.%d", b, s1, k1))
				if !thorough {
					continue
				}
				for s2 := s1 + 1; s2 < steps; s2++ {
					for k2 := 0; k2 < others; k2++ {
						out = append(out, fmt.Sprintf("%s ctl=pb:%d.%d,%d.%d", b, s1, k1, s2, k2))
					}
				}
			}
		}
	}

	// distinct lines only
	seen := map[string]bool{}
	var uniq []string
	for _, l := range out {
		if !seen[l] {
			seen[l] = true
			uniq = append(uniq, l)
		}
	}
	return uniq
}

func main() {
	if len(os.Args) > 1 && os.Args[1] == "-worker" {
		workerMain()
		return
	}
	defer removeInstrumentedWorker()
	if len(os.Args) > 2 && os.Args[1] == "-dfs" { // debugging aid: enumerate one configuration, print the paths  [-dfs <input> [<repo>]]
		if len(os.Args) > 3 {
			drv.RepoDir = os.Args[3]
		}
		ins, done := dfs(os.Args[2], 100000)
		for _, in := range ins {
			fmt.Println(in[strings.Index(in, "ctl="):], drv.KV(cache[in])["br"], drv.KV(cache[in])["partial"], drv.KV(cache[in])["log"])
		}
		fmt.Fprintln(os.Stderr, len(ins), done)
		return
	}
	// build the instrumented worker before any case is timed (its `go build` may take a while on a cold cache)
	for k := 1; k < len(os.Args); k++ {
		if !strings.HasPrefix(os.Args[k], "-") {
			continue
		}
		a := strings.TrimLeft(os.Args[k], "-")
		if a == "repo" && k+1 < len(os.Args) {
			drv.RepoDir = os.Args[k+1]
		} else if strings.HasPrefix(a, "repo=") {
			drv.RepoDir = strings.TrimPrefix(a, "repo=")
		}
	}
	var built sync.WaitGroup
	built.Add(1)
	go func() { defer built.Done(); raceWorker() }()
	instrumentedWorker()
	built.Wait()
	drv.Main(&drv.Prop{
		ID: "C03", Gen: gen, Run: run, Workers: 10, Timeout: 60 * time.Second,
		Class: func(in, obs string) string {
			m := drv.KV(in)
			o := drv.KV(obs)
			if np := atoi(m["pools"]); np > 1 {
				if o["log.0"] == "" && o["log.1"] == "" {
					return ""
				}
				c := fmt.Sprintf("engine-with-%d-pools", np)
				if m["ctl"] != "" {
					c += "/controlled"
				}
				if m["cfg"] != "" {
					c += "/cfg-" + m["cfg"]
				}
				return c
			}
			if o["log"] == "" {
				return ""
			}
			c := "shared"
			if m["shared"] == "0" {
				c = "per-instance"
			}
			how := "plain"
			switch {
			case strings.HasPrefix(m["ctl"], "path"):
				how = "enumerated"
			case strings.HasPrefix(m["ctl"], "pb"):
				how = "preemption-bounded"
			case strings.HasPrefix(m["ctl"], "rand"):
				how = "ctl-random"
			case strings.HasPrefix(m["start"], "ramp"):
				how = "ramp"
			}
			if m["fine"] == "1" {
				how += "+fine"
				if strings.Contains(o["parts"], ",") {
					how += "-composite"
				}
			}
			if m["sctl"] == "1" {
				how += "+starter"
			}
			if p := m["prov"]; (p != "" && p != "mock") || m["aggr"] == "phout" {
				how += "+real"
			}
			if m["av"] != "" || m["prov"] == "dummy" {
				how += "+odd-ammo-value"
			}
			if m["race"] == "1" {
				how += "+race-detector"
			}
			if m["cfg"] != "" {
				how += "+cfg-" + m["cfg"]
				if sp := m["rpsy"]; sp != "" && sp != "map" {
					how += "-list"
				}
			}
			what := "fired"
			switch {
			case m["panic"] != "" && !strings.HasPrefix(obs, "res=ok"):
				what = "gun-panic"
			case strings.Contains(o["log"], "x"):
				what = "unfired"
			case o["started"] != o["cap"]:
				what = "start-cut"
			case strings.Contains(o["log"], "e"):
				what = "out-of-ammo"
			case strings.Contains(o["log"], "d"):
				what = "discard"
			}
			c += "/" + how + "/" + what
			return c
		},
		Rule: "real engine.Engine, one pool (some engines with 2-3 pools sharing the counters, half of them with one controller interleaving the instances of all pools): matrix instances x shared/per-instance x tokens x ammo bound x discard_overflow with random profile shape (once/const/composite/line/step), overdue tokens, shot duration, startup (once/ramp), provider (mock/real JSON DecodeProvider+AmmoQueue/real Num) and aggregator (mock/real phout); random cells, some with a fault plan (the k-th Shoot panics); paced profiles with a startup ramp that is still running when ammo ends; seeded controlled scheduling (random/sticky/lock-step choice of the next instance operation), half of it with the goroutine that starts the instances as one more controlled participant (sctl); the same on a worker built from the same source with scheduling points inside the schedule's Next/Left (fine: an instance can be parked between the atomic operations of one call); exhaustive enumeration of all operation interleavings of 2-instance pools with <=1 token at both granularities and with the starter (larger ones up to a cap); all schedules with <=1 (quick) / <=2 (thorough) preemptions of 2-4 instance pools; the same pools written as YAML text and read by the real config reader (cli.readConfig, or yaml.v2 + config.DecodeAndValidate) with the profile in every accepted spelling (mapping, list, block list, explicit composite, split list), the factories of the plugin registry, 1-3 pools; uncontrolled runs on a worker built with the race detector (real operations outside the recorder's mutex); non-trivial = at least one event logged; distinct input lines",
	})
	writeDimensions()
}

// writeDimensions adds to stats.json (written by drv.Main) the distribution of the generated inputs dimension by dimension
// (instances, profile mode / kind / size, ammo bound, provider, ammo value kind, aggregator, scheduling mode, route …) and of
// what the runs hit (how they ended, which events occurred), so that a dimension that is constant or nearly so is visible.
func writeDimensions() {
	out := "."
	for k := 1; k < len(os.Args); k++ {
		a := strings.TrimLeft(os.Args[k], "-")
		if a == "out" && k+1 < len(os.Args) {
			out = os.Args[k+1]
		} else if strings.HasPrefix(a, "out=") {
			out = strings.TrimPrefix(a, "out=")
		}
	}
	raw, err := os.ReadFile(out + "/cases.tsv")
	if err != nil {
		return
	}
	dims := map[string]map[string]int{}
	add := func(d, v string) {
		if dims[d] == nil {
			dims[d] = map[string]int{}
		}
		dims[d][v]++
	}
	bucket := func(v string) string {
		n := atoi(v)
		switch {
		case v == "":
			return "absent"
		case n < 0:
			return "unbounded"
		case n <= 3:
			return v
		case n <= 8:
			return "4-8"
		case n <= 20:
			return "9-20"
		}
		return ">20"
	}
	for _, ln := range strings.Split(string(raw), "\n") {
		f := strings.SplitN(ln, "\t", 3)
		if len(f) < 3 {
			continue
		}
		m, o := drv.KV(f[1]), drv.KV(f[2])
		add("instances", bucket(m["inst"]))
		add("shared", m["shared"])
		add("tokens", bucket(m["tokens"]))
		add("ammo", bucket(m["ammo"]))
		add("discard", m["discard"])
		add("overdue-every", m["past"])
		kind := m["sched"]
		if strings.HasPrefix(kind, "cz:") {
			kind = "cz"
		} else if strings.HasPrefix(kind, "paced") {
			kind = "paced"
		}
		add("profile", kind)
		for _, d := range []string{"prov", "aggr", "av", "cfg", "rpsy", "stay", "fine", "sctl", "race", "pools", "panic"} {
			v := m[d]
			if v == "" {
				v = "-"
			}
			if d == "panic" && v != "-" {
				v = "k"
			}
			add(d, v)
		}
		st := m["start"]
		if strings.HasPrefix(st, "ramp") {
			st = "ramp"
		}
		add("startup", st)
		add("scheduling", strings.SplitN(m["ctl"], ":", 2)[0])
		res := o["res"]
		switch {
		case strings.HasPrefix(f[2], "CRASH"), strings.HasPrefix(f[2], "HANG"), strings.HasPrefix(f[2], "PANIC"):
			res = strings.SplitN(f[2], " ", 2)[0]
		case strings.HasPrefix(res, "err:"):
			res = "err"
			if strings.Contains(o["res"], "shoot_panic") {
				res = "err:shoot-panic"
			}
		}
		add("result", res)
		log := o["log"]
		for _, ev := range []struct{ name, mark string }{{"out-of-ammo", "e"}, {"schedule-finished-while-holding", "x"}, {"discard", "d"}, {"shot", "s"}} {
			hit := false
			for _, tok := range strings.Split(log, ",") {
				if strings.HasPrefix(tok, ev.mark) {
					hit = true
					break
				}
			}
			if hit {
				add("events-hit", ev.name)
			}
		}
		if o["started"] != "" && o["started"] != o["cap"] && o["cap"] != "" {
			add("events-hit", "start-cut")
		}
	}
	sraw, err := os.ReadFile(out + "/stats.json")
	if err != nil {
		return
	}
	var stats map[string]any
	if json.Unmarshal(sraw, &stats) != nil {
		return
	}
	stats["dimensions"] = dims
	if b, err := json.MarshalIndent(stats, "", " "); err == nil {
		_ = os.WriteFile(out+"/stats.json", b, 0o644)
	}
}
