package main

// Fine-grained controlled scheduling needs scheduling points INSIDE the schedule's own Next / Left (an instance parked
// between two atomic operations of one Next while another instance evaluates IsFinished).  The source has none there,
// so the harness builds a second worker binary from the SAME source tree with `go build -overlay`: in every method
// named Next or Left of core/schedule/*.go that takes no lock, a call `verifhook.At("<recv>.<method>#<k>|<accesses>")`
// is inserted before each statement; <accesses> lists the operations on the receiver's shared state the statement
// performs (calls of atomic methods on a receiver field: `i.Inc`, `i.Load` …; plain writes of receiver fields:
// `x.write`).  Nothing else of the source is changed.  The controlled scheduler parks an instance at every point whose
// statement touches shared state (statements that do not commute with nothing need no scheduling point) and logs the
// access when it lets the instance go on.

import (
	"crypto/sha1"
	"encoding/json"
	"fmt"
	"go/ast"
	"go/parser"
	"go/token"
	"os"
	"os/exec"
	"path/filepath"
	"runtime"
	"sort"
	"strings"
	"sync"
	"time"

	"verifharness/drv"
)

var instrAtomicMethods = map[string]bool{"Inc": true, "Dec": true, "Add": true, "Sub": true, "Load": true, "Store": true,
	"Swap": true, "CAS": true, "CompareAndSwap": true, "Toggle": true}

// instrAccesses: the shared-state operations of ONE statement (nested blocks and function literals excluded), in
// source order.
func instrAccesses(recv string, atomicField map[string]bool, st ast.Stmt) []string {
	var out []string
	var own []ast.Node
	switch s := st.(type) {
	case *ast.IfStmt:
		own = []ast.Node{s.Init, s.Cond}
	case *ast.ForStmt:
		own = []ast.Node{s.Init, s.Cond, s.Post}
	case *ast.RangeStmt:
		own = []ast.Node{s.X}
	case *ast.SwitchStmt:
		own = []ast.Node{s.Init, s.Tag}
	case *ast.TypeSwitchStmt:
		own = []ast.Node{s.Init, s.Assign}
	case *ast.SelectStmt, *ast.BlockStmt, *ast.LabeledStmt:
		own = nil
	default:
		own = []ast.Node{st}
	}
	isRecvField := func(e ast.Expr) (string, bool) {
		se, ok := e.(*ast.SelectorExpr)
		if !ok {
			return "", false
		}
		id, ok := se.X.(*ast.Ident)
		if !ok || id.Name != recv {
			return "", false
		}
		return se.Sel.Name, true
	}
	for _, n := range own {
		if n == nil {
			continue
		}
		ast.Inspect(n, func(x ast.Node) bool {
			switch v := x.(type) {
			case *ast.FuncLit, *ast.BlockStmt:
				return false
			case *ast.CallExpr:
				if se, ok := v.Fun.(*ast.SelectorExpr); ok && instrAtomicMethods[se.Sel.Name] {
					if f, ok := isRecvField(se.X); ok && atomicField[f] {
						out = append(out, f+"."+se.Sel.Name)
					}
				}
			case *ast.AssignStmt:
				for _, l := range v.Lhs {
					if f, ok := isRecvField(l); ok {
						out = append(out, f+".write")
					}
				}
			case *ast.IncDecStmt:
				if f, ok := isRecvField(v.X); ok {
					out = append(out, f+".write")
				}
			}
			return true
		})
	}
	return out
}

// instrLockCall: the statement is `<recv>.<field>.<Lock|RLock|Unlock|RUnlock>()`: which one ("" = none).
func instrLockCall(recv string, st ast.Stmt) string {
	es, ok := st.(*ast.ExprStmt)
	if !ok {
		return ""
	}
	c, ok := es.X.(*ast.CallExpr)
	if !ok || len(c.Args) != 0 {
		return ""
	}
	se, ok := c.Fun.(*ast.SelectorExpr)
	if !ok {
		return ""
	}
	switch se.Sel.Name {
	case "Lock", "RLock", "Unlock", "RUnlock":
	default:
		return ""
	}
	inner, ok := se.X.(*ast.SelectorExpr)
	if !ok {
		return ""
	}
	if id, ok := inner.X.(*ast.Ident); !ok || id.Name != recv {
		return ""
	}
	return se.Sel.Name
}

type instrIns struct {
	off  int
	text string
}

func instrHasLock(body *ast.BlockStmt) bool {
	found := false
	ast.Inspect(body, func(x ast.Node) bool {
		if c, ok := x.(*ast.CallExpr); ok {
			if se, ok := c.Fun.(*ast.SelectorExpr); ok {
				switch se.Sel.Name {
				case "Lock", "RLock", "Unlock", "RUnlock":
					found = true
				}
			}
		}
		return !found
	})
	return found
}

// instrAtomicFields: per struct type of the package directory, the fields whose declared type is an atomic
// (`atomic.Int64`, `atomic.Bool` … of go.uber.org/atomic or sync/atomic).
func instrAtomicFields(dir string) map[string]map[string]bool {
	out := map[string]map[string]bool{}
	files, _ := filepath.Glob(filepath.Join(dir, "*.go"))
	for _, p := range files {
		if strings.HasSuffix(p, "_test.go") {
			continue
		}
		fset := token.NewFileSet()
		f, err := parser.ParseFile(fset, p, nil, 0)
		if err != nil {
			continue
		}
		ast.Inspect(f, func(x ast.Node) bool {
			ts, ok := x.(*ast.TypeSpec)
			if !ok {
				return true
			}
			st, ok := ts.Type.(*ast.StructType)
			if !ok {
				return true
			}
			m := map[string]bool{}
			for _, fl := range st.Fields.List {
				isAtomic := false
				ast.Inspect(fl.Type, func(y ast.Node) bool {
					if se, ok := y.(*ast.SelectorExpr); ok {
						if id, ok := se.X.(*ast.Ident); ok && id.Name == "atomic" {
							isAtomic = true
						}
					}
					return true
				})
				for _, n := range fl.Names {
					m[n.Name] = isAtomic
				}
			}
			out[ts.Name.Name] = m
			return true
		})
	}
	return out
}

// instrumentFile returns the instrumented text of one Go file ("" = nothing to instrument in it).
func instrumentFile(path string) (string, error) {
	atomics := instrAtomicFields(filepath.Dir(path))
	src, err := os.ReadFile(path)
	if err != nil {
		return "", err
	}
	fset := token.NewFileSet()
	f, err := parser.ParseFile(fset, path, src, parser.ParseComments)
	if err != nil {
		return "", err
	}
	var ins []instrIns
	for _, d := range f.Decls {
		fd, ok := d.(*ast.FuncDecl)
		if !ok || fd.Recv == nil || fd.Body == nil || len(fd.Recv.List) != 1 || len(fd.Recv.List[0].Names) != 1 {
			continue
		}
		if fd.Name.Name != "Next" && fd.Name.Name != "Left" {
			continue
		}
		// a method that takes locks (compositeSchedule): scheduling points only where it holds none — right before each
		// `<recv>.<mutex>.Lock()` / `.RLock()` statement (label access `<Method>.Lock` / `<Method>.RLock`): the caller is
		// parked between its critical sections, never inside one
		lockMode := instrHasLock(fd.Body)
		recv := fd.Recv.List[0].Names[0].Name
		rt := "?"
		switch t := fd.Recv.List[0].Type.(type) {
		case *ast.StarExpr:
			if id, ok := t.X.(*ast.Ident); ok {
				rt = id.Name
			}
		case *ast.Ident:
			rt = t.Name
		}
		k := 0
		var walk func(list []ast.Stmt)
		var nested func(st ast.Stmt)
		walk = func(list []ast.Stmt) {
			for _, st := range list {
				if lockMode {
					if ln := instrLockCall(recv, st); ln == "Lock" || ln == "RLock" {
						label := fmt.Sprintf("%s.%s#%d|%s.%s", rt, fd.Name.Name, k, fd.Name.Name, ln)
						k++
						ins = append(ins, instrIns{fset.Position(st.Pos()).Offset, fmt.Sprintf("verifhook.At(%q); ", label)})
					}
				} else if _, isDecl := st.(*ast.DeclStmt); !isDecl {
					label := fmt.Sprintf("%s.%s#%d|%s", rt, fd.Name.Name, k, strings.Join(instrAccesses(recv, atomics[rt], st), ","))
					k++
					ins = append(ins, instrIns{fset.Position(st.Pos()).Offset, fmt.Sprintf("verifhook.At(%q); ", label)})
				}
				nested(st)
			}
		}
		nested = func(st ast.Stmt) {
			switch s := st.(type) {
			case *ast.BlockStmt:
				walk(s.List)
			case *ast.IfStmt:
				walk(s.Body.List)
				if s.Else != nil {
					nested(s.Else) // `else if …`: no point before the nested if itself, its bodies are instrumented
				}
			case *ast.ForStmt:
				walk(s.Body.List)
				// the condition and the post statement are evaluated again after every round: one more scheduling point
				// at the end of the body (the point before the `for` statement covers the first evaluation; a `continue`
				// jumps past this point — the rounds it ends are then covered by the points inside the body only)
				var again []string
				for _, n := range []ast.Node{s.Cond, s.Post} {
					if lockMode {
						break
					}
					if n == nil {
						continue
					}
					var st ast.Stmt
					switch v := n.(type) {
					case ast.Stmt:
						st = v
					case ast.Expr:
						st = &ast.ExprStmt{X: v}
					}
					again = append(again, instrAccesses(recv, atomics[rt], st)...)
				}
				if len(again) > 0 {
					label := fmt.Sprintf("%s.%s#%d|%s", rt, fd.Name.Name, k, strings.Join(again, ","))
					k++
					ins = append(ins, instrIns{fset.Position(s.Body.Rbrace).Offset, fmt.Sprintf("; verifhook.At(%q); ", label)})
				}
			case *ast.RangeStmt:
				walk(s.Body.List)
			case *ast.SwitchStmt:
				for _, c := range s.Body.List {
					walk(c.(*ast.CaseClause).Body)
				}
			case *ast.TypeSwitchStmt:
				for _, c := range s.Body.List {
					walk(c.(*ast.CaseClause).Body)
				}
			case *ast.SelectStmt:
				for _, c := range s.Body.List {
					walk(c.(*ast.CommClause).Body)
				}
			case *ast.LabeledStmt:
				nested(s.Stmt)
			}
		}
		walk(fd.Body.List)
	}
	if len(ins) == 0 {
		return "", nil
	}
	const hookPath = "github.com/yandex/pandora/lib/verifhook"
	imported := false
	for _, im := range f.Imports {
		if strings.Trim(im.Path.Value, `"`) == hookPath {
			imported = true
		}
	}
	if !imported {
		ins = append(ins, instrIns{fset.Position(f.Name.End()).Offset, "; import \"" + hookPath + "\""})
	}
	sort.SliceStable(ins, func(a, b int) bool { return ins[a].off > ins[b].off })
	out := string(src)
	for _, i := range ins {
		out = out[:i.off] + i.text + out[i.off:]
	}
	return out, nil
}

var (
	instrOnce sync.Once
	instrBin  string
	instrErr  string
)

func writeIfChanged(path, content string) error {
	if b, err := os.ReadFile(path); err == nil && string(b) == content {
		return nil
	}
	tmp := fmt.Sprintf("%s.%d.tmp", path, os.Getpid())
	if err := os.WriteFile(tmp, []byte(content), 0o644); err != nil {
		return err
	}
	return os.Rename(tmp, path)
}

// instrumentedWorker builds (once per process) the worker binary with scheduling points inside the schedules and
// returns its path, or "" and the reason.
func instrumentedWorker() (string, string) {
	instrOnce.Do(func() {
		_, self, _, ok := runtime.Caller(0)
		if !ok {
			instrErr = "no-source-path"
			return
		}
		hdir := filepath.Dir(filepath.Dir(filepath.Dir(self))) // …/harness
		if _, err := os.Stat(filepath.Join(hdir, "go.mod")); err != nil {
			instrErr = "no-harness-module"
			return
		}
		repo, err := filepath.Abs(drv.RepoDir)
		if err != nil {
			instrErr = "repo-path"
			return
		}
		base := "/verif/.build"
		if wd, err := os.Getwd(); err == nil {
			if _, err := os.Stat(filepath.Join(wd, ".build")); err == nil {
				base = filepath.Join(wd, ".build")
			}
		}
		h := sha1.Sum([]byte(repo))
		dir := filepath.Join(base, fmt.Sprintf("c03-inst-%x", h[:4]))
		if err := os.MkdirAll(dir, 0o755); err != nil {
			instrErr = "mkdir"
			return
		}
		// stale binaries of runs that were killed
		if old, _ := filepath.Glob(filepath.Join(dir, "worker-*")); old != nil {
			for _, o := range old {
				if st, err := os.Stat(o); err == nil && time.Since(st.ModTime()) > 2*time.Hour {
					_ = os.Remove(o)
				}
			}
		}
		files, _ := filepath.Glob(filepath.Join(repo, "core", "schedule", "*.go"))
		sort.Strings(files)
		overlay := map[string]string{}
		points := 0
		for _, f := range files {
			if strings.HasSuffix(f, "_test.go") {
				continue
			}
			txt, err := instrumentFile(f)
			if err != nil {
				instrErr = "parse:" + filepath.Base(f)
				return
			}
			if txt == "" {
				continue
			}
			points += strings.Count(txt, "verifhook.At(")
			out := filepath.Join(dir, filepath.Base(f))
			if err := writeIfChanged(out, txt); err != nil {
				instrErr = "write"
				return
			}
			overlay[f] = out
		}
		if len(overlay) == 0 {
			instrErr = "nothing-to-instrument"
			return
		}
		ob, _ := json.Marshal(map[string]any{"Replace": overlay})
		ovl := filepath.Join(dir, "overlay.json")
		if err := writeIfChanged(ovl, string(ob)); err != nil {
			instrErr = "write"
			return
		}
		// a private go.mod that names THIS source tree (the shared one may be rewritten by a concurrent check)
		gm, err := os.ReadFile(filepath.Join(hdir, "go.mod"))
		if err != nil {
			instrErr = "go.mod"
			return
		}
		var lines []string
		for _, l := range strings.Split(string(gm), "\n") {
			if strings.HasPrefix(strings.TrimSpace(l), "replace github.com/yandex/pandora ") {
				l = "replace github.com/yandex/pandora => " + repo
			}
			lines = append(lines, l)
		}
		if err := writeIfChanged(filepath.Join(dir, "go.mod"), strings.Join(lines, "\n")); err != nil {
			instrErr = "write"
			return
		}
		if gs, err := os.ReadFile(filepath.Join(repo, "go.sum")); err == nil {
			_ = writeIfChanged(filepath.Join(dir, "go.sum"), string(gs))
		}
		bin := filepath.Join(dir, fmt.Sprintf("worker-%d", os.Getpid()))
		cmd := exec.Command("go", "build", "-tags", "verif", "-overlay", ovl, "-modfile", filepath.Join(dir, "go.mod"), "-o", bin, "./cmd/c03")
		cmd.Dir = hdir
		cmd.Env = append(os.Environ(), "GOFLAGS=-mod=mod", "GOPROXY=off", "GOSUMDB=off", "GOTOOLCHAIN=local", "CGO_ENABLED=0")
		t0 := time.Now()
		if b, err := cmd.CombinedOutput(); err != nil {
			instrErr = "build:" + strings.ReplaceAll(drv.Trunc(drv.Clean(string(b)), 300), " ", "_")
			fmt.Fprintf(os.Stderr, "c03: instrumented worker not built: %s\n", instrErr)
			return
		}
		fmt.Fprintf(os.Stderr, "c03: instrumented worker built in %.1fs (%d files, %d points)\n", time.Since(t0).Seconds(), len(overlay), points)
		instrBin = bin
	})
	return instrBin, instrErr
}

func removeInstrumentedWorker() {
	if instrBin != "" {
		_ = os.Remove(instrBin)
	}
	if raceBin != "" {
		_ = os.Remove(raceBin)
	}
}

var (
	raceOnce sync.Once
	raceBin  string
	raceErr  string
)

// raceWorker builds (once per process) the worker binary with the race detector from the same source tree and
// returns its path, or "" and the reason (the cases that ask for it are then skipped, never failed).
func raceWorker() (string, string) {
	raceOnce.Do(func() {
		_, self, _, ok := runtime.Caller(0)
		if !ok {
			raceErr = "no-source-path"
			return
		}
		hdir := filepath.Dir(filepath.Dir(filepath.Dir(self))) // …/harness
		gm, err := os.ReadFile(filepath.Join(hdir, "go.mod"))
		if err != nil {
			raceErr = "no-harness-module"
			return
		}
		repo, err := filepath.Abs(drv.RepoDir)
		if err != nil {
			raceErr = "repo-path"
			return
		}
		base := "/verif/.build"
		if wd, err := os.Getwd(); err == nil {
			if _, err := os.Stat(filepath.Join(wd, ".build")); err == nil {
				base = filepath.Join(wd, ".build")
			}
		}
		h := sha1.Sum([]byte(repo))
		dir := filepath.Join(base, fmt.Sprintf("c03-race-%x", h[:4]))
		if err := os.MkdirAll(dir, 0o755); err != nil {
			raceErr = "mkdir"
			return
		}
		if old, _ := filepath.Glob(filepath.Join(dir, "worker-*")); old != nil {
			for _, o := range old {
				if st, err := os.Stat(o); err == nil && time.Since(st.ModTime()) > 2*time.Hour {
					_ = os.Remove(o)
				}
			}
		}
		var lines []string
		for _, l := range strings.Split(string(gm), "\n") {
			if strings.HasPrefix(strings.TrimSpace(l), "replace github.com/yandex/pandora ") {
				l = "replace github.com/yandex/pandora => " + repo
			}
			lines = append(lines, l)
		}
		if err := writeIfChanged(filepath.Join(dir, "go.mod"), strings.Join(lines, "\n")); err != nil {
			raceErr = "write"
			return
		}
		if gs, err := os.ReadFile(filepath.Join(repo, "go.sum")); err == nil {
			_ = writeIfChanged(filepath.Join(dir, "go.sum"), string(gs))
		}
		bin := filepath.Join(dir, fmt.Sprintf("worker-%d", os.Getpid()))
		cmd := exec.Command("go", "build", "-race", "-tags", "verif", "-modfile", filepath.Join(dir, "go.mod"), "-o", bin, "./cmd/c03")
		cmd.Dir = hdir
		cmd.Env = append(os.Environ(), "GOFLAGS=-mod=mod", "GOPROXY=off", "GOSUMDB=off", "GOTOOLCHAIN=local", "CGO_ENABLED=1")
		t0 := time.Now()
		if b, err := cmd.CombinedOutput(); err != nil {
			raceErr = "race-build:" + strings.ReplaceAll(drv.Trunc(drv.Clean(string(b)), 300), " ", "_")
			fmt.Fprintf(os.Stderr, "c03: race-detector worker not built: %s\n", raceErr)
			return
		}
		fmt.Fprintf(os.Stderr, "c03: race-detector worker built in %.1fs\n", time.Since(t0).Seconds())
		raceBin = bin
	})
	return raceBin, raceErr
}
