package main

import (
	"context"
	"fmt"
	"strconv"
	"time"

	"github.com/spf13/afero"
	"go.uber.org/zap"

	"github.com/yandex/pandora/core"
	"github.com/yandex/pandora/core/aggregator"
	"github.com/yandex/pandora/core/aggregator/netsample"
)

// kind=sinkfail agg=phout|jsonlines n=<N> limit=<bytes, smaller than one line> [q=<Q>] [closeerr=1]
//
//	q=<Q>       (jsonlines) the queue holds Q samples: the N reports are made before Run starts, so exactly N-min(N,Q)
//	            of them are dropped — a known number of drops that coincides with the failing final flush
//	closeerr=1  the sink's Close fails too (after closing)
//	limit=none  the sink accepts everything (only the drops and/or the close error are there)
//
// A sink that accepts `limit` bytes and then rejects every write (disk full), in the one situation where what the
// aggregator does is fully determined: all N samples are queued before Run starts, nothing is flushed before the
// return path (default buffer sizes, no flush ticker for jsonlines, the run is over long before phout's 1 s ticker),
// so the only write to the sink is the final flush. Observation: Run's error, was the sink closed exactly once with
// nothing written after the close, was a write rejected, how many bytes got through. The model
// (Model/C06SinkFail.lean) predicts all of it; a run that took long enough for phout's ticker to fire is inconclusive.
func runSinkFail(kv map[string]string) string {
	agg, n, limit := kv["agg"], atoi(kv["n"]), atoi(kv["limit"])
	if kv["limit"] == "none" {
		limit = 1 << 40
	} else if limit < 0 || limit > 20 {
		return "err=bad-input"
	}
	if n < 0 || n > 1000 {
		return "err=bad-input"
	}
	q := n + 1
	if kv["q"] != "" {
		q = atoi(kv["q"])
		if q < 1 || agg != "jsonlines" {
			return "err=bad-input"
		}
	}
	var cerr error
	if kv["closeerr"] == "1" {
		cerr = errSinkClose
	}
	coincide := kv["q"] != "" || cerr != nil || kv["limit"] == "none"
	var run func(ctx context.Context) error
	var report func(i int)
	var fsink func() *failSink
	switch agg {
	case "phout":
		conf := netsample.DefaultPhoutConfig()
		conf.Destination = "phout.log"
		conf.ID = true
		conf.SampleQueueSize = n + 1
		fs := &failFs{Fs: afero.NewMemMapFs(), limit: limit, closeErr: cerr}
		a, err := netsample.NewPhout(fs, conf)
		if err != nil {
			return "err=new:" + drv_clean(err.Error())
		}
		fsink = func() *failSink { return fs.file }
		run = func(ctx context.Context) error { return a.Run(ctx, core.AggregatorDeps{Log: zap.NewNop()}) }
		report = func(i int) {
			var f [10]int64
			for j := range f {
				f[j] = qField(0, i, j)
			}
			a.Report(buildSample(1_700_000_000_000_000_000+int64(i)*1_000_000, "r0", uint64(i), f, "api"))
		}
	case "jsonlines":
		conf := aggregator.DefaultJSONLinesAggregatorConfig()
		fk := &failSink{trackFile: &trackFile{closeErr: cerr}, limit: limit}
		fsink = func() *failSink { return fk }
		conf.Sink = &failMemSink{fk}
		conf.ReporterConfig.SampleQueueSize = q
		conf.FlushInterval = 0
		a := aggregator.NewJSONLinesAggregator(conf)
		run = func(ctx context.Context) error { return a.Run(ctx, core.AggregatorDeps{Log: zap.NewNop()}) }
		report = func(i int) {
			f := make([]int64, 10)
			for j := range f {
				f[j] = qField(0, i, j)
			}
			a.Report(&jsample{R: 0, K: i, Tag: "r" + strconv.Itoa(0), F: f})
		}
	default:
		return "err=unknown-aggregator"
	}
	for i := 0; i < n; i++ {
		report(i) // the queue holds them all: no Report blocks, nothing is dropped
	}
	ctx, cancel := context.WithCancel(context.Background())
	defer cancel()
	res := make(chan error, 1)
	pan := make(chan string, 1)
	t0 := time.Now()
	go func() {
		defer func() {
			if r := recover(); r != nil {
				pan <- panicObs(r)
			}
		}()
		res <- run(ctx)
	}()
	cancel()
	var runErr error
	select {
	case runErr = <-res:
	case p := <-pan:
		return p
	case <-time.After(30 * time.Second):
		return "HANG"
	}
	if time.Since(t0) > 400*time.Millisecond {
		return "inconclusive=slow" // phout's 1 s ticker may have fired in between
	}
	fk := fsink()
	if fk == nil {
		// the destination was never created (lazily opened, no sample): nothing written, nothing to close
		errS, _ := errPartsString(runErr)
		return fmt.Sprintf("err=%s closed=1 failed=0 accepted=0", errS)
	}
	data, closedOK := fk.trackFile.snapshot()
	errS, _ := runErrString(runErr)
	if errS != "nil" && len(errS) > 5 && errS[:5] == "other" {
		errS = "other"
	}
	fk.mu2.Lock()
	failed, taken := fk.fails > 0, fk.taken
	fk.mu2.Unlock()
	if coincide {
		// coinciding faults: the members of Run's error in order, the drop count it carries, the lines that got through
		errS, dropped := errPartsString(runErr)
		lines := 0
		for _, c := range data {
			if c == '\n' {
				lines++
			}
		}
		acc := "all"
		if failed {
			acc = strconv.Itoa(taken)
		}
		return fmt.Sprintf("err=%s closed=%d failed=%d accepted=%s dropped=%d lines=%d", errS, b2i(closedOK), b2i(failed), acc, dropped, lines)
	}
	return fmt.Sprintf("err=%s closed=%d failed=%d accepted=%d", errS, b2i(closedOK), b2i(failed), taken)
}
