package main

import (
	"context"
	"fmt"
	"strconv"
	"time"

	"github.com/spf13/afero"
	"go.uber.org/zap"

	"github.com/yandex/pandora/core"
	"github.com/yandex/pandora/core/aggregator"
	"github.com/yandex/pandora/core/aggregator/netsample"
)

// kind=sinkfail agg=phout|jsonlines n=<N> limit=<bytes, smaller than one line>
//
// A sink that accepts `limit` bytes and then rejects every write (disk full), in the one situation where what the
// aggregator does is fully determined: all N samples are queued before Run starts, nothing is flushed before the
// return path (default buffer sizes, no flush ticker for jsonlines, the run is over long before phout's 1 s ticker),
// so the only write to the sink is the final flush. Observation: Run's error, was the sink closed exactly once with
// nothing written after the close, was a write rejected, how many bytes got through. The model
// (Model/C06SinkFail.lean) predicts all of it; a run that took long enough for phout's ticker to fire is inconclusive.
func runSinkFail(kv map[string]string) string {
	agg, n, limit := kv["agg"], atoi(kv["n"]), atoi(kv["limit"])
	if n < 0 || n > 1000 || limit < 0 || limit > 20 {
		return "err=bad-input"
	}
	var run func(ctx context.Context) error
	var report func(i int)
	var fsink *failSink
	switch agg {
	case "phout":
		conf := netsample.DefaultPhoutConfig()
		conf.Destination = "phout.log"
		conf.ID = true
		conf.SampleQueueSize = n + 1
		fs := &failFs{Fs: afero.NewMemMapFs(), limit: limit}
		a, err := netsample.NewPhout(fs, conf)
		if err != nil {
			return "err=new:" + drv_clean(err.Error())
		}
		fsink = fs.file
		run = func(ctx context.Context) error { return a.Run(ctx, core.AggregatorDeps{Log: zap.NewNop()}) }
		report = func(i int) {
			var f [10]int64
			for j := range f {
				f[j] = qField(0, i, j)
			}
			a.Report(buildSample(1_700_000_000_000_000_000+int64(i)*1_000_000, "r0", uint64(i), f, "api"))
		}
	case "jsonlines":
		conf := aggregator.DefaultJSONLinesAggregatorConfig()
		fsink = &failSink{trackFile: &trackFile{}, limit: limit}
		conf.Sink = &failMemSink{fsink}
		conf.ReporterConfig.SampleQueueSize = n + 1
		conf.FlushInterval = 0
		a := aggregator.NewJSONLinesAggregator(conf)
		run = func(ctx context.Context) error { return a.Run(ctx, core.AggregatorDeps{Log: zap.NewNop()}) }
		report = func(i int) {
			f := make([]int64, 10)
			for j := range f {
				f[j] = qField(0, i, j)
			}
			a.Report(&jsample{R: 0, K: i, Tag: "r" + strconv.Itoa(0), F: f})
		}
	default:
		return "err=unknown-aggregator"
	}
	for i := 0; i < n; i++ {
		report(i) // the queue holds them all: no Report blocks, nothing is dropped
	}
	ctx, cancel := context.WithCancel(context.Background())
	defer cancel()
	res := make(chan error, 1)
	pan := make(chan string, 1)
	t0 := time.Now()
	go func() {
		defer func() {
			if r := recover(); r != nil {
				pan <- panicObs(r)
			}
		}()
		res <- run(ctx)
	}()
	cancel()
	var runErr error
	select {
	case runErr = <-res:
	case p := <-pan:
		return p
	case <-time.After(30 * time.Second):
		return "HANG"
	}
	if time.Since(t0) > 400*time.Millisecond {
		return "inconclusive=slow" // phout's 1 s ticker may have fired in between
	}
	_, closedOK := fsink.trackFile.snapshot()
	errS, _ := runErrString(runErr)
	if errS != "nil" && len(errS) > 5 && errS[:5] == "other" {
		errS = "other"
	}
	fsink.mu2.Lock()
	failed, taken := fsink.fails > 0, fsink.taken
	fsink.mu2.Unlock()
	return fmt.Sprintf("err=%s closed=%d failed=%d accepted=%d", errS, b2i(closedOK), b2i(failed), taken)
}
