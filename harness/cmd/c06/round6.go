package main

// Round 6.
//
//	kind=stdout pools=<P> g=<G> k=<K> q=<Q> buf=<bytes> jit=<seed> [tail=<n>]
//
// P phout aggregators WITHOUT a destination in one process: the result stream of each of them is the process's
// standard output (`result: {type: phout}`), which they share with each other (and with whatever else the process
// prints). Aggregator j has G reporters × K samples; the aggregators end one after the other (j = 0 first — a pool with
// a shorter schedule) while the later ones are still being reported to: `tail` more samples are reported to every
// aggregator that is still running after each earlier one has returned. When the last one has returned
//   - every report of every aggregator is one whole line of the standard output (lines = reports, nothing malformed,
//     nothing twice, per-reporter order kept),
//   - the standard output is still open (open=1): it was flushed by each aggregator, closed by none.
//
// Runs in a child process (this binary with -c06-child) whose os.Stdout is a scratch file for the duration of the case.

import (
	"bytes"
	"context"
	"fmt"
	"math/rand"
	"os"
	"path/filepath"
	"runtime"
	"strconv"
	"sync"
	"time"

	"github.com/spf13/afero"
	"go.uber.org/zap"

	"github.com/yandex/pandora/core"
	"github.com/yandex/pandora/core/aggregator/netsample"
)

func runStdout(kv map[string]string) string {
	pools, g, k, q := atoi(kv["pools"]), atoi(kv["g"]), atoi(kv["k"]), atoi(kv["q"])
	tail := atoi(kv["tail"])
	jit := int64(atoi(kv["jit"]))
	if pools < 1 || pools > 8 || g < 1 || k < 0 || g >= 1000 {
		return "err=bad-input"
	}
	dir, err := os.MkdirTemp("/var/tmp", "c06-stdout-")
	if err != nil {
		return "inconclusive=tmpdir"
	}
	defer os.RemoveAll(dir)
	path := filepath.Join(dir, "stdout")
	f, err := os.OpenFile(path, os.O_WRONLY|os.O_CREATE|os.O_TRUNC|os.O_APPEND, 0o644)
	if err != nil {
		return "inconclusive=tmpfile"
	}
	orig := os.Stdout
	os.Stdout = f
	defer func() { os.Stdout = orig }()

	type one struct {
		a      netsample.Aggregator
		cancel context.CancelFunc
		res    chan error
		made   int
	}
	var as []*one
	for j := 0; j < pools; j++ {
		conf := netsample.DefaultPhoutConfig()
		conf.Destination = "" // the standard output
		conf.ID = true
		conf.SampleQueueSize = q
		conf.Buffer = bufConf(atoi(kv["buf"]))
		a, err := netsample.NewPhout(afero.NewMemMapFs(), conf)
		if err != nil {
			return "err=new:" + drv_clean(err.Error())
		}
		ctx, cancel := context.WithCancel(context.Background())
		o := &one{a: a, cancel: cancel, res: make(chan error, 1)}
		as = append(as, o)
		go func() {
			defer func() {
				if r := recover(); r != nil {
					o.res <- fmt.Errorf("panic: %v", r)
				}
			}()
			o.res <- a.Run(ctx, core.AggregatorDeps{Log: zap.NewNop()})
		}()
	}
	// reporter index of pool j, reporter gi: unique over the pools (decodePhoutQ reads it back from the tag)
	rid := func(j, gi int) int { return j*1000 + gi }
	report := func(j, gi, ki int) {
		var fl [10]int64
		for i := range fl {
			fl[i] = qField(rid(j, gi), ki, i)
		}
		as[j].a.Report(buildSample(1_700_000_000_000_000_000+int64(ki)*1_000_000, "r"+strconv.Itoa(rid(j, gi)), uint64(ki), fl, "api"))
	}
	var mu sync.Mutex
	reported := map[[2]int]bool{}
	note := func(j, gi, ki int) {
		mu.Lock()
		reported[[2]int{rid(j, gi), ki}] = true
		as[j].made++
		mu.Unlock()
	}
	// all pools are reported to concurrently
	var wg sync.WaitGroup
	for j := 0; j < pools; j++ {
		for gi := 0; gi < g; gi++ {
			wg.Add(1)
			go func(j, gi int) {
				defer wg.Done()
				r := rand.New(rand.NewSource(jit*1000 + int64(rid(j, gi))))
				for ki := 0; ki < k; ki++ {
					report(j, gi, ki)
					note(j, gi, ki)
					if jit%3 != 0 && r.Intn(4) == 0 {
						runtime.Gosched()
					}
				}
			}(j, gi)
		}
	}
	wg.Wait()
	errS := "nil"
	for j := 0; j < pools; j++ {
		as[j].cancel() // every Report to this aggregator has returned
		select {
		case e := <-as[j].res:
			if e != nil && errS == "nil" {
				errS = "other:" + drv_clean(e.Error())
			}
		case <-time.After(30 * time.Second):
			return "HANG"
		}
		// the pools that are still running go on
		for j2 := j + 1; j2 < pools; j2++ {
			for t := 0; t < tail; t++ {
				ki := k + j*tail + t
				report(j2, 0, ki)
				note(j2, 0, ki)
			}
		}
	}
	// is the standard output still usable by the rest of the process?
	open := 1
	if _, err := f.WriteString("END OF RUN\n"); err != nil {
		open = 0
	}
	_ = f.Close()
	data, err := os.ReadFile(path)
	if err != nil {
		return "err=no-stdout-file"
	}
	data = bytes.TrimSuffix(data, []byte("END OF RUN\n"))
	lines := bytes.Split(data, []byte{'\n'})
	bad := 0
	if len(lines[len(lines)-1]) != 0 {
		bad++
	}
	lines = lines[:len(lines)-1]
	seen := map[[2]int]bool{}
	last := map[int]int{}
	order, dup := 1, 0
	for _, l := range lines {
		gi, ki, ok := decodePhoutQ(string(l))
		e := [2]int{gi, ki}
		if !ok || !reported[e] {
			bad++
			continue
		}
		if seen[e] {
			dup++
			continue
		}
		seen[e] = true
		if l, ok := last[gi]; ok && l >= ki {
			order = 0
		}
		last[gi] = ki
	}
	total := 0
	for _, o := range as {
		total += o.made
	}
	return fmt.Sprintf("reports=%d lines=%d err=%s order=%d dup=%d bad=%d open=%d", total, len(lines), errS, order, dup, bad, open)
}
