package main

// C06: correspondence driver. Runs the REAL phout / jsonlines aggregators (and, for kind=proc, the real
// pandora binary built from the repo's main.go) and prints canonical observations; lean/Pandora/Drv/C06.lean
// computes the model's observation and the Spec verdict for the same lines.
//
//	kind=line  id=0|1 ns=<unixnano> tag=<hex> sid=<uint64> f=<10 ints, documented column order> via=api|raw
//	kind=str   ns=… tag=… sid=… f=… via=…                (*Sample).String()
//	kind=queue agg=phout|jsonlines g=<G> k=<K> q=<Q> flush=<ms> buf=<bytes> wrap=0|1 jit=<seed>
//	kind=json  n=<N> q=<Q> seed=<S>
//	kind=proc  sig=INT|TERM at=<ms> rps=<R> procs=<GOMAXPROCS of the subprocess, 0 = default>

import (
	"fmt"
	"math"
	"math/rand"
	"strings"
	"time"

	"verifharness/drv"
)

var fieldPool = []int64{0, 1, -1, 9, 10, 99, 100, 999, 1000, 1001, 123456, -123456, 999999999999, 1000000000000,
	math.MaxInt64, math.MaxInt64 - 1, math.MinInt64, math.MinInt64 + 1, math.MaxInt32, math.MinInt32, 9223372036854775, -9223372036854775,
	9223372036854776, 200, 404, 110, 777}

func genField(r *rand.Rand) int64 {
	switch r.Intn(6) {
	case 0, 1:
		return fieldPool[r.Intn(len(fieldPool))]
	case 2:
		return r.Int63n(100000)
	case 3:
		return -r.Int63n(100000)
	case 4:
		return r.Int63()
	default:
		return -r.Int63()
	}
}

var tagPool = []string{"", "a", "tag1|tag2", "__EMPTY__", "discarded", "with space", "a#b", "#", "##12", "тег", "标签|x", "émoji🎯", "a.b", "-1", "12345",
	"\xff\xfe", "x\x00y", "a\rb", strings.Repeat("long", 300)}

var oofTags = []string{"a\tb", "\t", "a\nb", "line\n", "\t\n", "x\ty\tz"}

func genTag(r *rand.Rand) string {
	switch r.Intn(10) {
	case 0:
		return oofTags[r.Intn(len(oofTags))]
	case 1, 2:
		n := r.Intn(12)
		b := make([]rune, n)
		for i := range b {
			switch r.Intn(4) {
			case 0:
				b[i] = rune(0x400 + r.Intn(0x100))
			case 1:
				b[i] = rune(0x4e00 + r.Intn(0x500))
			default:
				b[i] = rune(33 + r.Intn(94))
			}
		}
		return string(b)
	default:
		return tagPool[r.Intn(len(tagPool))]
	}
}

var sidPool = []uint64{0, 1, 42, math.MaxInt64, math.MaxInt64 + 1, math.MaxUint64, math.MaxUint64 - 1, 1 << 32, 999, 1000}

func genSid(r *rand.Rand) uint64 {
	if r.Intn(3) == 0 {
		return r.Uint64()
	}
	return sidPool[r.Intn(len(sidPool))]
}

// realistic and boundary timestamps (ns), all ≥ 1 s
func genNs(r *rand.Rand) int64 {
	switch r.Intn(8) {
	case 0:
		return 1_000_000_000 + int64(r.Intn(3))*1_000_000 // 1.000 … 1.002
	case 1:
		ms := []int64{0, 1, 9, 10, 99, 100, 101, 999}[r.Intn(8)]
		return (1_700_000_000+int64(r.Intn(1000)))*1_000_000_000 + ms*1_000_000 + int64(r.Intn(1_000_000))
	case 2:
		return math.MaxInt64 - int64(r.Intn(1000))
	case 3:
		return int64(1+r.Intn(12)) * 999_999_999 // around digit-count changes
	case 4:
		p := int64(1)
		for i := 0; i < 9+r.Intn(10); i++ {
			p *= 10
		}
		return p - 1 + int64(r.Intn(3))
	default:
		return 1_500_000_000_000_000_000 + r.Int63n(400_000_000_000_000_000)
	}
}

func sampleInput(r *rand.Rand, ns int64) string {
	var f []string
	for i := 0; i < 10; i++ {
		f = append(f, fmt.Sprint(genField(r)))
	}
	via := "api"
	if r.Intn(3) == 0 {
		via = "raw"
	}
	return fmt.Sprintf("ns=%d tag=%x sid=%d f=%s via=%s", ns, genTag(r), genSid(r), strings.Join(f, ","), via)
}

func c06Gen(r *rand.Rand, tier string) []string {
	nLine, nStr, nQueue, nJSON, nProc := 500, 120, 60, 40, 2
	if tier == "thorough" {
		nLine, nStr, nQueue, nJSON, nProc = 12000, 2500, 700, 500, 10
	}
	var out []string
	// fixed: one column-identifying sample (all ten values distinct) through every setter, ids on and off
	out = append(out, "kind=line id=1 ns=1484660999002000000 tag=746167317c74616732 sid=42 f=11,22,33,44,55,66,77,88,99,111 via=api")
	out = append(out, "kind=line id=0 ns=1484660999002000000 tag=746167317c74616732 sid=42 f=11,22,33,44,55,66,77,88,99,111 via=raw")
	out = append(out, "kind=str ns=1484660999002000000 tag=746167317c74616732 sid=42 f=333333,0,0,0,0,0,0,0,13,999 via=api")
	for i := 0; i < nLine; i++ {
		out = append(out, fmt.Sprintf("kind=line id=%d %s", r.Intn(2), sampleInput(r, genNs(r))))
	}
	for i := 0; i < nStr; i++ {
		var ns int64
		switch r.Intn(5) {
		case 0:
			ns = int64(r.Intn(100)) * 1_000_000 // 0 … 99 ms: panic
		case 1:
			ns = int64(100+r.Intn(900)) * 1_000_000 // 100 … 999 ms: ".123"
		case 2:
			ns = -r.Int63n(5_000_000_000) // before the epoch
		case 3:
			ns = r.Int63n(1_000_000) // ms = 0
		default:
			ns = genNs(r)
		}
		out = append(out, "kind=str "+sampleInput(r, ns))
	}
	gs, qs := []int{1, 4, 32}, []int{1, 2, 64}
	for i := 0; i < nQueue; i++ {
		agg := "phout"
		if r.Intn(2) == 0 {
			agg = "jsonlines"
		}
		g, q := gs[r.Intn(3)], qs[r.Intn(3)]
		if r.Intn(6) == 0 {
			g, q = 1+r.Intn(40), 1+r.Intn(300)
		}
		k := []int{1, 2, 7, 40, 150}[r.Intn(5)]
		if g*k > 3000 {
			k = 3000 / g
		}
		flush := []int{0, 1, 50, 1000}[r.Intn(4)]
		buf := []int{0, 4096, 65536}[r.Intn(3)]
		out = append(out, fmt.Sprintf("kind=queue agg=%s g=%d k=%d q=%d flush=%d buf=%d wrap=%d jit=%d", agg, g, k, q, flush, buf, r.Intn(2), r.Intn(1000)))
	}
	for i := 0; i < nJSON; i++ {
		n := 1 + r.Intn(6)
		q := n + r.Intn(4)
		if r.Intn(5) == 0 {
			n, q = 5+r.Intn(200), 1+r.Intn(8)
		}
		out = append(out, fmt.Sprintf("kind=json n=%d q=%d seed=%d", n, q, r.Intn(1<<30)))
	}
	if !raceEnabled {
		for i := 0; i < nProc; i++ {
			sig := "TERM"
			if i%2 == 1 {
				sig = "INT"
			}
			procs := 1
			if i%4 == 3 {
				procs = 0 // default GOMAXPROCS
			}
			out = append(out, fmt.Sprintf("kind=proc sig=%s at=%d rps=%d procs=%d", sig, 300+r.Intn(1500), []int{100, 200, 400}[r.Intn(3)], procs))
		}
	}
	return out
}

func c06Run(input string) string {
	kv := drv.KV(input)
	switch kv["kind"] {
	case "line":
		return runLine(kv, false)
	case "str":
		return runLine(kv, true)
	case "queue":
		return runQueue(kv)
	case "json":
		return runJSON(kv)
	case "proc":
		if raceEnabled {
			return "inconclusive=race-build"
		}
		return runProc(kv)
	}
	return "err=unknown-kind"
}

func c06Class(input, obs string) string {
	kv := drv.KV(input)
	switch kv["kind"] {
	case "line", "str":
		c := kv["kind"] + ":" + kv["via"]
		if strings.HasPrefix(obs, "panic=") {
			c += ":panic"
		}
		return c
	case "queue":
		c := "queue:" + kv["agg"]
		if !strings.Contains(obs, "dropped=0 ") {
			c += ":drops"
		}
		return c
	case "json":
		return "json"
	case "proc":
		if strings.HasPrefix(obs, "inconclusive") {
			return "proc:inconclusive"
		}
		return "proc:" + kv["sig"]
	}
	return ""
}

func main() {
	drv.Main(&drv.Prop{
		ID: "C06", Gen: c06Gen, Run: c06Run, Class: c06Class, Workers: 1, Timeout: 150 * time.Second,
		Rule: "samples with boundary/random int64 fields, unicode/odd tags, ids on/off and boundary timestamps through the real phout aggregator (public setters or raw array) compared byte-exactly with the model; G∈{1,4,32,…} reporter goroutines × queue sizes {1,2,64,…} × flush intervals through the real phout and jsonlines aggregators with the cancel right after the last Report; random JSON values through jsonlines; the pandora binary built from main.go stopped by SIGINT/SIGTERM at a PRNG-chosen instant; a case is non-trivial when it produced at least one line or a panic",
	})
}
