package main

// C06: correspondence driver. Runs the REAL phout / jsonlines aggregators (and, for kind=proc, the real
// pandora binary built from the repo's main.go) and prints canonical observations; lean/Pandora/Drv/C06.lean
// computes the model's observation and the Spec verdict for the same lines.
//
//	kind=line  id=0|1 ns=<unixnano> tag=<hex> sid=<uint64> f=<10 ints, documented column order> via=api|raw|sparse
//	kind=str   ns=… tag=… sid=… f=… via=…                (*Sample).String()
//	kind=seq   id=0|1 q=<Q> via=api|raw s=<ns>:<taghex>:<sid>:<f,…>;…   several samples through ONE phout aggregator
//	kind=queue agg=phout|jsonlines g=<G> k=<K> q=<Q> flush=<ms> buf=<bytes> wrap=0|1 jit=<seed> [late=1] [sink=file] [fail=<bytes>]
//	kind=engine agg=… pools=<P> inst=<I> ammo=<N> per=<R> q=<Q> slow=<µs> cancel=<-1|shot> seed=<S>   the real engine.Engine
//	kind=json  n=<N> q=<Q> seed=<S>
//	kind=sinkfail agg=phout|jsonlines n=<N> limit=<bytes>   a sink that rejects every write after <limit> bytes, only the final flush writes
//	kind=proc  sig=INT|TERM|FAULT|NONE at=<ms> rps=<R> procs=<GOMAXPROCS of the subprocess, 0 = default> [res=phout|json]
//
// round 3: kind=queue … [closeerr=1] [borrow=<P>] (and k=0); kind=sinkfail … [q=<Q>] [closeerr=1] limit=<n>|none;
// kind=engine … [fail=<shot>] (and inst > 64); kind=seq with related timestamps; sig=FAULT (a second pool fails by
// itself at the chosen instant), sig=NONE (the run ends by itself).

import (
	"bytes"
	"fmt"
	"math"
	"math/rand"
	"os"
	"os/exec"
	"strings"
	"sync"
	"time"

	"verifharness/drv"
)

var fieldPool = []int64{0, 1, -1, 9, 10, 99, 100, 999, 1000, 1001, 123456, -123456, 999999999999, 1000000000000,
	math.MaxInt64, math.MaxInt64 - 1, math.MinInt64, math.MinInt64 + 1, math.MaxInt32, math.MinInt32, 9223372036854775, -9223372036854775,
	9223372036854776, 200, 404, 110, 777}

func genField(r *rand.Rand) int64 {
	switch r.Intn(6) {
	case 0, 1:
		return fieldPool[r.Intn(len(fieldPool))]
	case 2:
		return r.Int63n(100000)
	case 3:
		return -r.Int63n(100000)
	case 4:
		return r.Int63()
	default:
		return -r.Int63()
	}
}

var tagPool = []string{"", "a", "tag1|tag2", "__EMPTY__", "discarded", "with space", "a#b", "#", "##12", "тег", "标签|x", "émoji🎯", "a.b", "-1", "12345",
	"\xff\xfe", "x\x00y", "a\rb", strings.Repeat("long", 300)}

var oofTags = []string{"a\tb", "\t", "a\nb", "line\n", "\t\n", "x\ty\tz"}

func genTag(r *rand.Rand) string {
	switch r.Intn(10) {
	case 0:
		return oofTags[r.Intn(len(oofTags))]
	case 1, 2:
		n := r.Intn(12)
		b := make([]rune, n)
		for i := range b {
			switch r.Intn(4) {
			case 0:
				b[i] = rune(0x400 + r.Intn(0x100))
			case 1:
				b[i] = rune(0x4e00 + r.Intn(0x500))
			default:
				b[i] = rune(33 + r.Intn(94))
			}
		}
		return string(b)
	default:
		return tagPool[r.Intn(len(tagPool))]
	}
}

var sidPool = []uint64{0, 1, 42, math.MaxInt64, math.MaxInt64 + 1, math.MaxUint64, math.MaxUint64 - 1, 1 << 32, 999, 1000}

func genSid(r *rand.Rand) uint64 {
	if r.Intn(3) == 0 {
		return r.Uint64()
	}
	return sidPool[r.Intn(len(sidPool))]
}

// realistic and boundary timestamps (ns), all ≥ 1 s
func genNs(r *rand.Rand) int64 {
	switch r.Intn(8) {
	case 0:
		return 1_000_000_000 + int64(r.Intn(3))*1_000_000 // 1.000 … 1.002
	case 1:
		ms := []int64{0, 1, 9, 10, 99, 100, 101, 999}[r.Intn(8)]
		return (1_700_000_000+int64(r.Intn(1000)))*1_000_000_000 + ms*1_000_000 + int64(r.Intn(1_000_000))
	case 2:
		return math.MaxInt64 - int64(r.Intn(1000))
	case 3:
		return int64(1+r.Intn(12)) * 999_999_999 // around digit-count changes
	case 4:
		p := int64(1)
		for i := 0; i < 9+r.Intn(10); i++ {
			p *= 10
		}
		return p - 1 + int64(r.Intn(3))
	default:
		return 1_500_000_000_000_000_000 + r.Int63n(400_000_000_000_000_000)
	}
}

func genVia(r *rand.Rand) string {
	switch r.Intn(4) {
	case 0:
		return "raw"
	case 1:
		return "sparse" // only the non-zero values are set, on a sample that comes from the pool
	}
	return "api"
}

// deltas between the timestamps of consecutive samples of one run: the same millisecond, the same second, the next
// second, the same second of the next minute / hour / day, a step back (an instance that was slower to report)
var seqDeltas = []int64{0, 1_000_000, 999_000_000, 1_000_000_000, 1_001_000_000, 59_000_000_000, 60_000_000_000, 61_000_000_000,
	3_600_000_000_000, 86_400_000_000_000, -1_000_000, -1_000_000_000, -60_000_000_000, 600_000_000_000}

// tag lengths around the sizes the writers are built with: phout's reused line buffer (1 KiB), the smallest bufio /
// jsoniter buffer (4 KiB), twice that
var longTagLens = []int{960, 1000, 1023, 1024, 1025, 4000, 4095, 4096, 4097, 8192, 9000}

func longTag(r *rand.Rand) string {
	n := longTagLens[r.Intn(len(longTagLens))]
	b := make([]byte, n)
	for i := range b {
		b[i] = byte('a' + (i*7+n)%26)
	}
	return string(b)
}

func seqInput(r *rand.Rand, n int) string {
	var parts []string
	via := genVia(r)
	related := r.Intn(2) == 0
	long := r.Intn(5) == 0
	var prev int64
	for i := 0; i < n; i++ {
		var f []string
		for j := 0; j < 10; j++ {
			v := genField(r)
			if via == "sparse" && i > 0 && r.Intn(2) == 0 {
				v = 0 // a value this sample leaves alone, after earlier samples that had one there
			}
			f = append(f, fmt.Sprint(v))
		}
		tag := genTag(r)
		if r.Intn(4) == 0 {
			tag = "" // the empty tag is a valid, common input (ammo without a tag)
		}
		sid := genSid(r)
		if via == "sparse" && i > 0 && r.Intn(2) == 0 {
			sid = 0
		}
		if long && r.Intn(2) == 0 {
			tag = longTag(r)
		}
		ns := genNs(r)
		if related && i > 0 {
			// timestamps of one run are close to each other
			if d := seqDeltas[r.Intn(len(seqDeltas))]; prev+d >= 1_000_000_000 && (d < 0 || prev <= math.MaxInt64-d) {
				ns = prev + d
			} else {
				ns = prev
			}
		} else if related {
			ns = 1_700_000_000_000_000_000 + r.Int63n(100_000_000_000_000)
		}
		prev = ns
		parts = append(parts, seqToken(ns, tag, sid, f))
	}
	buf := ""
	if long {
		buf = " buf=4096"
	}
	return fmt.Sprintf("kind=seq id=%d q=%d via=%s%s s=%s", r.Intn(2), []int{1, 2, 64}[r.Intn(3)], via, buf, strings.Join(parts, ";"))
}

func sampleInput(r *rand.Rand, ns int64) string {
	var f []string
	via := genVia(r)
	for i := 0; i < 10; i++ {
		v := genField(r)
		if via == "sparse" && r.Intn(2) == 0 {
			v = 0
		}
		f = append(f, fmt.Sprint(v))
	}
	sid := genSid(r)
	if via == "sparse" && r.Intn(2) == 0 {
		sid = 0
	}
	return fmt.Sprintf("ns=%d tag=%x sid=%d f=%s via=%s", ns, genTag(r), sid, strings.Join(f, ","), via)
}

func c06Gen(r *rand.Rand, tier string) []string {
	nLine, nStr, nQueue, nJSON, nProc := 500, 120, 60, 40, 3
	nSeq, nLate, nFile, nFail, nEngine := 60, 40, 6, 16, 24
	nSinkFail := 12
	if tier == "thorough" {
		nLine, nStr, nQueue, nJSON, nProc = 40000, 8000, 4000, 3000, 36
		nSeq, nLate, nFile, nFail, nEngine = 3000, 3000, 150, 600, 700
		nSinkFail = 400
	}
	var out []string
	// fixed: one column-identifying sample (all ten values distinct) through every setter, ids on and off
	out = append(out, "kind=line id=1 ns=1484660999002000000 tag=746167317c74616732 sid=42 f=11,22,33,44,55,66,77,88,99,111 via=api")
	out = append(out, "kind=line id=0 ns=1484660999002000000 tag=746167317c74616732 sid=42 f=11,22,33,44,55,66,77,88,99,111 via=raw")
	out = append(out, "kind=str ns=1484660999002000000 tag=746167317c74616732 sid=42 f=333333,0,0,0,0,0,0,0,13,999 via=api")
	for i := 0; i < nLine; i++ {
		out = append(out, fmt.Sprintf("kind=line id=%d %s", r.Intn(2), sampleInput(r, genNs(r))))
	}
	for i := 0; i < nStr; i++ {
		var ns int64
		switch r.Intn(5) {
		case 0:
			ns = int64(r.Intn(100)) * 1_000_000 // 0 … 99 ms: panic
		case 1:
			ns = int64(100+r.Intn(900)) * 1_000_000 // 100 … 999 ms: ".123"
		case 2:
			ns = -r.Int63n(5_000_000_000) // before the epoch
		case 3:
			ns = r.Int63n(1_000_000) // ms = 0
		default:
			ns = genNs(r)
		}
		out = append(out, "kind=str "+sampleInput(r, ns))
	}
	gs, qs := []int{1, 4, 32}, []int{1, 2, 64}
	for i := 0; i < nQueue; i++ {
		agg := "phout"
		if r.Intn(2) == 0 {
			agg = "jsonlines"
		}
		g, q := gs[r.Intn(3)], qs[r.Intn(3)]
		if r.Intn(6) == 0 {
			g, q = 1+r.Intn(40), 1+r.Intn(300)
		}
		if agg == "phout" && r.Intn(8) == 0 {
			q = 0 // unbuffered channel: Report completes together with the aggregator's receive
		}
		k := []int{1, 2, 7, 40, 150}[r.Intn(5)]
		if g*k > 3000 {
			k = 3000 / g
		}
		flush := []int{0, 1, 50, 1000}[r.Intn(4)]
		buf := []int{0, 4096, 65536}[r.Intn(3)]
		out = append(out, fmt.Sprintf("kind=queue agg=%s g=%d k=%d q=%d flush=%d buf=%d wrap=%d jit=%d", agg, g, k, q, flush, buf, r.Intn(2), r.Intn(1000)))
	}
	for i := 0; i < nSeq; i++ {
		out = append(out, seqInput(r, 2+r.Intn(7)))
	}
	qline := func(agg string, g, k, q int) string {
		return fmt.Sprintf("kind=queue agg=%s g=%d k=%d q=%d flush=%d buf=%d wrap=%d jit=%d", agg, g, k, q,
			[]int{0, 1, 50, 1000}[r.Intn(4)], []int{0, 4096, 65536}[r.Intn(3)], r.Intn(2), r.Intn(1000))
	}
	for i := 0; i < nLate; i++ {
		g := []int{1, 2, 4, 16}[r.Intn(4)]
		k := []int{5, 40, 200}[r.Intn(3)]
		if r.Intn(2) == 0 {
			// phout Report blocks on a full queue: after Run has returned nobody empties it, so the queue must hold
			// everything that may still come
			out = append(out, qline("phout", g, k, g*k)+" late=1")
		} else {
			out = append(out, qline("jsonlines", g, k, []int{1, 2, 64, 4096}[r.Intn(4)])+" late=1")
		}
	}
	for i := 0; i < nFile; i++ {
		agg := []string{"phout", "jsonlines"}[i%2]
		out = append(out, qline(agg, []int{1, 4}[r.Intn(2)], []int{1, 30, 200}[r.Intn(3)], 64)+" sink=file")
	}
	for i := 0; i < nFail; i++ {
		agg := []string{"phout", "jsonlines"}[r.Intn(2)]
		g, k, q := []int{1, 4}[r.Intn(2)], []int{3, 60, 400}[r.Intn(3)], []int{2, 64, 4096}[r.Intn(3)]
		if agg == "phout" {
			// phout's Run returns on the first write error without emptying its queue: reporters that are blocked on
			// a full queue then stay blocked (nothing can be written any more anyway); keep them unblocked
			q = g * k
		}
		out = append(out, qline(agg, g, k, q)+fmt.Sprintf(" fail=%d", []int{1, 50, 700, 5000, 70000}[r.Intn(5)]))
	}
	for i := 0; i < nEngine; i++ {
		agg := []string{"phout", "jsonlines"}[r.Intn(2)]
		pools := 1 + r.Intn(2)
		inst := []int{1, 2, 4, 8}[r.Intn(4)]
		ammo := []int{1, 5, 30, 120}[r.Intn(4)]
		per := 1 + r.Intn(3)
		cancel := -1
		if r.Intn(3) == 0 {
			cancel = 1 + r.Intn(ammo)
		}
		q := []int{1, 4, 64, 4096}[r.Intn(4)]
		if agg == "phout" && cancel >= 0 && q < ammo*per {
			q = ammo * per // see above: nobody empties phout's queue after Run returned
		}
		out = append(out, fmt.Sprintf("kind=engine agg=%s pools=%d inst=%d ammo=%d per=%d q=%d slow=%d cancel=%d seed=%d",
			agg, pools, inst, ammo, per, q, []int{0, 200, 1500}[r.Intn(3)], cancel, r.Intn(1<<20)))
	}
	// few ammo, many instances started one by one, slow shoots: instances run out of ammo and finish while others
	// are still being started or are in their only shoot
	for i := 0; i < nEngine/4; i++ {
		agg := []string{"phout", "jsonlines"}[r.Intn(2)]
		// slow=0: the instances that got ammo are finished, and their results taken, before instance start is over — the
		// start result is then the LAST thing the pool's await loop sees before it has to issue the cancel
		out = append(out, fmt.Sprintf("kind=engine agg=%s pools=1 inst=%d ammo=%d per=%d q=64 slow=%d cancel=-1 seed=%d startrps=%d",
			agg, []int{4, 8, 12}[r.Intn(3)], 1+r.Intn(3), 1+r.Intn(2), []int{0, 2000, 4000}[r.Intn(3)], r.Intn(1<<20), []int{200, 1000, 2500}[r.Intn(3)]))
	}
	for i := 0; i < nSinkFail; i++ {
		out = append(out, fmt.Sprintf("kind=sinkfail agg=%s n=%d limit=%d", []string{"phout", "jsonlines"}[i%2],
			[]int{0, 1, 2, 7, 40, 300}[r.Intn(6)], r.Intn(21)))
	}
	// an overloaded generator: the schedule is (partly) 2 s or more overdue and the pool discards overflow — the
	// engine itself reports a "discarded" sample for those tokens (no drops: the queue holds everything)
	for i := 0; i < nEngine/4; i++ {
		agg := []string{"phout", "jsonlines"}[r.Intn(2)]
		ammo, per := []int{1, 6, 40}[r.Intn(3)], 1+r.Intn(2)
		out = append(out, fmt.Sprintf("kind=engine agg=%s pools=1 inst=%d ammo=%d per=%d q=%d slow=%d cancel=-1 seed=%d disc=%d",
			agg, []int{1, 3}[r.Intn(2)], ammo, per, 4096, []int{0, 300}[r.Intn(2)], r.Intn(1<<20), []int{2020, 2100, 5000}[r.Intn(3)]))
	}
	// ---- round 3
	nClose, nBorrow, nZero, nCoin, nFailEng, nManyInst := 10, 14, 4, 12, 8, 2
	if tier == "thorough" {
		nClose, nBorrow, nZero, nCoin, nFailEng, nManyInst = 200, 300, 20, 300, 120, 8
	}
	// the sink's Close fails (after closing) — alone, and together with dropped samples (a queue of 1-2 under 4-32
	// reporters): the encoder aggregator's error must carry both; phout ignores it
	for i := 0; i < nClose; i++ {
		agg := []string{"jsonlines", "jsonlines", "phout"}[r.Intn(3)]
		g, k, q := []int{1, 4, 32}[r.Intn(3)], []int{1, 7, 40, 150}[r.Intn(4)], []int{1, 2, 64}[r.Intn(3)]
		if g*k > 3000 {
			k = 3000 / g
		}
		out = append(out, qline(agg, g, k, q)+" closeerr=1")
	}
	// samples the reporter lends to the aggregator (core.BorrowedSample) and recycles the moment they come back
	for i := 0; i < nBorrow; i++ {
		g, k := []int{1, 2, 4, 16}[r.Intn(4)], []int{3, 20, 120}[r.Intn(3)]
		q := []int{1, 2, 8, 64, 4096}[r.Intn(5)]
		out = append(out, qline("jsonlines", g, k, q)+fmt.Sprintf(" borrow=%d", []int{1, 2, 3, 8, 64}[r.Intn(5)]))
	}
	// nobody reports anything: the output is empty — also over a file that holds lines of an earlier run
	for i := 0; i < nZero; i++ {
		agg := []string{"phout", "jsonlines"}[i%2]
		l := qline(agg, []int{1, 4}[r.Intn(2)], 0, []int{1, 64}[r.Intn(2)])
		if i%4 < 2 {
			l += " sink=file"
		}
		out = append(out, l)
	}
	// coinciding faults with a KNOWN number of drops: n reports before Run starts into a queue of q, then any of: the
	// final flush is rejected, the sink's Close fails
	for i := 0; i < nCoin; i++ {
		n := []int{1, 2, 5, 9, 40}[r.Intn(5)]
		q := 1 + r.Intn(n+2)
		limit := fmt.Sprint(r.Intn(21))
		if r.Intn(2) == 0 {
			limit = "none"
		}
		out = append(out, fmt.Sprintf("kind=sinkfail agg=jsonlines n=%d limit=%s q=%d closeerr=%d", n, limit, q, r.Intn(2)))
	}
	out = append(out, "kind=sinkfail agg=phout n=3 limit=none closeerr=1")
	// a pool that fails by itself (its gun panics in shoot number `fail`), next to a pool that is fine
	for i := 0; i < nFailEng; i++ {
		agg := []string{"phout", "jsonlines"}[r.Intn(2)]
		pools, inst, ammo, per := 1+r.Intn(2), []int{1, 2, 4}[r.Intn(3)], []int{2, 10, 60}[r.Intn(3)], 1+r.Intn(3)
		q := []int{4, 64, 4096}[r.Intn(3)]
		if agg == "phout" && q < ammo*per {
			q = ammo * per // nobody empties phout's queue after Run returned
		}
		out = append(out, fmt.Sprintf("kind=engine agg=%s pools=%d inst=%d ammo=%d per=%d q=%d slow=%d cancel=-1 seed=%d fail=%d",
			agg, pools, inst, ammo, per, q, []int{0, 200, 1500}[r.Intn(3)], r.Intn(1<<20), 1+r.Intn(ammo)))
	}
	// more instances than the pool's result channel buffers (runResultBufSize = 64), all finishing at about the same time
	for i := 0; i < nManyInst; i++ {
		agg := []string{"phout", "jsonlines"}[i%2]
		inst := []int{65, 80, 130}[r.Intn(3)]
		out = append(out, fmt.Sprintf("kind=engine agg=%s pools=1 inst=%d ammo=%d per=1 q=4096 slow=%d cancel=-1 seed=%d",
			agg, inst, inst*[]int{1, 2}[r.Intn(2)], []int{0, 300}[r.Intn(2)], r.Intn(1<<20)))
	}
	// a pool that never starts an instance (startup schedule without tokens); and one whose provider has no ammo at all
	for i := 0; i < 2; i++ {
		agg := []string{"phout", "jsonlines"}[i%2]
		out = append(out, fmt.Sprintf("kind=engine agg=%s pools=%d inst=0 ammo=%d per=1 q=4 slow=0 cancel=-1 seed=%d", agg, 1+r.Intn(2), r.Intn(3), r.Intn(1<<20)))
		out = append(out, fmt.Sprintf("kind=engine agg=%s pools=1 inst=%d ammo=0 per=1 q=4 slow=0 cancel=-1 seed=%d", agg, 1+r.Intn(4), r.Intn(1<<20)))
	}
	// ---- round 4
	nEarly, nShared, nThree := 10, 6, 4
	if tier == "thorough" {
		nEarly, nShared, nThree = 160, 80, 60
	}
	// a pool that fails before / while its tasks are started (warm-up gun, WarmUp, shared schedule, first instance, Bind),
	// alone or next to one or two healthy pools: Engine.Wait must return, every started aggregator must have returned
	for i := 0; i < nEarly; i++ {
		agg := []string{"phout", "jsonlines"}[r.Intn(2)]
		pools := 1 + r.Intn(3)
		ammo, per := []int{2, 10, 60}[r.Intn(3)], 1+r.Intn(3)
		q := []int{4, 64, 4096}[r.Intn(3)]
		if agg == "phout" && q < ammo*per {
			q = ammo * per // nobody empties phout's queue after Run returned
		}
		what := []string{"warm", "warmup", "sched", "inst", "bind"}[(i+r.Intn(2))%5]
		out = append(out, fmt.Sprintf("kind=engine agg=%s pools=%d inst=%d ammo=%d per=%d q=%d slow=%d cancel=-1 seed=%d early=%s:%d",
			agg, pools, []int{1, 2, 4}[r.Intn(3)], ammo, per, q, []int{0, 200, 1500}[r.Intn(3)], r.Intn(1<<20), what, r.Intn(pools)))
	}
	// one rps schedule shared by the pool's instances runs out before the ammo does (or after): its on-finish callback
	// stops the instance start, the instances in their last shoot still report
	for i := 0; i < nShared; i++ {
		agg := []string{"phout", "jsonlines"}[r.Intn(2)]
		ammo := []int{5, 30, 120}[r.Intn(3)]
		shared := []int{1, 3, ammo - 1, ammo, ammo + 5}[r.Intn(5)]
		if shared < 1 {
			shared = 1
		}
		l := fmt.Sprintf("kind=engine agg=%s pools=%d inst=%d ammo=%d per=%d q=4096 slow=%d cancel=-1 seed=%d shared=%d",
			agg, 1+r.Intn(2), []int{1, 3, 8}[r.Intn(3)], ammo, 1+r.Intn(2), []int{0, 300, 2000}[r.Intn(3)], r.Intn(1<<20), shared)
		if r.Intn(2) == 0 {
			l += fmt.Sprintf(" startrps=%d", []int{200, 1000}[r.Intn(2)]) // the schedule runs out while instances are still being started
		}
		out = append(out, l)
	}
	// the aggregator built from an option map through the plugin registry and the config decoder, over a real file with
	// stale content: all options given (conf=1) or only the required ones (conf=2: the registered defaults)
	nConf := 10
	if tier == "thorough" {
		nConf = 200
	}
	for i := 0; i < nConf; i++ {
		agg := []string{"phout", "jsonlines"}[i%2]
		g, k := []int{1, 4, 16}[r.Intn(3)], []int{0, 1, 30, 200}[r.Intn(4)]
		if i%5 == 4 {
			q := map[string]int{"phout": 256 * 1024, "jsonlines": 128 * 1024}[agg] // the documented defaults
			out = append(out, fmt.Sprintf("kind=queue agg=%s g=%d k=%d q=%d flush=1000 buf=0 wrap=0 jit=%d conf=2", agg, g, k, q, r.Intn(1000)))
			continue
		}
		q := []int{1, 2, 64, 4096}[r.Intn(4)]
		if agg == "phout" && r.Intn(4) == 0 {
			q = 0
		}
		l := qline(agg, g, k, q) + " conf=1"
		if r.Intn(4) == 0 && (agg != "phout" || q >= g*k) {
			l += " late=1"
		}
		out = append(out, l)
	}
	// more instances than the pool's result channel buffers, all finishing while the await loop is held up by a slow
	// log sink: their results pile up in (and behind) the channel
	nSlowLog := 2
	if tier == "thorough" {
		nSlowLog = 10
	}
	for i := 0; i < nSlowLog; i++ {
		agg := []string{"phout", "jsonlines"}[i%2]
		inst := []int{100, 130, 200}[r.Intn(3)]
		out = append(out, fmt.Sprintf("kind=engine agg=%s pools=1 inst=%d ammo=%d per=1 q=4096 slow=0 cancel=-1 seed=%d slowlog=%d",
			agg, inst, []int{0, inst / 2, inst}[r.Intn(3)], r.Intn(1<<20), []int{200, 500}[r.Intn(2)]))
	}
	// three pools: natural end, a cancel in the middle, a pool whose gun breaks
	for i := 0; i < nThree; i++ {
		agg := []string{"phout", "jsonlines"}[r.Intn(2)]
		ammo, per := []int{5, 30}[r.Intn(2)], 1+r.Intn(2)
		cancel, extra := -1, ""
		switch i % 3 {
		case 1:
			cancel = 1 + r.Intn(ammo)
		case 2:
			extra = fmt.Sprintf(" fail=%d", 1+r.Intn(ammo))
		}
		out = append(out, fmt.Sprintf("kind=engine agg=%s pools=3 inst=%d ammo=%d per=%d q=%d slow=%d cancel=%d seed=%d%s",
			agg, []int{1, 4}[r.Intn(2)], ammo, per, ammo*per, []int{0, 300}[r.Intn(2)], cancel, r.Intn(1<<20), extra))
	}
	// ---- round 6
	nTick, nStdout := 4, 8
	if tier == "thorough" {
		nTick, nStdout = 16, 160
	}
	// a run that lasts longer than the aggregator's flush period (phout: the 1 s ticker), samples arriving all the time,
	// over a sink whose writes take a while: periodic flushes happen WHILE samples are handled
	for i := 0; i < nTick; i++ {
		if i%4 == 3 {
			out = append(out, fmt.Sprintf("kind=queue agg=jsonlines g=%d k=%d q=4096 flush=%d buf=4096 wrap=0 jit=%d dur=%d wslow=%d",
				[]int{1, 4}[r.Intn(2)], []int{200, 600}[r.Intn(2)], []int{50, 150}[r.Intn(2)], r.Intn(1000), 400+r.Intn(300), []int{0, 2000}[r.Intn(2)]))
			continue
		}
		out = append(out, fmt.Sprintf("kind=queue agg=phout g=%d k=%d q=%d flush=1000 buf=%d wrap=%d jit=%d dur=%d wslow=%d",
			[]int{1, 4}[r.Intn(2)], []int{300, 1200}[r.Intn(2)], []int{0, 1, 64}[r.Intn(3)], []int{0, 4096}[r.Intn(2)], r.Intn(2), r.Intn(1000),
			1200+r.Intn(300), []int{3000, 20000, 60000}[r.Intn(3)]))
	}
	// phout aggregators without a destination: their result stream is the standard output, shared by the pools
	for i := 0; i < nStdout; i++ {
		pools := 1 + i%3
		buf := []int{0, 4096, 65536}[r.Intn(3)]
		if pools > 1 && !stdoutWholeLines {
			buf = 0
		}
		out = append(out, fmt.Sprintf("kind=stdout pools=%d g=%d k=%d q=64 buf=%d jit=%d tail=%d",
			pools, []int{1, 4}[r.Intn(2)], []int{0, 1, 40, 400}[r.Intn(4)], buf, r.Intn(1000), []int{0, 5, 50}[r.Intn(3)]))
	}
	for i := 0; i < nJSON; i++ {
		n := 1 + r.Intn(6)
		q := n + r.Intn(4)
		if r.Intn(5) == 0 {
			n, q = 5+r.Intn(200), 1+r.Intn(8)
		}
		out = append(out, fmt.Sprintf("kind=json n=%d q=%d seed=%d", n, q, r.Intn(1<<30)))
	}
	if tier == "thorough" {
		// exhaustive small enumerations
		// (a) every small shape of reporters × samples × queue, both aggregators, end-of-run and mid-run cancel, 3 schedules each
		for _, agg := range []string{"phout", "jsonlines"} {
			for g := 1; g <= 3; g++ {
				for k := 1; k <= 3; k++ {
					for q := 0; q <= 4; q++ {
						if q == 0 && agg != "phout" {
							continue // validate:"min=1"
						}
						for jit := 0; jit < 3; jit++ {
							out = append(out, fmt.Sprintf("kind=queue agg=%s g=%d k=%d q=%d flush=0 buf=0 wrap=0 jit=%d", agg, g, k, q, jit))
							ql := q
							if agg == "phout" {
								ql = g * k
							}
							out = append(out, fmt.Sprintf("kind=queue agg=%s g=%d k=%d q=%d flush=0 buf=0 wrap=0 jit=%d late=1", agg, g, k, ql, jit))
						}
					}
				}
			}
		}
		// (b) every millisecond of the first 1.1 s after the epoch (panic / ".123" / regular), and every
		// digit-count boundary of the millisecond counter with the three-digit part at its extremes
		for ms := 0; ms <= 1100; ms++ {
			out = append(out, fmt.Sprintf("kind=str ns=%d tag=74 sid=7 f=1,2,3,4,5,6,7,8,9,10 via=api", int64(ms)*1_000_000+int64(r.Intn(1_000_000))))
		}
		p10 := int64(1000)
		for d := 4; d <= 18; d++ {
			p10 *= 10
			for _, ms := range []int64{p10 - 1001, p10 - 1000, p10 - 999, p10 - 1, p10, p10 + 1, p10 + 999, p10 + 1000} {
				if ms > math.MaxInt64/1_000_000 {
					continue
				}
				out = append(out, fmt.Sprintf("kind=line id=%d ns=%d tag=74 sid=7 f=1,2,3,4,5,6,7,8,9,10 via=api", d%2, ms*1_000_000+999_999))
			}
		}
		// (c) every engine shape with 1..3 instances × 0..4 ammo × 1..2 reports per shoot, natural end and every cancel position
		for _, agg := range []string{"phout", "jsonlines"} {
			for inst := 1; inst <= 3; inst++ {
				for ammo := 0; ammo <= 4; ammo++ {
					for per := 1; per <= 2; per++ {
						for cancel := -1; cancel <= ammo; cancel++ {
							if cancel == 0 {
								continue
							}
							out = append(out, fmt.Sprintf("kind=engine agg=%s pools=1 inst=%d ammo=%d per=%d q=%d slow=%d cancel=%d seed=%d",
								agg, inst, ammo, per, 1+ammo*per, []int{0, 300}[r.Intn(2)], cancel, r.Intn(1<<20)))
						}
					}
				}
			}
		}
	}
	if tier == "thorough" {
		// (d) the failing sink: every small number of samples × every limit below one line, both aggregators
		for _, agg := range []string{"phout", "jsonlines"} {
			for n := 0; n <= 6; n++ {
				for limit := 0; limit <= 20; limit++ {
					out = append(out, fmt.Sprintf("kind=sinkfail agg=%s n=%d limit=%d", agg, n, limit))
				}
			}
		}
		// (e) overdue schedules: every small shape × how long ago the schedule started
		for _, agg := range []string{"phout", "jsonlines"} {
			for inst := 1; inst <= 2; inst++ {
				for ammo := 1; ammo <= 4; ammo++ {
					for _, disc := range []int{1990, 2005, 2010, 3000} {
						out = append(out, fmt.Sprintf("kind=engine agg=%s pools=1 inst=%d ammo=%d per=1 q=64 slow=0 cancel=-1 seed=%d disc=%d",
							agg, inst, ammo, r.Intn(1<<20), disc))
					}
				}
			}
		}
	}
	if !raceEnabled {
		for i := 0; i < nProc; i++ {
			sig := "TERM"
			if i%2 == 1 {
				sig = "INT"
			}
			procs := 1
			if i%4 == 3 {
				procs = 0 // default GOMAXPROCS
			}
			res := ""
			if i%3 == 2 {
				res = " res=json" // jsonlines aggregator over the real file sink
			}
			at := 300 + r.Intn(1500)
			if i%5 == 4 {
				at = r.Intn(60) // right after the first request
			}
			out = append(out, fmt.Sprintf("kind=proc sig=%s at=%d rps=%d procs=%d%s", sig, at, []int{100, 200, 400}[r.Intn(3)], procs, res))
		}
		// round 3: the engine fails by itself (a second pool's provider meets a line it cannot decode) while the measured
		// pool is shooting; and a run that simply ends
		nFault, nNone := 1, 1
		if tier == "thorough" {
			nFault, nNone = 4, 2
		}
		for i := 0; i < nFault; i++ {
			res := ""
			if i%2 == 1 {
				res = " res=json"
			}
			// (round 6) when nobody cancels the healthy pool the process leaves through its 3 s await timeout without the
			// final flush: what is lost is what was reported since the last periodic flush (phout: every full second of
			// the run) — the instant is chosen so that this tail is long (the exit comes 3 s after the failure)
			at := 600 + r.Intn(250) + 1000*r.Intn(2)
			out = append(out, fmt.Sprintf("kind=proc sig=FAULT at=%d rps=%d procs=%d%s", at, []int{100, 200, 400}[r.Intn(3)], 1-i%2, res))
		}
		// (round 6) the same over jsonlines with a flush interval longer than the run: nothing reaches the file before the
		// aggregator's final flush, so an exit without it loses everything
		out = append(out, fmt.Sprintf("kind=proc sig=FAULT at=%d rps=%d procs=%d res=json fl=20000", 300+r.Intn(700), []int{100, 200}[r.Intn(2)], r.Intn(2)))
		// (round 6) the result stream is the standard output: one pool stopped by a signal, two pools of different length
		// (quick: the two corpus lines only)
		if tier == "thorough" {
			out = append(out, fmt.Sprintf("kind=proc sig=%s at=%d rps=%d procs=%d res=stdout", []string{"TERM", "INT"}[r.Intn(2)], 300+r.Intn(900), []int{100, 200}[r.Intn(2)], r.Intn(2)))
			out = append(out, fmt.Sprintf("kind=proc sig=NONE at=%d rps=%d procs=%d res=stdout2", 600+r.Intn(800), []int{100, 200}[r.Intn(2)], r.Intn(2)))
		}
		for i := 0; i < nNone; i++ {
			res := ""
			if r.Intn(2) == 1 {
				res = " res=json"
			}
			out = append(out, fmt.Sprintf("kind=proc sig=NONE at=%d rps=%d procs=%d%s", 300+r.Intn(500), []int{100, 400}[r.Intn(2)], r.Intn(2), res))
		}
	}
	return out
}

// stdoutWholeLines: fixes/C06-phout-whole-lines.diff is in /repo (89739df): several pools with small buffers are generated
const stdoutWholeLines = true

// kind=proc measures a real process against wall-clock margins: it runs alone; all other kinds run in parallel
var procExcl sync.RWMutex

func c06Run(input string) string {
	kv := drv.KV(input)
	if kv["kind"] == "proc" {
		procExcl.Lock()
		defer procExcl.Unlock()
	} else {
		procExcl.RLock()
		defer procExcl.RUnlock()
	}
	// a case that hangs must not keep the lock (the framework's own timeout only abandons the goroutine)
	done := make(chan string, 1)
	go func() {
		defer func() {
			if r := recover(); r != nil {
				done <- "PANIC " + drv.Clean(fmt.Sprint(r))
			}
		}()
		kv["__input"] = input
		done <- c06RunKind(kv)
	}()
	select {
	case o := <-done:
		return o
	case <-time.After(140 * time.Second):
		return "HANG"
	}
}

func c06RunKind(kv map[string]string) string {
	switch kv["kind"] {
	case "seq":
		return runSeq(kv)
	case "engine":
		return runEngineIsolated(kv["__input"])
	case "line":
		return runLine(kv, false)
	case "str":
		return runLine(kv, true)
	case "queue":
		if kv["dur"] != "" {
			// (round 6) a run that lasts longer than the aggregator's flush period, over a slow sink: in a child process,
			// so that a data race the race build reports (exit status 66) is the observation of THIS case
			return runEngineIsolated(kv["__input"])
		}
		return runQueue(kv)
	case "stdout":
		// (round 6) phout aggregators without a destination write to the process's standard output: the child owns one
		return runEngineIsolated(kv["__input"])
	case "json":
		return runJSON(kv)
	case "sinkfail":
		return runSinkFail(kv)
	case "proc":
		if raceEnabled {
			return "inconclusive=race-build"
		}
		return runProc(kv)
	}
	return "err=unknown-kind"
}

func c06Class(input, obs string) string {
	kv := drv.KV(input)
	switch kv["kind"] {
	case "line", "str":
		c := kv["kind"] + ":" + kv["via"]
		if strings.HasPrefix(obs, "panic=") {
			c += ":panic"
		}
		return c
	case "seq":
		return "seq"
	case "queue":
		c := "queue:" + kv["agg"]
		if kv["late"] == "1" {
			c += ":late"
		}
		if kv["sink"] == "file" {
			c += ":file"
		}
		if kv["conf"] != "" {
			c += ":conf" + kv["conf"]
		}
		if kv["fail"] != "" {
			c += ":fail"
		}
		if kv["closeerr"] == "1" {
			c += ":closeerr"
		}
		if kv["borrow"] != "" {
			c += ":borrow"
		}
		if kv["k"] == "0" {
			c += ":empty"
		}
		if kv["dur"] != "" {
			c += ":across-flush-ticks"
		}
		if !strings.Contains(obs, "dropped=0 ") {
			c += ":drops"
		}
		return c
	case "engine":
		c := "engine:" + kv["agg"]
		if kv["cancel"] != "-1" {
			c += ":cancel"
		}
		if kv["disc"] != "" {
			c += ":discard"
		}
		if kv["fail"] != "" {
			c += ":poolfails"
		}
		if e := kv["early"]; e != "" {
			c += ":early-" + strings.SplitN(e, ":", 2)[0]
		}
		if kv["shared"] != "" {
			c += ":shared-schedule"
		}
		if kv["slowlog"] != "" {
			c += ":slow-await-loop"
		}
		if kv["pools"] == "3" {
			c += ":3pools"
		}
		if atoi(kv["inst"]) > 64 {
			c += ":inst>64"
		}
		if atoi(kv["inst"]) == 0 || atoi(kv["ammo"]) == 0 {
			c += ":nothing-to-do"
		}
		if !strings.Contains(obs, "dropped=0 ") {
			c += ":drops"
		}
		return c
	case "json":
		return "json"
	case "stdout":
		return "stdout:pools" + kv["pools"]
	case "sinkfail":
		c := "sinkfail:" + kv["agg"]
		if kv["q"] != "" || kv["closeerr"] == "1" || kv["limit"] == "none" {
			c += ":coincide"
			if strings.Contains(obs, "+") {
				c += ":several"
			}
		}
		if strings.Contains(obs, "err=nil") && strings.Contains(obs, "failed=1") {
			c += ":swallowed"
		}
		if strings.HasPrefix(obs, "inconclusive") {
			c += ":inconclusive"
		}
		return c
	case "proc":
		if strings.HasPrefix(obs, "inconclusive") {
			return "proc:inconclusive"
		}
		return "proc:" + kv["sig"] + kv["res"]
	}
	return ""
}

// The engine is run in a child process (this binary with -c06-child): a defect of the pool's bookkeeping shows as a
// panic in one of the ENGINE's goroutines ("send on closed channel"), which no recover of ours can catch; the
// parent turns the crash into the observation "PANIC …" of that one case.
func runEngineIsolated(input string) string {
	cmd := exec.Command(os.Args[0], "-c06-child", input)
	var stdout, stderr bytes.Buffer
	cmd.Stdout, cmd.Stderr = &stdout, &stderr
	err := cmd.Run()
	out := strings.TrimSpace(stdout.String())
	if i := strings.LastIndexByte(out, '\n'); i >= 0 {
		out = out[i+1:]
	}
	if err == nil && out != "" {
		return out
	}
	msg := "child failed: " + fmt.Sprint(err)
	for _, l := range strings.Split(stderr.String(), "\n") {
		if strings.HasPrefix(l, "panic:") || strings.HasPrefix(l, "fatal error:") || strings.Contains(l, "DATA RACE") {
			msg = l
			break
		}
	}
	return "PANIC " + drv.Clean(msg)
}

func main() {
	if len(os.Args) == 3 && os.Args[1] == "-c06-child" {
		ckv := drv.KV(os.Args[2])
		switch ckv["kind"] {
		case "queue":
			fmt.Println(runQueue(ckv))
		case "stdout":
			fmt.Println(runStdout(ckv))
		default:
			fmt.Println(runEngine(ckv))
		}
		return
	}
	// everything except kind=proc (which takes the exclusive lock) is independent of timing: run in parallel
	workers := 6
	for i, a := range os.Args {
		if (a == "-tier" || a == "--tier") && i+1 < len(os.Args) && os.Args[i+1] == "thorough" {
			workers = 12
		}
	}
	drv.Main(&drv.Prop{
		ID: "C06", Gen: c06Gen, Run: c06Run, Class: c06Class, Workers: workers, Timeout: 150 * time.Second,
		Rule: "samples with boundary/random int64 fields, unicode/odd tags, ids on/off and boundary timestamps through the real phout aggregator (public setters, raw array, or only the non-zero values set on a sample taken from the pool of released ones) compared byte-exactly with the model; G∈{1,4,32,…} reporter goroutines × queue sizes {1,2,64,…} × flush intervals through the real phout and jsonlines aggregators with the cancel right after the last Report; random JSON values through jsonlines; sequences of different samples through one phout aggregator (whole file byte-exact); the same with the cancel in the middle of the reporting (reports completed before the cancel must be there), with the real file sink over stale content, with a sink that fails after N bytes (must still be closed; when only the final flush writes, Run's error, the close and the accepted bytes are predicted by the failing-sink model); the real engine.Engine with 1-2 pools × instances × ammo over the real aggregators, judged the moment Engine.Run returns nil or, cancelled mid-run, after Engine.Wait, also with a schedule that is overdue so that the engine itself reports discarded-shoot samples; the pandora binary built from main.go (phout, or jsonlines over the file sink) stopped by SIGINT/SIGTERM at a PRNG-chosen instant; round 3: the same queue runs with a sink whose Close fails (alone and together with drops: the members of Run's error are compared with the error-join model), with samples lent by the reporter (core.BorrowedSample) and recycled the moment they come back, with nobody reporting anything (also over a stale file); a known number of drops (n reports into a queue of q before Run starts) coinciding with a rejected final flush and/or a failing Close; sequences whose timestamps are related (same ms / second / second of the next minute, hour, day, a step back) and tags longer than the line buffer (1 KiB) and the writer's buffer (4 KiB); an engine pool whose gun panics in a chosen shoot next to a healthy pool (judged after cancel + Engine.Wait, as cli.go does); more instances (65-130) than the pool's result channel buffers; the pandora binary with a second pool whose provider fails at a chosen instant (named pipe), and a run that ends by itself; a case is non-trivial when it produced at least one line or a panic",
	})
}
