package main

import (
	"context"
	"encoding/hex"
	"fmt"
	"strconv"
	"strings"
	"time"

	"go.uber.org/zap"

	"github.com/yandex/pandora/core"
	"github.com/yandex/pandora/core/aggregator/netsample"
)

// kind=seq id=0|1 q=<Q> via=api|raw [buf=<bytes>] s=<ns>:<taghex>:<sid>:<f1,…,f10>;<ns>:…
// Several different samples, one after the other, through ONE real phout aggregator: the whole result file is
// compared byte for byte with the model (state that survives from one line to the next — the reused line buffer,
// the buffered writer — is only visible this way).

type seqSample struct {
	ns  int64
	tag string
	sid uint64
	f   [10]int64
}

func parseSeq(s string) ([]seqSample, error) {
	var out []seqSample
	for _, part := range strings.Split(s, ";") {
		fs := strings.Split(part, ":")
		if len(fs) != 4 {
			return nil, fmt.Errorf("bad sample %q", part)
		}
		kv := map[string]string{"ns": fs[0], "tag": fs[1], "sid": fs[2], "f": fs[3]}
		ns, tag, sid, f, err := parseSampleInput(kv)
		if err != nil {
			return nil, err
		}
		out = append(out, seqSample{ns, tag, sid, f})
	}
	return out, nil
}

func runSeq(kv map[string]string) string {
	ss, err := parseSeq(kv["s"])
	if err != nil {
		return "err=bad-input"
	}
	fs := newTrackFs()
	conf := netsample.DefaultPhoutConfig()
	conf.Destination = "phout.log"
	conf.ID = kv["id"] == "1"
	conf.SampleQueueSize = atoi(kv["q"])
	if conf.SampleQueueSize < 1 {
		conf.SampleQueueSize = 1
	}
	if kv["buf"] != "" {
		conf.Buffer = bufConf(atoi(kv["buf"])) // lines longer than the writer's buffer
	}
	a, err := netsample.NewPhout(fs, conf)
	if err != nil {
		return "err=new:" + drv_clean(err.Error())
	}
	ctx, cancel := context.WithCancel(context.Background())
	defer cancel()
	res := make(chan string, 1)
	go func() {
		defer func() {
			if r := recover(); r != nil {
				res <- panicObs(r)
			}
		}()
		if err := a.Run(ctx, core.AggregatorDeps{Log: zap.NewNop()}); err != nil {
			res <- "err=run:" + drv_clean(err.Error())
			return
		}
		res <- ""
	}()
	// a panic of the aggregator goroutine (timestamp before 1 s) leaves the reporter blocked on a full queue:
	// report from a goroutine of our own and wait for whichever comes first
	done := make(chan struct{})
	go func() {
		defer close(done)
		for _, s := range ss {
			a.Report(buildSample(s.ns, s.tag, s.sid, s.f, kv["via"]))
		}
	}()
	select {
	case <-done:
	case o := <-res:
		if o != "" {
			return o
		}
		return "err=run-returned-early"
	case <-time.After(20 * time.Second):
		return "HANG"
	}
	cancel()
	select {
	case o := <-res:
		if o != "" {
			return o
		}
	case <-time.After(20 * time.Second):
		return "HANG"
	}
	data, closedOK := fs.file.snapshot()
	if !closedOK {
		return "err=sink-not-closed-once out=" + hex.EncodeToString(data)
	}
	return "out=" + hex.EncodeToString(data)
}

func seqToken(ns int64, tag string, sid uint64, f []string) string {
	return strconv.FormatInt(ns, 10) + ":" + hex.EncodeToString([]byte(tag)) + ":" + strconv.FormatUint(sid, 10) + ":" + strings.Join(f, ",")
}
