package main

import (
	"bytes"
	"crypto/sha1"
	"encoding/json"
	"fmt"
	"net"
	"net/http"
	"os"
	"os/exec"
	"path/filepath"
	"strconv"
	"strings"
	"sync"
	"syscall"
	"time"

	"verifharness/drv"
)

// The process-level part: build <repo>/main.go, run it against an in-process counting HTTP target with a
// phout result file, stop it with SIGINT/SIGTERM and compare the lines on disk with the requests the
// target had answered (with a margin) before the signal was sent.

const procMargin = 150 * time.Millisecond
const exitMargin = 500 * time.Millisecond

// an exit through the interrupt timeout this early after the signal cannot be the 3 s / 30 s timeout of cli.go
// (Bridge.Cli.cli_timeouts_ge: every regenerated timeout is at least 3000 ms)
const earlyTimeoutMs = 2500

var (
	buildOnce sync.Once
	buildPath string
	buildErr  string
	procMu    sync.Mutex
)

func buildPandora() (string, string) {
	buildOnce.Do(func() {
		h := sha1.Sum([]byte(drv.RepoDir))
		dir := "/verif/.build"
		if wd, err := os.Getwd(); err == nil {
			if _, err := os.Stat(filepath.Join(wd, ".build")); err == nil {
				dir = filepath.Join(wd, ".build")
			}
		}
		out := filepath.Join(dir, fmt.Sprintf("pandora-c06-%x", h[:4]))
		cmd := exec.Command("go", "build", "-o", out, ".")
		cmd.Dir = drv.RepoDir
		cmd.Env = append(os.Environ(), "GOFLAGS=-mod=readonly", "CGO_ENABLED=0")
		if b, err := cmd.CombinedOutput(); err != nil {
			buildErr = drv_clean(err.Error() + ":" + string(b))
			return
		}
		buildPath = out
	})
	return buildPath, buildErr
}

type target struct {
	mu      sync.Mutex
	started int
	done    []time.Time
	first   chan struct{}
	once    sync.Once
}

func (t *target) ServeHTTP(w http.ResponseWriter, r *http.Request) {
	if r.URL.Path != "/c06" {
		// the second pool (sig=FAULT): answered, not counted
		w.Header().Set("Content-Length", "2")
		_, _ = w.Write([]byte("ok"))
		return
	}
	t.mu.Lock()
	t.started++
	t.mu.Unlock()
	t.once.Do(func() { close(t.first) })
	w.Header().Set("Content-Length", "2")
	_, _ = w.Write([]byte("ok"))
	if f, ok := w.(http.Flusher); ok {
		f.Flush()
	}
	t.mu.Lock()
	t.done = append(t.done, time.Now())
	t.mu.Unlock()
}

type procResult struct {
	inconclusive string
	exit         int
	// the process said "timeout exceeded" (it exited through the interrupt timeout, without the final flush)
	timedOut bool
	// milliseconds between the signal and the moment the process was gone
	sinceSignal int
	// requests the target had answered at least exitMargin before the process was gone
	servedExit   int
	servedBefore int
	started      int
	lines        int
	bad          int
}

func procOnce(bin, sig string, at time.Duration, rps, procs int, resKind string, flushMs int) procResult {
	dir, err := os.MkdirTemp("/var/tmp", "c06-proc-")
	if err != nil {
		return procResult{inconclusive: "tmpdir"}
	}
	defer os.RemoveAll(dir)
	ln, err := net.Listen("tcp", "127.0.0.1:0")
	if err != nil {
		return procResult{inconclusive: "listen"}
	}
	tg := &target{first: make(chan struct{})}
	srv := &http.Server{Handler: tg}
	go func() { _ = srv.Serve(ln) }()
	defer srv.Close()

	phout := filepath.Join(dir, "phout.log")
	resultConf := "      type: phout\n      destination: " + phout
	if resKind == "json" {
		// the encoder aggregator over core/datasink/file.go; the file already holds lines of an "earlier run"
		resultConf = "      type: jsonlines\n      sink:\n        type: file\n        path: " + phout
		if err := os.WriteFile(phout, bytes.Repeat([]byte(staleLine), 2000), 0o644); err != nil {
			return procResult{inconclusive: "stale-file"}
		}
		if flushMs > 0 {
			// (round 6) a long flush interval: nothing reaches the file before the aggregator's final flush
			resultConf += fmt.Sprintf("\n      flush-interval: %dms", flushMs)
		}
	}
	// (round 6) res=stdout: phout without a destination — the result stream is the process's standard output;
	// res=stdout2: a second pool (half as long) reports to the standard output too: the pool that ends first must
	// leave it open for the other one
	toStdout := resKind == "stdout" || resKind == "stdout2"
	if toStdout {
		resultConf = "      type: phout"
	}
	duration := "60s"
	if sig == "NONE" {
		// the run ends by itself after `at` ms
		duration = fmt.Sprintf("%dms", at/time.Millisecond)
	}
	// sig=FAULT: a second pool whose ammo comes through a named pipe the harness writes to; at the chosen instant the
	// harness writes a line the provider cannot decode: that pool fails, Engine.Run returns the error, and the process
	// has to wait for the FIRST pool's aggregator before it exits (cli.go, the `case err := <-errs` branch)
	secondPool := ""
	var fifo *os.File
	if sig == "FAULT" {
		fifoPath := filepath.Join(dir, "ammo.fifo")
		if err := syscall.Mkfifo(fifoPath, 0o600); err != nil {
			return procResult{inconclusive: "mkfifo"}
		}
		f, err := os.OpenFile(fifoPath, os.O_RDWR, 0)
		if err != nil {
			return procResult{inconclusive: "open-fifo"}
		}
		fifo = f
		defer fifo.Close()
		if _, err := fifo.WriteString(strings.Repeat("/c06b tagB\n", 3)); err != nil {
			return procResult{inconclusive: "write-fifo"}
		}
		secondPool = fmt.Sprintf(`  - id: c06b
    gun:
      type: http
      target: %s
    ammo:
      type: uri
      file: %s
    result:
      type: phout
      destination: %s
    rps:
      type: const
      ops: 5
      duration: 60s
    startup:
      type: once
      times: 1
`, ln.Addr().String(), fifoPath, filepath.Join(dir, "phout-b.log"))
	}
	if resKind == "stdout2" {
		secondPool = fmt.Sprintf(`  - id: c06b
    gun:
      type: http
      target: %s
    ammo:
      type: uri
      uris:
        - /c06 tagC06
    result:
      type: phout
    rps:
      type: const
      ops: %d
      duration: %dms
    startup:
      type: once
      times: 2
`, ln.Addr().String(), rps, at/time.Millisecond/2)
	}
	logFile := ""
	if toStdout {
		// the logger's default output is the standard output too: keep the result stream to itself
		logFile = "\n  file: stderr"
	}
	cfg := fmt.Sprintf(`pools:
  - id: c06
    gun:
      type: http
      target: %s
    ammo:
      type: uri
      uris:
        - /c06 tagC06
    result:
%s
    rps:
      type: const
      ops: %d
      duration: %s
    startup:
      type: once
      times: 4
%slog:
  level: error%s
`, ln.Addr().String(), resultConf, rps, duration, secondPool, logFile)
	cfgPath := filepath.Join(dir, "load.yaml")
	if err := os.WriteFile(cfgPath, []byte(cfg), 0o644); err != nil {
		return procResult{inconclusive: "config"}
	}
	var stderr bytes.Buffer
	cmd := exec.Command(bin, cfgPath)
	cmd.Dir = dir
	if procs > 0 {
		// a single-CPU deployment: the order in which the goroutines woken by the cancel run is what
		// decides whether the exit overtakes the aggregator's final flush
		cmd.Env = append(os.Environ(), "GOMAXPROCS="+strconv.Itoa(procs))
	}
	cmd.Stdout = &stderr
	cmd.Stderr = &stderr
	if toStdout {
		of, err := os.Create(phout)
		if err != nil {
			return procResult{inconclusive: "stdout-file"}
		}
		defer of.Close()
		cmd.Stdout = of
	}
	if err := cmd.Start(); err != nil {
		return procResult{inconclusive: "start"}
	}
	exited := make(chan error, 1)
	go func() { exited <- cmd.Wait() }()
	select {
	case <-tg.first:
	case <-exited:
		return procResult{inconclusive: "exited-before-first-request:" + drv_clean(lastLine(stderr.String()))}
	case <-time.After(15 * time.Second):
		_ = cmd.Process.Kill()
		<-exited
		return procResult{inconclusive: "no-request-in-15s"}
	}
	var tsig time.Time
	var werr error
	switch sig {
	case "NONE":
		// no signal: the schedule ends the run; everything answered until the exit must be there
	case "FAULT":
		time.Sleep(at)
		tsig = time.Now()
		if _, err := fifo.WriteString("[this is not a header\n"); err != nil {
			_ = cmd.Process.Kill()
			<-exited
			return procResult{inconclusive: "write-fifo"}
		}
	default:
		time.Sleep(at)
		s := syscall.SIGTERM
		if sig == "INT" {
			s = syscall.SIGINT
		}
		tsig = time.Now()
		if err := cmd.Process.Signal(s); err != nil {
			_ = cmd.Process.Kill()
			<-exited
			return procResult{inconclusive: "signal"}
		}
	}
	select {
	case werr = <-exited:
	case <-time.After(45 * time.Second):
		_ = cmd.Process.Kill()
		<-exited
		return procResult{inconclusive: "no-exit-in-45s"}
	}
	texit := time.Now()
	if sig == "NONE" {
		tsig = texit.Add(procMargin) // every request the target answered counts
	}
	res := procResult{}
	if ee, ok := werr.(*exec.ExitError); ok {
		res.exit = ee.ExitCode()
	}
	res.timedOut = strings.Contains(stderr.String(), "timeout exceeded")
	if sig == "FAULT" && !strings.Contains(stderr.String(), "Engine run failed") {
		// the process ended for another reason than the failure that was injected (the second pool did not start, …)
		return procResult{inconclusive: "no-engine-failure:" + drv_clean(lastLine(stderr.String()))}
	}
	res.sinceSignal = int(texit.Sub(tsig) / time.Millisecond)
	tg.mu.Lock()
	res.started = tg.started
	for _, d := range tg.done {
		if d.Before(tsig.Add(-procMargin)) {
			res.servedBefore++
		}
		if d.Before(texit.Add(-exitMargin)) {
			res.servedExit++
		}
	}
	tg.mu.Unlock()
	data, err := os.ReadFile(phout)
	if err != nil {
		return procResult{inconclusive: "no-result-file"}
	}
	if len(data) > 0 {
		ls := strings.Split(string(data), "\n")
		if ls[len(ls)-1] != "" {
			res.bad++ // unterminated last line
		}
		ls = ls[:len(ls)-1]
		res.lines = len(ls)
		for _, l := range ls {
			if resKind == "json" {
				if !json.Valid([]byte(l)) || l == "" {
					res.bad++
				}
			} else if !phoutLineOK(l, "tagC06") {
				res.bad++
				if os.Getenv("C06_DEBUG") != "" {
					fmt.Fprintf(os.Stderr, "bad line: %q\n", l)
				}
			}
		}
	}
	return res
}

func lastLine(s string) string {
	s = strings.TrimSpace(s)
	if i := strings.LastIndexByte(s, '\n'); i >= 0 {
		s = s[i+1:]
	}
	return s
}

func phoutLineOK(l, tag string) bool {
	cols := strings.Split(l, "\t")
	if len(cols) != 12 || cols[1] != tag {
		return false
	}
	ts := strings.Split(cols[0], ".")
	if len(ts) != 2 || len(ts[1]) != 3 {
		return false
	}
	for _, x := range append(ts, cols[2:]...) {
		if _, err := strconv.ParseInt(x, 10, 64); err != nil {
			return false
		}
	}
	return true
}

func runProc(kv map[string]string) string {
	procMu.Lock()
	defer procMu.Unlock()
	bin, berr := buildPandora()
	if bin == "" {
		return "err=build:" + berr
	}
	at := time.Duration(atoi(kv["at"])) * time.Millisecond
	rps := atoi(kv["rps"])
	// A loss must show in three consecutive runs of the same case before it is reported; a run that does
	// not show it resets the streak (at most 6 runs); no streak ⇒ inconclusive.
	streak, failed := 0, 0
	var r procResult
	for attempt := 0; attempt < 6 && streak < 3; attempt++ {
		r = procOnce(bin, kv["sig"], at, rps, atoi(kv["procs"]), kv["res"], atoi(kv["fl"]))
		if r.inconclusive != "" {
			return "inconclusive=" + r.inconclusive
		}
		// an exit through the interrupt timeout skips the final flush: then everything answered until (shortly
		// before) the exit counts, not only what was answered before the signal
		failing := r.bad != 0 || r.lines < r.servedBefore || (r.timedOut && r.lines < r.servedExit)
		if failing && r.timedOut && r.sinceSignal < earlyTimeoutMs && r.lines < r.servedBefore {
			// the process itself says it gave up waiting, long before the shortest interrupt timeout (3 s) can have
			// elapsed, and answered requests are missing: nothing about this depends on the load of the machine
			failed, streak = failed+1, 3
			break
		}
		if !failing {
			if failed == 0 {
				break
			}
			streak = 0
			continue
		}
		failed++
		streak++
	}
	if failed > 0 && streak < 3 {
		return fmt.Sprintf("inconclusive=loss-in-%d-runs-not-3-in-a-row", failed)
	}
	return fmt.Sprintf("exit=%d served_before=%d started=%d lines=%d bad=%d repro=%d tmo=%d served_exit=%d since=%d", r.exit, r.servedBefore, r.started, r.lines, r.bad, streak, b2i(r.timedOut), r.servedExit, r.sinceSignal)
}
