package main

import (
	"bytes"
	"context"
	"encoding/hex"
	"encoding/json"
	"errors"
	"fmt"
	"io"
	"math/rand"
	"reflect"
	"runtime"
	"strconv"
	"strings"
	"sync"
	"time"

	"go.uber.org/zap"

	"github.com/yandex/pandora/core"
	"github.com/yandex/pandora/core/aggregator"
	"github.com/yandex/pandora/core/aggregator/netsample"
	"github.com/yandex/pandora/core/coreutil"
)

type memSink struct{ f *trackFile }

func (m *memSink) OpenSink() (io.WriteCloser, error) { return m.f, nil }

func bufConf(n int) coreutil.BufferSizeConfig {
	switch {
	case n == 0:
		return coreutil.BufferSizeConfig{}
	case n <= 4096:
		return coreutil.BufferSizeConfig{BufferSize: 4096}
	default:
		return coreutil.BufferSizeConfig{BufferSize: 65536}
	}
}

// deterministic payload of the k-th sample of reporter g
func qField(g, k, i int) int64 { return int64((g+1)*1000003+(k+1)*(i+7)) * int64(1-2*((g+k+i)%2)) }

type jsample struct {
	R   int     `json:"r"`
	K   int     `json:"k"`
	Tag string  `json:"tag"`
	F   []int64 `json:"f"`
}

func runErrString(err error) (string, int64) {
	if err == nil {
		return "nil", 0
	}
	var d *aggregator.SomeSamplesDropped
	if errors.As(err, &d) && err.Error() == d.Error() {
		return fmt.Sprintf("dropped:%d", d.Dropped), d.Dropped
	}
	if errors.As(err, &d) {
		return "other+dropped:" + drv_clean(err.Error()), d.Dropped
	}
	return "other:" + drv_clean(err.Error()), 0
}

func atoi(s string) int { n, _ := strconv.Atoi(s); return n }

func runQueue(kv map[string]string) string {
	agg := kv["agg"]
	g, k, q := atoi(kv["g"]), atoi(kv["k"]), atoi(kv["q"])
	flush := time.Duration(atoi(kv["flush"])) * time.Millisecond
	wrap := kv["wrap"] == "1"
	jit := int64(atoi(kv["jit"]))
	n := g * k

	var run func(ctx context.Context) error
	var report func(gi, ki int)
	var file *trackFile
	switch agg {
	case "phout":
		fs := newTrackFs()
		conf := netsample.DefaultPhoutConfig()
		conf.Destination = "phout.log"
		conf.ID = true
		conf.SampleQueueSize = q
		conf.FlushTime = flush
		conf.Buffer = bufConf(atoi(kv["buf"]))
		a, err := netsample.NewPhout(fs, conf)
		if err != nil {
			return "err=new:" + drv_clean(err.Error())
		}
		file = fs.file
		wrapped := netsample.WrapAggregator(a)
		run = func(ctx context.Context) error { return a.Run(ctx, core.AggregatorDeps{Log: zap.NewNop()}) }
		report = func(gi, ki int) {
			var f [10]int64
			for i := range f {
				f[i] = qField(gi, ki, i)
			}
			s := buildSample(1_700_000_000_000_000_000+int64(ki)*1_000_000, "r"+strconv.Itoa(gi), uint64(ki), f, "api")
			if wrap {
				wrapped.Report(s)
			} else {
				a.Report(s)
			}
		}
	case "jsonlines":
		file = &trackFile{}
		conf := aggregator.DefaultJSONLinesAggregatorConfig()
		conf.Sink = &memSink{file}
		conf.ReporterConfig.SampleQueueSize = q
		conf.FlushInterval = flush
		conf.BufferSizeConfig = bufConf(atoi(kv["buf"]))
		a := aggregator.NewJSONLinesAggregator(conf)
		run = func(ctx context.Context) error { return a.Run(ctx, core.AggregatorDeps{Log: zap.NewNop()}) }
		report = func(gi, ki int) {
			f := make([]int64, 10)
			for i := range f {
				f[i] = qField(gi, ki, i)
			}
			a.Report(&jsample{R: gi, K: ki, Tag: "r" + strconv.Itoa(gi), F: f})
		}
	default:
		return "err=unknown-aggregator"
	}

	ctx, cancel := context.WithCancel(context.Background())
	defer cancel()
	res := make(chan error, 1)
	pan := make(chan string, 1)
	go func() {
		defer func() {
			if r := recover(); r != nil {
				pan <- panicObs(r)
			}
		}()
		res <- run(ctx)
	}()
	var wg sync.WaitGroup
	for gi := 0; gi < g; gi++ {
		wg.Add(1)
		go func(gi int) {
			defer wg.Done()
			r := rand.New(rand.NewSource(jit*1000 + int64(gi)))
			for ki := 0; ki < k; ki++ {
				report(gi, ki)
				if jit%3 != 0 && r.Intn(4) == 0 {
					runtime.Gosched()
				}
			}
		}(gi)
	}
	wg.Wait()
	cancel() // every Report has returned
	var runErr error
	select {
	case runErr = <-res:
	case p := <-pan:
		return p
	case <-time.After(60 * time.Second):
		return "HANG"
	}
	data, closedOK := file.snapshot()
	errS, dropped := runErrString(runErr)

	// decode every line
	type gk struct{ g, k int }
	var seq []gk
	bad := 0
	lines := bytes.Split(data, []byte{'\n'})
	tail := lines[len(lines)-1]
	lines = lines[:len(lines)-1]
	if len(tail) != 0 {
		bad++
	}
	for _, l := range lines {
		gi, ki, ok := -1, -1, false
		if agg == "phout" {
			gi, ki, ok = decodePhoutQ(string(l))
		} else {
			var js jsample
			dec := json.NewDecoder(bytes.NewReader(l))
			dec.DisallowUnknownFields()
			if json.Valid(l) && dec.Decode(&js) == nil && len(js.F) == 10 && js.Tag == "r"+strconv.Itoa(js.R) {
				ok = true
				for i, v := range js.F {
					if v != qField(js.R, js.K, i) {
						ok = false
					}
				}
				gi, ki = js.R, js.K
			}
		}
		if !ok {
			bad++
			continue
		}
		seq = append(seq, gk{gi, ki})
	}
	last := map[int]int{}
	seen := map[gk]bool{}
	order, dup := 1, 0
	for _, e := range seq {
		if seen[e] {
			dup++
			continue
		}
		seen[e] = true
		if l, ok := last[e.g]; ok && l >= e.k {
			order = 0
		}
		last[e.g] = e.k
	}
	obs := fmt.Sprintf("reports=%d lines=%d dropped=%d err=%s order=%d dup=%d bad=%d closed=%d", n, len(lines), dropped, errS, order, dup, bad, b2i(closedOK))
	if n <= 300 && bad == 0 {
		var w []string
		for _, e := range seq {
			w = append(w, fmt.Sprintf("%d.%d", e.g, e.k))
		}
		if len(w) > 0 {
			obs += " w=" + strings.Join(w, ",")
		}
	}
	return obs
}

func b2i(b bool) int {
	if b {
		return 1
	}
	return 0
}

// decodePhoutQ: a line written for sample (g,k) of runQueue: "<sec>.<ms>\tr<g>#<k>\t<10 ints>"
func decodePhoutQ(l string) (g, k int, ok bool) {
	cols := strings.Split(l, "\t")
	if len(cols) != 12 {
		return
	}
	ts := strings.Split(cols[0], ".")
	if len(ts) != 2 || len(ts[1]) != 3 {
		return
	}
	sec, e1 := strconv.ParseInt(ts[0], 10, 64)
	ms, e2 := strconv.ParseInt(ts[1], 10, 64)
	ti := strings.LastIndexByte(cols[1], '#')
	if e1 != nil || e2 != nil || ti < 0 || !strings.HasPrefix(cols[1], "r") {
		return
	}
	g, e1 = strconv.Atoi(cols[1][1:ti])
	k, e2 = strconv.Atoi(cols[1][ti+1:])
	if e1 != nil || e2 != nil {
		return
	}
	if sec*1000+ms != 1_700_000_000_000+int64(k) {
		return
	}
	for i := 0; i < 10; i++ {
		v, err := strconv.ParseInt(cols[2+i], 10, 64)
		if err != nil || v != qField(g, k, i) {
			return
		}
	}
	return g, k, true
}

// ---- jsonlines, content level

type jvalue struct {
	Tag string           `json:"tag"`
	N   int64            `json:"n"`
	U   uint64           `json:"u"`
	F   float64          `json:"f"`
	B   bool             `json:"b"`
	L   []string         `json:"l"`
	M   map[string]int64 `json:"m"`
	P   *int             `json:"p"`
	Idx int              `json:"idx"`
}

var jsonStrings = []string{"", "a", "quote\"d", "back\\slash", "new\nline", "tab\there", "nul\x00", "ctl\x1f", "<html>&amp;", "тест", "日本語", "🎯", " sep ", "\u007f", "/slash", "{\"k\":1}", "[1,2]", "null", "  "}

func genJString(r *rand.Rand) string {
	if r.Intn(3) == 0 {
		n := r.Intn(10)
		b := make([]rune, n)
		for i := range b {
			b[i] = rune(r.Intn(0x3000))
			if b[i] >= 0xd800 && b[i] <= 0xdfff {
				b[i] = 'x'
			}
		}
		return string(b)
	}
	return jsonStrings[r.Intn(len(jsonStrings))]
}

func genJValue(r *rand.Rand, idx int) *jvalue {
	v := &jvalue{Tag: genJString(r), N: genField(r), U: genSid(r), B: r.Intn(2) == 0, Idx: idx}
	v.F = []float64{0, 1, -1, 0.1, 1e21, 1e-7, 123456.789, -2.5e-300, 1.7976931348623157e308, 5e-324}[r.Intn(10)]
	if r.Intn(2) == 0 {
		v.L = []string{}
		for i := r.Intn(4); i > 0; i-- {
			v.L = append(v.L, genJString(r))
		}
	}
	if r.Intn(2) == 0 {
		v.M = map[string]int64{}
		for i := r.Intn(4); i > 0; i-- {
			v.M[genJString(r)] = genField(r)
		}
	}
	if r.Intn(3) == 0 {
		p := r.Intn(100)
		v.P = &p
	}
	return v
}

func runJSON(kv map[string]string) string {
	n, q := atoi(kv["n"]), atoi(kv["q"])
	r := rand.New(rand.NewSource(int64(atoi(kv["seed"]))))
	file := &trackFile{}
	conf := aggregator.DefaultJSONLinesAggregatorConfig()
	conf.Sink = &memSink{file}
	conf.ReporterConfig.SampleQueueSize = q
	conf.FlushInterval = []time.Duration{0, time.Millisecond, time.Second}[r.Intn(3)]
	conf.SortMapKeys = r.Intn(2) == 0
	a := aggregator.NewJSONLinesAggregator(conf)
	ctx, cancel := context.WithCancel(context.Background())
	defer cancel()
	res := make(chan error, 1)
	pan := make(chan string, 1)
	go func() {
		defer func() {
			if r := recover(); r != nil {
				pan <- panicObs(r)
			}
		}()
		res <- a.Run(ctx, core.AggregatorDeps{Log: zap.NewNop()})
	}()
	var want []*jvalue
	for i := 0; i < n; i++ {
		v := genJValue(r, i)
		cp := *v
		want = append(want, &cp)
		a.Report(v)
	}
	cancel()
	var runErr error
	select {
	case runErr = <-res:
	case p := <-pan:
		return p
	case <-time.After(30 * time.Second):
		return "HANG"
	}
	data, closedOK := file.snapshot()
	errS, dropped := runErrString(runErr)
	lines := bytes.Split(data, []byte{'\n'})
	tail := len(lines[len(lines)-1])
	lines = lines[:len(lines)-1]
	valid, rt := 0, 0
	for i, l := range lines {
		if !json.Valid(l) {
			continue
		}
		valid++
		var got jvalue
		if json.Unmarshal(l, &got) != nil {
			continue
		}
		// without drops line i is report i; with drops match by the index the value carries
		j := i
		if dropped != 0 {
			j = got.Idx
		}
		if j >= 0 && j < len(want) && reflect.DeepEqual(normJ(&got), normJ(want[j])) {
			rt++
		}
	}
	obs := fmt.Sprintf("reports=%d lines=%d valid=%d rt=%d tail=%d dropped=%d err=%s closed=%d", n, len(lines), valid, rt, tail, dropped, errS, b2i(closedOK))
	if len(data) <= 400 && len(data) > 0 {
		obs += " out=" + hex.EncodeToString(data)
	}
	return obs
}

// normJ: nil and empty slices/maps are the same JSON-level value only when written the same; keep the
// distinction the encoder makes (nil → null) by normalising nothing but map/slice emptiness after decode.
func normJ(v *jvalue) jvalue {
	c := *v
	if c.L != nil && len(c.L) == 0 {
		c.L = []string{}
	}
	if c.M != nil && len(c.M) == 0 {
		c.M = map[string]int64{}
	}
	return c
}
