package main

import (
	"bytes"
	"context"
	"encoding/hex"
	"encoding/json"
	"errors"
	"fmt"
	"io"
	"math/rand"
	"os"
	"path/filepath"
	"reflect"
	"runtime"
	"strconv"
	"strings"
	"sync"
	"sync/atomic"
	"time"

	"github.com/spf13/afero"
	"go.uber.org/zap"

	"github.com/yandex/pandora/core"
	"github.com/yandex/pandora/core/aggregator"
	"github.com/yandex/pandora/core/aggregator/netsample"
	"github.com/yandex/pandora/core/config"
	"github.com/yandex/pandora/core/coreutil"
	"github.com/yandex/pandora/core/datasink"
	coreimport "github.com/yandex/pandora/core/import"
)

type memSink struct{ f *trackFile }

var confImportOnce sync.Once

// confAggregator: what pandora does with the `result:` section of a pool's config
func confAggregator(opts map[string]interface{}) (core.Aggregator, error) {
	confImportOnce.Do(func() { coreimport.Import(afero.NewOsFs()) })
	var holder struct {
		Result core.Aggregator `config:"result" validate:"required"`
	}
	if err := config.DecodeAndValidate(map[string]interface{}{"result": opts}, &holder); err != nil {
		if os.Getenv("C06_DEBUG") != "" {
			fmt.Fprintln(os.Stderr, "conf error:", err)
		}
		return nil, err
	}
	if holder.Result == nil {
		return nil, errors.New("decoded aggregator is nil")
	}
	return holder.Result, nil
}

func (m *memSink) OpenSink() (io.WriteCloser, error) { return m.f, nil }

func bufConf(n int) coreutil.BufferSizeConfig {
	switch {
	case n == 0:
		return coreutil.BufferSizeConfig{}
	case n <= 4096:
		return coreutil.BufferSizeConfig{BufferSize: 4096}
	default:
		return coreutil.BufferSizeConfig{BufferSize: 65536}
	}
}

// deterministic payload of the k-th sample of reporter g
func qField(g, k, i int) int64 { return int64((g+1)*1000003+(k+1)*(i+7)) * int64(1-2*((g+k+i)%2)) }

type jsample struct {
	R   int     `json:"r"`
	K   int     `json:"k"`
	Tag string  `json:"tag"`
	F   []int64 `json:"f"`
}

func runErrString(err error) (string, int64) {
	if err == nil {
		return "nil", 0
	}
	var d *aggregator.SomeSamplesDropped
	if errors.As(err, &d) && err.Error() == d.Error() {
		if err.Error() != fmt.Sprintf("%d samples were dropped", d.Dropped) {
			return "droppedtext:" + drv_clean(err.Error()), d.Dropped
		}
		return fmt.Sprintf("dropped:%d", d.Dropped), d.Dropped
	}
	if errors.As(err, &d) {
		return "other+dropped:" + drv_clean(err.Error()), d.Dropped
	}
	return "other:" + drv_clean(err.Error()), 0
}

func atoi(s string) int { n, _ := strconv.Atoi(s); return n }

var errSinkClose = errors.New("c06: close: delayed write-back failed")

// errParts: the atomic members of Run's error in order, as Model/C06ErrJoin.lean names them: "close" (the sink's
// Close failed), "flush" (the encoder's final flush), "loop" (an encode / ticker-flush error ended the loop),
// "dropped:<n>"; a multierror is looked into through its WrappedErrors.
func errParts(err error) []string {
	if err == nil {
		return nil
	}
	if me, ok := err.(interface{ WrappedErrors() []error }); ok {
		var out []string
		for _, e := range me.WrappedErrors() {
			out = append(out, errParts(e)...)
		}
		return out
	}
	var d *aggregator.SomeSamplesDropped
	switch {
	case errors.As(err, &d):
		return []string{fmt.Sprintf("dropped:%d", d.Dropped)}
	case errors.Is(err, errSinkClose):
		return []string{"close"}
	case strings.Contains(err.Error(), "final flush failed"), strings.Contains(err.Error(), "encoder close failed"):
		return []string{"flush"}
	case strings.Contains(err.Error(), "sample encode failed"):
		return []string{"loop"}
	}
	return []string{"other:" + drv_clean(err.Error())}
}

func errPartsString(err error) (string, int64) {
	ps := errParts(err)
	if len(ps) == 0 {
		return "nil", 0
	}
	var dropped int64
	for _, p := range ps {
		if strings.HasPrefix(p, "dropped:") {
			n, _ := strconv.ParseInt(p[len("dropped:"):], 10, 64)
			dropped += n
		}
	}
	return strings.Join(ps, "+"), dropped
}

// ---- borrowed samples (core.BorrowedSample): the reporter owns a small pool of sample objects; the aggregator has to
// hand each one back (Return) when it is done with it — after it was encoded, or when it was dropped — and the owner
// recycles it AT ONCE for its next report. A sample handed back before it was encoded reaches the output with the
// content of a later report (or the poison Return leaves in it).
type borrowPool struct {
	mu      sync.Mutex
	free    []*borrowed
	made    int
	returns int
	dbl     int
}

type borrowed struct {
	jsample
	pool *borrowPool
	out  bool
}

func (p *borrowPool) get(limit int) *borrowed {
	deadline := time.Now().Add(20 * time.Second)
	for {
		if time.Now().After(deadline) {
			// the aggregator keeps what it got (it is gone, or it leaks): do not spin for ever
			return &borrowed{pool: p, out: true}
		}
		p.mu.Lock()
		if n := len(p.free); n > 0 {
			b := p.free[n-1]
			p.free = p.free[:n-1]
			b.out = true
			p.mu.Unlock()
			return b
		}
		if p.made < limit {
			p.made++
			p.mu.Unlock()
			return &borrowed{pool: p, out: true}
		}
		p.mu.Unlock()
		runtime.Gosched() // every object is with the aggregator: wait for one to come back
	}
}

func (b *borrowed) Return() {
	p := b.pool
	p.mu.Lock()
	defer p.mu.Unlock()
	p.returns++
	if !b.out {
		p.dbl++
		return
	}
	b.out = false
	// poison: whoever still reads this object sees a sample nobody reported
	b.R, b.K, b.Tag = -1, -1, "returned"
	for i := range b.F {
		b.F[i] = -1
	}
	p.free = append(p.free, b)
}

var _ core.BorrowedSample = (*borrowed)(nil)

// failingSink: accepts failAfter bytes, then every Write fails (disk full); still records closes.
type failSink struct {
	*trackFile
	limit int
	mu2   sync.Mutex
	taken int
	fails int
}

var errSinkFull = errors.New("c06: no space left on device")

func (f *failSink) Write(p []byte) (int, error) {
	f.mu2.Lock()
	room := f.limit - f.taken
	if room < 0 {
		room = 0
	}
	n := len(p)
	if n > room {
		n = room
	}
	f.taken += n
	failed := n < len(p)
	if failed {
		f.fails++
	}
	f.mu2.Unlock()
	if n > 0 {
		_, _ = f.trackFile.Write(p[:n])
	} else if failed {
		// count a write attempt after close as such even when nothing is accepted
		f.trackFile.mu.Lock()
		if f.trackFile.closes > 0 {
			f.trackFile.writeAfterClose++
		}
		f.trackFile.mu.Unlock()
	}
	if failed {
		return n, errSinkFull
	}
	return n, nil
}

func (f *failSink) WriteString(s string) (int, error) { return f.Write([]byte(s)) }

type failFs struct {
	afero.Fs
	limit    int
	file     *failSink
	closeErr error
}

func (t *failFs) Create(name string) (afero.File, error) {
	f, err := t.Fs.Create(name)
	if err != nil {
		return nil, err
	}
	t.file = &failSink{trackFile: &trackFile{File: f, closeErr: t.closeErr}, limit: t.limit}
	return t.file, nil
}

func (t *failFs) OpenFile(name string, flag int, perm os.FileMode) (afero.File, error) {
	f, err := t.Fs.OpenFile(name, flag, perm)
	if err != nil {
		return nil, err
	}
	t.file = &failSink{trackFile: &trackFile{File: f, closeErr: t.closeErr}, limit: t.limit}
	return t.file, nil
}

type failMemSink struct{ f *failSink }

func (m *failMemSink) OpenSink() (io.WriteCloser, error) { return m.f, nil }

// fdOpenFor: is some descriptor of this process still open on path?
func fdOpenFor(path string) bool {
	ents, err := os.ReadDir("/proc/self/fd")
	if err != nil {
		return false
	}
	for _, e := range ents {
		if l, err := os.Readlink("/proc/self/fd/" + e.Name()); err == nil && l == path {
			return true
		}
	}
	return false
}

const staleLine = "STALE LINE OF AN EARLIER RUN\n"

// runQueue: G reporter goroutines × K samples through a real aggregator.
//
//	late=0  every Report returns before the cancel (end of a run)
//	late=1  the cancel comes while reporters are still reporting (SIGINT, failure of another task): the Report
//	        calls completed before cancel() was called are known (sequence numbers)
//	sink=file  the destination is a real file that already holds stale content (core/datasink/file.go, fs.Create)
//	fail=N  the sink accepts N bytes, then every write fails
func runQueue(kv map[string]string) string {
	agg := kv["agg"]
	g, k, q := atoi(kv["g"]), atoi(kv["k"]), atoi(kv["q"])
	flush := time.Duration(atoi(kv["flush"])) * time.Millisecond
	wrap := kv["wrap"] == "1"
	jit := int64(atoi(kv["jit"]))
	late := kv["late"] == "1"
	useFile := kv["sink"] == "file"
	// conf=1|2 (round 4): the aggregator is built the way pandora builds it — from an option map through the plugin
	// registry (core/import, core/plugin, core/config: option names, struct tags, default-config functions, validation,
	// the string → duration / data-size hooks) — over the real file system; conf=2: only the required options, the rest
	// are the registered defaults
	useConf := atoi(kv["conf"])
	if useConf > 0 {
		useFile = true
	}
	failAfter := atoi(kv["fail"])
	closeErr := kv["closeerr"] == "1"
	borrow := atoi(kv["borrow"])
	// (round 6) dur=<ms>: every reporter spreads its K reports over this time — longer than the aggregator's flush
	// period (phout: 1 s ticker, hard-coded), so that flush ticks fire while samples keep arriving; wslow=<µs>: every
	// Write of the sink takes that long (a slow disk): a flush is still in progress when the next samples come
	dur := time.Duration(atoi(kv["dur"])) * time.Millisecond
	wslow := time.Duration(atoi(kv["wslow"])) * time.Microsecond
	var bpool *borrowPool
	if borrow > 0 {
		bpool = &borrowPool{}
	}
	var cerr error
	if closeErr {
		cerr = errSinkClose
	}
	n := g * k
	if agg == "phout" && (late || failAfter > 0) && q < n {
		// after phout's Run has returned (cancel seen / write error) nobody empties its queue: a reporter blocked on a
		// full queue would stay blocked for ever; such inputs say nothing about the property
		return "inconclusive=phout-needs-queue-for-all"
	}

	var run func(ctx context.Context) error
	var report func(gi, ki int)
	var file func() *trackFile // the destination; a file that is created lazily does not exist before the run
	var fsink func() *failSink
	var path string
	if useFile {
		dir, err := os.MkdirTemp("/var/tmp", "c06-sink-")
		if err != nil {
			return "inconclusive=tmpdir"
		}
		defer os.RemoveAll(dir)
		path = filepath.Join(dir, "result.log")
		if err := os.WriteFile(path, bytes.Repeat([]byte(staleLine), 3000), 0o644); err != nil {
			return "inconclusive=tmpfile"
		}
	}
	switch agg {
	case "phout":
		conf := netsample.DefaultPhoutConfig()
		conf.Destination = "phout.log"
		conf.ID = true
		conf.SampleQueueSize = q
		conf.FlushTime = flush
		conf.Buffer = bufConf(atoi(kv["buf"]))
		if useConf > 0 {
			opts := map[string]interface{}{"type": "phout", "destination": path, "id": true}
			if useConf == 1 {
				opts["sample-queue-size"] = q
				opts["flush-time"] = flush.String()
				if bs := bufConf(atoi(kv["buf"])).BufferSize; bs != 0 {
					opts["buffer-size"] = fmt.Sprintf("%dkb", int(bs)/1024)
				}
			}
			ca, err := confAggregator(opts)
			if err != nil {
				return "err=conf:" + drv_clean(err.Error())
			}
			run = func(ctx context.Context) error { return ca.Run(ctx, core.AggregatorDeps{Log: zap.NewNop()}) }
			report = func(gi, ki int) {
				var f [10]int64
				for i := range f {
					f[i] = qField(gi, ki, i)
				}
				ca.Report(buildSample(1_700_000_000_000_000_000+int64(ki)*1_000_000, "r"+strconv.Itoa(gi), uint64(ki), f, "api"))
			}
			break
		}
		var fs afero.Fs
		switch {
		case useFile:
			conf.Destination = path
			fs = afero.NewOsFs()
		case failAfter > 0:
			fs = &failFs{Fs: afero.NewMemMapFs(), limit: failAfter}
		default:
			fs = &trackFs{Fs: afero.NewMemMapFs(), closeErr: cerr, delay: wslow}
		}
		a, err := netsample.NewPhout(fs, conf)
		if err != nil {
			return "err=new:" + drv_clean(err.Error())
		}
		switch f := fs.(type) {
		case *trackFs:
			file = func() *trackFile { return f.file }
		case *failFs:
			fsink = func() *failSink { return f.file }
			file = func() *trackFile {
				if f.file == nil {
					return nil
				}
				return f.file.trackFile
			}
		}
		wrapped := netsample.WrapAggregator(a)
		run = func(ctx context.Context) error { return a.Run(ctx, core.AggregatorDeps{Log: zap.NewNop()}) }
		report = func(gi, ki int) {
			var f [10]int64
			for i := range f {
				f[i] = qField(gi, ki, i)
			}
			s := buildSample(1_700_000_000_000_000_000+int64(ki)*1_000_000, "r"+strconv.Itoa(gi), uint64(ki), f, "api")
			if wrap {
				wrapped.Report(s)
			} else {
				a.Report(s)
			}
		}
	case "jsonlines":
		if useConf > 0 {
			// "json" is registered as an alias of "jsonlines"
			opts := map[string]interface{}{"type": []string{"jsonlines", "json"}[int(jit)%2],
				"sink": map[string]interface{}{"type": "file", "path": path}}
			if useConf == 1 {
				opts["sample-queue-size"] = q
				opts["flush-interval"] = flush.String()
				if bs := bufConf(atoi(kv["buf"])).BufferSize; bs != 0 {
					// a number, not "64kb": the jsonlines config has TWO squashed fields named buffer-size, an int
					// (EncoderAggregatorConfig) and a data size (the encoder's) — only a plain number decodes into both
					opts["buffer-size"] = int(bs)
				}
			}
			ca, err := confAggregator(opts)
			if err != nil {
				return "err=conf:" + drv_clean(err.Error())
			}
			run = func(ctx context.Context) error { return ca.Run(ctx, core.AggregatorDeps{Log: zap.NewNop()}) }
			report = func(gi, ki int) {
				f := make([]int64, 10)
				for i := range f {
					f[i] = qField(gi, ki, i)
				}
				ca.Report(&jsample{R: gi, K: ki, Tag: "r" + strconv.Itoa(gi), F: f})
			}
			break
		}
		conf := aggregator.DefaultJSONLinesAggregatorConfig()
		switch {
		case useFile:
			conf.Sink = datasink.NewFile(afero.NewOsFs(), datasink.FileConfig{Path: path})
		case failAfter > 0:
			tf := &trackFile{closeErr: cerr}
			fk := &failSink{trackFile: tf, limit: failAfter}
			file = func() *trackFile { return tf }
			fsink = func() *failSink { return fk }
			conf.Sink = &failMemSink{fk}
		default:
			tf := &trackFile{closeErr: cerr, delay: wslow}
			file = func() *trackFile { return tf }
			conf.Sink = &memSink{tf}
		}
		conf.ReporterConfig.SampleQueueSize = q
		conf.FlushInterval = flush
		conf.BufferSizeConfig = bufConf(atoi(kv["buf"]))
		a := aggregator.NewJSONLinesAggregator(conf)
		run = func(ctx context.Context) error { return a.Run(ctx, core.AggregatorDeps{Log: zap.NewNop()}) }
		report = func(gi, ki int) {
			if bpool != nil {
				// a recycled object of the reporter's own pool, overwritten in place
				b := bpool.get(borrow)
				b.R, b.K, b.Tag = gi, ki, "r"+strconv.Itoa(gi)
				if len(b.F) != 10 {
					b.F = make([]int64, 10)
				}
				for i := range b.F {
					b.F[i] = qField(gi, ki, i)
				}
				a.Report(b)
				return
			}
			f := make([]int64, 10)
			for i := range f {
				f[i] = qField(gi, ki, i)
			}
			a.Report(&jsample{R: gi, K: ki, Tag: "r" + strconv.Itoa(gi), F: f})
		}
	default:
		return "err=unknown-aggregator"
	}

	ctx, cancel := context.WithCancel(context.Background())
	defer cancel()
	res := make(chan error, 1)
	pan := make(chan string, 1)
	go func() {
		defer func() {
			if r := recover(); r != nil {
				pan <- panicObs(r)
			}
		}()
		res <- run(ctx)
	}()
	// seqOf[g][k] = position of that Report call among all completed ones (1-based), 0 = not made
	seqOf := make([][]int64, g)
	for i := range seqOf {
		seqOf[i] = make([]int64, k)
	}
	var seq atomic.Int64
	var stop atomic.Bool
	var wg sync.WaitGroup
	for gi := 0; gi < g; gi++ {
		wg.Add(1)
		go func(gi int) {
			defer wg.Done()
			r := rand.New(rand.NewSource(jit*1000 + int64(gi)))
			for ki := 0; ki < k; ki++ {
				if stop.Load() {
					return
				}
				report(gi, ki)
				seqOf[gi][ki] = seq.Add(1)
				if dur > 0 && k > 0 {
					time.Sleep(dur / time.Duration(k))
				}
				if jit%3 != 0 && r.Intn(4) == 0 {
					runtime.Gosched()
				}
			}
		}(gi)
	}
	pre := int64(-1)
	gaveUp := false // Run returned while the reporters were still reporting (dur= runs)
	if late {
		// cancel when about (jit%7+1)/8 of the reports are made; reporters notice a little later
		target := int64(n) * (jit%7 + 1) / 8
		deadline := time.Now().Add(20 * time.Second)
		for seq.Load() < target && time.Now().Before(deadline) {
			runtime.Gosched()
		}
		pre = seq.Load()
		cancel()
		if jit%2 == 0 {
			time.Sleep(time.Duration(jit%5) * 20 * time.Microsecond)
		}
		stop.Store(true)
		wg.Wait()
	} else if dur > 0 {
		_ = gaveUp
		// (round 6) a long run: when the aggregator's Run gives up in the middle of it (phout returns on the first write
		// error and never empties its queue again) the reporters block for ever — that IS the observation
		wgDone := make(chan struct{})
		go func() { wg.Wait(); close(wgDone) }()
		select {
		case <-wgDone:
			cancel()
		case early := <-res:
			gaveUp = true
			stop.Store(true)
			select {
			case <-wgDone:
			case <-time.After(2 * time.Second):
			}
			cancel()
			res <- early
		case p := <-pan:
			return p
		case <-time.After(dur + 60*time.Second):
			return "HANG"
		}
	} else {
		wg.Wait()
		cancel() // every Report has returned
	}
	var runErr error
	select {
	case runErr = <-res:
	case p := <-pan:
		return p
	case <-time.After(60 * time.Second):
		return "HANG"
	}
	made := int(seq.Load())
	if pre < 0 {
		pre = int64(made)
	}
	var data []byte
	var closedOK bool
	if useFile {
		closedOK = !fdOpenFor(path)
		var err error
		if data, err = os.ReadFile(path); err != nil {
			return "err=no-result-file"
		}
	} else {
		data, closedOK = file().snapshot()
	}
	errS, dropped := runErrString(runErr)
	if closeErr {
		// coinciding faults: the members of the error, in order
		errS, dropped = errPartsString(runErr)
	}

	// decode every line
	type gk struct{ g, k int }
	var seqw []gk
	bad := 0
	lines := bytes.Split(data, []byte{'\n'})
	tail := lines[len(lines)-1]
	lines = lines[:len(lines)-1]
	if len(tail) != 0 && failAfter == 0 {
		bad++
	}
	for _, l := range lines {
		gi, ki, ok := -1, -1, false
		if agg == "phout" {
			gi, ki, ok = decodePhoutQ(string(l))
		} else {
			var js jsample
			dec := json.NewDecoder(bytes.NewReader(l))
			dec.DisallowUnknownFields()
			if json.Valid(l) && dec.Decode(&js) == nil && len(js.F) == 10 && js.Tag == "r"+strconv.Itoa(js.R) {
				ok = true
				for i, v := range js.F {
					if v != qField(js.R, js.K, i) {
						ok = false
					}
				}
				gi, ki = js.R, js.K
			}
		}
		// a line nobody reported is as bad as a line that does not decode
		if ok && (gi < 0 || gi >= g || ki < 0 || ki >= k || seqOf[gi][ki] == 0) {
			ok = false
		}
		if !ok {
			bad++
			continue
		}
		seqw = append(seqw, gk{gi, ki})
	}
	last := map[int]int{}
	seen := map[gk]bool{}
	order, dup := 1, 0
	for _, e := range seqw {
		if seen[e] {
			dup++
			continue
		}
		seen[e] = true
		if l, ok := last[e.g]; ok && l >= e.k {
			order = 0
		}
		last[e.g] = e.k
	}
	obs := fmt.Sprintf("reports=%d lines=%d dropped=%d err=%s order=%d dup=%d bad=%d closed=%d", made, len(lines), dropped, errS, order, dup, bad, b2i(closedOK))
	if gaveUp {
		obs += " gaveup=1"
	}
	if late {
		miss := 0
		for gi := range seqOf {
			for ki, sq := range seqOf[gi] {
				if sq != 0 && sq <= pre && !seen[gk{gi, ki}] {
					miss++
				}
			}
		}
		obs += fmt.Sprintf(" pre=%d miss=%d", pre, miss)
	}
	if failAfter > 0 {
		if fk := fsink(); fk != nil {
			fk.mu2.Lock()
			obs += fmt.Sprintf(" failed=%d", b2i(fk.fails > 0))
			fk.mu2.Unlock()
		} else {
			obs += " failed=0"
		}
	}
	if bpool != nil {
		bpool.mu.Lock()
		obs += fmt.Sprintf(" returns=%d dblret=%d", bpool.returns, bpool.dbl)
		bpool.mu.Unlock()
	}
	if n <= 300 && bad == 0 && !late && failAfter == 0 {
		var w []string
		for _, e := range seqw {
			w = append(w, fmt.Sprintf("%d.%d", e.g, e.k))
		}
		if len(w) > 0 {
			obs += " w=" + strings.Join(w, ",")
		}
	}
	return obs
}

func b2i(b bool) int {
	if b {
		return 1
	}
	return 0
}

// decodePhoutQ: a line written for sample (g,k) of runQueue: "<sec>.<ms>\tr<g>#<k>\t<10 ints>"
func decodePhoutQ(l string) (g, k int, ok bool) {
	cols := strings.Split(l, "\t")
	if len(cols) != 12 {
		return
	}
	ts := strings.Split(cols[0], ".")
	if len(ts) != 2 || len(ts[1]) != 3 {
		return
	}
	sec, e1 := strconv.ParseInt(ts[0], 10, 64)
	ms, e2 := strconv.ParseInt(ts[1], 10, 64)
	ti := strings.LastIndexByte(cols[1], '#')
	if e1 != nil || e2 != nil || ti < 0 || !strings.HasPrefix(cols[1], "r") {
		return
	}
	g, e1 = strconv.Atoi(cols[1][1:ti])
	k, e2 = strconv.Atoi(cols[1][ti+1:])
	if e1 != nil || e2 != nil {
		return
	}
	if sec*1000+ms != 1_700_000_000_000+int64(k) {
		return
	}
	for i := 0; i < 10; i++ {
		v, err := strconv.ParseInt(cols[2+i], 10, 64)
		if err != nil || v != qField(g, k, i) {
			return
		}
	}
	return g, k, true
}

// ---- jsonlines, content level

type jvalue struct {
	Tag string           `json:"tag"`
	N   int64            `json:"n"`
	U   uint64           `json:"u"`
	F   float64          `json:"f"`
	B   bool             `json:"b"`
	L   []string         `json:"l"`
	M   map[string]int64 `json:"m"`
	P   *int             `json:"p"`
	Idx int              `json:"idx"`
}

var jsonStrings = []string{"", "a", "quote\"d", "back\\slash", "new\nline", "tab\there", "nul\x00", "ctl\x1f", "<html>&amp;", "тест", "日本語", "🎯", " sep ", "\u007f", "/slash", "{\"k\":1}", "[1,2]", "null", "  "}

func genJString(r *rand.Rand) string {
	if r.Intn(3) == 0 {
		n := r.Intn(10)
		b := make([]rune, n)
		for i := range b {
			b[i] = rune(r.Intn(0x3000))
			if b[i] >= 0xd800 && b[i] <= 0xdfff {
				b[i] = 'x'
			}
		}
		return string(b)
	}
	return jsonStrings[r.Intn(len(jsonStrings))]
}

func genJValue(r *rand.Rand, idx int) *jvalue {
	v := &jvalue{Tag: genJString(r), N: genField(r), U: genSid(r), B: r.Intn(2) == 0, Idx: idx}
	v.F = []float64{0, 1, -1, 0.1, 1e21, 1e-7, 123456.789, -2.5e-300, 1.7976931348623157e308, 5e-324}[r.Intn(10)]
	if r.Intn(2) == 0 {
		v.L = []string{}
		for i := r.Intn(4); i > 0; i-- {
			v.L = append(v.L, genJString(r))
		}
	}
	if r.Intn(2) == 0 {
		v.M = map[string]int64{}
		for i := r.Intn(4); i > 0; i-- {
			v.M[genJString(r)] = genField(r)
		}
	}
	if r.Intn(3) == 0 {
		p := r.Intn(100)
		v.P = &p
	}
	return v
}

func runJSON(kv map[string]string) string {
	n, q := atoi(kv["n"]), atoi(kv["q"])
	r := rand.New(rand.NewSource(int64(atoi(kv["seed"]))))
	file := &trackFile{}
	conf := aggregator.DefaultJSONLinesAggregatorConfig()
	conf.Sink = &memSink{file}
	conf.ReporterConfig.SampleQueueSize = q
	conf.FlushInterval = []time.Duration{0, time.Millisecond, time.Second}[r.Intn(3)]
	conf.SortMapKeys = r.Intn(2) == 0
	a := aggregator.NewJSONLinesAggregator(conf)
	ctx, cancel := context.WithCancel(context.Background())
	defer cancel()
	res := make(chan error, 1)
	pan := make(chan string, 1)
	go func() {
		defer func() {
			if r := recover(); r != nil {
				pan <- panicObs(r)
			}
		}()
		res <- a.Run(ctx, core.AggregatorDeps{Log: zap.NewNop()})
	}()
	var want []*jvalue
	for i := 0; i < n; i++ {
		v := genJValue(r, i)
		cp := *v
		want = append(want, &cp)
		a.Report(v)
	}
	cancel()
	var runErr error
	select {
	case runErr = <-res:
	case p := <-pan:
		return p
	case <-time.After(30 * time.Second):
		return "HANG"
	}
	data, closedOK := file.snapshot()
	errS, dropped := runErrString(runErr)
	lines := bytes.Split(data, []byte{'\n'})
	tail := len(lines[len(lines)-1])
	lines = lines[:len(lines)-1]
	valid, rt := 0, 0
	for i, l := range lines {
		if !json.Valid(l) {
			continue
		}
		valid++
		var got jvalue
		if json.Unmarshal(l, &got) != nil {
			continue
		}
		// without drops line i is report i; with drops match by the index the value carries
		j := i
		if dropped != 0 {
			j = got.Idx
		}
		if j >= 0 && j < len(want) && reflect.DeepEqual(normJ(&got), normJ(want[j])) {
			rt++
		}
	}
	obs := fmt.Sprintf("reports=%d lines=%d valid=%d rt=%d tail=%d dropped=%d err=%s closed=%d", n, len(lines), valid, rt, tail, dropped, errS, b2i(closedOK))
	if len(data) <= 400 && len(data) > 0 {
		obs += " out=" + hex.EncodeToString(data)
	}
	return obs
}

// normJ: nil and empty slices/maps are the same JSON-level value only when written the same; keep the
// distinction the encoder makes (nil → null) by normalising nothing but map/slice emptiness after decode.
func normJ(v *jvalue) jvalue {
	c := *v
	if c.L != nil && len(c.L) == 0 {
		c.L = []string{}
	}
	if c.M != nil && len(c.M) == 0 {
		c.M = map[string]int64{}
	}
	return c
}
