package main

import (
	"bytes"
	"context"
	"encoding/hex"
	"fmt"
	"math"
	"os"
	"reflect"
	"strconv"
	"strings"
	"sync"
	"time"
	"unsafe"

	"github.com/spf13/afero"
	"go.uber.org/zap"

	"github.com/yandex/pandora/core"
	"github.com/yandex/pandora/core/aggregator/netsample"
)

// ---- sink that records what really reached the destination

type trackFile struct {
	afero.File
	mu              sync.Mutex
	data            bytes.Buffer
	closes          int
	writeAfterClose int
	// closeErr: what Close returns AFTER it has closed (a sink whose close reports a late write-back error)
	closeErr error
	// delay: every Write takes this long (a slow disk) — round 6
	delay time.Duration
}

func (f *trackFile) Write(p []byte) (int, error) {
	if f.delay > 0 {
		time.Sleep(f.delay)
	}
	f.mu.Lock()
	if f.closes > 0 {
		f.writeAfterClose++
	}
	f.data.Write(p)
	f.mu.Unlock()
	if f.File != nil {
		return f.File.Write(p)
	}
	return len(p), nil
}

func (f *trackFile) WriteString(s string) (int, error) { return f.Write([]byte(s)) }

func (f *trackFile) Close() error {
	f.mu.Lock()
	f.closes++
	cerr := f.closeErr
	f.mu.Unlock()
	if f.File != nil {
		if err := f.File.Close(); err != nil {
			return err
		}
	}
	return cerr
}

// snapshot of a destination that may never have been created (an aggregator that opens its file lazily and got no
// sample): nothing written, nothing to close
func (f *trackFile) snapshot() (data []byte, closedOK bool) {
	if f == nil {
		return nil, true
	}
	f.mu.Lock()
	defer f.mu.Unlock()
	return append([]byte(nil), f.data.Bytes()...), f.closes == 1 && f.writeAfterClose == 0
}

type trackFs struct {
	afero.Fs
	file     *trackFile
	closeErr error
	delay    time.Duration
}

func newTrackFs() *trackFs { return &trackFs{Fs: afero.NewMemMapFs()} }

func (t *trackFs) Create(name string) (afero.File, error) {
	f, err := t.Fs.Create(name)
	if err != nil {
		return nil, err
	}
	t.file = &trackFile{File: f, closeErr: t.closeErr, delay: t.delay}
	return t.file, nil
}

// a destination opened through OpenFile (whatever the flags) is tracked like one that was Create()d: how the file is
// opened is judged over the real file system (sink=file, conf=, kind=proc: stale content), not here
func (t *trackFs) OpenFile(name string, flag int, perm os.FileMode) (afero.File, error) {
	f, err := t.Fs.OpenFile(name, flag, perm)
	if err != nil {
		return nil, err
	}
	t.file = &trackFile{File: f, closeErr: t.closeErr, delay: t.delay}
	return t.file, nil
}

// ---- building a *netsample.Sample

func rawField(s *netsample.Sample, name string) reflect.Value {
	v := reflect.ValueOf(s).Elem().FieldByName(name)
	return reflect.NewAt(v.Type(), unsafe.Pointer(v.UnsafeAddr())).Elem()
}

func fitsMicro(v int64) bool { return v <= math.MaxInt64/1000 && v >= math.MinInt64/1000 }

// buildSample: f is in DOCUMENTED column order (interval_real, connect, send, latency, receive,
// interval_event, size_out, size_in, net_code, proto_code). via=api uses the public setter that documents
// each column; via=raw writes array index i; via=sparse is what a gun does that only knows some of the values:
// the sample comes from Acquire (the pool of released samples) and a setter is called only for the non-zero
// values (no SetID for id 0) — everything else must read as zero.
func buildSample(ns int64, tag string, sid uint64, f [10]int64, via string) *netsample.Sample {
	s := netsample.Acquire(tag)
	if via != "sparse" || sid != 0 {
		s.SetID(sid)
	}
	raw := func(i int, v int64) { rawField(s, "fields").Index(i).SetInt(v) }
	for i, v := range f {
		if via == "sparse" && v == 0 {
			continue
		}
		if via != "api" && via != "sparse" {
			raw(i, v)
			continue
		}
		d := time.Duration(v * 1000)
		switch {
		case i <= 4 && !fitsMicro(v):
			raw(i, v)
		case i == 0:
			s.SetUserDuration(d)
		case i == 1:
			s.SetConnectTime(d)
		case i == 2:
			s.SetSendTime(d)
		case i == 3:
			s.SetLatency(d)
		case i == 4:
			s.SetReceiveTime(d)
		case i == 5:
			raw(i, v) // no setter for interval_event
		case i == 6:
			s.SetRequestBytes(int(v))
		case i == 7:
			s.SetResponseBytes(int(v))
		case i == 8:
			s.SetUserNet(int(v))
		case i == 9:
			s.SetUserProto(int(v))
		}
	}
	rawField(s, "timeStamp").Set(reflect.ValueOf(time.Unix(0, ns)))
	return s
}

func parseSampleInput(kv map[string]string) (ns int64, tag string, sid uint64, f [10]int64, err error) {
	if ns, err = strconv.ParseInt(kv["ns"], 10, 64); err != nil {
		return
	}
	var tb []byte
	if tb, err = hex.DecodeString(kv["tag"]); err != nil {
		return
	}
	tag = string(tb)
	if sid, err = strconv.ParseUint(kv["sid"], 10, 64); err != nil {
		return
	}
	parts := strings.Split(kv["f"], ",")
	if len(parts) != 10 {
		err = fmt.Errorf("need 10 fields")
		return
	}
	for i, p := range parts {
		if f[i], err = strconv.ParseInt(p, 10, 64); err != nil {
			return
		}
	}
	return
}

func panicObs(r any) string {
	msg := fmt.Sprint(r)
	if strings.Contains(msg, "index out of range") {
		return "panic=index"
	}
	return "panic=" + drv_clean(msg)
}

func drv_clean(s string) string {
	s = strings.Map(func(r rune) rune {
		if r == ' ' || r == '\t' || r == '\n' || r == '=' {
			return '_'
		}
		return r
	}, s)
	if len(s) > 80 {
		s = s[:80]
	}
	return s
}

// runLine: one sample through the real phout aggregator (or through String()).
func runLine(kv map[string]string, str bool) (obs string) {
	ns, tag, sid, f, err := parseSampleInput(kv)
	if err != nil {
		return "err=bad-input"
	}
	if str {
		defer func() {
			if r := recover(); r != nil {
				obs = panicObs(r)
			}
		}()
		s := buildSample(ns, tag, sid, f, kv["via"])
		return "out=" + hex.EncodeToString([]byte(s.String()))
	}
	fs := newTrackFs()
	conf := netsample.DefaultPhoutConfig()
	conf.Destination = "phout.log"
	conf.ID = kv["id"] == "1"
	conf.SampleQueueSize = 4
	a, err := netsample.NewPhout(fs, conf)
	if err != nil {
		return "err=new:" + drv_clean(err.Error())
	}
	ctx, cancel := context.WithCancel(context.Background())
	defer cancel()
	res := make(chan string, 1)
	go func() {
		defer func() {
			if r := recover(); r != nil {
				res <- panicObs(r)
			}
		}()
		if err := a.Run(ctx, core.AggregatorDeps{Log: zap.NewNop()}); err != nil {
			res <- "err=run:" + drv_clean(err.Error())
			return
		}
		res <- ""
	}()
	a.Report(buildSample(ns, tag, sid, f, kv["via"]))
	cancel()
	select {
	case o := <-res:
		if o != "" {
			return o
		}
	case <-time.After(20 * time.Second):
		return "HANG"
	}
	data, closedOK := fs.file.snapshot()
	if !closedOK {
		return "err=sink-not-closed-once out=" + hex.EncodeToString(data)
	}
	return "out=" + hex.EncodeToString(data)
}
