package main

import (
	"bytes"
	"context"
	"encoding/json"
	"errors"
	"fmt"
	"io"
	"math/rand"
	"strconv"
	"strings"
	"sync"
	"sync/atomic"
	"time"

	"go.uber.org/zap"
	"go.uber.org/zap/zapcore"

	"github.com/yandex/pandora/core"
	"github.com/yandex/pandora/core/aggregator"
	"github.com/yandex/pandora/core/aggregator/netsample"
	"github.com/yandex/pandora/core/engine"
	"github.com/yandex/pandora/core/schedule"
	"github.com/yandex/pandora/core/warmup"
	"github.com/yandex/pandora/lib/monitoring"
)

// kind=engine agg=phout|jsonlines pools=<P> inst=<I> ammo=<N> per=<R> q=<Q> slow=<µs> cancel=<-1|shot number> seed=<S> [startrps=<instances per second, 0 = all at once>]
//
// The REAL engine.Engine with P pools; every pool has I instances that shoot N ammo in total, every shoot sleeps
// about `slow` µs (so that at the end of the run several instances are in their last shoot while others have
// already finished) and then makes R Report calls to the pool's REAL aggregator (phout / jsonlines).
//
//	disc=<ms>  the instances' schedule (200 tokens/s) was started <ms> milliseconds ago and the pool discards overflow:
//	           for every token that is 2 s or more overdue the ENGINE itself reports a "discarded" sample instead of
//	           shooting (instance.Run); those lines must be there too: gun reports + (ammo - shots) discarded samples
//	cancel=-1  the run ends by itself: the result is judged at the moment Engine.Run returns nil (no Wait, no sleep)
//	cancel=c   the context given to Engine.Run is cancelled during shoot number c of pool 0 (SIGINT/SIGTERM do that);
//	           the result is judged after Engine.Wait(); only the Report calls completed before the cancel must be there
//	fail=c     (round 3) the gun of pool 0 panics in the middle of its shoot number c: that instance's Run fails, the pool
//	           fails, Engine.Run returns the error and cancels the OTHER pools; the caller then does what cli.go does:
//	           cancel, Engine.Wait(). Every Report completed before the panic — in every pool — must be in the output,
//	           every aggregator must have returned when Wait returns

//	early=<what>:<j>  (round 4) pool j fails BEFORE or WHILE its tasks are started, next to healthy pools:
//	           warm    the pool's first NewGun call (the warm-up gun) fails — instancePool.Run returns before runAsync
//	           warmup  the warm-up gun's WarmUp fails
//	           sched   the shared RPS schedule cannot be built — runAsync fails, nothing was started
//	           inst    the FIRST instance cannot be built (its NewGun fails): startInstances returns started=0 with an
//	                   error, no instance goroutine exists; the pool's provider and aggregator were started and must end
//	           bind    the first instance's gun refuses Bind (same path, after the gun was made)
//	           Engine.Run returns the error (cancelling the other pools); the caller cancels and calls Engine.Wait like
//	           cli.go: Wait must return, every aggregator that was started must have returned, what the healthy pools
//	           reported before the failure must be in their output; the aggregator of a pool that never got to runAsync
//	           must not have been run at all
//	shared=<N> (round 4) the pool's instances share ONE rps schedule of N tokens (rps-per-instance: false): when it runs
//	           out the schedule's on-finish callback cancels the instance START only — the aggregator goes on until the
//	           instances that are still shooting have reported
//	pools=3    (round 4)
//	slowlog=<µs> (round 4) the engine gets a debug-level logger whose sink is slow for the await loop's "Instance run
//	           awaited" entry: with more instances than the pool's result channel buffers (64) the results of the
//	           instances that finish meanwhile pile up — the sends block until the await loop takes them; none may
//	           be lost (the loop would wait for ever) and the cancel must still come after the last Report
//
// a run of the engine over these toy guns takes milliseconds (a second on a badly loaded machine)
const engineHang = 25 * time.Second

type engProvider struct {
	ch chan core.Ammo
	n  int
}

func (p *engProvider) Run(ctx context.Context, _ core.ProviderDeps) error {
	defer close(p.ch)
	for i := 0; i < p.n; i++ {
		select {
		case p.ch <- i:
		case <-ctx.Done():
			return nil
		}
	}
	return nil
}
func (p *engProvider) Acquire() (core.Ammo, bool) { a, ok := <-p.ch; return a, ok }
func (p *engProvider) Release(core.Ammo)          {}

type engPool struct {
	idx      int
	agg      string
	per      int
	slow     time.Duration
	cancelAt int
	failAt   int
	cancel   context.CancelFunc

	real      core.Aggregator
	file      func() *trackFile
	runErr    error
	runDone   atomic.Bool
	runCalled atomic.Bool
	newGuns   atomic.Int64 // calls of the pool's NewGun (the first one is the warm-up gun)
	early     string       // how this pool fails early ("" = it does not)
	bindFail  bool
	guns      atomic.Int64
	shots     atomic.Int64
	seq       *atomic.Int64 // shared by all pools
	pre       *atomic.Int64 // seq at the cancel, -1 = no cancel
	mu        sync.Mutex
	seqOf     map[[2]int]int64
	reported  [][2]int
}

// engAgg wraps the real aggregator only to keep Run's return value (the engine may or may not pass it on)
type engAgg struct{ p *engPool }

func (a engAgg) Run(ctx context.Context, deps core.AggregatorDeps) error {
	a.p.runCalled.Store(true)
	err := a.p.real.Run(ctx, deps)
	a.p.runErr = err
	a.p.runDone.Store(true)
	return err
}
func (a engAgg) Report(s core.Sample) { a.p.real.Report(s) }

type engGun struct {
	p       *engPool
	id      int
	k       int
	aggr    core.Aggregator
	r       *rand.Rand
	bindErr bool
}

func (g *engGun) Bind(aggr core.Aggregator, _ core.GunDeps) error {
	if g.bindErr {
		g.p.earlyFail()
		return errEarly
	}
	g.aggr = aggr
	return nil
}

var errEarly = errors.New("c06: early failure")

// earlyFail: the failing step takes a moment (so that the healthy pools are in the middle of their run), then notes
// how many Report calls were completed before it fails
func (p *engPool) earlyFail() {
	time.Sleep(time.Duration(500+p.seq.Load()%7*300) * time.Microsecond)
	p.pre.Store(p.seq.Load())
}

// engWarmGun: a gun whose WarmUp fails
type engWarmGun struct{ *engGun }

func (g engWarmGun) WarmUp(*warmup.Options) (interface{}, error) {
	g.p.earlyFail()
	return nil, errEarly
}

func (g *engGun) Shoot(core.Ammo) {
	p := g.p
	shot := int(p.shots.Add(1))
	if p.slow > 0 {
		time.Sleep(p.slow/2 + time.Duration(g.r.Int63n(int64(p.slow))))
	}
	for j := 0; j < p.per; j++ {
		if p.idx == 0 && shot == p.cancelAt && j == p.per/2 {
			p.pre.Store(p.seq.Load())
			p.cancel()
		}
		if p.idx == 0 && shot == p.failAt && j == p.per/2 {
			p.pre.Store(p.seq.Load())
			panic("c06: the gun broke")
		}
		ki := g.k
		g.k++
		var s core.Sample
		if p.agg == "phout" {
			var f [10]int64
			for i := range f {
				f[i] = qField(g.id, ki, i)
			}
			s = buildSample(1_700_000_000_000_000_000+int64(ki)*1_000_000, "r"+strconv.Itoa(g.id), uint64(ki), f, "api")
		} else {
			f := make([]int64, 10)
			for i := range f {
				f[i] = qField(g.id, ki, i)
			}
			s = &jsample{R: g.id, K: ki, Tag: "r" + strconv.Itoa(g.id), F: f}
		}
		g.aggr.Report(s)
		sq := p.seq.Add(1)
		p.mu.Lock()
		p.seqOf[[2]int{g.id, ki}] = sq
		p.mu.Unlock()
	}
}

type engSnap struct {
	lines, bad, dup, order, miss, closed, disc int
	dropped                                    int64
	err                                        string
	aggReturned                                bool
}

func (p *engPool) snapshot(pre int64) engSnap {
	var sn engSnap
	sn.aggReturned = p.runDone.Load()
	data, closedOK := p.file().snapshot()
	sn.closed = b2i(closedOK)
	if sn.aggReturned {
		sn.err, sn.dropped = runErrString(p.runErr)
	} else {
		sn.err = "running"
	}
	p.mu.Lock()
	seqOf := make(map[[2]int]int64, len(p.seqOf))
	for k, v := range p.seqOf {
		seqOf[k] = v
	}
	p.mu.Unlock()
	lines := bytes.Split(data, []byte{'\n'})
	if len(lines[len(lines)-1]) != 0 {
		sn.bad++
	}
	lines = lines[:len(lines)-1]
	sn.lines = len(lines)
	seen := map[[2]int]bool{}
	last := map[int]int{}
	sn.order = 1
	for _, l := range lines {
		gi, ki, ok := -1, -1, false
		if p.agg == "phout" {
			gi, ki, ok = decodePhoutQ(string(l))
		} else {
			var js jsample
			dec := json.NewDecoder(bytes.NewReader(l))
			dec.DisallowUnknownFields()
			if json.Valid(l) && dec.Decode(&js) == nil && len(js.F) == 10 && js.Tag == "r"+strconv.Itoa(js.R) {
				ok = true
				for i, v := range js.F {
					if v != qField(js.R, js.K, i) {
						ok = false
					}
				}
				gi, ki = js.R, js.K
			}
		}
		if !ok && isDiscardedLine(p.agg, l) {
			sn.disc++ // reported by the engine itself for an overdue token (instance.Run, discard_overflow)
			continue
		}
		e := [2]int{gi, ki}
		if ok && seqOf[e] == 0 {
			// may be a Report that is still in flight (written, sequence number not yet recorded): only
			// possible while instances are running; the callers snapshot when they are not
			ok = false
		}
		if !ok {
			sn.bad++
			continue
		}
		if seen[e] {
			sn.dup++
			continue
		}
		seen[e] = true
		if l, ok := last[gi]; ok && l >= ki {
			sn.order = 0
		}
		last[gi] = ki
	}
	for e, sq := range seqOf {
		if sq <= pre && !seen[e] {
			sn.miss++
		}
	}
	return sn
}

// isDiscardedLine: the line of netsample.DiscardedShootSample(): phout "<ts>\tdiscarded#0\t0…\t777\t0"; jsonlines
// "{}" (the sample has no exported fields)
func isDiscardedLine(agg string, l []byte) bool {
	if agg != "phout" {
		return string(l) == "{}"
	}
	cols := bytes.Split(l, []byte{'\t'})
	if len(cols) != 12 || string(cols[1]) != "discarded#0" {
		return false
	}
	ts := bytes.Split(cols[0], []byte{'.'})
	if len(ts) != 2 || len(ts[1]) != 3 {
		return false
	}
	for i, c := range cols[2:] {
		want := "0"
		if i == 8 {
			want = "777"
		}
		if string(c) != want {
			return false
		}
	}
	return true
}

func runEngine(kv map[string]string) string {
	agg := kv["agg"]
	pools, inst, ammo, per, q := atoi(kv["pools"]), atoi(kv["inst"]), atoi(kv["ammo"]), atoi(kv["per"]), atoi(kv["q"])
	slow := time.Duration(atoi(kv["slow"])) * time.Microsecond
	cancelAt := atoi(kv["cancel"])
	failAt := 0
	if kv["fail"] != "" {
		failAt = atoi(kv["fail"])
	}
	seed := int64(atoi(kv["seed"]))
	// inst=0 (round 3): a startup schedule without a single token — no instance is ever started, the start result alone
	// has to end the run
	if pools < 1 || inst < 0 || per < 1 || q < 1 {
		return "err=bad-input"
	}
	discMs := atoi(kv["disc"])
	earlyWhat, earlyPool := "", -1
	if e := kv["early"]; e != "" {
		parts := strings.SplitN(e, ":", 2)
		if len(parts) != 2 {
			return "err=bad-input"
		}
		earlyWhat, earlyPool = parts[0], atoi(parts[1])
		if earlyPool >= pools {
			return "err=bad-input"
		}
	}
	shared := atoi(kv["shared"])
	ctx, cancel := context.WithCancel(context.Background())
	defer cancel()
	var seq, pre atomic.Int64
	pre.Store(-1)
	var ps []*engPool
	conf := engine.Config{}
	for i := 0; i < pools; i++ {
		p := &engPool{idx: i, agg: agg, per: per, slow: slow, cancelAt: cancelAt, failAt: failAt, cancel: cancel, seq: &seq, pre: &pre,
			seqOf: map[[2]int]int64{}}
		switch agg {
		case "phout":
			fs := newTrackFs()
			c := netsample.DefaultPhoutConfig()
			c.Destination = "phout.log"
			c.ID = true
			c.SampleQueueSize = q
			a, err := netsample.NewPhout(fs, c)
			if err != nil {
				return "err=new:" + drv_clean(err.Error())
			}
			p.file = func() *trackFile { return fs.file }
			p.real = netsample.WrapAggregator(a)
		case "jsonlines":
			tf := &trackFile{}
			p.file = func() *trackFile { return tf }
			c := aggregator.DefaultJSONLinesAggregatorConfig()
			c.Sink = &memSink{tf}
			c.ReporterConfig.SampleQueueSize = q
			p.real = aggregator.NewJSONLinesAggregator(c)
		default:
			return "err=unknown-aggregator"
		}
		ps = append(ps, p)
		pp := p
		if i == earlyPool {
			p.early = earlyWhat
		}
		perInstance := true
		newSchedule := func() (core.Schedule, error) {
			if discMs > 0 {
				sc := schedule.NewConst(200, time.Hour)
				sc.Start(time.Now().Add(-time.Duration(discMs) * time.Millisecond))
				return sc, nil
			}
			return schedule.NewUnlimited(time.Hour), nil
		}
		if shared > 0 {
			perInstance = false
			newSchedule = func() (core.Schedule, error) { return schedule.NewOnce(int64(shared)), nil }
		}
		if p.early == "sched" {
			perInstance = false
			newSchedule = func() (core.Schedule, error) { pp.earlyFail(); return nil, errEarly }
		}
		// instances started one by one (startrps > 0): the start result reaches the pool's await loop long
		// after the first instances have finished
		startup := schedule.NewOnce(int64(inst))
		if rps := atoi(kv["startrps"]); rps > 0 {
			startup = schedule.NewConst(float64(rps), time.Duration(float64(inst)/float64(rps)*float64(time.Second)))
		}
		conf.Pools = append(conf.Pools, engine.InstancePoolConfig{
			ID:         fmt.Sprintf("p%d", i),
			Provider:   &engProvider{ch: make(chan core.Ammo), n: ammo},
			Aggregator: engAgg{pp},
			NewGun: func() (core.Gun, error) {
				call := pp.newGuns.Add(1)
				if (pp.early == "warm" && call == 1) || (pp.early == "inst" && call == 2) {
					pp.earlyFail()
					return nil, errEarly
				}
				id := int(pp.guns.Add(1)) - 1
				g := &engGun{p: pp, id: id, r: rand.New(rand.NewSource(seed*131 + int64(pp.idx)*17 + int64(id)))}
				if pp.early == "warmup" && call == 1 {
					return engWarmGun{g}, nil
				}
				g.bindErr = pp.early == "bind" && call == 2
				return g, nil
			},
			RPSPerInstance:  perInstance,
			NewRPSSchedule:  newSchedule,
			StartupSchedule: startup,
			DiscardOverflow: discMs > 0,
		})
	}
	m := engine.Metrics{Request: &monitoring.Counter{}, Response: &monitoring.Counter{},
		InstanceStart: &monitoring.Counter{}, InstanceFinish: &monitoring.Counter{}}
	logger := zap.NewNop()
	if us := atoi(kv["slowlog"]); us > 0 {
		core := zapcore.NewCore(zapcore.NewJSONEncoder(zap.NewProductionEncoderConfig()), zapcore.AddSync(io.Discard), zap.DebugLevel)
		logger = zap.New(core, zap.Hooks(func(e zapcore.Entry) error {
			if e.Message == "Instance run awaited" {
				time.Sleep(time.Duration(us) * time.Microsecond)
			}
			return nil
		}))
	}
	e := engine.New(logger, m, conf)
	resCh := make(chan error, 1)
	go func() { resCh <- e.Run(ctx) }()
	var runErr error
	select {
	case runErr = <-resCh:
	case <-time.After(engineHang):
		return "HANG"
	}
	// natural end: judge what is there the moment Run returned nil
	var snaps []engSnap
	runS := "nil"
	if runErr == nil {
		for _, p := range ps {
			snaps = append(snaps, p.snapshot(seq.Load()))
		}
	} else {
		runS = "other"
		var d *aggregator.SomeSamplesDropped
		switch {
		case runErr == context.Canceled:
			runS = "ctx"
		case errors.As(runErr, &d):
			// the aggregator ended with its drop count; the engine passes that on as the run's error or not,
			// depending on which case of onErrAwaited's select wins
			runS = "dropped"
		case failAt > 0 && strings.Contains(runErr.Error(), "the gun broke"):
			runS = "failed" // the pool whose gun panicked failed, as it must
		case earlyWhat != "" && strings.Contains(runErr.Error(), errEarly.Error()):
			runS = "failed" // the pool that could not start failed, as it must
		}
		// what cli.go does with a failed run: gracefulShutdown(), then Wait
		cancel()
	}
	waited := make(chan struct{})
	go func() { e.Wait(); close(waited) }()
	select {
	case <-waited:
	case <-time.After(engineHang):
		return "HANG-wait run=" + runS
	}
	made := seq.Load()
	preV := pre.Load()
	if preV < 0 {
		preV = made
	}
	notRun := 0
	if runErr != nil {
		for _, p := range ps {
			if (p.early == "warm" || p.early == "warmup" || p.early == "sched") && !p.runCalled.Load() {
				// this pool never got past runAsync: no task of it was started, its aggregator's Run was never called
				// (and nobody can have reported to it)
				notRun++
				continue
			}
			snaps = append(snaps, p.snapshot(preV))
		}
	}
	var tot engSnap
	tot.order, tot.closed = 1, 1
	errS := "nil"
	allRet := true
	for _, s := range snaps {
		tot.lines += s.lines
		tot.disc += s.disc
		tot.bad += s.bad
		tot.dup += s.dup
		tot.miss += s.miss
		tot.dropped += s.dropped
		if s.order == 0 {
			tot.order = 0
		}
		if s.closed == 0 {
			tot.closed = 0
		}
		if !s.aggReturned {
			allRet = false
		}
		want := "nil"
		if s.dropped != 0 {
			want = fmt.Sprintf("dropped:%d", s.dropped)
		}
		if s.err != want {
			errS = s.err
		}
	}
	if errS == "nil" && tot.dropped != 0 {
		errS = fmt.Sprintf("dropped:%d", tot.dropped)
	}
	obs := fmt.Sprintf("run=%s reports=%d pre=%d lines=%d dropped=%d err=%s order=%d dup=%d bad=%d closed=%d miss=%d aggret=%d",
		runS, made, preV, tot.lines-tot.disc, tot.dropped, errS, tot.order, tot.dup, tot.bad, tot.closed, tot.miss, b2i(allRet))
	if earlyWhat != "" {
		obs += fmt.Sprintf(" notrun=%d", notRun)
	}
	if discMs > 0 {
		var shots int64
		for _, p := range ps {
			shots += p.shots.Load()
		}
		obs += fmt.Sprintf(" disc=%d wantdisc=%d", tot.disc, int64(pools*ammo)-shots)
	} else if tot.disc != 0 {
		obs += fmt.Sprintf(" disc=%d wantdisc=0", tot.disc)
	}
	return obs
}

var _ io.Writer = (*trackFile)(nil)
