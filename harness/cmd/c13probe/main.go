package main

import (
	"fmt"
	"os"
	"runtime/debug"

	"github.com/spf13/afero"
	grpcimport "github.com/yandex/pandora/components/grpc/import"
	phttpimport "github.com/yandex/pandora/components/phttp/import"
	"github.com/yandex/pandora/components/providers/scenario"
	scnhttp "github.com/yandex/pandora/components/providers/scenario/http"
	coreimport "github.com/yandex/pandora/core/import"
)

func main() {
	fs := afero.NewMemMapFs()
	coreimport.Import(fs)
	phttpimport.Import(fs)
	grpcimport.Import(fs)
	for _, payload := range os.Args[1:] {
		func() {
			defer func() {
				if r := recover(); r != nil {
					fmt.Printf("PANIC %v\n%s\n", r, debug.Stack())
				}
			}()
			_ = afero.WriteFile(fs, "/p.yaml", []byte(payload), 0o644)
			_, err := scnhttp.NewProvider(fs, scenario.ProviderConfig{File: "/p.yaml", Passes: 1})
			fmt.Printf("%q -> err=%v\n", payload, err)
		}()
	}
}
