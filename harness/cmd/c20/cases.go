package main

import (
	"encoding/json"
	"fmt"
	"os"
	"os/exec"
	"sort"
	"strconv"
	"strings"
	"time"

	grpcgun "github.com/yandex/pandora/components/guns/grpc"
	"gopkg.in/yaml.v2"
	"verifharness/c20lib"
	"verifharness/drv"
)

// ---------------------------------------------------------------- parsing

func splitNE(s, sep string) []string {
	if s == "" {
		return nil
	}
	return strings.Split(s, sep)
}

type kvp struct{ k, v string }

func parsePairs(s string) []kvp {
	var out []kvp
	for _, p := range splitNE(s, ",") {
		k, v, _ := strings.Cut(p, ":")
		out = append(out, kvp{k, v})
	}
	return out
}

// valJSON renders a payload value token as JSON text (after template expansion by expand, if any).
func valJSON(tok string, expand func(string) string) string {
	kind, body, _ := strings.Cut(tok, ".")
	if expand == nil {
		expand = func(s string) string { return s }
	}
	switch kind {
	case "s":
		b, _ := json.Marshal(c20lib.Dec(body))
		// template placeholders must survive JSON quoting untouched
		return expandQuoted(string(b), expand)
	case "n", "f":
		return expand(c20lib.Dec(body))
	case "b":
		return body
	case "z":
		return "null"
	case "o":
		return "{}"
	case "l":
		return "[]"
	}
	return "null"
}

func expandQuoted(quoted string, expand func(string) string) string { return expand(quoted) }

// gunTimeout: the gun's `timeout` option; tmoms (milliseconds) takes precedence over tmo (seconds); 0 / absent =
// option not written (the gun's default applies).
func gunTimeout(kv map[string]string) string {
	if ms := kv["tmoms"]; ms != "" && ms != "0" {
		return ms + "ms"
	}
	if tmo := kv["tmo"]; tmo != "" && tmo != "0" {
		return tmo + "s"
	}
	return ""
}

// ---------------------------------------------------------------- mode=json

// jsonAmmoFile writes one JSON line per entry. With omitEmpty an entry without metadata / payload has no such key at
// all (the way hand-written ammo looks), otherwise it has an empty object.
func jsonAmmoFile(entries string, omitEmpty bool) string {
	var b strings.Builder
	for _, e := range splitNE(entries, ";") {
		parts := strings.Split(e, "|")
		for len(parts) < 4 {
			parts = append(parts, "")
		}
		var md, pl []string
		for _, p := range parsePairs(parts[2]) {
			k, _ := json.Marshal(c20lib.Dec(p.k))
			v, _ := json.Marshal(c20lib.Dec(p.v))
			md = append(md, string(k)+":"+string(v))
		}
		for _, p := range parsePairs(parts[3]) {
			k, _ := json.Marshal(c20lib.Dec(p.k))
			pl = append(pl, string(k)+":"+valJSON(p.v, nil))
		}
		tag, _ := json.Marshal(c20lib.Dec(parts[0]))
		call, _ := json.Marshal(c20lib.Dec(parts[1]))
		fmt.Fprintf(&b, `{"tag":%s,"call":%s`, tag, call)
		if len(md) > 0 || !omitEmpty {
			fmt.Fprintf(&b, `,"metadata":{%s}`, strings.Join(md, ","))
		}
		if len(pl) > 0 || !omitEmpty {
			fmt.Fprintf(&b, `,"payload":{%s}`, strings.Join(pl, ","))
		}
		b.WriteString("}\n")
	}
	return b.String()
}

func gunSection(kind, addr string, kv map[string]string) map[string]any {
	g := map[string]any{"type": kind, "target": addr}
	if t := gunTimeout(kv); t != "" {
		g["timeout"] = t
	}
	if sc, _ := strconv.Atoi(kv["sc"]); sc > 0 && kind == "grpc" {
		g["shared-client"] = map[string]any{"enabled": true, "client-number": sc}
	}
	return g
}

func poolYAML(gun, ammo map[string]any, rps map[string]any, n int) string {
	pool := map[string]any{
		"id":      "P",
		"gun":     gun,
		"ammo":    ammo,
		"result":  map[string]any{"type": "discard"},
		"rps":     []any{rps},
		"startup": map[string]any{"type": "once", "times": n},
	}
	b, _ := yaml.Marshal(map[string]any{"pools": []any{pool}, "log": map[string]any{"level": "error"}})
	return string(b)
}

func runJSON(kv map[string]string) string {
	if kv["run"] == "sched" {
		return runJSONSched(kv)
	}
	srv, err := c20lib.StartServer()
	if err != nil {
		return "ENV " + c20lib.Enc(err.Error())
	}
	defer srv.Stop()
	n, _ := strconv.Atoi(kv["n"])
	if n < 1 {
		n = 1
	}
	file := c20lib.WriteFile(".jsonl", jsonAmmoFile(kv["e"], kv["oe"] == "1"))
	y := poolYAML(gunSection("grpc", srv.Addr, kv),
		map[string]any{"type": "grpc/json", "file": file, "passes": 1},
		map[string]any{"type": "unlimited", "duration": "120s"}, n)
	aggr := &c20lib.Aggr{}
	res := c20lib.RunEngine(y, aggr, 60*time.Second)
	return fmt.Sprintf("run=%s calls=%s samples=%s", orDash(res), orDash(c20lib.SortedCalls(srv.Calls())), orDash(c20lib.SortedSamples(aggr.Samples())))
}

// runJSONSched: the real grpc/json provider and n real guns (made, warmed up and bound the way the instance pool
// does it), entry k fired by instance sched[k], one at a time by one goroutine. Observation: the trace shot by shot
// and the number of distinct connections the calls arrived on.
func runJSONSched(kv map[string]string) string {
	srv, err := c20lib.StartServer()
	if err != nil {
		return "ENV " + c20lib.Enc(err.Error())
	}
	defer srv.Stop()
	n, _ := strconv.Atoi(kv["n"])
	if n < 1 {
		n = 1
	}
	file := c20lib.WriteFile(".jsonl", jsonAmmoFile(kv["e"], kv["oe"] == "1"))
	y := poolYAML(gunSection("grpc", srv.Addr, kv),
		map[string]any{"type": "grpc/json", "file": file, "passes": 1},
		map[string]any{"type": "once", "times": 1}, n)
	m, err := c20lib.NewManual(y, n)
	if err != nil {
		return "setup=" + c20lib.Enc(c20lib.Trunc(err.Error(), 160))
	}
	defer m.Close()
	var shots []string
	for _, ch := range kv["sched"] {
		i := int(ch - '0')
		if i < 0 || i >= n {
			return "ENV bad sched"
		}
		c0, s0 := len(srv.Calls()), len(m.Aggr.Samples())
		a, ok, hang := m.Acquire(15 * time.Second)
		if hang {
			shots = append(shots, "acquire-hang")
			break
		}
		if !ok {
			shots = append(shots, "out-of-ammo")
			break
		}
		m.Guns[i].Shoot(a)
		m.Provider.Release(a)
		var cs, ss []string
		for _, c := range srv.Calls()[c0:] {
			cs = append(cs, c20lib.CallText(c))
		}
		for _, s := range m.Aggr.Samples()[s0:] {
			ss = append(ss, c20lib.SampleText(s))
		}
		shots = append(shots, fmt.Sprintf("%d#%s#%s", i, orDash(strings.Join(cs, "+")), orDash(strings.Join(ss, "+"))))
	}
	return "t=" + strings.Join(shots, ";") + " conns=" + strconv.Itoa(c20lib.DistinctPeers(srv.Calls()))
}

func orDash(s string) string {
	if s == "" {
		return "-"
	}
	return s
}

// ---------------------------------------------------------------- mode=table

func runTable(kv map[string]string) string {
	srv, err := c20lib.StartServer()
	if err != nil {
		return "ENV " + c20lib.Enc(err.Error())
	}
	defer srv.Stop()
	file := c20lib.WriteFile(".jsonl", jsonAmmoFile("t|target.TargetService.Stats||", false))
	y := poolYAML(gunSection("grpc", srv.Addr, kv), map[string]any{"type": "grpc/json", "file": file, "passes": 1},
		map[string]any{"type": "once", "times": 1}, 1)
	m, err := c20lib.NewManual(y, 1)
	if err != nil {
		return "setup=" + c20lib.Enc(c20lib.Trunc(err.Error(), 160))
	}
	defer m.Close()
	g, ok := m.Guns[0].(*grpcgun.Gun)
	if !ok {
		return fmt.Sprintf("setup=gun-type-%T", m.Guns[0])
	}
	var rows []string
	for name, md := range g.Services {
		if strings.HasPrefix(name, "grpc.reflection.") {
			continue
		}
		in := md.GetInputType()
		var fs []string
		for _, f := range in.GetFields() {
			fs = append(fs, fmt.Sprintf("%s/%s/%s", f.GetName(), f.GetJSONName(), strings.ToLower(strings.TrimPrefix(f.GetType().String(), "TYPE_"))))
		}
		rows = append(rows, name+"="+strings.Join(fs, ","))
	}
	sort.Strings(rows)
	return "table=" + strings.Join(rows, ";")
}

// ---------------------------------------------------------------- mode=scen

// tmplGo turns the mini template syntax into text/template syntax for the call named callName.
func tmplGo(s, callName string) string {
	r := strings.NewReplacer(
		"{U}", "{{.request."+callName+".preprocessor.u.login}}",
		"{A}", "{{.request.auth.postprocessor.token}}",
		"{I}", "{{.request.auth.postprocessor.userId}}",
		"{G}", "{{.source.global.g}}",
	)
	return r.Replace(s)
}

func scenAmmoFile(kv map[string]string) string {
	usersCSV := "login,pass\n"
	for _, u := range splitNE(kv["users"], ",") {
		usersCSV += c20lib.Dec(u) + "," + c20lib.Dec(u) + "\n"
	}
	usersFile := c20lib.WriteFile(".csv", usersCSV)
	cfg := map[string]any{
		"variable_sources": []any{
			map[string]any{"name": "users", "type": "file/csv", "file": usersFile, "fields": []string{"login", "pass"},
				"ignore_first_line": true, "delimiter": ","},
			map[string]any{"name": "global", "type": "variables", "variables": map[string]any{"g": c20lib.Dec(kv["g"])}},
		},
	}
	var calls []any
	for _, c := range splitNE(kv["calls"], ";") {
		p := strings.Split(c, "|")
		for len(p) < 5 {
			p = append(p, "")
		}
		name := p[0]
		md := map[string]string{}
		for _, q := range parsePairs(p[2]) {
			md[c20lib.Dec(q.k)] = tmplGo(c20lib.Dec(q.v), name)
		}
		var pl []string
		for _, q := range parsePairs(p[3]) {
			k, _ := json.Marshal(c20lib.Dec(q.k))
			pl = append(pl, string(k)+":"+valJSON(q.v, func(s string) string { return tmplGo(s, name) }))
		}
		call := map[string]any{"name": name, "tag": "t" + name, "call": c20lib.Dec(p[1]), "payload": "{" + strings.Join(pl, ",") + "}"}
		if len(md) > 0 {
			call["metadata"] = md
		}
		if p[4] == "u" {
			call["preprocessors"] = []any{map[string]any{"type": "prepare", "mapping": map[string]string{"u": "source.users[next]"}}}
		}
		calls = append(calls, call)
	}
	cfg["calls"] = calls
	var scns []any
	for _, s := range splitNE(kv["scns"], ";") {
		p := strings.Split(s, ":")
		for len(p) < 3 {
			p = append(p, "")
		}
		w, _ := strconv.Atoi(p[1])
		var reqs []string
		for _, r := range splitNE(p[2], "+") {
			// sleep<ms>: the scenario's sleep(ms) pseudo request (time only, nothing on the wire)
			if ms, isSleep := strings.CutPrefix(r, "sleep"); isSleep && ms != "" && strings.Trim(ms, "0123456789") == "" {
				reqs = append(reqs, "sleep("+ms+")")
				continue
			}
			name, cnt, has := strings.Cut(r, "*")
			if has {
				reqs = append(reqs, name+"("+cnt+")")
			} else {
				reqs = append(reqs, name)
			}
		}
		scns = append(scns, map[string]any{"name": p[0], "weight": w, "requests": reqs})
	}
	cfg["scenarios"] = scns
	b, _ := yaml.Marshal(cfg)
	return c20lib.WriteFile(".yaml", string(b))
}

func scenPool(kv map[string]string, addr string, rps map[string]any, n int) string {
	return poolYAML(gunSection("grpc/scenario", addr, kv), map[string]any{"type": "grpc/scenario", "file": scenAmmoFile(kv)}, rps, n)
}

func runScenSched(kv map[string]string) string {
	srv, err := c20lib.StartServer()
	if err != nil {
		return "ENV " + c20lib.Enc(err.Error())
	}
	defer srv.Stop()
	n, _ := strconv.Atoi(kv["n"])
	if n < 1 {
		n = 1
	}
	m, err := c20lib.NewManual(scenPool(kv, srv.Addr, map[string]any{"type": "once", "times": 1}, n), n)
	if err != nil {
		return "setup=" + c20lib.Enc(c20lib.Trunc(err.Error(), 160))
	}
	defer m.Close()
	var shots []string
	for _, ch := range kv["sched"] {
		i := int(ch - '0')
		if i < 0 || i >= n {
			return "ENV bad sched"
		}
		c0, s0 := len(srv.Calls()), len(m.Aggr.Samples())
		a, ok, hang := m.Acquire(15 * time.Second)
		if hang {
			shots = append(shots, "acquire-hang")
			break
		}
		if !ok {
			shots = append(shots, "out-of-ammo")
			break
		}
		m.Guns[i].Shoot(a)
		m.Provider.Release(a)
		var cs, ss []string
		for _, c := range srv.Calls()[c0:] {
			cs = append(cs, c20lib.CallText(c))
		}
		for _, s := range m.Aggr.Samples()[s0:] {
			ss = append(ss, c20lib.SampleText(s))
		}
		shots = append(shots, fmt.Sprintf("%d#%s#%s", i, orDash(strings.Join(cs, "+")), orDash(strings.Join(ss, "+"))))
	}
	return "t=" + strings.Join(shots, ";")
}

func runScenEngineInProc(kv map[string]string) string {
	srv, err := c20lib.StartServer()
	if err != nil {
		return "ENV " + c20lib.Enc(err.Error())
	}
	defer srv.Stop()
	n, _ := strconv.Atoi(kv["n"])
	if n < 1 {
		n = 1
	}
	k, _ := strconv.Atoi(kv["shots"])
	aggr := &c20lib.Aggr{}
	res := c20lib.RunEngine(scenPool(kv, srv.Addr, map[string]any{"type": "once", "times": k}, n), aggr, 60*time.Second)
	return fmt.Sprintf("run=%s calls=%s samples=%s", orDash(res), orDash(c20lib.SortedCalls(srv.Calls())), orDash(c20lib.SortedSamples(aggr.Samples())))
}

// ---------------------------------------------------------------- child process (fatal runtime errors)

const childEnv = "VERIF_C20_CHILD"

func childMain() bool {
	in := os.Getenv(childEnv)
	if in == "" {
		return false
	}
	fmt.Println("OBS " + runScenEngineInProc(drv.KV(in)))
	return true
}

func runInChild(input string) string {
	cmd := exec.Command(os.Args[0])
	cmd.Env = append(os.Environ(), childEnv+"="+input, "GORACE=halt_on_error=0 exitcode=0")
	done := make(chan struct{})
	var out []byte
	var err error
	go func() { out, err = cmd.CombinedOutput(); close(done) }()
	select {
	case <-done:
	case <-time.After(90 * time.Second):
		_ = cmd.Process.Kill()
		<-done
		return "HANG"
	}
	text := string(out)
	for _, l := range strings.Split(text, "\n") {
		if strings.HasPrefix(l, "OBS ") {
			return strings.TrimPrefix(l, "OBS ")
		}
	}
	switch {
	case strings.Contains(text, "concurrent map writes"):
		return "FATAL concurrent-map-writes"
	case strings.Contains(text, "concurrent map iteration and map write"):
		return "FATAL concurrent-map-iteration-and-write"
	case strings.Contains(text, "concurrent map read and map write"):
		return "FATAL concurrent-map-read-and-write"
	case strings.Contains(text, "fatal error:"):
		i := strings.Index(text, "fatal error:")
		return "FATAL " + c20lib.Enc(c20lib.Trunc(strings.SplitN(text[i:], "\n", 2)[0], 100))
	}
	_ = err
	return "CHILD-FAILED " + c20lib.Enc(c20lib.Trunc(text, 200))
}

// ---------------------------------------------------------------- dispatch

func run(input string) string {
	kv := drv.KV(input)
	switch kv["mode"] {
	case "json":
		return runJSON(kv)
	case "table":
		return runTable(kv)
	case "scen":
		if kv["run"] == "engine" {
			return runInChild(input)
		}
		return runScenSched(kv)
	}
	return "ENV unknown mode"
}

func class(input, obs string) string {
	kv := drv.KV(input)
	if strings.HasPrefix(obs, "ENV") {
		return ""
	}
	c := kv["mode"]
	switch kv["mode"] {
	case "json":
		if kv["run"] == "sched" {
			c += "/sched"
		}
		if len(strings.Split(kv["e"], ";")) > 130 {
			c += "/long"
		}
		c += "/n" + kv["n"]
		if kv["sc"] != "" && kv["sc"] != "0" {
			c += "/shared"
		}
		if strings.Contains(obs, "/0") {
			c += "/unknown-method"
		}
		if strings.Contains(obs, "/400") {
			c += "/400"
		}
	case "scen":
		c += "/" + kv["run"] + "/n" + kv["n"]
		if strings.Contains(kv["scns"], "sleep") {
			c += "/sleeps"
		}
		if strings.Contains(kv["calls"], "{U}") || strings.Contains(kv["calls"], "{A}") {
			c += "/templated-md"
		}
	}
	return c
}
