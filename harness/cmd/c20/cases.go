package main

import (
	"encoding/json"
	"fmt"
	"os"
	"os/exec"
	"regexp"
	"sort"
	"strconv"
	"strings"
	"sync/atomic"
	"time"

	grpcgun "github.com/yandex/pandora/components/guns/grpc"
	"github.com/yandex/pandora/core"
	"gopkg.in/yaml.v2"
	"verifharness/c20lib"
	"verifharness/drv"
)

// ---------------------------------------------------------------- parsing

func splitNE(s, sep string) []string {
	if s == "" {
		return nil
	}
	return strings.Split(s, sep)
}

type kvp struct{ k, v string }

func parsePairs(s string) []kvp {
	var out []kvp
	for _, p := range splitNE(s, ",") {
		k, v, _ := strings.Cut(p, ":")
		out = append(out, kvp{k, v})
	}
	return out
}

// valJSON renders a payload value token as JSON text (after template expansion by expand, if any).
func valJSON(tok string, expand func(string) string) string {
	kind, body, _ := strings.Cut(tok, ".")
	if expand == nil {
		expand = func(s string) string { return s }
	}
	switch kind {
	case "s":
		b, _ := json.Marshal(c20lib.Dec(body))
		// template placeholders must survive JSON quoting untouched
		return expandQuoted(string(b), expand)
	case "n", "f":
		return expand(c20lib.Dec(body))
	case "b":
		return body
	case "z":
		return "null"
	case "o":
		return "{}"
	case "l":
		return "[]"
	}
	return "null"
}

func expandQuoted(quoted string, expand func(string) string) string { return expand(quoted) }

// gunTimeout: the gun's `timeout` option; tmoms (milliseconds) takes precedence over tmo (seconds); 0 / absent =
// option not written (the gun's default applies).
func gunTimeout(kv map[string]string) string {
	if ms := kv["tmoms"]; ms != "" && ms != "0" {
		return ms + "ms"
	}
	if tmo := kv["tmo"]; tmo != "" && tmo != "0" {
		return tmo + "s"
	}
	return ""
}

// ---------------------------------------------------------------- mode=json

// jsonAmmoFile writes one JSON line per entry. With omitEmpty an entry without metadata / payload has no such key at
// all (the way hand-written ammo looks), otherwise it has an empty object.
func jsonAmmoFile(entries string, omitEmpty bool) string {
	var b strings.Builder
	for _, e := range splitNE(entries, ";") {
		if strings.HasPrefix(e, "!") {
			b.WriteString(malformedLine(e[1:]) + "\n")
			continue
		}
		parts := strings.Split(e, "|")
		for len(parts) < 4 {
			parts = append(parts, "")
		}
		var md, pl []string
		for _, p := range parsePairs(parts[2]) {
			k, _ := json.Marshal(c20lib.Dec(p.k))
			v, _ := json.Marshal(c20lib.Dec(p.v))
			md = append(md, string(k)+":"+string(v))
		}
		for _, p := range parsePairs(parts[3]) {
			k, _ := json.Marshal(c20lib.Dec(p.k))
			pl = append(pl, string(k)+":"+valJSON(p.v, nil))
		}
		tag, _ := json.Marshal(c20lib.Dec(parts[0]))
		call, _ := json.Marshal(c20lib.Dec(parts[1]))
		fmt.Fprintf(&b, `{"tag":%s,"call":%s`, tag, call)
		if len(md) > 0 || !omitEmpty {
			fmt.Fprintf(&b, `,"metadata":{%s}`, strings.Join(md, ","))
		}
		if len(pl) > 0 || !omitEmpty {
			fmt.Fprintf(&b, `,"payload":{%s}`, strings.Join(pl, ","))
		}
		b.WriteString("}\n")
	}
	return b.String()
}

// malformedLine: the entry !<k>: a line of the ammo file that cannot be decoded into an ammo (k = which way). With the
// provider's continueonerror option such a line must cost one failed sample and nothing else; without it the provider
// stops there.
func malformedLine(k string) string {
	switch k {
	case "1":
		return `{"tag":"bad1","call":"target.TargetService.Hello","payload":"not a map"}`
	case "2":
		return `{"tag":"bad2","call":"target.TargetService.Hello","metadata":{"k":5},"payload":{"name":"x"}}`
	case "3":
		return `{"tag":"bad3","call":`
	case "4":
		return `["tag","bad4"]`
	case "5":
		return `{"tag":5,"call":"target.TargetService.Hello","payload":{"name":"x"}}`
	case "6":
		return `{"tag":"bad6","call":"target.TargetService.Hello","payload":{"name":"x"}} trailing`
	case "7":
		return `{"tag":"bad7","call":"target.TargetService.Hello","payload":{"name":"x"},"metadata":["a"]}`
	}
	return "this is not json"
}

// providerSection: the grpc/json provider's options: pas = passes (default 1; 0 = unlimited), lim = limit, cc = chosen
// cases (tags), coe=1 = continueonerror, mas = maxammosize.
func providerSection(file string, kv map[string]string) map[string]any {
	a := map[string]any{"type": "grpc/json", "file": file, "passes": 1}
	if kv["src"] == "1" {
		// the file named the other way the provider accepts: source: {type: file, path: …}
		delete(a, "file")
		a["source"] = map[string]any{"type": "file", "path": file}
	}
	if v, ok := kv["pas"]; ok {
		if v == "d" {
			// passes not written at all: the provider's default (unlimited; a limit must end the run)
			delete(a, "passes")
		} else {
			n, _ := strconv.Atoi(v)
			a["passes"] = n
		}
	}
	if v, _ := strconv.Atoi(kv["lim"]); v > 0 {
		a["limit"] = v
	}
	if cc := splitNE(kv["cc"], ","); len(cc) > 0 {
		var tags []string
		for _, t := range cc {
			tags = append(tags, c20lib.Dec(t))
		}
		a["chosencases"] = tags
	}
	if kv["coe"] == "1" {
		a["continueonerror"] = true
	}
	if v, _ := strconv.Atoi(kv["mas"]); v > 0 {
		a["maxammosize"] = v
	}
	return a
}

// env is what one case shoots at: the target (the example service behind the recorder) and, with rp=1, a SEPARATE
// reflection endpoint on another port (the gun's reflect_port option). With rp=1 the target does not serve the
// reflection API at all (a gun that asks the target for descriptors fails its warm-up), and the reflection endpoint
// implements the service too, behind its own recorder, so that calls sent to the wrong endpoint are seen ("stray").
// rmd=1: the reflection API demands the metadata the gun is configured to send with reflection requests
// (reflect_metadata); it must not appear on the calls to the target.
type env struct {
	target, refl *c20lib.Server
	rmd          bool
	tf           string
}

// targetText: the gun's target option. tf selects the way the same endpoint is written: (default) 127.0.0.1:<port>;
// 1 localhost:<port>; 2 dns:///127.0.0.1:<port>; 3 passthrough:///127.0.0.1:<port>; 6 [::1]:<port> (the servers listen
// on the IPv6 loopback); b 127.0.0.1 and c [::1] WITHOUT a port (only the reflection endpoint can then be reached,
// through reflect_port: mode=table). What replacePort makes of each form is part of the model.
func (e *env) targetText() string {
	port := strconv.Itoa(portOf(e.target.Addr))
	switch e.tf {
	case "1":
		return "localhost:" + port
	case "2":
		return "dns:///127.0.0.1:" + port
	case "3":
		return "passthrough:///127.0.0.1:" + port
	case "6":
		return "[::1]:" + port
	case "b":
		return "127.0.0.1"
	case "c":
		return "[::1]"
	}
	return e.target.Addr
}

func portOf(addr string) int {
	i := strings.LastIndex(addr, ":")
	p, _ := strconv.Atoi(addr[i+1:])
	return p
}

var reflectMD = map[string]string{"x-refl": "secret-7", "x-refl-b": "two words"}

func startEnv(kv map[string]string) (*env, error) {
	e := &env{rmd: kv["rmd"] == "1", tf: kv["tf"]}
	var need map[string]string
	if e.rmd {
		need = reflectMD
	}
	host := ""
	if e.tf == "6" || e.tf == "c" {
		host = "[::1]"
	}
	// ghost=1: whoever serves the reflection API also lists a service nobody can resolve (it sorts first)
	ghost := kv["ghost"] == "1"
	var err error
	if kv["rp"] == "1" {
		if e.target, err = c20lib.StartServerWith(c20lib.ServerOpts{NoReflection: true, Host: host}); err != nil {
			return nil, err
		}
		if e.refl, err = c20lib.StartServerWith(c20lib.ServerOpts{ReflectMD: need, Ghost: ghost, Host: host}); err != nil {
			e.target.Stop()
			return nil, err
		}
		return e, nil
	}
	e.target, err = c20lib.StartServerWith(c20lib.ServerOpts{ReflectMD: need, Ghost: ghost, Host: host})
	return e, err
}

func (e *env) stop() {
	e.target.Stop()
	if e.refl != nil {
		e.refl.Stop()
	}
}

// stray: with a separate reflection endpoint, the number of service calls IT received (must be none).
func (e *env) stray() string {
	if e.refl == nil {
		return ""
	}
	return " stray=" + strconv.Itoa(len(e.refl.Calls()))
}

func gunSection(kind string, e *env, kv map[string]string) map[string]any {
	g := map[string]any{"type": kind, "target": e.targetText()}
	// dto=<ms>: the DIAL timeout (dial_options.timeout) is configured: it must not leak into the per-call timeout
	if dto := kv["dto"]; dto != "" && dto != "0" {
		g["dial_options"] = map[string]any{"timeout": dto + "ms"}
	}
	if t := gunTimeout(kv); t != "" {
		g["timeout"] = t
	}
	if sc, _ := strconv.Atoi(kv["sc"]); (sc > 0 || kv["sce"] == "1") && kind == "grpc" {
		// sce=1: the shared client pool is enabled whatever client-number says (0 and negative numbers mean one client)
		g["shared-client"] = map[string]any{"enabled": true, "client-number": sc}
	}
	if e.refl != nil {
		g["reflect_port"] = portOf(e.refl.Addr)
	}
	if e.rmd {
		g["reflect_metadata"] = reflectMD
	}
	return g
}

func poolYAML(gun, ammo map[string]any, rps map[string]any, n int) string {
	pool := map[string]any{
		"id":      "P",
		"gun":     gun,
		"ammo":    ammo,
		"result":  map[string]any{"type": "discard"},
		"rps":     []any{rps},
		"startup": map[string]any{"type": "once", "times": n},
	}
	b, _ := yaml.Marshal(map[string]any{"pools": []any{pool}, "log": map[string]any{"level": "error"}})
	return string(b)
}

func runJSON(kv map[string]string) string {
	if kv["run"] == "sched" {
		return runJSONSched(kv)
	}
	e, err := startEnv(kv)
	if err != nil {
		return "ENV " + c20lib.Enc(err.Error())
	}
	defer e.stop()
	srv := e.target
	n, _ := strconv.Atoi(kv["n"])
	if n < 1 {
		n = 1
	}
	file := c20lib.WriteFile(".jsonl", jsonAmmoFile(kv["e"], kv["oe"] == "1"))
	y := poolYAML(gunSection("grpc", e, kv), providerSection(file, kv),
		map[string]any{"type": "unlimited", "duration": "120s"}, n)
	aggr := &c20lib.Aggr{}
	res := c20lib.RunEngineWith(y, aggr, 60*time.Second, dirtyPrep(kv))
	return fmt.Sprintf("run=%s calls=%s samples=%s", orDash(res), orDash(c20lib.SortedCalls(srv.Calls())), orDash(c20lib.SortedSamples(aggr.Samples()))) + e.stray()
}

// runJSONSched: the real grpc/json provider and n real guns (made, warmed up and bound the way the instance pool
// does it), entry k fired by instance sched[k], one at a time by one goroutine. Observation: the trace shot by shot
// and the number of distinct connections the calls arrived on.
func runJSONSched(kv map[string]string) string {
	e, err := startEnv(kv)
	if err != nil {
		return "ENV " + c20lib.Enc(err.Error())
	}
	defer e.stop()
	srv := e.target
	n, _ := strconv.Atoi(kv["n"])
	if n < 1 {
		n = 1
	}
	file := c20lib.WriteFile(".jsonl", jsonAmmoFile(kv["e"], kv["oe"] == "1"))
	y := poolYAML(gunSection("grpc", e, kv), providerSection(file, kv),
		map[string]any{"type": "once", "times": 1}, n)
	m, err := c20lib.NewManualWith(y, n, dirtyPrep(kv))
	if err != nil {
		return "setup=" + c20lib.Enc(c20lib.Trunc(err.Error(), 160))
	}
	defer m.Close()
	var shots []string
	for _, ch := range kv["sched"] {
		i := int(ch - '0')
		if i < 0 || i >= n {
			return "ENV bad sched"
		}
		c0, s0 := len(srv.Calls()), len(m.Aggr.Samples())
		a, ok, hang := m.Acquire(15 * time.Second)
		if hang {
			shots = append(shots, "acquire-hang")
			break
		}
		if !ok {
			shots = append(shots, "out-of-ammo")
			break
		}
		m.Guns[i].Shoot(a)
		m.Provider.Release(a)
		var cs, ss []string
		for _, c := range srv.Calls()[c0:] {
			cs = append(cs, c20lib.CallText(c))
		}
		for _, s := range m.Aggr.Samples()[s0:] {
			ss = append(ss, c20lib.SampleText(s))
		}
		shots = append(shots, fmt.Sprintf("%d#%s#%s", i, orDash(strings.Join(cs, "+")), orDash(strings.Join(ss, "+"))))
	}
	perr := ""
	if len(shots) > 0 && shots[len(shots)-1] == "out-of-ammo" {
		// the provider has ended: how
		perr = " perr=" + m.ProviderEnd(10*time.Second)
	}
	return "t=" + strings.Join(shots, ";") + " conns=" + strconv.Itoa(c20lib.DistinctPeers(srv.Calls())) + perr + e.stray()
}

// dirtyPrep: dirty=<k>: the provider's sync.Pool holds k used ammo objects (rich earlier entries, every other one flagged
// invalid) before the provider starts: what Get returns is up to the pool, a line must be delivered as the line says.
func dirtyPrep(kv map[string]string) func(core.Provider) {
	k, _ := strconv.Atoi(kv["dirty"])
	if k <= 0 {
		return nil
	}
	return c20lib.DirtyPool(k)
}

func orDash(s string) string {
	if s == "" {
		return "-"
	}
	return s
}

// ---------------------------------------------------------------- mode=table

func runTable(kv map[string]string) string {
	e, err := startEnv(kv)
	if err != nil {
		return "ENV " + c20lib.Enc(err.Error())
	}
	defer e.stop()
	file := c20lib.WriteFile(".jsonl", jsonAmmoFile("t|target.TargetService.Stats||", false))
	y := poolYAML(gunSection("grpc", e, kv), map[string]any{"type": "grpc/json", "file": file, "passes": 1},
		map[string]any{"type": "once", "times": 1}, 1)
	m, err := c20lib.NewManual(y, 1)
	if err != nil {
		return "setup=" + c20lib.Enc(c20lib.Trunc(err.Error(), 160))
	}
	defer m.Close()
	g, ok := m.Guns[0].(*grpcgun.Gun)
	if !ok {
		return fmt.Sprintf("setup=gun-type-%T", m.Guns[0])
	}
	var rows []string
	for name, md := range g.Services {
		if strings.HasPrefix(name, "grpc.reflection.") {
			continue
		}
		in := md.GetInputType()
		var fs []string
		for _, f := range in.GetFields() {
			fs = append(fs, fmt.Sprintf("%s/%s/%s", f.GetName(), f.GetJSONName(), strings.ToLower(strings.TrimPrefix(f.GetType().String(), "TYPE_"))))
		}
		rows = append(rows, name+"="+strings.Join(fs, ","))
	}
	sort.Strings(rows)
	return "table=" + strings.Join(rows, ";")
}

// ---------------------------------------------------------------- mode=scen

// tmplExpr: what a placeholder letter stands for, as a text/template expression. U A I G are variables; R S X are
// calls of the template functions pandora registers (components/providers/scenario/templater): randInt 7 8 has one
// possible result (7), randString 3 "z" is zzz, uuid is a random version-4 UUID (printed as UUID by canonUUID).
func tmplExpr(letter byte, callName string) string {
	switch letter {
	case 'U':
		return ".request." + callName + ".preprocessor.u.login"
	case 'A':
		return ".request.auth.postprocessor.token"
	case 'I':
		return ".request.auth.postprocessor.userId"
	case 'G':
		return ".source.global.g"
	case 'M':
		// a NUMBER of the variables source (written as a YAML number, not as a text)
		return ".source.global.n"
	case 'R':
		return "randInt 7 8"
	case 'S':
		return `randString 3 "z"`
	case 'X':
		return "uuid"
	case 'K':
		// the global constant again, through the index builtin instead of a field chain
		return `index .source.global "g"`
	case 'L':
		return `"lit"`
	case 'N':
		return `len "abcd"`
	case 'E':
		// executes with an error: the template function rejects its argument
		return `randInt "x"`
	}
	return ""
}

// tmplParseError: {P} / {Pd}: texts the template parser rejects.
func tmplParseError(d byte) string {
	switch d {
	case '1':
		return "{{"
	case '2':
		return "{{end}}"
	case '3':
		return "{{if}}x{{end}}"
	case '4':
		return "{{else}}"
	case '5':
		return "{{.a.}}"
	case '6':
		return `{{"abc}}`
	case '7':
		return "{{range}}x{{end}}"
	}
	return "{{nofunc 1}}"
}

// tmplSpell writes the action that prints expression e in one of the ways text/template allows. All of them print
// the same text; 2 and 9 additionally trim the white space of the literal text before / after the action.
var defineSeq atomic.Int64

func tmplSpell(e string, spelling byte) string {
	switch spelling {
	case '1':
		return "{{ " + e + " }}"
	case '2':
		return "{{- " + e + "}}"
	case '3':
		return "{{print (" + e + ")}}"
	case '4':
		return "{{" + e + ` | printf "%v"}}`
	case '5':
		// a name may be defined once per template text
		t := strconv.Quote("t" + strconv.FormatInt(defineSeq.Add(1), 10))
		return `{{define ` + t + `}}{{` + e + `}}{{end}}{{template ` + t + ` .}}`
	case '6':
		return "{{if true}}{{print (" + e + ")}}{{else}}never{{end}}"
	case '7':
		return "{{$v := " + e + "}}{{$v}}"
	case '8':
		return "{{/* a comment */}}{{(" + e + ")}}"
	case '9':
		return "{{" + e + " -}}"
	}
	return "{{" + e + "}}"
}

// tmplGo turns the mini template syntax into text/template syntax for the call named callName: {L} or {Ld} with L a
// placeholder letter and d a spelling digit.
func tmplGo(s, callName string) string {
	var b strings.Builder
	for i := 0; i < len(s); i++ {
		if s[i] == '{' && i+2 < len(s) && s[i+1] == 'P' {
			if s[i+2] == '}' {
				b.WriteString(tmplParseError('0'))
				i += 2
				continue
			}
			if i+3 < len(s) && s[i+2] >= '0' && s[i+2] <= '9' && s[i+3] == '}' {
				b.WriteString(tmplParseError(s[i+2]))
				i += 3
				continue
			}
		}
		if s[i] == '{' && i+2 < len(s) {
			if ex := tmplExpr(s[i+1], callName); ex != "" {
				if s[i+2] == '}' {
					b.WriteString(tmplSpell(ex, '0'))
					i += 2
					continue
				}
				if i+3 < len(s) && s[i+2] >= '0' && s[i+2] <= '9' && s[i+3] == '}' {
					b.WriteString(tmplSpell(ex, s[i+2]))
					i += 3
					continue
				}
			}
		}
		b.WriteByte(s[i])
	}
	return b.String()
}

var (
	spelledRe = regexp.MustCompile(`\{[UAIGRSXKLNM][0-9]\}`)
	badTmplRe = regexp.MustCompile(`\{[EP][0-9]?\}`)
	funcRe    = regexp.MustCompile(`\{[RSXKLN][0-9]?\}`)
	assertRe  = regexp.MustCompile(`\|a[0-9]+(;|$)`)
	preFormRe = regexp.MustCompile(`\|(uL|uu|um?[0-9]+)(\||;|$)`)
	sharedTagRe = regexp.MustCompile(`\|T[^|;]*(;|$)`)
)

var uuidRe = regexp.MustCompile(`[0-9a-f]{8}-[0-9a-f]{4}-4[0-9a-f]{3}-[89ab][0-9a-f]{3}-[0-9a-f]{12}`)

// canonUUID prints every version-4 UUID as UUID (the only random text a template can produce here).
func canonUUID(s string) string { return uuidRe.ReplaceAllString(s, "UUID") }

func scenAmmoFile(kv map[string]string) string {
	// csv=<k>: the way the users file and its source are written: 0 a header line that is ignored, the fields named in the
	// configuration; 1 the fields named by the header line only; 2 no header line at all (nothing is ignored); 3 like 0
	// with ';' as the delimiter. The users are the same in every form.
	sep, header, fields, ignoreFirst := ",", true, true, true
	switch kv["csv"] {
	case "1":
		fields = false
	case "2":
		header, ignoreFirst = false, false
	case "3":
		sep = ";"
	}
	usersCSV := ""
	if header {
		usersCSV = "login" + sep + "pass\n"
	}
	for _, u := range splitNE(kv["users"], ",") {
		usersCSV += c20lib.Dec(u) + sep + c20lib.Dec(u) + "\n"
	}
	usersFile := c20lib.WriteFile(".csv", usersCSV)
	usersSrc := map[string]any{"name": "users", "type": "file/csv", "file": usersFile, "ignore_first_line": ignoreFirst, "delimiter": sep}
	if fields {
		usersSrc["fields"] = []string{"login", "pass"}
	}
	globals := map[string]any{"g": c20lib.Dec(kv["g"])}
	// gn=<integer>: a numeric variable (a YAML number) next to the textual one
	if gn := kv["gn"]; gn != "" {
		if n, err := strconv.ParseInt(gn, 10, 64); err == nil {
			globals["n"] = n
		}
	}
	cfg := map[string]any{
		"variable_sources": []any{
			usersSrc,
			map[string]any{"name": "global", "type": "variables", "variables": globals},
		},
	}
	var calls []any
	for _, c := range splitNE(kv["calls"], ";") {
		p := strings.Split(c, "|")
		for len(p) < 6 {
			p = append(p, "")
		}
		name := p[0]
		md := map[string]string{}
		for _, q := range parsePairs(p[2]) {
			md[c20lib.Dec(q.k)] = tmplGo(c20lib.Dec(q.v), name)
		}
		var pl []string
		for _, q := range parsePairs(p[3]) {
			k, _ := json.Marshal(c20lib.Dec(q.k))
			pl = append(pl, string(k)+":"+valJSON(q.v, func(s string) string { return tmplGo(s, name) }))
		}
		// seventh field T<text>: the call's tag as written (any text, possibly empty, possibly shared by several calls: a tag
		// names samples, it identifies nothing); absent: t<name>
		tag := "t" + name
		if len(p) > 6 && strings.HasPrefix(p[6], "T") {
			tag = c20lib.Dec(p[6][1:])
		}
		call := map[string]any{"name": name, "tag": tag, "call": c20lib.Dec(p[1]), "payload": "{" + strings.Join(pl, ",") + "}"}
		if len(md) > 0 {
			call["metadata"] = md
		}
		if pp := preprocessorsOf(p[4]); pp != nil {
			call["preprocessors"] = pp
		}
		// a<code>: an assert/response postprocessor demanding that status code (a failed assertion ends the shot)
		if code, isAssert := strings.CutPrefix(p[5], "a"); isAssert && code != "" {
			n, _ := strconv.Atoi(code)
			call["postprocessors"] = []any{map[string]any{"type": "assert/response", "status_code": n}}
		}
		calls = append(calls, call)
	}
	cfg["calls"] = calls
	var scns []any
	for _, s := range splitNE(kv["scns"], ";") {
		p := strings.Split(s, ":")
		for len(p) < 3 {
			p = append(p, "")
		}
		w, _ := strconv.Atoi(p[1])
		var reqs []string
		for _, r := range splitNE(p[2], "+") {
			// sleep<ms>: the scenario's sleep(ms) pseudo request (time only, nothing on the wire)
			if ms, isSleep := strings.CutPrefix(r, "sleep"); isSleep && ms != "" && strings.Trim(ms, "0123456789") == "" {
				reqs = append(reqs, "sleep("+ms+")")
				continue
			}
			name, cnt, has := strings.Cut(r, "*")
			if has {
				// name*cnt_ms: the three-part form name(cnt, sleep)
				if c, ms, hasSleep := strings.Cut(cnt, "_"); hasSleep {
					reqs = append(reqs, name+"("+c+", "+ms+")")
					continue
				}
				reqs = append(reqs, name+"("+cnt+")")
			} else {
				reqs = append(reqs, name)
			}
		}
		scns = append(scns, map[string]any{"name": p[0], "weight": w, "requests": reqs})
	}
	cfg["scenarios"] = scns
	b, _ := yaml.Marshal(cfg)
	return c20lib.WriteFile(".yaml", string(b))
}

// preprocessorsOf: the preprocessor field of a call: u = u: source.users[next]; uL = …[last]; u<d> = …[<d>] (an index beyond
// the list wraps around); um<d> = …[-<d>] (counted from the end, wrapping); uu = TWO preprocessors that both define u, the
// first by [next], the second by [0] (the first definition wins); anything else = none.
func preprocessorsOf(f string) []any {
	prep := func(path string) any {
		return map[string]any{"type": "prepare", "mapping": map[string]string{"u": path}}
	}
	switch {
	case f == "u":
		return []any{prep("source.users[next]")}
	case f == "uL":
		return []any{prep("source.users[last]")}
	case f == "uu":
		return []any{prep("source.users[next]"), prep("source.users[0]")}
	case strings.HasPrefix(f, "um") && len(f) > 2 && strings.Trim(f[2:], "0123456789") == "":
		return []any{prep("source.users[-" + f[2:] + "]")}
	case strings.HasPrefix(f, "u") && len(f) > 1 && strings.Trim(f[1:], "0123456789") == "":
		return []any{prep("source.users[" + f[1:] + "]")}
	}
	return nil
}

// scenPool: spas / slim = the grpc/scenario provider's passes / limit options (absent = unlimited)
func scenPool(kv map[string]string, e *env, rps map[string]any, n int) string {
	prov := map[string]any{"type": "grpc/scenario", "file": scenAmmoFile(kv)}
	if v, _ := strconv.Atoi(kv["spas"]); v > 0 {
		prov["passes"] = v
	}
	if v, _ := strconv.Atoi(kv["slim"]); v > 0 {
		prov["limit"] = v
	}
	return poolYAML(gunSection("grpc/scenario", e, kv), prov, rps, n)
}

func runScenSched(kv map[string]string) string {
	e, err := startEnv(kv)
	if err != nil {
		return "ENV " + c20lib.Enc(err.Error())
	}
	defer e.stop()
	srv := e.target
	n, _ := strconv.Atoi(kv["n"])
	if n < 1 {
		n = 1
	}
	m, err := c20lib.NewManual(scenPool(kv, e, map[string]any{"type": "once", "times": 1}, n), n)
	if err != nil {
		// the two errors convertScenarioToAmmo answers a request list with are part of the model (Model/C20Expand.lean)
		switch {
		case strings.Contains(err.Error(), "must follow a request"):
			return "setup=scenario-leading-sleep"
		case strings.Contains(err.Error(), "a scenario may hold at most"):
			return "setup=scenario-too-many-requests"
		}
		return "setup=" + c20lib.Enc(c20lib.Trunc(err.Error(), 160))
	}
	defer m.Close()
	var shots []string
	for _, ch := range kv["sched"] {
		i := int(ch - '0')
		if i < 0 || i >= n {
			return "ENV bad sched"
		}
		c0, s0 := len(srv.Calls()), len(m.Aggr.Samples())
		a, ok, hang := m.Acquire(15 * time.Second)
		if hang {
			shots = append(shots, "acquire-hang")
			break
		}
		if !ok {
			shots = append(shots, "out-of-ammo")
			break
		}
		m.Guns[i].Shoot(a)
		m.Provider.Release(a)
		var cs, ss []string
		for _, c := range srv.Calls()[c0:] {
			cs = append(cs, c20lib.CallText(c))
		}
		for _, s := range m.Aggr.Samples()[s0:] {
			ss = append(ss, c20lib.SampleText(s))
		}
		shots = append(shots, fmt.Sprintf("%d#%s#%s", i, orDash(strings.Join(cs, "+")), orDash(strings.Join(ss, "+"))))
	}
	return canonUUID("t="+strings.Join(shots, ";")) + e.stray()
}

func runScenEngineInProc(kv map[string]string) string {
	e, err := startEnv(kv)
	if err != nil {
		return "ENV " + c20lib.Enc(err.Error())
	}
	defer e.stop()
	srv := e.target
	n, _ := strconv.Atoi(kv["n"])
	if n < 1 {
		n = 1
	}
	k, _ := strconv.Atoi(kv["shots"])
	aggr := &c20lib.Aggr{}
	res := c20lib.RunEngine(scenPool(kv, e, map[string]any{"type": "once", "times": k}, n), aggr, 60*time.Second)
	// the texts are sorted after the random identifiers were replaced
	cs := srv.Calls()
	texts := make([]string, len(cs))
	for i, c := range cs {
		texts[i] = canonUUID(c20lib.CallText(c))
	}
	sort.Strings(texts)
	return fmt.Sprintf("run=%s calls=%s samples=%s", orDash(res), orDash(strings.Join(texts, "+")), orDash(c20lib.SortedSamples(aggr.Samples()))) + e.stray()
}

// ---------------------------------------------------------------- child process (fatal runtime errors)

const childEnv = "VERIF_C20_CHILD"

func childMain() bool {
	in := os.Getenv(childEnv)
	if in == "" {
		return false
	}
	fmt.Println("OBS " + runScenEngineInProc(drv.KV(in)))
	return true
}

func runInChild(input string) string {
	cmd := exec.Command(os.Args[0])
	cmd.Env = append(os.Environ(), childEnv+"="+input, "GORACE=halt_on_error=0 exitcode=0")
	done := make(chan struct{})
	var out []byte
	var err error
	go func() { out, err = cmd.CombinedOutput(); close(done) }()
	select {
	case <-done:
	case <-time.After(90 * time.Second):
		_ = cmd.Process.Kill()
		<-done
		return "HANG"
	}
	text := string(out)
	for _, l := range strings.Split(text, "\n") {
		if strings.HasPrefix(l, "OBS ") {
			return strings.TrimPrefix(l, "OBS ")
		}
	}
	switch {
	case strings.Contains(text, "concurrent map writes"):
		return "FATAL concurrent-map-writes"
	case strings.Contains(text, "concurrent map iteration and map write"):
		return "FATAL concurrent-map-iteration-and-write"
	case strings.Contains(text, "concurrent map read and map write"):
		return "FATAL concurrent-map-read-and-write"
	case strings.Contains(text, "fatal error:"):
		i := strings.Index(text, "fatal error:")
		return "FATAL " + c20lib.Enc(c20lib.Trunc(strings.SplitN(text[i:], "\n", 2)[0], 100))
	}
	_ = err
	return "CHILD-FAILED " + c20lib.Enc(c20lib.Trunc(text, 200))
}

// ---------------------------------------------------------------- dispatch

func run(input string) string {
	kv := drv.KV(input)
	switch kv["mode"] {
	case "json":
		return runJSON(kv)
	case "table":
		return runTable(kv)
	case "scen":
		if kv["run"] == "engine" {
			return runInChild(input)
		}
		return runScenSched(kv)
	}
	return "ENV unknown mode"
}

func class(input, obs string) string {
	kv := drv.KV(input)
	if strings.HasPrefix(obs, "ENV") {
		return ""
	}
	c := kv["mode"]
	if kv["rp"] == "1" {
		c += "/reflect-port"
	}
	if kv["rmd"] == "1" {
		c += "/reflect-md"
	}
	if kv["tf"] != "" {
		c += "/target-form"
	}
	if kv["ghost"] == "1" {
		c += "/unresolvable-service"
	}
	if kv["dto"] != "" {
		c += "/dial-timeout"
	}
	switch kv["mode"] {
	case "json":
		if kv["run"] == "sched" {
			c += "/sched"
		}
		if len(strings.Split(kv["e"], ";")) > 130 {
			c += "/long"
		}
		c += "/n" + kv["n"]
		if kv["sc"] != "" && kv["sc"] != "0" {
			c += "/shared"
		}
		if strings.Contains(obs, "/0") {
			c += "/unknown-method"
		}
		if strings.Contains(obs, "/400") {
			c += "/400"
		}
		if kv["pas"] != "" || kv["lim"] != "" || kv["cc"] != "" {
			c += "/passes-limit-cases"
		}
		if strings.Contains(kv["e"], "!") {
			c += "/undecodable-line"
		}
		if strings.Contains(obs, "perr=") && !strings.Contains(obs, "perr=ok") {
			c += "/provider-stops"
		}
		if strings.Contains(strings.ToLower(kv["e"]), "x-fault:") {
			c += "/refused-by-server"
		}
		if strings.Contains(kv["e"], "*") {
			c += "/big"
		}
		if kv["sce"] == "1" {
			c += "/pool-size-boundary"
		}
		if kv["pas"] == "d" || kv["src"] == "1" {
			c += "/provider-defaults"
		}
	case "scen":
		c += "/" + kv["run"] + "/n" + kv["n"]
		if strings.Contains(kv["scns"], "sleep") {
			c += "/sleeps"
		}
		if strings.Contains(kv["calls"], "{U") || strings.Contains(kv["calls"], "{A") {
			c += "/templated-md"
		}
		if strings.Contains(obs, "%3Cno~value%3E") || strings.Contains(obs, "%3Cnil%3E") {
			c += "/missing-variable"
		}
		if badTmplRe.MatchString(kv["calls"]) {
			c += "/template-error"
		}
		if spelledRe.MatchString(kv["calls"]) {
			c += "/spelled"
		}
		if funcRe.MatchString(kv["calls"]) {
			c += "/template-funcs"
		}
		if assertRe.MatchString(kv["calls"]) {
			c += "/assert"
		}
		if strings.Contains(strings.ToLower(kv["calls"]), "x-fault:") || strings.Contains(kv["calls"], "pass:s.x") {
			c += "/refused-by-server"
		}
		if strings.Contains(kv["calls"], "x-shadow") || strings.Contains(kv["calls"], "x-later") {
			c += "/name-defined-twice"
		}
		if preFormRe.MatchString(kv["calls"]) {
			c += "/index-forms"
		}
		if kv["csv"] != "" && kv["csv"] != "0" {
			c += "/csv-form"
		}
		if kv["gn"] != "" {
			c += "/numeric-variable"
		}
		if kv["spas"] != "" || kv["slim"] != "" {
			c += "/provider-passes-limit"
		}
		if sharedTagRe.MatchString(kv["calls"]) {
			c += "/written-tags"
		}
		if strings.HasPrefix(obs, "setup=scenario-") {
			c += "/request-list-rejected"
		}
		if strings.Contains(kv["scns"], "*0") {
			c += "/count-zero"
		}
	}
	return c
}
