package main

import (
	"fmt"
	"math/rand"
	"strconv"
	"strings"

	"verifharness/c20lib"
)

const svc = "target.TargetService."

type fieldT struct {
	name, json string
	isInt      bool
}

var methods = map[string][]fieldT{
	"Hello": {{"name", "name", false}},
	"Auth":  {{"login", "login", false}, {"pass", "pass", false}},
	"List":  {{"token", "token", false}, {"user_id", "userId", true}},
	"Order": {{"token", "token", false}, {"user_id", "userId", true}, {"item_id", "itemId", true}},
	"Stats": {},
	"Reset": {},
}
var methodNames = []string{"Hello", "Auth", "List", "Order", "Stats", "Reset"}

var unknownCalls = []string{"target.TargetService.Nope", "Hello", "target.TargetService.hello", "", "target.Other.Hello",
	"/target.TargetService/Hello", "target.TargetService.Hello.", "TargetService.Hello"}

const textAlphabet = "abcdefghijklmnopqrstuvwxyzABCDEFGHIJKLMNOPQRSTUVWXYZ0123456789     -_.=/:,;+!?'\"\\<>&#@()[]*%$^|`"

func pick[T any](r *rand.Rand, xs []T) T { return xs[r.Intn(len(xs))] }

func randText(r *rand.Rand, maxLen int, alphabet string) string {
	n := 1 + r.Intn(maxLen)
	b := make([]byte, n)
	for i := range b {
		b[i] = alphabet[r.Intn(len(alphabet))]
	}
	s := string(b)
	if strings.HasPrefix(s, "TOK") {
		s = "x" + s
	}
	return s
}

// bigInts: int64 values that float64 cannot represent, the extremes of the range, and the first values outside it
var bigInts = []string{"9007199254740993", "-9007199254740993", "1234567890123456789", "9223372036854775807",
	"-9223372036854775808", "9223372036854775808", "-9223372036854775809", "4611686018427387905", "99999999999999999999",
	"72057594037927937", "999999999999999999", "100000000000000001"}

func randInt(r *rand.Rand) string {
	switch r.Intn(8) {
	case 6:
		return pick(r, bigInts)
	case 7:
		// a random 16..19 digit value (above 2^53; above the int64 range from 9223372036854775808 on)
		n := 16 + r.Intn(4)
		b := make([]byte, n)
		b[0] = byte('1' + r.Intn(9))
		for i := 1; i < n; i++ {
			b[i] = byte('0' + r.Intn(10))
		}
		if r.Intn(3) == 0 {
			return "-" + string(b)
		}
		return string(b)
	case 0:
		return "0"
	case 1:
		return strconv.Itoa(-1 - r.Intn(1000))
	case 2:
		return strconv.Itoa(1 + r.Intn(12))
	case 3:
		return strconv.Itoa(1000 + r.Intn(11000))
	default:
		return strconv.Itoa(r.Intn(1000000000))
	}
}

func genStrVal(r *rand.Rand) string {
	switch x := r.Intn(100); {
	case x < 70:
		return "s." + c20lib.Enc(randText(r, 12, textAlphabet))
	case x < 76:
		return "s."
	case x < 82:
		return "z"
	case x < 88:
		return "n." + randInt(r)
	case x < 92:
		return "b." + pick(r, []string{"true", "false"})
	case x < 95:
		return "o"
	case x < 97:
		return "l"
	default:
		return "f." + strconv.Itoa(r.Intn(100)) + "." + strconv.Itoa(1+r.Intn(9))
	}
}

func genIntVal(r *rand.Rand) string {
	switch x := r.Intn(100); {
	case x < 60:
		return "n." + randInt(r)
	case x < 72:
		return "s." + randInt(r)
	case x < 78:
		return "z"
	case x < 85:
		return "s." + c20lib.Enc(randText(r, 6, "abcxyz -."))
	case x < 90:
		return "f." + strconv.Itoa(r.Intn(100)) + "." + strconv.Itoa(1+r.Intn(9))
	case x < 95:
		return "b." + pick(r, []string{"true", "false"})
	case x < 97:
		return "l"
	default:
		return "o"
	}
}

var reservedMD = map[string]bool{"user-agent": true, "content-type": true, "te": true, "grpc-timeout": true, "grpc-accept-encoding": true,
	"accept-encoding": true, "connection": true, "host": true, "grpc-encoding": true}

func genMD(r *rand.Rand) string {
	n := r.Intn(4)
	seen := map[string]bool{}
	var out []string
	for i := 0; i < n; i++ {
		k := string("abcdefghijklmnopqrstuvwxyz"[r.Intn(26)]) + randText(r, 8, "abcdefghijklmnopqrstuvwxyz0123456789-_.")
		if r.Intn(4) == 0 {
			k = strings.ToUpper(k[:1]) + k[1:]
		}
		if r.Intn(8) == 0 {
			k = pick(r, []string{"authorization", "Authorization", "x-request-id", "X-Trace", "auth"})
		}
		lk := strings.ToLower(k)
		if seen[lk] || reservedMD[lk] || strings.HasPrefix(lk, "grpc-") {
			continue
		}
		seen[lk] = true
		// gRPC carries a value as written, white space at its ends included: mostly trimmed texts, sometimes not
		v := randText(r, 14, "abcdefghijklmnopqrstuvwxyzABCDEFXYZ0123456789   -_.=/:,;+!?()*<>&'")
		if r.Intn(4) != 0 {
			v = strings.TrimSpace(v)
		}
		if r.Intn(6) == 0 {
			v = "Bearer " + randText(r, 10, "abcdef0123456789")
		}
		// a key with an EMPTY value is still a key the server must see
		if r.Intn(12) == 0 {
			v = ""
		}
		out = append(out, c20lib.Enc(k)+":"+c20lib.Enc(v))
	}
	// one call in eight is REFUSED by the server with a gRPC status of its own choosing (any of the seventeen codes, or
	// one outside them): the entry still is one call and one sample, reported with ConvertGrpcStatus of that status
	if r.Intn(8) == 0 {
		out = append(out, pick(r, []string{"x-fault", "X-Fault", "x-Fault"})+":"+genFaultCode(r))
		r.Shuffle(len(out), func(a, b int) { out[a], out[b] = out[b], out[a] })
	}
	return strings.Join(out, ",")
}

func genFaultCode(r *rand.Rand) string {
	if r.Intn(6) == 0 {
		return pick(r, []string{"17", "99", "200", "255", "0", "07", "x"})
	}
	return strconv.Itoa(1 + r.Intn(16))
}

func genEntry(r *rand.Rand, i int) string {
	tag := "t" + strconv.Itoa(i) + randText(r, 3, "abcxyz_")
	// tags are categories, not identifiers: several entries of a file often share one
	if r.Intn(3) == 0 {
		tag = pick(r, []string{"hello", "t", "case~1", ""})
	}
	if r.Intn(100) < 14 {
		return tag + "|" + c20lib.Enc(pick(r, unknownCalls)) + "|" + genMD(r) + "|" + pick(r, []string{"", "name:s.x", "a:n.1"})
	}
	m := pick(r, methodNames)
	var pl []string
	if m == "Auth" && r.Intn(2) == 0 {
		u := strconv.Itoa(1 + r.Intn(12))
		p := u
		if r.Intn(4) == 0 {
			p = strconv.Itoa(1 + r.Intn(12))
		}
		pl = append(pl, "login:s."+u, "pass:s."+p)
	} else {
		for _, f := range methods[m] {
			if r.Intn(10) < 3 {
				continue
			}
			name := f.name
			if r.Intn(3) == 0 {
				name = f.json
			}
			if f.isInt {
				pl = append(pl, name+":"+genIntVal(r))
			} else {
				pl = append(pl, name+":"+genStrVal(r))
			}
		}
	}
	if r.Intn(10) == 0 {
		pl = append(pl, pick(r, []string{"bogus", "Name", "user", "x"})+":"+pick(r, []string{"s.x", "n.1", "z"}))
	}
	r.Shuffle(len(pl), func(a, b int) { pl[a], pl[b] = pl[b], pl[a] })
	return tag + "|" + svc + m + "|" + genMD(r) + "|" + strings.Join(pl, ",")
}

var tmoChoices = []int{0, 0, 40, 65, 90, 115}

// tmoKV: the timeout part of an input: mostly whole seconds well apart from each other, sometimes a short one
// (5 s / 8 s, written in milliseconds) that lies BELOW the guns' 15 s default but is still far more than a local call
// needs on a busy machine.
func tmoKV(r *rand.Rand) string {
	if r.Intn(6) == 0 {
		return fmt.Sprintf("tmoms=%d", pick(r, []int{5000, 8000}))
	}
	return fmt.Sprintf("tmo=%d", pick(r, tmoChoices))
}

// netKV: where the method descriptors come from. rp=1: a separate reflection endpoint on another port (the target
// itself does not serve reflection); rmd=1: the reflection API demands the configured reflect_metadata. Combined with
// every pool shape (instances, shared client pool on/off) by the callers.
func netKV(r *rand.Rand) string {
	out := ""
	if r.Intn(3) == 0 {
		out += " rp=1"
	}
	if r.Intn(5) == 0 {
		out += " rmd=1"
	}
	// the same endpoint written in another of the ways gRPC accepts (what replacePort makes of it matters with rp=1)
	if r.Intn(6) == 0 {
		out += " tf=" + pick(r, []string{"1", "2", "3", "6"})
	}
	// the reflection API also lists a service nobody can resolve
	if r.Intn(6) == 0 {
		out += " ghost=1"
	}
	// a configured DIAL timeout (2 s: enough for a local dial, and recognisable should it leak into a call's deadline)
	if r.Intn(6) == 0 {
		out += " dto=2000"
	}
	return out
}

const placeholderLetters = "UAIGRSXKLNM" // placeholders that print a value

const spellLetters = placeholderLetters + "E" // … and the action that fails to execute

// genG: the global constant: letters, digits, white space (inside and, sometimes, at its ends: gRPC carries a
// metadata value as written) and characters an HTML-minded or URL-minded encoder would change.
func genG(r *rand.Rand) string {
	g := randText(r, 6, "ghijkl-09  <>&'+=/")
	if r.Intn(4) != 0 {
		g = strings.TrimSpace(g)
	}
	if g == "" {
		return "g"
	}
	return g
}

// spell gives every placeholder {L} of a mini-syntax text, with probability 1/2, one of the nine other spellings
// text/template allows for the same action ({L1} … {L9}: spaces, trim markers, print, a pipeline, define/template,
// if/else, a $variable, comment + parentheses).
func spell(r *rand.Rand, s string) string {
	var b strings.Builder
	for i := 0; i < len(s); i++ {
		if s[i] == '{' && i+2 < len(s) && s[i+2] == '}' && strings.IndexByte(spellLetters, s[i+1]) >= 0 {
			b.WriteByte('{')
			b.WriteByte(s[i+1])
			if r.Intn(2) == 0 {
				b.WriteByte(byte('1' + r.Intn(9)))
			}
			b.WriteByte('}')
			i += 2
			continue
		}
		b.WriteByte(s[i])
	}
	return b.String()
}

func schedFor(r *rand.Rand, n, shots int) string {
	sched := make([]byte, shots)
	for i := range sched {
		sched[i] = byte('0' + r.Intn(n))
	}
	return string(sched)
}

// entryTag: the (encoded) tag of an entry text.
func entryTag(e string) string {
	t, _, _ := strings.Cut(e, "|")
	return t
}

// provKV: the provider's options and what they act on. Returns the option part of the input, the entries (with
// undecodable lines !<k> mixed in when continueonerror is on — or, stop=true, off: the provider then stops at the first of
// them) and the number of ammo the provider will deliver at most.
//
//	pas = passes (2, 3; 1 when absent), lim = limit, cc = chosen cases (some of the file's tags and one that no entry
//	has), coe=1 = continueonerror
func provKV(r *rand.Rand, es []string, allowStop bool) (string, []string, int) {
	out := ""
	passes := 1
	if r.Intn(4) == 0 {
		passes = 2 + r.Intn(2)
		out += fmt.Sprintf(" pas=%d", passes)
	}
	per := len(es)
	if r.Intn(4) == 0 {
		// undecodable lines among the entries
		coe := true
		if allowStop && r.Intn(4) == 0 {
			coe = false
		}
		nb := 1 + r.Intn(3)
		for i := 0; i < nb; i++ {
			pos := r.Intn(len(es) + 1)
			es = append(es[:pos], append([]string{fmt.Sprintf("!%d", r.Intn(8))}, es[pos:]...)...)
		}
		per = len(es)
		if coe {
			out += " coe=1"
		}
	}
	if r.Intn(5) == 0 {
		// chosen cases: the tags of some entries, plus a tag nothing has
		seen := map[string]bool{}
		var cc []string
		for _, e := range es {
			if strings.HasPrefix(e, "!") {
				continue
			}
			if t := entryTag(e); t != "" && !seen[t] && r.Intn(2) == 0 {
				seen[t] = true
				cc = append(cc, t)
			}
		}
		cc = append(cc, "nobody")
		out += " cc=" + strings.Join(cc, ",")
	}
	total := per * passes
	if r.Intn(4) == 0 {
		lim := 1 + r.Intn(total+2)
		out += fmt.Sprintf(" lim=%d", lim)
		if r.Intn(3) == 0 {
			// unlimited passes (written as 0, or not written at all: the default): only the limit ends the run
			out = strings.Replace(out, fmt.Sprintf(" pas=%d", passes), "", 1) + pick(r, []string{" pas=0", " pas=d"})
			total = lim
		}
		if lim < total {
			total = lim
		}
	}
	if r.Intn(6) == 0 {
		out += " src=1"
	}
	return out, es, total
}

// poolKV: the shared client pool: off; on with 1, 2 … clients; on with a client-number of 0 or below (means one client).
func poolKV(r *rand.Rand, sizes []int) string {
	if r.Intn(8) == 0 {
		return fmt.Sprintf("sc=%d sce=1", pick(r, []int{0, 0, -1, -7, 1, 2}))
	}
	return fmt.Sprintf("sc=%d", pick(r, sizes))
}

// dirtyKV: every other grpc/json case runs with a provider whose ammo pool already holds used objects (dirty=<k>): what
// sync.Pool hands out — a new object or any used one — must make no difference to what a line is delivered as.
func dirtyKV(r *rand.Rand) string {
	if r.Intn(2) == 0 {
		return ""
	}
	return fmt.Sprintf(" dirty=%d", pick(r, []int{4, 16, 64}))
}

func genJSON(r *rand.Rand) string {
	n := pick(r, []int{1, 1, 2, 4})
	k := 1 + r.Intn(8)
	es := make([]string, k)
	for i := range es {
		es[i] = genEntry(r, i)
	}
	prov, es, _ := provKV(r, es, false)
	return fmt.Sprintf("mode=json n=%d %s %s%s%s%s oe=%d e=%s", n, poolKV(r, []int{0, 0, 1, 2}), tmoKV(r), netKV(r), prov, dirtyKV(r), r.Intn(2), strings.Join(es, ";"))
}

// genJSONSched: the same entries fired by hand, entry k by instance sched[k] (exact per-entry trace, connections).
func genJSONSched(r *rand.Rand) string {
	n := pick(r, []int{1, 2, 3, 4, 5})
	k := 1 + r.Intn(10)
	es := make([]string, k)
	for i := range es {
		es[i] = genEntry(r, i)
	}
	prov, es, total := provKV(r, es, true)
	// as many shots as the provider has ammo, sometimes fewer, sometimes more (the provider's end is then observed)
	shots := total + pick(r, []int{0, 0, 0, 1, 2, -1})
	if shots < 1 {
		shots = 1
	}
	if shots > 40 {
		shots = 40
	}
	return fmt.Sprintf("mode=json run=sched n=%d %s %s%s%s%s oe=%d sched=%s e=%s", n, poolKV(r, []int{0, 0, 1, 2, 3, 7}), tmoKV(r), netKV(r), prov, dirtyKV(r),
		r.Intn(2), schedFor(r, n, shots), strings.Join(es, ";"))
}

// genJSONLong: more entries than the provider's queue and ammo pool hold (128), alternating entries that carry
// metadata and all fields with entries that carry nothing (keys omitted): anything an ammo object keeps from its
// previous use shows up as a wrong message or metadata.
func genJSONLong(r *rand.Rand, sched bool) string {
	k := 280 + r.Intn(60)
	es := make([]string, k)
	for i := range es {
		tag := "L" + strconv.Itoa(i)
		switch {
		case i%2 == 0:
			u := strconv.Itoa(1 + r.Intn(10))
			es[i] = tag + "|" + svc + pick(r, []string{"List", "Order"}) + "|x-n:" + strconv.Itoa(i) + ",authorization:Bearer~" + randText(r, 6, "abcdef0123456789") +
				"|user_id:n." + u + ",token:s." + c20lib.Enc(randText(r, 8, "abcdefghij")) + pick(r, []string{"", ",item_id:n." + strconv.Itoa(r.Intn(5000))})
		case i%6 == 1:
			es[i] = tag + "|" + svc + pick(r, []string{"List", "Order", "Hello", "Stats"}) + "||"
		case i%6 == 3:
			es[i] = tag + "|" + svc + "Hello||name:s." + c20lib.Enc(randText(r, 5, "klmnop"))
		default:
			es[i] = tag + "|" + svc + pick(r, []string{"List", "Order"}) + "|x-only:" + strconv.Itoa(i) + "|"
		}
	}
	// every seventh line cannot be decoded (continueonerror is on): by then the pooled ammo objects are being recycled, and
	// such a line must cost one failed sample, not a second shot of whatever the object held
	for i := 6; i < len(es); i += 7 {
		es[i] = fmt.Sprintf("!%d", r.Intn(8))
	}
	prov := " coe=1"
	shots := k
	if sched {
		// the same in two passes over half the file: the second pass meets the first one's objects
		k = k / 2
		es = es[:k]
		prov += " pas=2"
		shots = 2 * k
	}
	n := pick(r, []int{1, 2, 4})
	if sched {
		return fmt.Sprintf("mode=json run=sched n=%d sc=%d tmo=0 oe=1%s%s sched=%s e=%s", n, pick(r, []int{0, 2}), prov, dirtyKV(r), schedFor(r, n, shots), strings.Join(es, ";"))
	}
	return fmt.Sprintf("mode=json n=%d sc=%d tmo=0 oe=1%s e=%s", n, pick(r, []int{0, 2}), prov, strings.Join(es, ";"))
}

// genJSONBig: texts near and beyond the sizes things are buffered with: a payload text that makes the line longer than
// the scanner's default buffer (64 KiB; the provider's maxammosize option must raise it, in every pass), a metadata value
// of several KiB; next to ordinary entries.
func genJSONBig(r *rand.Rand) string {
	big := 66000 + r.Intn(30000)
	mdLen := 1000 + r.Intn(7000)
	small := "s|" + svc + "Hello|k:v|name:s." + c20lib.Enc(randText(r, 5, "klmnop"))
	bigE := fmt.Sprintf("b|%sHello|x-big:*%d*%s|name:s.*%d*%s", svc, mdLen, pick(r, []string{"v", "w"}), big, pick(r, []string{"a", "b"}))
	midE := fmt.Sprintf("m|%sHello|x-mid:*%d*m|name:s.*%d*c", svc, 400+r.Intn(3000), 20000+r.Intn(30000))
	es := []string{small, bigE, small, midE}
	r.Shuffle(len(es), func(a, b int) { es[a], es[b] = es[b], es[a] })
	opts := ""
	passes := 1
	switch r.Intn(4) {
	case 0:
		// default buffer: the provider stops at the big line
	case 1:
		opts = fmt.Sprintf(" mas=%d", 40000+r.Intn(20000)) // a smaller buffer than the default: stops at the mid one too
	default:
		opts = fmt.Sprintf(" mas=%d", big+10000+r.Intn(100000))
		if r.Intn(2) == 0 {
			passes = 2
			opts += " pas=2"
		}
	}
	if r.Intn(2) == 0 {
		opts += " coe=1" // makes no difference for a line that is too long
	}
	return fmt.Sprintf("mode=json run=sched n=1 sc=0 tmo=0 oe=0%s sched=%s e=%s", opts, strings.Repeat("0", len(es)*passes+1), strings.Join(es, ";"))
}

// ---------------------------------------------------------------- scenarios

var mdTemplates = []string{"x-user:u-{U}", "x-g:{G}", "x-const:abc", "x-mix:{G}-{U}~end", "X-Up:{U}{U}", "x-plain:Bearer~zzz", "payload:p-{U}-{G}",
	"x-fn:{R}-{S}~{U}", "x-id:{X}", "x-k:{K}{L}~{N}", "x-sp:a~{U}~~b~{G}~c", "x-rid:r{R}{X}-{G}", "x-br:{~{U}~}", "x-n:{M}", "x-nm:n{M}~{U}"}

// numericGlobals: values of the numeric variable: small, negative, 0, at the size where a float prints an exponent, beyond
// 2^53, the ends of the int64 range
var numericGlobals = []string{"7", "-3", "0", "1000000", "123456789", "9007199254740993", "-9007199254740993", "1234567890123456789",
	"9223372036854775807", "-9223372036854775808", "20000000", "4611686018427387905"}

// preForm: how a call's preprocessor picks its user: mostly [next]; sometimes the last, a fixed index (inside the list or
// wrapping around it), an index counted from the end, or two preprocessors defining the same variable
func preForm(r *rand.Rand) string {
	switch r.Intn(10) {
	case 0:
		return "uL"
	case 1:
		return "u" + strconv.Itoa(r.Intn(10))
	case 2:
		return "um" + strconv.Itoa(1+r.Intn(9))
	case 3:
		return "uu"
	}
	return "u"
}

func genScen(r *rand.Rand, engine bool) string {
	n := pick(r, []int{1, 2, 2, 3, 4})
	nu := 2 + r.Intn(4)
	perm := r.Perm(10)
	var users []string
	for i := 0; i < nu; i++ {
		users = append(users, strconv.Itoa(perm[i]+1))
	}
	withAuth := r.Intn(2) == 0
	if !withAuth && r.Intn(2) == 0 {
		users = nil
		for i := 0; i < nu; i++ {
			users = append(users, c20lib.Enc(randText(r, 6, "abcdefghijk-_ <&'>=")+strconv.Itoa(i)))
		}
	}
	var calls []string
	var okCalls, failCalls []string
	nh := 1 + r.Intn(2)
	for i := 0; i < nh; i++ {
		name := "h" + strconv.Itoa(i)
		var md []string
		for _, t := range mdTemplates {
			if r.Intn(3) == 0 {
				md = append(md, t)
			}
		}
		if len(md) == 0 && r.Intn(4) != 0 {
			md = append(md, "x-user:u-{U}")
		}
		payload := pick(r, []string{"name:s.{U}", "name:s.{U}", "name:s.n-{U}-{G}", "name:s.a~{U}~~{R}~{S}", "name:s.{X}.{U}"})
		calls = append(calls, name+"|"+svc+"Hello|"+spell(r, strings.Join(md, ","))+"|"+spell(r, payload)+"|"+preForm(r))
		okCalls = append(okCalls, name)
	}
	// a numeric variable of the variables source (sometimes used without being defined): in a text field, in metadata and,
	// deterministic runs only, as an int64 field of a call the server answers with InvalidArgument (the token is no token)
	gn := ""
	if r.Intn(3) != 0 {
		gn = " gn=" + pick(r, numericGlobals)
	}
	var numCalls []string
	if !engine && r.Intn(4) == 0 {
		calls = append(calls, "num|"+svc+"List|"+spell(r, "x-n:{M}")+"|"+spell(r, "user_id:n.{M},token:s.t{M}")+"|-")
		numCalls = append(numCalls, "num")
	}
	// (deterministic runs only) steps the SERVER refuses: by an injected status (a constant, or rendered: {N} prints 4 =
	// DeadlineExceeded) or because the credentials are wrong; with and without an assert/response postprocessor
	// demanding 200 (a failed assertion ends the shot after the call; without one the shot goes on)
	var refusedCalls []string
	if !engine && r.Intn(3) == 0 {
		fmd := pick(r, []string{"x-fault:" + strconv.Itoa(1+r.Intn(16)), "x-fault:{N}", "X-Fault:1{N}", "x-fault:7,x-u:{U}"})
		calls = append(calls, "flt|"+svc+"Hello|"+spell(r, fmd)+"|"+spell(r, "name:s.f{U}")+"|u|"+pick(r, []string{"", "", "a200", "a403"}))
		refusedCalls = append(refusedCalls, "flt")
	}
	if withAuth {
		amd := pick(r, []string{"", "x-user:{U}", "x-g:{G},x-user:login-{U}"})
		pass := "{U}"
		assert := ""
		if !engine && r.Intn(4) == 0 {
			pass = "x{U}" // wrong password: Auth answers InvalidArgument, the steps after it see no token
		}
		if !engine && r.Intn(3) == 0 {
			assert = "|" + pick(r, []string{"a200", "a200", "a400"})
		}
		calls = append(calls, "auth|"+svc+"Auth|"+spell(r, amd)+"|"+spell(r, "login:s.{U},pass:s."+pass)+"|u"+assert)
		lmd := pick(r, []string{"authorization:Bearer~{A}", "authorization:Bearer~{A},x-uid:{I}", "x-uid:id-{I}-{G}"})
		calls = append(calls, "list|"+svc+"List|"+spell(r, lmd)+"|"+spell(r, "user_id:n.{I},token:s.{A}")+"|-")
		calls = append(calls, "order|"+svc+"Order|"+spell(r, "authorization:Bearer~{A}")+"|"+spell(r, "user_id:n.{I},token:s.{A},item_id:n.{I}0")+strconv.Itoa(10+r.Intn(89))+"|-")
	}
	// variables that do not exist where they are used (the deterministic runs only): the user of a call without
	// preprocessor, the token / user id of an auth step that has not run (yet) in this shot — in the metadata and in
	// the payload, in every spelling; a numeric field made of one does not fit its type (400, the shot ends)
	var peekCalls []string
	if !engine && r.Intn(4) == 0 {
		calls = append(calls, "peek|"+svc+"Hello|"+spell(r, pick(r, []string{"x-tok:{A}-{I},x-u:{U}", "x-tok:t{A}", "authorization:Bearer~{A},x-i:{I}{I}"}))+"|"+
			spell(r, pick(r, []string{"name:s.{A}~{U}", "name:s.{I}", "name:s.x"}))+"|-")
		peekCalls = append(peekCalls, "peek")
		if r.Intn(2) == 0 {
			calls = append(calls, "early|"+svc+"List|"+spell(r, "x-i:{I}")+"|"+spell(r, "user_id:n.{I},token:s.{A}")+"|-")
			peekCalls = append(peekCalls, "early")
		}
	}
	if !engine {
		if r.Intn(3) == 0 {
			calls = append(calls, "bad|"+svc+"Nope|a:{G}|name:s.x|-")
			failCalls = append(failCalls, "bad")
		}
		if r.Intn(3) == 0 {
			calls = append(calls, "ill|"+svc+"Hello|a:b-{G}|name:n.5|-")
			failCalls = append(failCalls, "ill")
		}
		// a template the engine cannot execute ({E}: a template function returning an error) or cannot parse ({P}),
		// in the metadata or in the payload, next to healthy templates: one sample with code 0, no call, the shot ends
		if r.Intn(4) == 0 {
			bad := pick(r, []string{"{E}", "{E}", "{P}"})
			if bad == "{P}" && r.Intn(2) == 0 {
				bad = fmt.Sprintf("{P%d}", 1+r.Intn(7))
			}
			bad = spell(r, bad)
			pre := pick(r, []string{"u", "-"})
			if r.Intn(2) == 0 {
				// sometimes two faults at once: a template that fails AND a payload that does not fit (the template fails first: 0)
				calls = append(calls, "terr|"+svc+"Hello|"+spell(r, "x-g:{G},x-e:v"+bad+",x-r:{R}")+"|"+pick(r, []string{"name:s.x", "name:s.x", "name:n.5", "nme:s.x"})+"|"+pre)
			} else {
				calls = append(calls, "terr|"+svc+"Hello|"+spell(r, "x-g:{G}")+"|name:s.a"+bad+"|"+pre)
			}
			failCalls = append(failCalls, "terr")
		}
	}
	ns := 1 + r.Intn(3)
	if r.Intn(6) == 0 {
		ns = 4
	}
	var scns []string
	for s := 0; s < ns; s++ {
		var reqs []string
		k := 1 + r.Intn(3)
		for i := 0; i < k; i++ {
			req := pick(r, okCalls)
			switch r.Intn(8) {
			case 0, 1:
				req += "*2"
			case 2:
				req += "*2_" + strconv.Itoa(5+r.Intn(30)) // name(2, sleep ms)
			}
			reqs = append(reqs, req)
		}
		if len(refusedCalls) > 0 && r.Intn(3) != 0 {
			pos := r.Intn(len(reqs) + 1)
			reqs = append(reqs[:pos], append([]string{pick(r, refusedCalls)}, reqs[pos:]...)...)
		}
		if withAuth && r.Intn(2) == 0 {
			reqs = append(reqs, "auth", "list")
			if r.Intn(2) == 0 {
				reqs = append(reqs, pick(r, []string{"order", "list*2", "order*2"}))
			}
			if r.Intn(3) == 0 {
				reqs = append(reqs, pick(r, okCalls))
			}
		}
		if len(peekCalls) > 0 && r.Intn(3) != 0 {
			pos := r.Intn(len(reqs) + 1)
			reqs = append(reqs[:pos], append([]string{pick(r, peekCalls)}, reqs[pos:]...)...)
		}
		if len(numCalls) > 0 && r.Intn(3) != 0 {
			pos := r.Intn(len(reqs) + 1)
			reqs = append(reqs[:pos], append([]string{"num"}, reqs[pos:]...)...)
		}
		if len(failCalls) > 0 && r.Intn(2) == 0 {
			pos := r.Intn(len(reqs) + 1)
			reqs = append(reqs[:pos], append([]string{pick(r, failCalls)}, reqs[pos:]...)...)
		}
		// weights: mostly 1..3; sometimes with common divisors of two of them, of all of them, or 0 (= 1)
		w := 1 + r.Intn(3)
		if r.Intn(3) == 0 {
			w = pick(r, []int{2, 4, 6, 6, 9, 3, 0, 8})
		}
		scns = append(scns, fmt.Sprintf("s%d:%d:%s", s, w, strings.Join(reqs, "+")))
	}
	// a name defined twice: the provider's registry keeps the LAST definition; the shadowed one (other method, other
	// templates) must never be shot
	if r.Intn(5) == 0 {
		victim := pick(r, calls)
		name, _, _ := strings.Cut(victim, "|")
		shadow := name + "|" + svc + pick(r, []string{"Stats", "Hello", "Nope"}) + "|x-shadow:s-{G}|" + pick(r, []string{"", "name:s.shadow"}) + "|-"
		if !engine && r.Intn(4) == 0 {
			// … or the other way round: the original is shadowed by a later definition (deterministic runs only: the
			// engine runs are judged on the assumption that no step fails)
			calls = append(calls, name+"|"+svc+"Hello|x-later:l-{G}|name:s.later|-")
		} else {
			pos := 0
			for i, c := range calls {
				if c == victim {
					pos = i
				}
			}
			pos = r.Intn(pos + 1)
			calls = append(calls[:pos], append([]string{shadow}, calls[pos:]...)...)
		}
	}
	// tags as people write them: categories shared by several calls, or none at all (a tag names the samples of a call, it
	// identifies nothing: two calls of one scenario with the same or an empty tag are still two calls)
	if r.Intn(3) == 0 {
		calls = withWrittenTags(r, calls)
	}
	// the way the users file is written (same users)
	csv := ""
	if r.Intn(3) == 0 {
		csv = fmt.Sprintf(" csv=%d", 1+r.Intn(3))
	}
	base := fmt.Sprintf("mode=scen run=@RUN@ n=%d %s%s%s%s users=%s g=%s calls=%s scns=%s", n, tmoKV(r), netKV(r), csv, gn,
		strings.Join(users, ","), c20lib.Enc(genG(r)), strings.Join(calls, ";"), strings.Join(scns, ";"))
	if engine {
		return strings.Replace(base, "@RUN@", "engine", 1) + fmt.Sprintf(" shots=%d", 8+r.Intn(30))
	}
	// (deterministic runs) the scenario provider's own passes / limit: the schedule may ask for more than it delivers
	if r.Intn(5) == 0 {
		if r.Intn(2) == 0 {
			base += fmt.Sprintf(" spas=%d", 1+r.Intn(2))
		}
		if r.Intn(2) == 0 {
			base += fmt.Sprintf(" slim=%d", 1+r.Intn(9))
		}
	}
	l := 3 + r.Intn(9)
	sched := make([]byte, l)
	for i := range sched {
		sched[i] = byte('0' + r.Intn(n))
	}
	return strings.Replace(base, "@RUN@", "sched", 1) + " sched=" + string(sched)
}

// withWrittenTags gives every call, with probability 2/3, a written tag (seventh field T<text>) from a small set that
// contains the empty tag; the others keep the default t<name>.
func withWrittenTags(r *rand.Rand, calls []string) []string {
	out := make([]string, len(calls))
	for i, c := range calls {
		out[i] = c
		if r.Intn(3) == 0 {
			continue
		}
		out[i] = callWithTag(c, pick(r, []string{"", "", "same", "t", "case~1"}))
	}
	return out
}

// callWithTag appends the tag field (the seventh) to a call text of five or six fields.
func callWithTag(c, encTag string) string {
	for strings.Count(c, "|") < 5 {
		c += "|"
	}
	return c + "|T" + encTag
}

// genScenTags: one scenario whose steps are two or three DIFFERENT calls carrying the same tag (or none), with different
// payload and metadata templates under the same metadata keys, shot several times by the same gun: whatever a gun keeps
// per step (parsed templates …) must be kept per call, not per tag.
func genScenTags(r *rand.Rand, engine bool) string {
	tag := pick(r, []string{"", "", "same", "t", c20lib.Enc(randText(r, 4, "abcxyz _"))})
	k := 2 + r.Intn(2)
	marks := []string{"one", "two", "three"}
	var calls, reqs []string
	for i := 0; i < k; i++ {
		name := "c" + strconv.Itoa(i)
		md := "x-k:" + marks[i] + "-{G}-{U},x-w:" + marks[i]
		if r.Intn(3) == 0 {
			md = "x-k:" + marks[i] + "~{U}"
		}
		t := tag
		if i == k-1 && r.Intn(3) == 0 {
			t = pick(r, []string{"", "other"}) // the last call sometimes has a tag of its own
		}
		calls = append(calls, callWithTag(name+"|"+svc+"Hello|"+spell(r, md)+"|"+spell(r, "name:s."+marks[i]+".{U}")+"|"+pick(r, []string{"u", "u", "-"}), t))
		reqs = append(reqs, name)
	}
	if r.Intn(2) == 0 {
		reqs = append(reqs, "c0", "c1")
	}
	r.Shuffle(len(reqs), func(a, b int) { reqs[a], reqs[b] = reqs[b], reqs[a] })
	n := pick(r, []int{1, 1, 2})
	base := fmt.Sprintf("mode=scen run=@RUN@ n=%d tmo=0 users=1,2,3 g=%s calls=%s scns=s:1:%s", n, c20lib.Enc(randText(r, 4, "ghijkl")),
		strings.Join(calls, ";"), strings.Join(reqs, "+"))
	if engine {
		return strings.Replace(base, "@RUN@", "engine", 1) + fmt.Sprintf(" shots=%d", 4+r.Intn(8))
	}
	return strings.Replace(base, "@RUN@", "sched", 1) + " sched=" + schedFor(r, n, 2+r.Intn(4))
}

// genScenReqForms: the forms of a scenario's request list: name, name(count), name(count, sleep), sleep(ms) between steps,
// a count of 0 (no step), and the lists the provider must REJECT: a pause before any step (also after a name(0), which
// adds no step), more steps than MaxScenarioRequests (1 Mi) in one entry or summed over several.
func genScenReqForms(r *rand.Rand) string {
	calls := "h|" + svc + "Hello|x-user:u-{U}|name:s.{U}|u;g|" + svc + "Hello|x-g:{G}|name:s.g|-"
	var reqs string
	switch r.Intn(9) {
	case 0:
		reqs = "sleep5+h" // rejected
	case 1:
		reqs = "h*0+sleep5+g" // rejected: name(0) adds no step
	case 2:
		reqs = "h*1048577" // rejected
	case 3:
		reqs = fmt.Sprintf("h*%d+g*%d+h", 1+r.Intn(3), 1048576-r.Intn(2)) // rejected: the sum is too large
	case 4:
		reqs = "h*0+g+h*2"
	case 5:
		reqs = fmt.Sprintf("h+sleep%d+g*2_%d+sleep%d+sleep%d+h*0+h", 1+r.Intn(20), 1+r.Intn(20), 1+r.Intn(9), 1+r.Intn(9))
	case 6:
		reqs = "g*0+h*0+g"
	default:
		reqs = fmt.Sprintf("h*%d+g*%d_%d+h*1_%d", 1+r.Intn(3), r.Intn(3), r.Intn(15), r.Intn(15))
	}
	n := pick(r, []int{1, 2})
	return fmt.Sprintf("mode=scen run=sched n=%d tmo=0 users=1,2,3 g=%s calls=%s scns=s:1:%s sched=%s", n, c20lib.Enc(randText(r, 3, "ghi")),
		calls, reqs, schedFor(r, n, 2+r.Intn(3)))
}

// genScenCollide: names chosen so that "<scenario>_<call>" of one step equals that of another step with different
// templates (scenario a_b + call c, scenario a + call b_c), the same metadata keys in both, sometimes a metadata key
// called "payload": a template cache keyed by joined names would hand one step the other's templates.
func genScenCollide(r *rand.Rand, engine bool) string {
	word := func() string { return randText(r, 3, "abcdxyz") }
	a, b, c := word(), word(), word()
	n := pick(r, []int{1, 1, 2, 3})
	users := []string{"1", "2", "3"}
	keys := []string{"x-k"}
	if r.Intn(2) == 0 {
		keys = append(keys, "payload")
	}
	if r.Intn(2) == 0 {
		keys = append(keys, "x-u")
	}
	mk := func(name, mark string) string {
		var md []string
		for _, k := range keys {
			md = append(md, k+":"+mark+"-"+k+"-{G}-{U}")
		}
		return name + "|" + svc + "Hello|" + strings.Join(md, ",") + "|name:s." + mark + ".{U}|u"
	}
	calls := []string{mk(c, "one"), mk(b+"_"+c, "two")}
	scns := []string{fmt.Sprintf("%s_%s:1:%s", a, b, c), fmt.Sprintf("%s:1:%s", a, b+"_"+c)}
	if r.Intn(2) == 0 {
		scns[0], scns[1] = scns[1], scns[0]
	}
	base := fmt.Sprintf("mode=scen run=@RUN@ n=%d tmo=0 users=%s g=%s calls=%s scns=%s", n, strings.Join(users, ","),
		c20lib.Enc(randText(r, 4, "ghijkl")), strings.Join(calls, ";"), strings.Join(scns, ";"))
	if engine {
		return strings.Replace(base, "@RUN@", "engine", 1) + fmt.Sprintf(" shots=%d", 6+r.Intn(10))
	}
	return strings.Replace(base, "@RUN@", "sched", 1) + " sched=" + schedFor(r, n, 4+r.Intn(5))
}

// genScenSpelled: one call whose metadata has one key per spelling (x-0 … x-9), each with a placeholder written in that
// spelling between literal text with white space around it (so that the trim markers have something to trim), the
// letters rotating over variables and template functions; the payload uses further spellings. Every spelling
// text/template allows for an action is exercised by every run, in the metadata and in the payload.
func genScenSpelled(r *rand.Rand, engine bool) string {
	letters := []byte(placeholderLetters)
	r.Shuffle(len(letters), func(a, b int) { letters[a], letters[b] = letters[b], letters[a] })
	withAuth := r.Intn(2) == 0
	var md []string
	k := 0
	next := func() byte {
		for {
			l := letters[k%len(letters)]
			k++
			if withAuth || (l != 'A' && l != 'I') {
				return l
			}
		}
	}
	for d := 0; d <= 9; d++ {
		l := next()
		lit := pick(r, []string{"p~%s~q", "%s", "~~%s~~.", "a%sb", "-~%s"})
		v := fmt.Sprintf(lit, fmt.Sprintf("{%c%d}", l, d))
		md = append(md, fmt.Sprintf("x-%d:%s", d, v))
	}
	pd := r.Perm(10)
	payload := fmt.Sprintf("name:s.n~{U%d}~{G%d}~{R%d}{S%d}~.{X%d}", pd[0], pd[1], pd[2], pd[3], pd[4])
	n := pick(r, []int{1, 2, 3})
	var calls []string
	reqs := "sp+sp"
	if withAuth {
		calls = append(calls, "auth|"+svc+"Auth||"+spell(r, "login:s.{U},pass:s.{U}")+"|u")
		reqs = "auth+sp+sp"
	}
	calls = append(calls, "sp|"+svc+"Hello|"+strings.Join(md, ",")+"|"+payload+"|u")
	base := fmt.Sprintf("mode=scen run=@RUN@ n=%d tmo=0%s gn=%s users=%s g=%s calls=%s scns=s:1:%s", n, netKV(r), pick(r, numericGlobals), "3,1,2", c20lib.Enc(genG(r)),
		strings.Join(calls, ";"), reqs)
	if engine {
		return strings.Replace(base, "@RUN@", "engine", 1) + fmt.Sprintf(" shots=%d", 4+r.Intn(6))
	}
	return strings.Replace(base, "@RUN@", "sched", 1) + " sched=" + schedFor(r, n, 3+r.Intn(4))
}

// genScenSlow: every call is fast, but the sleeps between the calls of one scenario add up to more than the
// per-call timeout (3 s, short enough to be exceeded, long enough for a local call on a busy machine): each call
// must still get its own full timeout.
func genScenSlow(r *rand.Rand, engine bool) string {
	sl := 1600 + 100*r.Intn(3)
	reqs := fmt.Sprintf("h+sleep%d+h+sleep%d+h", sl, sl)
	if r.Intn(2) == 0 {
		reqs = fmt.Sprintf("h+sleep%d+g+sleep%d+g", sl+sl/2, sl/2+200)
	}
	calls := "h|" + svc + "Hello|x-user:u-{U}|name:s.{U}|u;g|" + svc + "Hello|x-g:{G}|name:s.g|-"
	base := fmt.Sprintf("mode=scen run=@RUN@ n=%d tmoms=3000 users=1,2 g=%s calls=%s scns=slow:1:%s", 1+r.Intn(2), c20lib.Enc(randText(r, 3, "ghi")), calls, reqs)
	if engine {
		return strings.Replace(base, "@RUN@", "engine", 1) + " shots=2"
	}
	return strings.Replace(base, "@RUN@", "sched", 1) + " sched=0"
}

// ---------------------------------------------------------------- exhaustive small enumerations (thorough tier)

func allScheds(n, l int) []string {
	out := []string{""}
	for i := 0; i < l; i++ {
		var next []string
		for _, s := range out {
			for g := 0; g < n; g++ {
				next = append(next, s+strconv.Itoa(g))
			}
		}
		out = next
	}
	return out
}

// genExhaustive: (a) every assignment of 4 shots to 2 guns and of 3 shots to 3 guns for three scenario shapes
// (templated metadata on a call shared by two scenarios; auth token chaining; colliding joined names), (b) every
// pool shape n = 1..4 x shared clients 0..4 for one entry list, (c) the payload typing table: every field of every
// method under both of its names with every kind of value, alone and together with a valid sibling.
func genExhaustive() []string {
	var out []string
	shapes := []string{
		"users=1,2,3 g=g calls=h|" + svc + "Hello|x-user:u-{U},x-g:{G}|name:s.{U}|u scns=s1:1:h;s2:1:h+h",
		"users=1,2,3 g=g calls=auth|" + svc + "Auth|x-user:{U}|login:s.{U},pass:s.{U}|u;list|" + svc + "List|authorization:Bearer~{A},x-uid:{I}|user_id:n.{I},token:s.{A}|- scns=s1:1:auth+list",
		"users=1,2 g=g calls=c|" + svc + "Hello|x-k:one-{U},payload:p1-{G}|name:s.one.{U}|u;b_c|" + svc + "Hello|x-k:two-{U},payload:p2-{G}|name:s.two.{U}|u scns=a_b:1:c;a:1:b_c",
	}
	for _, sh := range shapes {
		for _, sc := range allScheds(2, 4) {
			out = append(out, "mode=scen run=sched n=2 tmo=0 "+sh+" sched="+sc)
		}
		for _, sc := range allScheds(3, 3) {
			out = append(out, "mode=scen run=sched n=3 tmo=40 "+sh+" sched="+sc)
		}
	}
	entries := "a|" + svc + "Hello|K:v|name:s.a;b|" + svc + "Nope||;c|" + svc + "Hello||name:n.5;d|" + svc + "List|x:y|user_id:n.3;e|" + svc + "Stats||;f|" +
		svc + "Hello||name:s.f;g|" + svc + "Order||item_id:s.7;h|" + svc + "Auth||login:s.1,pass:s.1"
	for n := 1; n <= 4; n++ {
		for sc := 0; sc <= 4; sc++ {
			sched := ""
			for k := 0; k < 8; k++ {
				sched += strconv.Itoa(k % n)
			}
			out = append(out, fmt.Sprintf("mode=json run=sched n=%d sc=%d tmo=0 oe=0 sched=%s e=%s", n, sc, sched, entries))
			out = append(out, fmt.Sprintf("mode=json n=%d sc=%d tmo=0 oe=1 e=%s", n, sc, entries))
			// the same pool shapes with the descriptors served by a separate reflection endpoint
			out = append(out, fmt.Sprintf("mode=json run=sched n=%d sc=%d rp=1 tmo=0 oe=0 sched=%s e=%s", n, sc, sched, entries))
			out = append(out, fmt.Sprintf("mode=json n=%d sc=%d rp=1 rmd=1 tmo=0 oe=1 e=%s", n, sc, entries))
		}
	}
	strVals := []string{"s.abc", "s.", "z", "n.5", "b.true", "o", "f.1.5", "s.a%22b%5Cc", "s.%C3%A9~x"}
	intVals := []string{"n.7", "n.0", "n.-3", "s.7", "s.-0", "z", "s.abc", "f.1.5", "b.false", "o", "n.9007199254740993", "s.9223372036854775807",
		"n.9223372036854775808", "n.-9223372036854775808", "s.-9223372036854775809", "s."}
	var es []string
	k := 0
	for _, m := range methodNames {
		for fi, f := range methods[m] {
			vals := strVals
			if f.isInt {
				vals = intVals
			}
			for _, name := range []string{f.name, f.json} {
				if name == f.name && f.name == f.json && fi < 0 {
					continue
				}
				for _, v := range vals {
					es = append(es, fmt.Sprintf("x%d|%s%s||%s:%s", k, svc, m, name, v))
					k++
					// together with a valid sibling field
					for fj, g := range methods[m] {
						if fj == fi {
							continue
						}
						sib := "s.sib"
						if g.isInt {
							sib = "n.11"
						}
						es = append(es, fmt.Sprintf("x%d|%s%s|m:v|%s:%s,%s:%s", k, svc, m, g.json, sib, name, v))
						k++
					}
				}
			}
		}
	}
	for i := 0; i < len(es); i += 60 {
		j := i + 60
		if j > len(es) {
			j = len(es)
		}
		out = append(out, fmt.Sprintf("mode=json run=sched n=2 sc=1 tmo=0 oe=0 sched=%s e=%s", strings.Repeat("01", 30)[:j-i], strings.Join(es[i:j], ";")))
	}
	return out
}

func gen(r *rand.Rand, tier string) []string {
	nj, njs, nl, ns, nc, ne, nsl, nsp, nb := 40, 50, 1, 70, 10, 6, 1, 6, 2
	if tier == "thorough" {
		nj, njs, nl, ns, nc, ne, nsl, nsp, nb = 2300, 2300, 20, 3900, 450, 270, 10, 360, 40
	}
	out := []string{"mode=table", "mode=table rp=1", "mode=table rp=1 rmd=1", "mode=table rmd=1",
		// targets written without a port (only the reflection endpoint is reachable, through reflect_port), other spellings
		// of the target, a reflection API that lists a service nobody can resolve
		"mode=table rp=1 tf=b", "mode=table rp=1 tf=c", "mode=table rp=1 tf=2 ghost=1", "mode=table tf=1 ghost=1", "mode=table rp=1 tf=6 rmd=1"}
	for i := 0; i < nsp; i++ {
		out = append(out, genScenSpelled(r, i%6 == 5))
	}
	if tier == "thorough" {
		out = append(out, genExhaustive()...)
	}
	for i := 0; i < nsl; i++ {
		out = append(out, genScenSlow(r, i%2 == 1))
	}
	for i := 0; i < nl; i++ {
		out = append(out, genJSONLong(r, true), genJSONLong(r, false))
	}
	for i := 0; i < nb; i++ {
		out = append(out, genJSONBig(r))
	}
	for i := 0; i < nj; i++ {
		out = append(out, genJSON(r))
	}
	for i := 0; i < njs; i++ {
		out = append(out, genJSONSched(r))
	}
	for i := 0; i < ns; i++ {
		out = append(out, genScen(r, false))
	}
	for i := 0; i < nc; i++ {
		out = append(out, genScenCollide(r, i%5 == 4))
	}
	for i := 0; i < ne; i++ {
		out = append(out, genScen(r, true))
	}
	// round 6: calls sharing a tag / without a tag (appended last: the inputs generated above stay what they were)
	ntag := 8
	if tier == "thorough" {
		ntag = 300
	}
	for i := 0; i < ntag; i++ {
		out = append(out, genScenTags(r, i%8 == 7))
	}
	nreq := 9
	if tier == "thorough" {
		nreq = 60
	}
	for i := 0; i < nreq; i++ {
		out = append(out, genScenReqForms(r))
	}
	return out
}
