package main

import (
	"math/rand"
)

func gen(r *rand.Rand, tier string) []string {
	return []string{
		"mode=table",
		"mode=json n=1 sc=0 tmo=0 e=t1|target.TargetService.Hello|k:v,auth:Bearer~x|name:s.bob",
		"mode=json n=1 sc=0 tmo=40 e=t1|target.TargetService.Hello||name:n.5;t2|target.TargetService.Hello||nme:s.x;t3|target.TargetService.Nope||;t4|Hello||;t5|target.TargetService.Hello||name:z;t6|target.TargetService.Hello||name:b.true;t7|target.TargetService.Hello||name:o;t8|target.TargetService.Hello||name:l",
		"mode=json n=2 sc=2 tmo=90 e=a|target.TargetService.Auth||login:s.1,pass:s.1;b|target.TargetService.Auth||login:s.1,pass:s.2;c|target.TargetService.Auth||login:n.1;d|target.TargetService.List||user_id:n.5,token:s.x;e|target.TargetService.List||userId:s.5;f|target.TargetService.List||user_id:f.1.5;g|target.TargetService.List||user_id:f.1.0;h|target.TargetService.List||user_id:s.abc;i|target.TargetService.List||user_id:z;j|target.TargetService.List||user_id:b.true;k|target.TargetService.List||user_id:n.5,userId:n.6;l|target.TargetService.Stats||;m|target.TargetService.Stats||x:n.1;n|target.TargetService.Order||item_id:n.-3,itemId:n.4;o|target.TargetService.List||user_id:f.1e2;p|target.TargetService.List||user_id:n.99999999999999999999;q|target.TargetService.List||user_id:s.~5;r|target.TargetService.List||user_id:s.",
		"mode=json n=1 sc=0 tmo=0 e=t1|target.TargetService.Hello|K:v,UP:Val,x-y_z.w:a~b~c|name:s.",
		"mode=scen run=sched n=2 tmo=0 users=1,2,3 g=gg calls=h|target.TargetService.Hello|x-user:u-{U},x-c:c-{G}|name:s.{U}|u scns=s1:1:h sched=0101",
		"mode=scen run=sched n=1 tmo=0 users=1,2,3 g=gg calls=h|target.TargetService.Hello|x-user:u-{U}|name:s.{U}|u scns=s1:1:h;s2:1:h sched=0000",
		"mode=scen run=sched n=2 tmo=0 users=1,2,3 g=gg calls=auth|target.TargetService.Auth||login:s.{U},pass:s.{U}|u;list|target.TargetService.List|authorization:Bearer~{A}|user_id:n.{I},token:s.{A}|- scns=s1:1:auth+list*2 sched=0011",
		"mode=scen run=sched n=1 tmo=0 users=1,2,3 g=gg calls=h|target.TargetService.Hello|x-user:u-{U}|name:s.{U}|u;bad|target.TargetService.Nope|a:b|name:s.x|-;ill|target.TargetService.Hello|a:b|name:n.5|- scns=s1:1:h+bad+h;s2:1:ill+h;s3:1:h sched=000000",
		"mode=scen run=engine n=4 tmo=0 users=1,2,3 g=gg calls=h|target.TargetService.Hello|x-user:u-{U}|name:s.{U}|u scns=s1:1:h shots=40",
	}
}
