// Driver for C20 (gRPC wire fidelity). Every case starts the repo's example gRPC service (reflection on) behind a
// recording interceptor, builds a pandora pool from YAML through the registered plugin factories (real grpc/json
// or grpc/scenario provider, real grpc or grpc/scenario gun) and compares what the server received with what the
// ammo says.
//
// Input grammar (space separated k=v; texts are c20lib.Enc-encoded):
//
//	mode=json n=<instances> sc=<0|clients> tmo=<0|40|90> e=<tag|call|k:v,..|field:val,..>;...
//	    run through the real engine (startup once(n), rps unlimited, passes 1); observation = sorted multisets.
//	mode=scen run=sched n=.. tmo=.. users=a,b,.. g=<const> calls=<name|call|k:tmpl,..|field:valtmpl,..|pre>;..
//	    scns=<name:weight:req+req*2..>;.. sched=<instance digit per shot>
//	    N guns shot one at a time in the given order by one goroutine (deterministic); observation = the trace.
//	mode=scen run=engine ... shots=<K>
//	    the same pool through the real engine with n concurrent instances and rps once(K), in a child process
//	    (a concurrent map write is a fatal runtime error); observation = sorted multisets.
//	mode=table        observation = the method table the gun obtained by reflection.
//
// val: s.<text> string, n.<int> number, f.<text> raw number text, b.true|b.false, z null, o {}, l [].
// template text: literal characters plus {U} (this call's preprocessor user), {A} {I} (token / userId returned by
// the call named auth), {G} (the global constant).
package main

import (
	"verifharness/drv"
)

func main() {
	if childMain() {
		return
	}
	drv.Main(&drv.Prop{
		ID:      "C20",
		Gen:     gen,
		Run:     run,
		Class:   class,
		Workers: 6,
		Rule: "grpc/json ammo over the example service's six methods (payload field combinations incl. json names, quoted " +
			"numbers, defaults; metadata maps; unknown methods; ill-typed payloads; mixed) with 1..4 instances and shared " +
			"client on/off through the real engine, and gRPC scenarios (templated metadata/payload, per-shot users via " +
			"[next], auth token chaining, the same call in several scenarios, failing steps) shot by 1..4 real guns in " +
			"generated instance orders and through the real engine; non-trivial = at least one call reached the server " +
			"or a failed sample was produced",
	})
}
