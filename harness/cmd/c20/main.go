// Driver for C20 (gRPC wire fidelity). Every case starts the repo's example gRPC service (reflection on) behind a
// recording interceptor, builds a pandora pool from YAML through the registered plugin factories (real grpc/json
// or grpc/scenario provider, real grpc or grpc/scenario gun) and compares what the server received with what the
// ammo says.
//
// Input grammar (space separated k=v; texts are c20lib.Enc-encoded):
//
//	mode=json n=<instances> sc=<0|clients> tmo=<seconds>|tmoms=<ms> oe=<0|1> e=<tag|call|k:v,..|field:val,..>;...
//	    run through the real engine (startup once(n), rps unlimited, passes 1); observation = sorted multisets.
//	    oe=1: an entry without metadata / payload has no such key in the file (otherwise an empty object).
//	    provider options: pas=<passes, 0 = unlimited> lim=<limit> cc=<chosen tags> coe=1 (continueonerror) mas=<maxammosize>;
//	    an entry !<k> is a line that cannot be decoded (k = which way); sce=1: shared client pool enabled whatever sc says
//	    (sc may be 0 or negative); a text *<n>*<c> stands for n copies of c; a metadata key x-fault with a gRPC status
//	    code number as value makes the recording server refuse the call with that status
//	mode=json run=sched ... sched=<instance digit per entry>
//	    the real provider and n real guns bound the way the instance pool does it, entry k fired by instance
//	    sched[k] by one goroutine; observation = the trace entry by entry + number of connections used.
//	    when the schedule asks for more ammo than the provider delivers the trace ends with out-of-ammo and perr=<how
//	    the provider ended: ok | decode | scan | noammo>
//	mode=scen run=sched n=.. tmo=.. users=a,b,.. g=<const> calls=<name|call|k:tmpl,..|field:valtmpl,..|pre|a<code>>;..
//	    scns=<name:weight:req+req*2+req*2_<sleep ms>..>;.. sched=<instance digit per shot>
//	    a<code>: an assert/response postprocessor demanding that status code; a name may be defined twice (the last wins)
//	    N guns shot one at a time in the given order by one goroutine (deterministic); observation = the trace.
//	mode=scen run=engine ... shots=<K>
//	    the same pool through the real engine with n concurrent instances and rps once(K), in a child process
//	    (a concurrent map write is a fatal runtime error); observation = sorted multisets.
//	mode=table        observation = the method table the gun obtained by reflection.
//	rp=1  (any mode)  the descriptors come from a SEPARATE reflection endpoint on another port (gun option reflect_port);
//	                  the target does not serve reflection; the observation ends with stray=<calls the reflection
//	                  endpoint received> (must be 0: every call goes to the target)
//	rmd=1 (any mode)  the reflection API demands the metadata configured as reflect_metadata
//
// val: s.<text> string, n.<int> number, f.<text> raw number text, b.true|b.false, z null, o {}, l [].
// template text: literal characters plus placeholders {L} / {Ld}: L = U (this call's preprocessor user), A I (token /
// userId returned by the call named auth), G (the global constant), R S X (template functions: randInt 7 8 = 7,
// randString 3 "z" = zzz, uuid printed as UUID), K (the global constant through the index builtin), L (a string
// constant: lit), N (len "abcd" = 4), E (an action that fails to execute), P (a text the template parser
// rejects); d = 0..9 the way the action is spelled in text/template syntax (cases.go tmplSpell; for P: which error).
package main

import (
	"os"
	"time"

	"verifharness/drv"
)

func main() {
	if childMain() {
		return
	}
	workers := 6
	for i, a := range os.Args {
		if (a == "-tier" || a == "--tier") && i+1 < len(os.Args) && os.Args[i+1] == "thorough" {
			workers = 12
		}
	}
	drv.Main(&drv.Prop{
		ID:      "C20",
		Gen:     gen,
		Run:     run,
		Class:   class,
		Workers: workers,
		Timeout: 60 * time.Second,
		Rule: "grpc/json ammo over the example service's six methods (payload field combinations incl. json names, quoted " +
			"numbers, defaults, int64 values beyond 2^53 and beyond the range; metadata maps; unknown methods; ill-typed " +
			"payloads; mixed; >128 alternating rich/sparse entries) with 1..5 instances, shared client pools of 0..7 and " +
			"timeouts 0/3/5/8/40/65/90/115 s, through the real engine and entry by entry in generated instance orders; gRPC " +
			"scenarios (templated metadata/payload, per-shot users via [next], auth token chaining, the same call in " +
			"several scenarios, names whose joined forms collide, a metadata key called payload, failing steps, sleeps " +
			"adding up to more than the per-call timeout; every template action spelled in the ten ways text/template " +
			"allows incl. trim markers, print, pipelines, define/template, if/else, $variables and pandora's template " +
			"functions randInt/randString/uuid; variables that do not exist where they are used; templates that cannot be " +
			"parsed or executed) shot by 1..4 real guns in generated instance orders and through the real engine; every " +
			"mode also with the descriptors served by a separate reflection-only endpoint (reflect_port, target without " +
			"reflection) and / or a reflection API demanding reflect_metadata, combined with shared client on/off; " +
			"round 3: the grpc/json provider's options (passes 1..3 and unlimited, limit, chosen cases, continueonerror, " +
			"maxammosize) over files with undecodable lines (eight kinds, also after the pooled ammo objects are recycled " +
			"and in a second pass), lines longer than the scanner's buffer, tags shared by several entries, empty arrays; " +
			"shared client pool enabled with client-number 0 / negative; calls REFUSED by the server with any gRPC status " +
			"(all seventeen codes and numbers outside them, injected by a metadata key) in both guns; scenario steps with " +
			"assert/response postprocessors, wrong credentials, a template failure coinciding with an ill-typed payload, " +
			"requests in the name(count, sleep) form, call names defined twice; " +
			"thorough adds exhaustive schedules / pool shapes (x reflect_port) / the payload typing table; " +
			"non-trivial = at least one call reached the server or a failed sample was produced",
	})
}
