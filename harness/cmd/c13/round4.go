package main

// Round 4: three input dimensions.
//
//	cc=     the `chosen_cases` option of the http provider (uripost / raw / uri / jsonline), together with passes x limit x
//	        preload - in particular a filter that matches no entry of the file, with no pass limit (passes=0) and with or
//	        without an ammo limit: the provider has to answer "no ammo" after one pass instead of reading the file for ever
//	        (components/providers/http/provider/provider.go runFullScan). With cc= the end of the run is reported more
//	        finely than elsewhere: `err:noammo` is told from `ok`.
//	popt    the `type` value of every plugin of a pool config (ammo, result, gun, rps, startup, the data source of the
//	        generic JSON provider), decoded into the engine's own InstancePoolConfig through config.DecodeAndValidate:
//	        registered names, the same with stray white space, empty, blank (only white space), unknown, huge, not a string
//	sopt    one string option of a scenario description at a time - plugin types (variable source, postprocessor,
//	        templater, grpc preprocessor / postprocessor) and plain options (names, files, delimiter, fields, variables,
//	        method, uri, tag, body, header / mapping keys and values, request list items, call, payload, metadata) - set
//	        to empty / blank / huge / odd values or left out, YAML and HCL, http and grpc, through the scenario providers'
//	        NewProvider + Run
//
// Expected everywhere: a value or an error, never a panic or a hang.

import (
	"encoding/hex"
	"fmt"
	"math/rand"
	"strconv"
	"strings"

	"github.com/yandex/pandora/core/engine"
	coreconfig "github.com/yandex/pandora/core/config"
)

// ---------------------------------------------------------------- chosen cases of the http provider

// errClassCC: like errClass, but "no ammo in file" is reported as such
func errClassCC(err error) string {
	if err != nil && strings.Contains(err.Error(), "no ammo in file") {
		return "err:noammo"
	}
	return errClass(err)
}

// ccList: "cc=<hex>,<hex>" ("-" = the empty tag); ok=false on a malformed list
func ccList(s string) ([]string, bool) {
	var out []string
	for _, c := range strings.Split(s, ",") {
		if c == "-" {
			out = append(out, "")
			continue
		}
		b, err := hex.DecodeString(c)
		if err != nil {
			return nil, false
		}
		out = append(out, string(b))
	}
	return out, true
}

// tags no generated file carries
var ccNever = []string{"~none~", "Tag1", "tag", "auth ", "T", "x-y", "list1"}

func ccCase(r *rand.Rand) string {
	format := []string{"uripost", "uripost", "raw", "uri", "uri", "jsonline", "jsonline"}[r.Intn(7)]
	var data []byte
	switch x := r.Intn(100); {
	case x < 70:
		if format == "jsonline" {
			data = jsonlineData(r)
		} else {
			data = join(validFile(r, format))
		}
	case x < 80:
		data = noAmmoFile(r, format)
		if format == "jsonline" {
			data = []byte(wsOnly[r.Intn(len(wsOnly))])
		}
	default:
		data = mutate(r, format, validFile(r, format))
	}
	// the filter: tags of the file, tags no file has, the empty tag, a mix
	var cc []string
	n := 1 + r.Intn(2)
	matchNothing := r.Intn(100) < 45
	for i := 0; i < n; i++ {
		var t string
		switch {
		case matchNothing:
			t = ccNever[r.Intn(len(ccNever))]
		case r.Intn(4) == 0:
			t = ccNever[r.Intn(len(ccNever))]
		default:
			t = tagWords[r.Intn(len(tagWords))]
		}
		if t == "" {
			cc = append(cc, "-")
		} else {
			cc = append(cc, hex.EncodeToString([]byte(t)))
		}
	}
	pre := 0
	if r.Intn(4) == 0 {
		pre = 1
	}
	passes := []int{0, 0, 0, 1, 2, 3}[r.Intn(6)]
	limit := []int{0, 0, 1, 2, 5, 40}[r.Intn(6)]
	// neither a pass limit nor an ammo limit: the run ends only if nothing is chosen (a run that delivers for ever is not
	// judged) - only with a filter no mutation can make match, over a file that is not mutated
	if passes == 0 && limit == 0 {
		if matchNothing {
			cc = []string{hex.EncodeToString([]byte("~none~"))}
			if r.Intn(3) == 0 {
				cc = append(cc, hex.EncodeToString([]byte("#never#")))
			}
			if format == "jsonline" {
				data = jsonlineData(r)
			} else if r.Intn(5) == 0 {
				data = noAmmoFile(r, format)
			} else {
				data = join(validFile(r, format))
			}
		} else {
			limit = 1 + r.Intn(5)
		}
	}
	s := fmt.Sprintf("k=ammo fmt=%s pre=%d passes=%d limit=%d cc=%s hex=%s", format, pre, passes, limit, strings.Join(cc, ","), hex.EncodeToString(data))
	if r.Intn(3) == 0 {
		s += " rel=1"
	}
	return s
}

// ---------------------------------------------------------------- plugin types of a pool config

var poptWheres = []string{"ammo", "result", "gun", "rps", "startup", "ammosrc"}

var poptRegistered = map[string][]string{
	"ammo":    {"uri", "dummy", "http/json", "raw", "json", "grpc/json"},
	"result":  {"discard", "log", "phout", "jsonlines"},
	"gun":     {"http", "http2", "connect", "grpc"},
	"rps":     {"once", "const", "line", "unlimited", "step"},
	"startup": {"once", "const", "line", "unlimited", "instance_step"},
	"ammosrc": {"file", "inline", "stdin"},
}

// the value under test: val repeated rep times
func optValue(kv map[string]string) (string, bool) {
	v, ok := unhex(kv, "val")
	if !ok {
		return "", false
	}
	if kv["rep"] != "" {
		n, err := strconv.Atoi(kv["rep"])
		if err != nil || n < 0 || n > 1<<20 {
			return "", false
		}
		v = strings.Repeat(v, n)
	}
	return v, true
}

func poptBase() map[string]any {
	return map[string]any{
		"id":      "p",
		"ammo":    map[string]any{"type": "uri", "uris": []any{"/a"}},
		"result":  map[string]any{"type": "discard"},
		"gun":     map[string]any{"type": "http", "target": "localhost:1"},
		"rps":     map[string]any{"type": "once", "times": 1},
		"startup": map[string]any{"type": "once", "times": 1},
	}
}

// tv=: what stands under the `type` key - s (the string), n (a number), l (a list), z (null), m (a mapping), 2 (the string,
// under two keys `type` and `Type`), a (no type key at all)
func runPopt(kv map[string]string) (obs string) {
	v, ok := optValue(kv)
	if !ok {
		return "BADINPUT"
	}
	defer func() {
		if r := recover(); r != nil {
			obs = "end=panic site=" + panicSite()
		}
	}()
	base := poptBase()
	where := kv["where"]
	var target map[string]any
	switch where {
	case "ammo", "result", "gun", "rps", "startup":
		target = base[where].(map[string]any)
	case "ammosrc":
		name := tmpName("popt", ".json")
		target = map[string]any{"type": "file", "path": name}
		base["ammo"] = map[string]any{"type": "json", "source": target}
	default:
		return "BADINPUT"
	}
	switch kv["tv"] {
	case "", "s":
		target["type"] = v
	case "n":
		target["type"] = 7
	case "l":
		target["type"] = []any{v}
	case "z":
		target["type"] = nil
	case "m":
		target["type"] = map[string]any{"type": v}
	case "2":
		target["type"] = v
		target["Type"] = v
	case "a":
		delete(target, "type")
	default:
		return "BADINPUT"
	}
	var pool engine.InstancePoolConfig
	if err := coreconfig.DecodeAndValidate(base, &pool); err != nil {
		return "end=err"
	}
	// the factories decode their config when they are called
	if pool.NewGun != nil {
		if _, err := pool.NewGun(); err != nil {
			return "end=err"
		}
	}
	if pool.NewRPSSchedule != nil {
		if _, err := pool.NewRPSSchedule(); err != nil {
			return "end=err"
		}
	}
	return "end=ok"
}

// values of a string option: empty, blank, odd, huge
var blankValues = []string{"", " ", "\t", "  ", " \t ", "\n", "\r\n", "\u00a0", "\u2003", "\v", "\f", "\u0085", "\u3000 "}
var oddValues = []string{"nosuch", "nosuch/x", "\"", "\\", "'", "{{", "{{.x", "}}", "${", "${x}", "%", "%{", "#", ":", "-", "~", "null", "0", "[", "]", "{", "}", ",", "é", "\u200b", "a\x00b", "/", ".", "..", "*", "|", ">", "?", "&a", "*a", "!!str", "@", "`"}

func pickOptValue(r *rand.Rand, proper []string) (val string, rep int) {
	switch x := r.Intn(100); {
	case x < 14:
		return "", 0
	case x < 38:
		return blankValues[r.Intn(len(blankValues))], 0
	case x < 50 && len(proper) > 0:
		return proper[r.Intn(len(proper))], 0
	case x < 62 && len(proper) > 0:
		// a proper value with stray white space
		p := proper[r.Intn(len(proper))]
		return []string{" " + p, p + " ", "\t" + p + "\n", " " + p + "  "}[r.Intn(4)], 0
	case x < 68 && len(proper) > 0:
		p := proper[r.Intn(len(proper))]
		return []string{strings.ToUpper(p), p + p, p + "/", "/" + p}[r.Intn(4)], 0
	case x < 92:
		return oddValues[r.Intn(len(oddValues))], 0
	default:
		return []string{"a", "ab ", " ", "9", "é"}[r.Intn(5)], []int{300, 5000, 100000}[r.Intn(3)]
	}
}

func optTokens(val string, rep int) string {
	s := "val=" + hex.EncodeToString([]byte(val))
	if rep > 0 {
		s += fmt.Sprintf(" rep=%d", rep)
	}
	return s
}

func poptCase(r *rand.Rand) string {
	where := poptWheres[r.Intn(len(poptWheres))]
	val, rep := pickOptValue(r, poptRegistered[where])
	tv := "s"
	if r.Intn(8) == 0 {
		tv = []string{"n", "l", "z", "m", "2", "a"}[r.Intn(6)]
	}
	return fmt.Sprintf("k=popt where=%s tv=%s %s", where, tv, optTokens(val, rep))
}

// ---------------------------------------------------------------- string options of a scenario description

type soptSlot struct {
	name   string
	kinds  string   // "http", "grpc" or "both"
	proper []string // well-formed values
}

var soptSlots = []soptSlot{
	{"vs.type", "both", []string{"file/csv", "file/json", "variables"}},
	{"post.type", "http", []string{"var/header", "var/jsonpath", "var/xpath", "assert/response"}},
	{"tmpl.type", "http", []string{"html", "text"}},
	{"gpre.type", "grpc", []string{"prepare"}},
	{"gpost.type", "grpc", []string{"assert/response"}},
	{"csv.name", "both", []string{"users", "u2"}},
	{"csv.file", "both", []string{"testdata/users.csv", "testdata/filter.json"}},
	{"csv.delimiter", "both", []string{",", ";", "\t", "|", ",,", "1"}},
	{"csv.field", "both", []string{"user_id", "a b", "name"}},
	{"json.name", "both", []string{"filter_src", "users"}},
	{"json.file", "both", []string{"testdata/filter.json", "testdata/users.csv"}},
	{"var.name", "both", []string{"variables", "v"}},
	{"var.key", "both", []string{"b", "k"}},
	{"var.val", "both", []string{"s", "randInt(1,5)", "randString(3)", "uuid()", "randInt(", "randString(-1)"}},
	{"req.name", "both", []string{"r1", "r2", "sleep"}},
	{"req.method", "http", []string{"GET", "POST", "get"}},
	{"req.uri", "http", []string{"/x", "/{{.request.r1.preprocessor.u}}", "http://h/x"}},
	{"req.tag", "both", []string{"t"}},
	{"req.body", "http", []string{"b", "{{.source.variables.b}}"}},
	{"req.hdrkey", "http", []string{"A", "Content-Type"}},
	{"req.hdrval", "http", []string{"b", "{{.source.variables.b}}"}},
	{"prep.key", "both", []string{"u", "user"}},
	{"prep.val", "both", []string{"source.users[next].user_id", "source.users[rand]", "source.users[0]", "source.variables.b", "randInt(1,2)"}},
	{"post.mapkey", "http", []string{"k"}},
	{"post.mapval", "http", []string{"Content-Type|upper", "Content-Type", "Content-Type|lower|substr(1,2)"}},
	{"post.jsonpath", "http", []string{"$.auth_key", "$.items[0]", "$"}},
	{"post.xpath", "http", []string{"//a", "/html/body"}},
	{"post.assertbody", "both", []string{"key"}},
	{"post.op", "http", []string{">", "<", "="}},
	{"scn.name", "both", []string{"s1"}},
	{"scn.req", "both", []string{"r1", "r1(2)", "r1(1, 10)", "sleep(5)"}},
	{"call.call", "grpc", []string{"pkg.Svc.M", "pkg.Svc/M"}},
	{"call.payload", "grpc", []string{"{}", "{\"a\": \"{{.request.r1.preprocessor.u}}\"}"}},
	{"call.mdkey", "grpc", []string{"auth"}},
	{"call.mdval", "grpc", []string{"v", "{{.source.variables.b}}"}},
}

var soptDefaults = map[string]string{
	"vs.type": "file/csv", "post.type": "var/header", "tmpl.type": "html", "gpre.type": "prepare", "gpost.type": "assert/response",
	"csv.name": "users", "csv.file": "testdata/users.csv", "csv.delimiter": ",", "csv.field": "user_id",
	"json.name": "filter_src", "json.file": "testdata/filter.json", "var.name": "variables", "var.key": "b", "var.val": "s",
	"req.name": "r1", "req.method": "GET", "req.uri": "/x", "req.tag": "t", "req.body": "b", "req.hdrkey": "A", "req.hdrval": "b",
	"prep.key": "u", "prep.val": "source.users[next].user_id", "post.mapkey": "k", "post.mapval": "Content-Type|upper",
	"post.jsonpath": "$.auth_key", "post.xpath": "//a", "post.assertbody": "key", "post.op": ">",
	"scn.name": "s1", "scn.req": "r1", "call.call": "pkg.Svc.M", "call.payload": "{}", "call.mdkey": "auth", "call.mdval": "v",
}

// one line per option, so that an option can be left out (abs=1) by dropping its line
var soptTemplates = map[string]string{
	"http/yaml": `variable_sources:
  - name: @csv.name@
    type: @vs.type@
    file: @csv.file@
    fields: [@csv.field@, "name", "pass"]
    ignore_first_line: true
    delimiter: @csv.delimiter@
  - name: @json.name@
    type: file/json
    file: @json.file@
  - name: @var.name@
    type: variables
    variables:
      @var.key@: @var.val@
requests:
  - name: @req.name@
    method: @req.method@
    uri: @req.uri@
    tag: @req.tag@
    body: @req.body@
    headers:
      @req.hdrkey@: @req.hdrval@
    preprocessor:
      mapping:
        @prep.key@: @prep.val@
    postprocessors:
      - type: @post.type@
        mapping:
          @post.mapkey@: @post.mapval@
      - type: var/jsonpath
        mapping:
          token: @post.jsonpath@
      - type: var/xpath
        mapping:
          x: @post.xpath@
      - type: assert/response
        body: [@post.assertbody@]
        size:
          val: 40
          op: @post.op@
    templater:
      type: @tmpl.type@
scenarios:
  - name: @scn.name@
    requests: [@scn.req@]
`,
	"http/hcl": `variable_source @csv.name@ @vs.type@ {
  file = @csv.file@
  fields = [@csv.field@, "name", "pass"]
  ignore_first_line = true
  delimiter = @csv.delimiter@
}
variable_source @json.name@ "file/json" {
  file = @json.file@
}
variable_source @var.name@ "variables" {
  variables = {
    @var.key@ = @var.val@
  }
}
request @req.name@ {
  method = @req.method@
  uri = @req.uri@
  tag = @req.tag@
  body = @req.body@
  headers = {
    @req.hdrkey@ = @req.hdrval@
  }
  preprocessor {
    mapping = {
      @prep.key@ = @prep.val@
    }
  }
  postprocessor @post.type@ {
    mapping = {
      @post.mapkey@ = @post.mapval@
    }
  }
  postprocessor "var/jsonpath" {
    mapping = {
      token = @post.jsonpath@
    }
  }
  postprocessor "var/xpath" {
    mapping = {
      x = @post.xpath@
    }
  }
  postprocessor "assert/response" {
    body = [@post.assertbody@]
    size {
      val = 40
      op = @post.op@
    }
  }
  templater {
    type = @tmpl.type@
  }
}
scenario @scn.name@ {
  requests = [@scn.req@]
}
`,
	"grpc/yaml": `variable_sources:
  - name: @csv.name@
    type: @vs.type@
    file: @csv.file@
    fields: [@csv.field@, "name", "pass"]
    ignore_first_line: true
    delimiter: @csv.delimiter@
  - name: @json.name@
    type: file/json
    file: @json.file@
  - name: @var.name@
    type: variables
    variables:
      @var.key@: @var.val@
calls:
  - name: @req.name@
    tag: @req.tag@
    call: @call.call@
    payload: @call.payload@
    metadata:
      @call.mdkey@: @call.mdval@
    preprocessors:
      - type: @gpre.type@
        mapping:
          @prep.key@: @prep.val@
    postprocessors:
      - type: @gpost.type@
        payload: [@post.assertbody@]
        status_code: 200
scenarios:
  - name: @scn.name@
    requests: [@scn.req@]
`,
	"grpc/hcl": `variable_source @csv.name@ @vs.type@ {
  file = @csv.file@
  fields = [@csv.field@, "name", "pass"]
  ignore_first_line = true
  delimiter = @csv.delimiter@
}
variable_source @json.name@ "file/json" {
  file = @json.file@
}
variable_source @var.name@ "variables" {
  variables = {
    @var.key@ = @var.val@
  }
}
call @req.name@ {
  tag = @req.tag@
  call = @call.call@
  payload = @call.payload@
  metadata = {
    @call.mdkey@ = @call.mdval@
  }
  preprocessor @gpre.type@ {
    mapping = {
      @prep.key@ = @prep.val@
    }
  }
  postprocessor @gpost.type@ {
    payload = [@post.assertbody@]
    status_code = 200
  }
}
scenario @scn.name@ {
  requests = [@scn.req@]
}
`,
}

// hclQuote: a quoted HCL template string that evaluates to s (`${` and `%{` escaped, control characters as \uNNNN)
func hclQuote(s string) string {
	var b strings.Builder
	b.WriteByte('"')
	rs := []rune(s)
	for i, c := range rs {
		switch {
		case c == '"' || c == '\\':
			b.WriteByte('\\')
			b.WriteRune(c)
		case c == '\n':
			b.WriteString("\\n")
		case c == '\t':
			b.WriteString("\\t")
		case c == '\r':
			b.WriteString("\\r")
		case (c == '$' || c == '%') && i+1 < len(rs) && rs[i+1] == '{':
			b.WriteRune(c)
			b.WriteRune(c)
		case c < 0x20 || c == 0x7f || c == 0xfffd:
			fmt.Fprintf(&b, "\\u%04x", c)
		default:
			b.WriteRune(c)
		}
	}
	b.WriteByte('"')
	return b.String()
}

// yamlQuote: a double-quoted YAML scalar that evaluates to s
func yamlQuote(s string) string {
	var b strings.Builder
	b.WriteByte('"')
	for _, c := range s {
		switch {
		case c == '"' || c == '\\':
			b.WriteByte('\\')
			b.WriteRune(c)
		case c == '\n':
			b.WriteString("\\n")
		case c == '\t':
			b.WriteString("\\t")
		case c == '\r':
			b.WriteString("\\r")
		case c < 0x20 || c == 0x7f:
			fmt.Fprintf(&b, "\\x%02x", c)
		case c == 0x85 || c == 0xa0 || c == 0x2028 || c == 0x2029 || c == 0xfeff || c == 0xfffd:
			fmt.Fprintf(&b, "\\u%04x", c)
		default:
			b.WriteRune(c)
		}
	}
	b.WriteByte('"')
	return b.String()
}

func renderSopt(kind, format, slot, val string, absent bool) (string, bool) {
	tpl, ok := soptTemplates[kind+"/"+format]
	if !ok {
		return "", false
	}
	if !strings.Contains(tpl, "@"+slot+"@") {
		return "", false
	}
	q := yamlQuote
	if format == "hcl" {
		q = hclQuote
	}
	var out strings.Builder
	for _, line := range strings.SplitAfter(tpl, "\n") {
		if absent && strings.Contains(line, "@"+slot+"@") {
			continue
		}
		// left to right; a substituted value is never looked at again
		for {
			i := strings.Index(line, "@")
			if i < 0 {
				break
			}
			j := strings.Index(line[i+1:], "@")
			if j < 0 {
				break
			}
			name := line[i+1 : i+1+j]
			v := soptDefaults[name]
			if name == slot {
				v = val
			} else if name == "scn.req" && slot == "req.name" && !absent {
				// the scenario asks for the request under the name it was given
				v = val
			}
			out.WriteString(line[:i])
			out.WriteString(q(v))
			line = line[i+j+2:]
		}
		out.WriteString(line)
	}
	return out.String(), true
}

func runSopt(kv map[string]string) string {
	v, ok := optValue(kv)
	if !ok {
		return "BADINPUT"
	}
	loadBundles()
	payload, ok := renderSopt(kv["kind"], kv["fmt"], kv["slot"], v, kv["abs"] == "1")
	if !ok {
		return "BADINPUT"
	}
	if kv["slot"] == "scn.req" && hasLongDigitRun(v, 4) {
		return "oom-guard"
	}
	return runScnPayload(kv["kind"], kv["fmt"], []byte(payload), false)
}

func soptCase(r *rand.Rand) string {
	for {
		s := soptSlots[r.Intn(len(soptSlots))]
		// the plugin types and the options of the variable sources are asked about more often
		if !(strings.HasSuffix(s.name, ".type") || strings.HasPrefix(s.name, "csv.") || strings.HasPrefix(s.name, "json.") || strings.HasPrefix(s.name, "var.")) && r.Intn(2) == 0 {
			continue
		}
		kind := []string{"http", "grpc"}[r.Intn(2)]
		if s.kinds != "both" && s.kinds != kind {
			continue
		}
		format := []string{"yaml", "hcl"}[r.Intn(2)]
		val, rep := pickOptValue(r, s.proper)
		if format == "hcl" && strings.ContainsAny(val, "\x00\v\f") {
			continue
		}
		line := fmt.Sprintf("k=sopt kind=%s fmt=%s slot=%s %s", kind, format, s.name, optTokens(val, rep))
		if r.Intn(12) == 0 {
			line += " abs=1"
		}
		return line
	}
}

// every slot with the values that matter most (thorough): empty, blank, a proper one
func soptExhaustive() []string {
	var out []string
	for _, s := range soptSlots {
		for _, kind := range []string{"http", "grpc"} {
			if s.kinds != "both" && s.kinds != kind {
				continue
			}
			for _, format := range []string{"yaml", "hcl"} {
				vals := append([]string{}, blankValues[:8]...)
				vals = append(vals, s.proper...)
				for _, p := range s.proper {
					vals = append(vals, " "+p, p+" ")
				}
				for _, v := range vals {
					out = append(out, fmt.Sprintf("k=sopt kind=%s fmt=%s slot=%s %s", kind, format, s.name, optTokens(v, 0)))
				}
				out = append(out, fmt.Sprintf("k=sopt kind=%s fmt=%s slot=%s val= abs=1", kind, format, s.name))
			}
		}
	}
	for _, w := range poptWheres {
		vals := append([]string{}, blankValues...)
		vals = append(vals, poptRegistered[w]...)
		for _, p := range poptRegistered[w] {
			vals = append(vals, " "+p, p+" ")
		}
		for _, v := range vals {
			for _, tv := range []string{"s", "2", "l", "m"} {
				out = append(out, fmt.Sprintf("k=popt where=%s tv=%s %s", w, tv, optTokens(v, 0)))
			}
		}
		for _, tv := range []string{"n", "z", "a"} {
			out = append(out, fmt.Sprintf("k=popt where=%s tv=%s val=", w, tv))
		}
	}
	return out
}

func round4Cases(r *rand.Rand, tier string) []string {
	nCC, nPopt, nSopt := 260, 150, 520
	if tier == "thorough" {
		nCC, nPopt, nSopt = 9000, 3000, 12000
	}
	var out []string
	for i := 0; i < nCC; i++ {
		out = append(out, ccCase(r))
	}
	for i := 0; i < nPopt; i++ {
		out = append(out, poptCase(r))
	}
	for i := 0; i < nSopt; i++ {
		out = append(out, soptCase(r))
	}
	if tier == "thorough" {
		out = append(out, soptExhaustive()...)
	}
	return out
}
