package main

import (
	"encoding/hex"
	"fmt"
	"math/rand"
	"strconv"
	"strings"
)

// ---------------------------------------------------------------- valid ammo files

var tagWords = []string{"t", "tag1", "auth", "list", "a b", "", "x_y", "Z9"}
var uriWords = []string{"/", "/a", "/a/b", "/index.html", "/x?y=1", "/q?a=b&c=d", "/p_1-2.3", "/~u/f"}
var hdrKeys = []string{"Host", "X-A", "Content-Type", "user-agent", "x", "A-b-C"}
var hdrVals = []string{"example.com", "v", "a b", "application/json", "", "1:2"}

func pick(r *rand.Rand, xs []string) string { return xs[r.Intn(len(xs))] }

func randBody(r *rand.Rand) []byte {
	switch r.Intn(6) {
	case 0:
		return nil
	case 1:
		return []byte("hello")
	case 2:
		return []byte("a\nb\n\nc")
	case 3:
		n := r.Intn(40)
		b := make([]byte, n)
		for i := range b {
			b[i] = byte(r.Intn(256))
		}
		return b
	case 4:
		return []byte(`{"k":"v"}`)
	default:
		return []byte("[X: y]\n7 /inner t")
	}
}

func headerLine(r *rand.Rand) string {
	return "[" + pick(r, hdrKeys) + ": " + pick(r, hdrVals) + "]"
}

// a uripost file as a list of chunks (so that mutations can work on chunk level)
func validUripost(r *rand.Rand) [][]byte {
	var out [][]byte
	n := r.Intn(5)
	for i := 0; i <= n; i++ {
		if r.Intn(4) == 0 {
			out = append(out, []byte(headerLine(r)+"\n"))
		}
		if r.Intn(6) == 0 {
			out = append(out, []byte("\n"))
		}
		body := randBody(r)
		line := strconv.Itoa(len(body)) + " " + pick(r, uriWords)
		if t := pick(r, tagWords); t != "" {
			line += " " + t
		}
		chunk := append([]byte(line+"\n"), body...)
		if r.Intn(8) != 0 || i < n {
			chunk = append(chunk, '\n')
		}
		out = append(out, chunk)
	}
	return out
}

func httpReq(r *rand.Rand) []byte {
	switch r.Intn(3) {
	case 0:
		return []byte("GET " + pick(r, uriWords) + " HTTP/1.1\r\nHost: example.com\r\n\r\n")
	case 1:
		b := randBody(r)
		return append([]byte(fmt.Sprintf("POST %s HTTP/1.1\r\nHost: h\r\nContent-Length: %d\r\n\r\n", pick(r, uriWords), len(b))), b...)
	default:
		return []byte("GET / HTTP/1.0\n\n")
	}
}

func validRaw(r *rand.Rand) [][]byte {
	var out [][]byte
	n := r.Intn(5)
	for i := 0; i <= n; i++ {
		if r.Intn(6) == 0 {
			out = append(out, []byte("\n"))
		}
		req := httpReq(r)
		line := strconv.Itoa(len(req))
		if t := pick(r, tagWords); t != "" {
			line += " " + t
		}
		chunk := append([]byte(line+"\n"), req...)
		if r.Intn(3) != 0 {
			chunk = append(chunk, '\n')
		}
		out = append(out, chunk)
	}
	return out
}

func validURI(r *rand.Rand) [][]byte {
	var out [][]byte
	n := r.Intn(6)
	for i := 0; i <= n; i++ {
		if r.Intn(3) == 0 {
			out = append(out, []byte(headerLine(r)+"\n"))
		}
		if r.Intn(6) == 0 {
			out = append(out, []byte("\n"))
		}
		line := pick(r, uriWords)
		if t := pick(r, tagWords); t != "" {
			line += " " + t
		}
		if i == n && r.Intn(3) == 0 {
			out = append(out, []byte(line))
		} else {
			out = append(out, []byte(line+"\n"))
		}
	}
	return out
}

func validJsonline(r *rand.Rand) [][]byte {
	var out [][]byte
	n := r.Intn(4)
	arr := r.Intn(4) == 0
	if arr {
		out = append(out, []byte("["))
	}
	for i := 0; i <= n; i++ {
		l := fmt.Sprintf(`{"host":"example.com","method":"GET","uri":%q,"tag":%q,"headers":{"A":"b"}}`, pick(r, uriWords), pick(r, tagWords))
		if arr && i < n {
			l += ","
		}
		out = append(out, []byte(l+"\n"))
	}
	if arr {
		out = append(out, []byte("]\n"))
	}
	return out
}

func validGrpcJSON(r *rand.Rand) [][]byte {
	var out [][]byte
	n := r.Intn(4)
	for i := 0; i <= n; i++ {
		out = append(out, []byte(fmt.Sprintf(`{"tag":%q,"call":"pkg.Svc.M","metadata":{"a":"b"},"payload":{"x":%d}}`+"\n", pick(r, tagWords), i)))
	}
	return out
}

func validFile(r *rand.Rand, format string) [][]byte {
	switch format {
	case "uripost":
		return validUripost(r)
	case "raw":
		return validRaw(r)
	case "uri":
		return validURI(r)
	case "jsonline":
		return validJsonline(r)
	default:
		return validGrpcJSON(r)
	}
}

func join(chunks [][]byte) []byte {
	var out []byte
	for _, c := range chunks {
		out = append(out, c...)
	}
	return out
}

// ---------------------------------------------------------------- mutations

var hugeSizes = []string{
	"1099511627776",       // 2^40: above the child's address-space cap, below the runtime's max allocation
	"99999999999999",      // DESIGN witness
	"4611686018427387904", // 2^62: above the runtime's max allocation (makeslice panic)
	"9223372036854775807", // max int64
	"9223372036854775808", // not an int64: Atoi error
	"99999999999999999999999",
}

var unicodeSpaces = []string{"\u0085", "\u00a0", "\u1680", "\u2000", "\u2003", "\u200a", "\u2028", "\u2029", "\u202f", "\u205f", "\u3000", "\v", "\f", "\r", "\t"}

func randBytes(r *rand.Rand, n int) []byte {
	b := make([]byte, n)
	for i := range b {
		switch r.Intn(6) {
		case 0:
			const special = "\n [ ]:0123456789-+/"
			b[i] = special[r.Intn(len(special))]
		default:
			b[i] = byte(r.Intn(256))
		}
	}
	return b
}

// mutateSize rewrites the first field of a random size line
func mutateSize(r *rand.Rand, data []byte) []byte {
	lines := strings.SplitAfter(string(data), "\n")
	var idx []int
	for i, l := range lines {
		f, _, _ := strings.Cut(strings.TrimSpace(l), " ")
		if _, err := strconv.Atoi(f); err == nil {
			idx = append(idx, i)
		}
	}
	if len(idx) == 0 {
		return data
	}
	i := idx[r.Intn(len(idx))]
	l := lines[i]
	f, rest, _ := strings.Cut(l, " ")
	hasNL := strings.HasSuffix(f, "\n")
	f = strings.TrimSpace(f)
	n, _ := strconv.Atoi(f)
	var nf string
	switch r.Intn(10) {
	case 0:
		nf = "-" + f
	case 1:
		nf = strconv.Itoa(-1 - r.Intn(1000))
	case 2:
		nf = strconv.Itoa(n + 1 + r.Intn(3))
	case 3:
		nf = strconv.Itoa(n * 10)
	case 4:
		if n > 0 {
			nf = strconv.Itoa(r.Intn(n))
		} else {
			nf = "1"
		}
	case 5, 6:
		nf = hugeSizes[r.Intn(len(hugeSizes))]
	case 7:
		nf = []string{"abc", "1x", "0x10", "1e3", "+", "-", "", "1_0", "１"}[r.Intn(9)]
	case 8:
		nf = "+" + f
	default:
		nf = "-0"
	}
	if hasNL {
		lines[i] = nf + "\n"
	} else {
		lines[i] = nf + " " + rest
	}
	return []byte(strings.Join(lines, ""))
}

func mutateHeader(r *rand.Rand, data []byte) []byte {
	lines := strings.SplitAfter(string(data), "\n")
	var idx []int
	for i, l := range lines {
		if strings.HasPrefix(strings.TrimSpace(l), "[") {
			idx = append(idx, i)
		}
	}
	if len(idx) == 0 {
		// insert a broken header line somewhere
		pos := r.Intn(len(lines) + 1)
		bad := []string{"[\n", "[]\n", "[a]\n", "[: v]\n", "[a: b\n", "[a b]\n", "[ : ]\n", "[a:]\n", "[[a: b]]\n", "[a: b] x\n"}[r.Intn(10)]
		lines = append(lines[:pos], append([]string{bad}, lines[pos:]...)...)
		return []byte(strings.Join(lines, ""))
	}
	i := idx[r.Intn(len(idx))]
	l := lines[i]
	switch r.Intn(6) {
	case 0:
		l = strings.Replace(l, "]", "", 1)
	case 1:
		l = strings.Replace(l, ":", "", 1)
	case 2:
		l = strings.Replace(l, "[", "[:", 1)
	case 3:
		l = "[\n"
	case 4:
		l = strings.Replace(l, "]", "] ", 1)
	default:
		l = strings.Replace(l, "]", "]]", 1)
	}
	lines[i] = l
	return []byte(strings.Join(lines, ""))
}

func mutate(r *rand.Rand, format string, chunks [][]byte) []byte {
	data := join(chunks)
	if (format == "uripost" || format == "raw") && r.Intn(14) == 0 {
		// the last entry keeps its size line and loses its whole body
		return cutAfterSizeLine(r, chunks, r.Intn(2) == 0)
	}
	switch r.Intn(12) {
	case 0: // truncate
		if len(data) > 0 {
			return data[:r.Intn(len(data))]
		}
	case 1: // flip bytes
		if len(data) > 0 {
			d := append([]byte(nil), data...)
			for k := 0; k <= r.Intn(3); k++ {
				d[r.Intn(len(d))] ^= byte(1 << uint(r.Intn(8)))
			}
			return d
		}
	case 2: // duplicate a line
		lines := strings.SplitAfter(string(data), "\n")
		i := r.Intn(len(lines))
		lines = append(lines[:i+1], lines[i:]...)
		return []byte(strings.Join(lines, ""))
	case 3, 4, 5: // size field
		if format == "uripost" || format == "raw" {
			return mutateSize(r, data)
		}
		return mutateHeader(r, data)
	case 6, 7: // header brackets
		return mutateHeader(r, data)
	case 8: // splice another format
		other := []string{"uripost", "raw", "uri", "jsonline", "grpcjson"}[r.Intn(5)]
		o := validFile(r, other)
		i := r.Intn(len(chunks) + 1)
		var out [][]byte
		out = append(out, chunks[:i]...)
		out = append(out, o[r.Intn(len(o))])
		out = append(out, chunks[i:]...)
		return join(out)
	case 9: // unicode / ascii space noise at a line boundary
		lines := strings.SplitAfter(string(data), "\n")
		i := r.Intn(len(lines))
		sp := unicodeSpaces[r.Intn(len(unicodeSpaces))]
		if r.Intn(2) == 0 {
			lines[i] = sp + lines[i]
		} else {
			lines[i] = strings.TrimSuffix(lines[i], "\n") + sp + "\n"
		}
		return []byte(strings.Join(lines, ""))
	case 10: // drop a chunk
		if len(chunks) > 1 {
			i := r.Intn(len(chunks))
			var out [][]byte
			out = append(out, chunks[:i]...)
			out = append(out, chunks[i+1:]...)
			return join(out)
		}
	default: // insert random bytes
		i := r.Intn(len(data) + 1)
		ins := randBytes(r, 1+r.Intn(6))
		return append(append(append([]byte(nil), data[:i]...), ins...), data[i:]...)
	}
	return data
}

func ammoCase(r *rand.Rand) string {
	formats := []string{"uripost", "uripost", "uripost", "raw", "raw", "raw", "uri", "uri", "jsonline", "grpcjson"}
	format := formats[r.Intn(len(formats))]
	var data []byte
	switch x := r.Intn(100); {
	case x < 25: // valid
		data = join(validFile(r, format))
	case x < 80: // one mutation of a valid file
		data = mutate(r, format, validFile(r, format))
	case x < 90: // two mutations
		c := validFile(r, format)
		d := mutate(r, format, c)
		data = mutate(r, format, [][]byte{d})
	default: // raw random bytes
		data = randBytes(r, r.Intn(60))
	}
	if r.Intn(60) == 0 { // a line longer than the scanners' buffers (bufio.MaxScanTokenSize) somewhere in the file
		lines := strings.SplitAfter(string(data), "\n")
		i := r.Intn(len(lines))
		long := strings.Repeat([]string{"a", "{\"tag\":\"x\"} ", "9", " "}[r.Intn(4)], 1)
		long = strings.Repeat(long, 70000/len(long)+1) + "\n"
		lines = append(lines[:i], append([]string{long}, lines[i:]...)...)
		data = []byte(strings.Join(lines, ""))
	}
	pre := 0
	if r.Intn(5) == 0 {
		pre = 1
	}
	s := fmt.Sprintf("k=ammo fmt=%s pre=%d hex=%s", format, pre, hex.EncodeToString(data))
	if format == "grpcjson" && r.Intn(2) == 0 {
		s = fmt.Sprintf("k=ammo fmt=%s pre=0 coe=1 hex=%s", format, hex.EncodeToString(data))
	}
	return s
}

// ---------------------------------------------------------------- helper functions

const funcAlphabet = "ab sleep()(),, 0123456789-+\t"

func randFuncString(r *rand.Rand) string {
	switch x := r.Intn(100); {
	case x < 45: // well-formed name(args)
		name := []string{"r1", "auth_req", "sleep", " r2 ", "x"}[r.Intn(5)]
		switch r.Intn(5) {
		case 0:
			return name
		case 1:
			return fmt.Sprintf("%s(%d)", name, r.Intn(5))
		case 2:
			return fmt.Sprintf("%s(%d, %d)", name, r.Intn(5), r.Intn(300))
		case 3:
			return name + "()"
		default:
			return fmt.Sprintf("%s( %d ,%d,7)", name, r.Intn(4), r.Intn(50))
		}
	case x < 75: // one defect
		return []string{"r1(", "r1)", "r1(1))", "r1((1)", "(", ")", "()", "r1(1)x", "r1(x)", "r1(1,y)", "r1(-1)", "r1(1,-5)", "r1(+2)", "r1(1.5)",
			"sleep(", "sleep(abc)", "r1(,)", "r1(,5)", "r1( )", ")(", "a)b(c", "r1(99999999999999999999)", "r1(1)(2)"}[r.Intn(23)]
	default:
		n := r.Intn(10)
		b := make([]byte, n)
		for i := range b {
			if r.Intn(12) == 0 {
				b[i] = byte(r.Intn(256))
			} else {
				b[i] = funcAlphabet[r.Intn(len(funcAlphabet))]
			}
		}
		return string(b)
	}
}

func randHeaderString(r *rand.Rand) string {
	switch x := r.Intn(100); {
	case x < 40:
		return "[" + pick(r, hdrKeys) + ":" + strings.Repeat(" ", r.Intn(3)) + pick(r, hdrVals) + "]"
	case x < 75:
		return []string{"[", "]", "[]", "[a]", "[:]", "[: v]", "[a:]", "[a: b", "a: b]", "[ : ]", "[a b]", "", "[[", "]]", "[a:b]]", "[\u00a0: x]", "[k:\u2003v\u2003]", "[\xff: \xfe]", "[a::b]"}[r.Intn(19)]
	default:
		n := r.Intn(8)
		b := make([]byte, n)
		for i := range b {
			if r.Intn(8) == 0 {
				b[i] = byte(r.Intn(256))
			} else {
				const hdrAlphabet = "[]: ab\t"
				b[i] = hdrAlphabet[r.Intn(len(hdrAlphabet))]
			}
		}
		return string(b)
	}
}

func randMpPath(r *rand.Rand) string {
	srcs := []string{"users", "smap", "strs", "ints", "anys", "bools", "scalar", "nosuch"}
	idxs := []string{"next", "rand", "last", "0", "-1", "1", "2", "7", "-9", "NEXT", " Last ", "x", "", "1.5", "99999999999999999999", "+1", "-0", "next]", "[0"}
	switch x := r.Intn(100); {
	case x < 70:
		p := "source." + pick(r, srcs) + "[" + pick(r, idxs) + "]"
		switch r.Intn(5) {
		case 0:
			p += ".id"
		case 1:
			p += ".k"
		case 2:
			p += ".x.y"
		case 3:
			p = "." + p
		}
		return p
	case x < 85:
		return []string{"top", ".top", "source", "source.scalar", "source.scalar.x", "top[0]", "source[0]", "", ".", "..", "source..users", "source. users [ next ] ", "[", "]", "[]", "a[]", "][", "source.users]0[", "source.users[[0]]", "source.users[0][1]", "source.users[0]]"}[r.Intn(21)]
	default:
		n := r.Intn(14)
		b := make([]byte, n)
		for i := range b {
			if r.Intn(10) == 0 {
				b[i] = byte(r.Intn(256))
			} else {
				const pathAlphabet = ".[]sourcetp0-1 "
				b[i] = pathAlphabet[r.Intn(len(pathAlphabet))]
			}
		}
		return string(b)
	}
}

func randTagString(r *rand.Rand) string {
	atoms := []string{
		"${C13_A}", "${env:C13_A}", "${ENV:C13_NUM}", "${ env : C13_A }", "${C13_UNSET}", "${env:C13_UNSET}", "${C13_EMPTY}", "${C13_TAG}",
		"${property:" + propFile + "#a}", "${PROPERTY:" + propFile + "#key}", "${property: " + propFile + "#empty }", "${property:" + propFile + "#nosuch}",
		"${property:" + propFile + "}", "${property:/nonexistent/file#a}", "${property:/nonexistent/file}", "${property:#a}", "${property:#}", "${property:x}",
		"${property:" + propFile + "#noeq}", "${property:" + propFile + "##}", "${property:" + propFile + "#}",
		"${unknown:C13_A}", "${}", "${:}", "${:x}", "${x:}", "${", "}", "$", "{", "${{C13_A}}", "${a{b}", "${a:b:c}", "${${C13_A}}", "${C13_A", "plain", " ", "",
	}
	switch x := r.Intn(100); {
	case x < 50:
		return atoms[r.Intn(len(atoms))]
	case x < 85:
		return atoms[r.Intn(len(atoms))] + []string{"", "-", " ", "x"}[r.Intn(4)] + atoms[r.Intn(len(atoms))]
	default:
		n := r.Intn(12)
		b := make([]byte, n)
		for i := range b {
			if r.Intn(12) == 0 {
				b[i] = byte(r.Intn(256))
			} else {
				const tagAlphabet = "${}:#aC13_ /"
				b[i] = tagAlphabet[r.Intn(len(tagAlphabet))]
			}
		}
		return string(b)
	}
}

func scnCase(r *rand.Rand) string {
	kind := []string{"http", "grpc"}[r.Intn(2)]
	format := []string{"yaml", "hcl"}[r.Intn(2)]
	defs := [][]string{{"r1", "r2"}, {"r1"}, {"auth_req", "list_req", "order_req"}, {}, {"r1", "sleep"}}[r.Intn(5)]
	n := r.Intn(6)
	var reqs []string
	for i := 0; i < n; i++ {
		var s string
		switch x := r.Intn(100); {
		case x < 55 && len(defs) > 0:
			name := defs[r.Intn(len(defs))]
			switch r.Intn(4) {
			case 0:
				s = name
			case 1:
				s = fmt.Sprintf("%s(%d)", name, r.Intn(4))
			case 2:
				s = fmt.Sprintf("%s(%d, %d)", name, 1+r.Intn(3), r.Intn(500))
			default:
				s = name + "()"
			}
		case x < 80:
			s = []string{"sleep(100)", "sleep(10)", "sleep", "sleep()", "sleep(-5)", " sleep (7)"}[r.Intn(6)]
		case x < 92:
			s = []string{"nosuch", "nosuch(2)", "r1(x)", "r1(", "r1)", "r1(-1)", "r1(1,z)", "", "()", "r1(1)(1)", "r9(1, 2)"}[r.Intn(11)]
		default:
			s = strings.Map(func(c rune) rune {
				if c == '$' || c == '%' || c == '"' || c == '\\' || c < 0x20 || c > 0x7e {
					return 'q'
				}
				return c
			}, randFuncString(r))
		}
		reqs = append(reqs, s)
	}
	// leading sleep is the interesting malformed shape: make it frequent
	if r.Intn(6) == 0 {
		reqs = append([]string{[]string{"sleep(10)", "sleep", "sleep()"}[r.Intn(3)]}, reqs...)
	}
	// a sleep that is not the first item but still follows no request: the items before it are repeated zero (or fewer) times
	if r.Intn(8) == 0 && len(defs) > 0 {
		var pre []string
		for k := 0; k <= r.Intn(3); k++ {
			pre = append(pre, defs[r.Intn(len(defs))]+[]string{"(0)", "(-3)", "(0, 50)", "( 0 )", "(-1,10)"}[r.Intn(5)])
		}
		pre = append(pre, []string{"sleep(100)", "sleep", "sleep(0)"}[r.Intn(3)])
		reqs = append(pre, reqs...)
	}
	hs := make([]string, len(reqs))
	for i, q := range reqs {
		hs[i] = hex.EncodeToString([]byte(q))
	}
	rs := strings.Join(hs, ";")
	if len(reqs) == 0 {
		rs = "-"
	}
	return fmt.Sprintf("k=scn kind=%s fmt=%s defs=%s reqs=%s", kind, format, strings.Join(defs, ","), rs)
}

func scnRawCase(r *rand.Rand) string {
	loadBundles()
	kind := []string{"http", "grpc"}[r.Intn(2)]
	format := []string{"yaml", "hcl"}[r.Intn(2)]
	b := bundles[kind+"_payload."+format]
	if len(b) == 0 {
		return scnCase(r)
	}
	data := append([]byte(nil), b...)
	s := string(data)
	switch r.Intn(8) {
	case 0: // truncate
		s = s[:r.Intn(len(s))]
	case 1: // flip
		d := []byte(s)
		d[r.Intn(len(d))] ^= byte(1 << uint(r.Intn(7)))
		s = string(d)
	case 2: // move a sleep to the front of a request list
		if format == "yaml" {
			s = strings.Replace(s, "      - auth_req(1)\n      - sleep(100)\n", "      - sleep(100)\n      - auth_req(1)\n", 1+r.Intn(2))
		} else {
			s = strings.Replace(s, "    \"auth_req(1)\",\n    \"sleep(100)\",\n", "    \"sleep(100)\",\n    \"auth_req(1)\",\n", 1+r.Intn(2))
		}
	case 3: // unknown request name
		s = strings.Replace(s, "list_req(1)", "nosuch_req(1)", 1)
	case 4: // bad count
		s = strings.Replace(s, "order_req(3)", []string{"order_req(x)", "order_req(-3)", "order_req(3", "order_req 3)", "order_req()"}[r.Intn(5)], 1)
	case 5: // delete a line
		lines := strings.SplitAfter(s, "\n")
		i := r.Intn(len(lines))
		s = strings.Join(append(lines[:i], lines[i+1:]...), "")
	case 6: // duplicate a line
		lines := strings.SplitAfter(s, "\n")
		i := r.Intn(len(lines))
		lines = append(lines[:i+1], lines[i:]...)
		s = strings.Join(lines, "")
	default: // unchanged
	}
	return fmt.Sprintf("k=scnraw kind=%s fmt=%s hex=%s", kind, format, hex.EncodeToString([]byte(s)))
}

func randIntCase(r *rand.Rand) string {
	vals := []string{"0", "1", "5", "10", "-3", "100", "9223372036854775807", "-9223372036854775808", "9223372036854775797", "-1", "7"}
	switch r.Intn(10) {
	case 0:
		return "k=ri f= t="
	case 1:
		return "k=ri f=" + pick(r, vals) + " t="
	case 2, 3, 4:
		v := pick(r, vals)
		return "k=ri f=" + v + " t=" + v
	default:
		return "k=ri f=" + pick(r, vals) + " t=" + pick(r, vals)
	}
}

func weightsCase(r *rand.Rand) string {
	kind := []string{"http", "grpc"}[r.Intn(2)]
	format := []string{"yaml", "hcl"}[r.Intn(2)]
	n := 1 + r.Intn(4)
	if r.Intn(8) == 0 {
		n = 5 + r.Intn(4)
	}
	ws := make([]string, n)
	mult := 1
	if r.Intn(3) == 0 {
		mult = []int{2, 3, 5, 6, 10}[r.Intn(5)]
	}
	neg := r.Intn(3) == 0
	for i := range ws {
		switch x := r.Intn(20); {
		case x == 0:
			ws[i] = "-"
		case x == 1:
			ws[i] = "0"
		case x < 5 && neg:
			ws[i] = strconv.Itoa(-(1 + r.Intn(9)) * mult)
		case x == 5 && r.Intn(10) == 0:
			ws[i] = []string{"100000", "-100000", "9223372036854775807", "-9223372036854775808"}[r.Intn(4)]
		default:
			ws[i] = strconv.Itoa((1 + r.Intn(12)) * mult)
		}
	}
	return fmt.Sprintf("k=scnw kind=%s fmt=%s w=%s", kind, format, strings.Join(ws, ","))
}

func randStringCase(r *rand.Rand) string {
	via := "func"
	if r.Intn(4) == 0 {
		via = "vs"
	}
	ns := []string{"1", "5", "12", "0", "-1", "-5", "-9223372036854775808", "300", "x", "1.5", "", " 7 ", "+3", "-0", "99999999999999999999", "2000000"}
	letters := []string{"", "ab", "x", "0123456789", "éz"}[r.Intn(5)]
	args := []string{"1", "1", "2", "2", "0"}[r.Intn(5)]
	var n string
	switch x := r.Intn(10); {
	case x < 4:
		n = strconv.Itoa(r.Intn(40))
	case x < 6:
		n = strconv.Itoa(-1 - r.Intn(40))
	default:
		n = ns[r.Intn(len(ns))]
	}
	return fmt.Sprintf("k=rs via=%s args=%s n=%s letters=%s", via, args, hex.EncodeToString([]byte(n)), hex.EncodeToString([]byte(letters)))
}

var cliShapes = []string{"absent", "null", "scalar", "str", "map", "list:", "list:m", "list:s", "list:ms", "list:l", "list:n", "list:d", "list:md", "list:mm"}

func gen(r *rand.Rand, tier string) []string {
	n := 12000
	nCli := 8
	if tier == "thorough" {
		n = 400000
		nCli = 14
	}
	var out []string
	for i := 0; i < n; i++ {
		switch x := r.Intn(100); {
		case x < 40:
			out = append(out, ammoCase(r))
		case x < 43:
			out = append(out, multipassCase(r))
		case x < 46:
			out = append(out, genjsonCase(r))
		case x < 49:
			out = append(out, pfxCase(r))
		case x < 50:
			out = append(out, confCase(r))
		case x < 58:
			out = append(out, "k=psf hex="+hex.EncodeToString([]byte(randFuncString(r))))
		case x < 64:
			out = append(out, "k=shoot hex="+hex.EncodeToString([]byte(randFuncString(r))))
		case x < 70:
			out = append(out, "k=hdr hex="+hex.EncodeToString([]byte(randHeaderString(r))))
		case x < 80:
			out = append(out, fmt.Sprintf("k=mp n=%d calls=%d path=%s", []int{0, 0, 1, 2, 3, 5}[r.Intn(6)], 1+r.Intn(4), hex.EncodeToString([]byte(randMpPath(r)))))
		case x < 87:
			out = append(out, "k=tag hex="+hex.EncodeToString([]byte(randTagString(r))))
		case x < 93:
			out = append(out, scnCase(r))
		case x < 95:
			out = append(out, scnRawCase(r))
		case x < 97:
			out = append(out, weightsCase(r))
		case x < 98:
			if r.Intn(4) == 0 {
				kind := []string{"http", "grpc"}[r.Intn(2)]
				wh := map[string][]string{"http": {"vs", "post", "req", "scn", "tmpl", "prep"}, "grpc": {"vs", "post", "pre", "req", "scn"}}[kind]
				out = append(out, fmt.Sprintf("k=scnnull kind=%s where=%s", kind, wh[r.Intn(len(wh))]))
			} else {
				out = append(out, randStringCase(r))
			}
		default:
			out = append(out, randIntCase(r))
		}
	}
	out = append(out, round2Cases(r, tier)...)
	out = append(out, round3Cases(r, tier)...)
	out = append(out, round4Cases(r, tier)...)
	out = append(out, round4csvCases(r, tier)...)
	out = append(out, round4masCases(r, tier)...)
	out = append(out, round6Cases(r, tier)...)
	nBig := 3
	if tier == "thorough" {
		nBig = 60
		out = append(out, exhaustiveCases()...)
	}
	for i := 0; i < nBig; i++ {
		out = append(out, bigCase(r))
	}
	for i := 0; i < nCli; i++ {
		out = append(out, "k=cli pools="+cliShapes[r.Intn(len(cliShapes))])
	}
	return out
}
