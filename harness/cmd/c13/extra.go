package main

// Kinds added by the finisher:
//
//	genjson  the generic JSON ammo provider of core/provider (registered plugin type "json", built through
//	         config.DecodeAndValidate of an `ammo:` section) over lib/ioutil2.MultiPassReader
//	pfx      metamorphic prefix check, every format: the provider is run on `good` alone and on `good ++ junk`;
//	         the Spec compares the two observations (no oracle for the third-party parsers is needed)
//	conf     a `${…}` placeholder decoded into a typed field (int, int8, uint, uint8, bool, float, duration, string)

import (
	"bytes"
	"encoding/hex"
	"fmt"
	"math/rand"
	"strconv"
	"strings"
	"time"

	"github.com/spf13/afero"
	"github.com/yandex/pandora/core"
	coreconfig "github.com/yandex/pandora/core/config"
)

// ---------------------------------------------------------------- generic JSON provider

// a source without any `{` cannot hold an ammo: with passes=0 an unrepaired MultiPassReader re-reads it in a busy
// loop that nothing can stop, so such a case runs in a child process (which is killed)
func genjsonMaySpin(kv map[string]string, data []byte) bool {
	return kv["passes"] == "0" && !bytes.Contains(data, []byte("{"))
}

func runGenJSON(kv map[string]string, data []byte) string {
	name := tmpName("gen", ".json")
	if err := afero.WriteFile(memFS, name, data, 0o644); err != nil {
		return "HARNESSERR " + err.Error()
	}
	defer func() { _ = memFS.Remove(name) }()
	passes, _ := strconv.Atoi(kv["passes"])
	if kv["passes"] == "" {
		passes = 1
	}
	limit, _ := strconv.Atoi(kv["limit"])
	if passes == 0 && limit == 0 {
		return "BADINPUT"
	}
	m := map[string]any{"type": "json", "source": map[string]any{"type": "file", "path": name}, "passes": passes, "limit": limit}
	var pool struct {
		Provider core.Provider `config:"ammo"`
	}
	if err := coreconfig.DecodeAndValidate(map[string]any{"ammo": m}, &pool); err != nil || pool.Provider == nil {
		return "n=0 e= end=ctor-err"
	}
	res := driveProvider(pool.Provider, func(a core.Ammo, ok bool) (string, bool) {
		if !ok {
			return "", false
		}
		mp, isMap := a.(*map[string]interface{})
		if !isMap || mp == nil {
			return "?", true
		}
		tag, _ := (*mp)["tag"].(string)
		return hx(tag), true
	})
	if strings.HasPrefix(res.end, "err") {
		res.end = "err"
	}
	return res.String()
}

// ---------------------------------------------------------------- prefix (metamorphic)

func runFormat(format string, kv map[string]string, data []byte) string {
	if format == "genjson" {
		return runGenJSON(kv, data)
	}
	sub := map[string]string{"fmt": format, "pre": "0"}
	o := runAmmo(sub, data)
	// error classes are not compared here
	if i := strings.Index(o, "end=err:"); i >= 0 {
		o = o[:i] + "end=err"
	}
	return o
}

func runPfx(kv map[string]string) string {
	good, err1 := hex.DecodeString(kv["good"])
	junk, err2 := hex.DecodeString(kv["junk"])
	if err1 != nil || err2 != nil {
		return "BADINPUT"
	}
	format := kv["fmt"]
	all := append(append([]byte(nil), good...), junk...)
	if ammoGuard(format, all) != "" {
		return "oom-guard"
	}
	a := runFormat(format, map[string]string{}, good)
	b := runFormat(format, map[string]string{}, all)
	return "A[" + a + "] B[" + b + "]"
}

// ---------------------------------------------------------------- typed placeholder targets

func runConf(kv map[string]string) (obs string) {
	s, ok := unhex(kv, "hex")
	if !ok {
		return "BADINPUT"
	}
	defer func() {
		if r := recover(); r != nil {
			obs = "panic"
		}
	}()
	var dst struct {
		I  int
		I8 int8
		U  uint
		U8 uint8
		B  bool
		F  float64
		D  time.Duration
		S  string
	}
	field := kv["field"]
	switch field {
	case "i", "i8", "u", "u8", "b", "f", "d", "s":
	default:
		return "BADINPUT"
	}
	if err := coreconfig.DecodeAndValidate(map[string]any{field: s}, &dst); err != nil {
		return "err"
	}
	switch field {
	case "i":
		return fmt.Sprintf("ok v=%d", dst.I)
	case "i8":
		return fmt.Sprintf("ok v=%d", dst.I8)
	case "u":
		return fmt.Sprintf("ok v=%d", dst.U)
	case "u8":
		return fmt.Sprintf("ok v=%d", dst.U8)
	case "b":
		return fmt.Sprintf("ok v=%v", dst.B)
	case "d":
		return fmt.Sprintf("ok v=%d", int64(dst.D))
	case "s":
		return "ok v=" + hx(dst.S)
	}
	return "ok"
}

// ---------------------------------------------------------------- generators

var jsonTags = []string{"t", "tag1", "auth", "x_y", "Z9", "a-b", "q.r"}

func safeJSONLine(r *rand.Rand) string {
	return fmt.Sprintf(`{"tag":"%s"}`, jsonTags[r.Intn(len(jsonTags))])
}

var wsOnly = []string{"", " ", "\n", " \n", "\n\n\n", "\t \r\n", "  \n  \n"}

func genjsonData(r *rand.Rand) []byte {
	var b strings.Builder
	switch x := r.Intn(100); {
	case x < 22: // no ammo at all
		return []byte(wsOnly[r.Intn(len(wsOnly))])
	default:
		n := r.Intn(4)
		if x < 40 {
			n = 1 + r.Intn(3)
		}
		for i := 0; i < n; i++ {
			if r.Intn(8) == 0 {
				b.WriteString("\n")
			}
			b.WriteString(safeJSONLine(r))
			b.WriteString([]string{"\n", "\n", "\n", " ", "\r\n"}[r.Intn(5)])
		}
		switch y := r.Intn(100); {
		case x < 40: // well-formed
		case y < 45: // a truncated last ammo
			l := safeJSONLine(r)
			b.WriteString(l[:1+r.Intn(len(l)-1)])
		case y < 60: // garbage
			b.WriteString([]string{"x", "}", "]", "[1", "nul", "{]", "{\"tag\":}", "\"s\"", "1 2", "{\"tag\":\"a\"}}", "{\"tag\":1}"}[r.Intn(11)])
			if r.Intn(2) == 0 {
				b.WriteString("\n")
			}
		case y < 75: // the last ammo lacks its line end
			s := strings.TrimRight(b.String(), " \r\n")
			return []byte(s)
		case y < 85:
			b.Write(randBytes(r, 1+r.Intn(5)))
		default:
		}
	}
	return []byte(b.String())
}

func genjsonCase(r *rand.Rand) string {
	data := genjsonData(r)
	passes := []int{0, 0, 1, 1, 2, 3}[r.Intn(6)]
	limit := []int{0, 0, 3, 5}[r.Intn(4)]
	if passes == 0 && limit == 0 {
		limit = 3
	}
	return fmt.Sprintf("k=genjson passes=%d limit=%d hex=%s", passes, limit, hex.EncodeToString(data))
}

// a proper, non-empty prefix of a well-formed one-line entry of the format (never holds its closing brace)
func truncatedJSONEntry(r *rand.Rand, format string) []byte {
	var l string
	switch format {
	case "jsonline":
		l = string(validJsonline(r)[0])
		if strings.HasPrefix(l, "[") {
			l = `{"host":"example.com","method":"GET","uri":"/a","tag":"t"}`
		}
	case "grpcjson":
		l = string(validGrpcJSON(r)[0])
	default:
		l = safeJSONLine(r)
	}
	l = strings.TrimRight(l, ",\n")
	cut := strings.Index(l, "}")
	if cut < 0 {
		cut = len(l) - 1
	}
	return []byte(l[:1+r.Intn(cut)])
}

func pfxCase(r *rand.Rand) string {
	formats := []string{"uripost", "raw", "uri", "jsonline", "jsonline", "grpcjson", "genjson", "genjson"}
	format := formats[r.Intn(len(formats))]
	var good []byte
	if format == "genjson" {
		n := r.Intn(4)
		var b strings.Builder
		for i := 0; i < n; i++ {
			b.WriteString(safeJSONLine(r) + "\n")
		}
		good = []byte(b.String())
	} else {
		good = join(validFile(r, format))
		if format == "jsonline" && bytes.HasPrefix(good, []byte("[")) && r.Intn(2) == 0 {
			good = join(validFile(r, format))
		}
	}
	if len(good) > 0 && good[len(good)-1] != '\n' {
		good = append(good, '\n')
	}
	var junk []byte
	isJSON := format == "jsonline" || format == "grpcjson" || format == "genjson"
	switch x := r.Intn(100); {
	case isJSON && x < 50:
		junk = truncatedJSONEntry(r, format)
	case x < 65:
		junk = randBytes(r, 1+r.Intn(30))
	case x < 85:
		junk = mutate(r, format, validFile(r, format))
	case x < 93:
		o := validFile(r, []string{"uripost", "raw", "uri", "jsonline", "grpcjson"}[r.Intn(5)])
		junk = o[r.Intn(len(o))]
	default:
		junk = nil
	}
	if format == "genjson" && !bytes.Contains(junk, []byte("{")) && len(good) == 0 {
		junk = append([]byte("{"), junk...)
	}
	return fmt.Sprintf("k=pfx fmt=%s good=%s junk=%s", format, hex.EncodeToString(good), hex.EncodeToString(junk))
}

func confCase(r *rand.Rand) string {
	fields := []string{"i", "i8", "u", "u8", "b", "f", "d", "s"}
	vals := []string{
		"${C13_NUM}", "${env:C13_NUM}", " ${C13_NUM} ", "${C13_A}", "${C13_EMPTY}", "${C13_UNSET}", "${C13_NUM}${C13_NUM}", "x${C13_NUM}",
		"${property:" + propFile + "#a}", "${property:" + propFile + "}", "${property:" + propFile + "#empty}", "${property:" + propFile + "#nosuch}",
		"${unknown:C13_NUM}", "${}", "${:}", "${", "42", "-1", "300", "1s", "true", "",
	}
	return fmt.Sprintf("k=conf field=%s hex=%s", fields[r.Intn(len(fields))], hex.EncodeToString([]byte(vals[r.Intn(len(vals))])))
}

// passes=0 (unlimited) with a limit, http formats: mostly files that hold no entry at all (empty, blank lines, headers
// only) - where a decoder must answer "no ammo" instead of reading the file again and again - and files whose last
// entry is cut right after its size line
func noAmmoFile(r *rand.Rand, format string) []byte {
	var b strings.Builder
	n := r.Intn(4)
	for i := 0; i < n; i++ {
		switch r.Intn(3) {
		case 0:
			b.WriteString("\n")
		case 1:
			b.WriteString([]string{" \n", "\t\n", "\r\n", " \n"}[r.Intn(4)])
		default:
			if format == "raw" {
				b.WriteString("\n")
			} else {
				b.WriteString(headerLine(r) + "\n")
			}
		}
	}
	return []byte(b.String())
}

// cutAfterSizeLine keeps the file up to and including the size line of a random entry (its body is missing completely)
func cutAfterSizeLine(r *rand.Rand, chunks [][]byte, keepNL bool) []byte {
	if len(chunks) == 0 {
		return nil
	}
	// chunks that are entries: their first line starts with a digit
	var idx []int
	for i, c := range chunks {
		if len(c) > 0 && c[0] >= '0' && c[0] <= '9' {
			idx = append(idx, i)
		}
	}
	if len(idx) == 0 {
		return join(chunks)
	}
	i := idx[r.Intn(len(idx))]
	out := join(chunks[:i])
	line := chunks[i]
	if p := bytes.IndexByte(line, '\n'); p >= 0 {
		line = line[:p+1]
	}
	if !keepNL {
		line = bytes.TrimRight(line, "\n")
	}
	return append(out, line...)
}

func multipassCase(r *rand.Rand) string {
	format := []string{"uripost", "uripost", "raw", "uri", "jsonline"}[r.Intn(5)]
	var data []byte
	switch x := r.Intn(100); {
	case x < 40 || format == "jsonline" && x < 70:
		data = noAmmoFile(r, format)
		if format == "jsonline" {
			data = []byte(wsOnly[r.Intn(len(wsOnly))])
		}
	case x < 70 && (format == "uripost" || format == "raw"):
		data = cutAfterSizeLine(r, validFile(r, format), r.Intn(2) == 0)
	case x < 85:
		data = join(validFile(r, format))
	default:
		data = mutate(r, format, validFile(r, format))
	}
	pre := 0
	if r.Intn(4) == 0 {
		pre = 1
	}
	return fmt.Sprintf("k=ammo fmt=%s pre=%d passes=0 limit=%d hex=%s", format, pre, 1+r.Intn(4), hex.EncodeToString(data))
}

// bodies around and above the 1 MiB chunk size of readSized: announced exactly, a little more (truncated: an error)
// or a little less (the rest of the body is read as the next line) than what is there
func bigCase(r *rand.Rand) string {
	const chunk = 1 << 20
	n := []int{chunk - 1, chunk, chunk + 1, chunk + 5, 2 * chunk, 2*chunk + 1, 3*chunk - 1, chunk + chunk/2}[r.Intn(8)]
	announced := n
	switch r.Intn(5) {
	case 0:
		announced = n + 1 + r.Intn(3)
	case 1:
		announced = n - 1 - r.Intn(3)
	case 2:
		announced = n + 40
	}
	format := []string{"uripost", "uripost", "raw"}[r.Intn(3)]
	var head string
	if format == "uripost" {
		head = "0 /first a\n" + strconv.Itoa(announced) + " /big t\n"
	} else {
		head = strconv.Itoa(announced) + " t\n"
	}
	tail := []string{"\n0 /after\n", "\n", "", "\n3 /z\nabc\n"}[r.Intn(4)]
	if format == "raw" {
		tail = []string{"\n", "", "\n4 u\nabcd\n"}[r.Intn(3)]
	}
	return fmt.Sprintf("k=ammo fmt=%s pre=%d hex=%s big=%d hex2=%s", format, r.Intn(2)*r.Intn(2), hex.EncodeToString([]byte(head)), n, hex.EncodeToString([]byte(tail)))
}

// ---------------------------------------------------------------- exhaustive enumerations (thorough tier)

// all sequences of at most maxLen tokens
func enumSeqs(tokens []string, maxLen int, emit func(s string)) {
	var rec func(prefix string, depth int)
	rec = func(prefix string, depth int) {
		emit(prefix)
		if depth == maxLen {
			return
		}
		for _, t := range tokens {
			rec(prefix+t, depth+1)
		}
	}
	rec("", 0)
}

func exhaustiveCases() []string {
	var out []string
	// every file of at most five tokens, for the three modelled http formats (one pass), and of at most four tokens read
	// again and again
	fileTokens := []string{"1", "-", " ", "\n", "/", "a", "[", "]", ":"}
	enumSeqs(fileTokens, 5, func(s string) {
		h := hex.EncodeToString([]byte(s))
		for _, f := range []string{"uripost", "raw", "uri"} {
			out = append(out, "k=ammo fmt="+f+" pre=0 hex="+h)
		}
	})
	enumSeqs(fileTokens, 4, func(s string) {
		h := hex.EncodeToString([]byte(s))
		for _, f := range []string{"uripost", "raw", "uri"} {
			out = append(out, "k=ammo fmt="+f+" pre=0 passes=0 limit=3 hex="+h)
		}
	})
	enumSeqs([]string{"0", "2", " ", "\n", "/", "x"}, 5, func(s string) {
		h := hex.EncodeToString([]byte(s))
		out = append(out, "k=ammo fmt=uripost pre=1 hex="+h, "k=ammo fmt=raw pre=1 hex="+h)
	})
	// name(arg, arg) strings
	enumSeqs([]string{"a", "(", ")", ",", " ", "1", "-"}, 6, func(s string) {
		out = append(out, "k=psf hex="+hex.EncodeToString([]byte(s)))
	})
	enumSeqs([]string{"a", "(", ")", ",", " ", "1", "-", "x"}, 5, func(s string) {
		out = append(out, "k=shoot hex="+hex.EncodeToString([]byte(s)))
	})
	enumSeqs([]string{"[", "]", ":", " ", "a", "\t"}, 6, func(s string) {
		out = append(out, "k=hdr hex="+hex.EncodeToString([]byte(s)))
	})
	// request lists of at most three items
	atoms := []string{"r1", "r1(0)", "r1(2)", "sleep(10)", "sleep", "nosuch", "r1(x)", "r1(1,5)", "r1(-1)"}
	var lists [][]string
	for _, a := range atoms {
		lists = append(lists, []string{a})
		for _, b := range atoms {
			lists = append(lists, []string{a, b})
			for _, c := range atoms {
				lists = append(lists, []string{a, b, c})
			}
		}
	}
	for _, l := range lists {
		hs := make([]string, len(l))
		for i, q := range l {
			hs[i] = hex.EncodeToString([]byte(q))
		}
		for _, kf := range [][2]string{{"http", "yaml"}, {"grpc", "hcl"}, {"http", "hcl"}, {"grpc", "yaml"}} {
			out = append(out, fmt.Sprintf("k=scn kind=%s fmt=%s defs=r1 reqs=%s", kf[0], kf[1], strings.Join(hs, ";")))
		}
	}
	// variable paths
	for _, src := range []string{"users", "smap", "strs", "ints", "anys", "bools", "scalar", "nosuch"} {
		for _, idx := range []string{"next", "rand", "last", "0", "-1", "1", "2", "3", "7", "-9", "NEXT", " Last ", "x", "", "1.5", "99999999999999999999", "+1", "-0"} {
			for _, suffix := range []string{"", ".id", ".x.y"} {
				for n := 0; n <= 3; n++ {
					for calls := 1; calls <= 5; calls += 2 {
						out = append(out, fmt.Sprintf("k=mp n=%d calls=%d path=%s", n, calls, hex.EncodeToString([]byte("source."+src+"["+idx+"]"+suffix))))
					}
				}
			}
		}
	}
	// randInt bounds
	vals := []string{"", "0", "1", "5", "10", "-3", "100", "9223372036854775807", "-9223372036854775808", "9223372036854775797", "-1", "7", "-9223372036854775799"}
	for _, f := range vals {
		for _, t := range vals {
			if f == "" && t != "" {
				continue
			}
			out = append(out, "k=ri f="+f+" t="+t)
		}
	}
	// scenario weights
	ws := []string{"-2", "-1", "0", "1", "2", "3", "4", "6", "-"}
	for _, a := range ws {
		out = append(out, "k=scnw kind=http fmt=yaml w="+a)
		for _, b := range ws {
			out = append(out, "k=scnw kind=grpc fmt=hcl w="+a+","+b)
			for _, c := range ws {
				out = append(out, "k=scnw kind=http fmt=hcl w="+a+","+b+","+c, "k=scnw kind=grpc fmt=yaml w="+a+","+b+","+c)
			}
		}
	}
	// sources of the generic JSON provider
	enumSeqs([]string{`{"tag":"t"}`, "\n", " ", "{", `{"tag":"a`, "x", "}"}, 4, func(s string) {
		h := hex.EncodeToString([]byte(s))
		for _, pl := range [][2]int{{0, 3}, {1, 0}, {2, 0}, {3, 2}, {0, 1}} {
			out = append(out, fmt.Sprintf("k=genjson passes=%d limit=%d hex=%s", pl[0], pl[1], h))
		}
	})
	return out
}
