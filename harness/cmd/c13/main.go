package main

// C13: malformed ammo / scenario / config input is rejected, never crashes or hangs.
//
// Correspondence differential fuzz: every input line names one REAL entry point of pandora
// (provider constructors + Run/Acquire, scenario provider construction, helper functions,
// config decoding, the CLI in a child process), the observation is the canonical outcome
// class "entries… then ok | err:<class> | panic | hang | fatal-oom | oom-guard".
// The compiled Lean driver (lean/Pandora/Drv/C13.lean) computes the model's prediction
// for the same line and evaluates the Spec (lean/Pandora/Spec/C13.lean) on what the real
// code did.
//
// A huge announced size must not take the harness down: such cases are detected by a
// syntactic pre-check and executed in a child process of this same binary under
// RLIMIT_AS (observation "fatal-oom" when the Go runtime dies there).

import (
	"bytes"
	"context"
	"encoding/hex"
	"fmt"
	"os"
	"os/exec"
	"path/filepath"
	"strconv"
	"strings"
	"sync"
	"sync/atomic"
	"syscall"
	"time"

	"verifharness/drv"

	"github.com/spf13/afero"
	"github.com/yandex/pandora/cli"
	grpcimport "github.com/yandex/pandora/components/grpc/import"
	phttpimport "github.com/yandex/pandora/components/phttp/import"
	coreimport "github.com/yandex/pandora/core/import"
)

const (
	childFlag   = "-c13child"
	propDir     = "/var/tmp/verif-c13"
	propFile    = propDir + "/p.properties"
	childRlimit = 4 << 30 // address-space cap of a child (bytes)
	// an announced size above this is never allocated inside the harness process
	inProcCap = 1 << 24
)

var (
	memFS     = afero.NewMemMapFs()
	setupOnce sync.Once
)

func setup() {
	setupOnce.Do(func() {
		coreimport.Import(memFS)
		phttpimport.Import(memFS)
		grpcimport.Import(memFS)
		_ = os.MkdirAll(propDir, 0o755)
		content := []byte("a=1\nkey=va=lue\nempty=\nnoeq\n=anon\nsp ace=x y\n")
		if old, err := os.ReadFile(propFile); err != nil || !bytes.Equal(old, content) {
			tmp := fmt.Sprintf("%s.%d", propFile, os.Getpid())
			_ = os.WriteFile(tmp, content, 0o644)
			_ = os.Rename(tmp, propFile)
		}
		_ = os.Setenv("C13_A", "x")
		_ = os.Setenv("C13_NUM", "42")
		_ = os.Setenv("C13_EMPTY", "")
		_ = os.Setenv("C13_TAG", "${C13_A}")
		_ = os.Unsetenv("C13_UNSET")
	})
}

func main() {
	if len(os.Args) > 2 && os.Args[1] == childFlag {
		childMain(os.Args[2], os.Args[3:])
		return
	}
	setup()
	drv.Main(&drv.Prop{
		ID:      "C13",
		Gen:     gen,
		Run:     run,
		Class:   class,
		Workers: 8,
		Timeout: 240 * time.Second,
		Rule: "mutation fuzz of valid uripost/raw/uri/jsonline/grpc-json ammo files (truncate, flip, duplicate lines, negate/inflate size fields, " +
			"break header brackets, splice formats, unicode spaces) + raw random bytes through the real providers (NewProvider, Run, Acquire) with " +
			"recover, watchdog and a child process under RLIMIT_AS for huge announced sizes; scenario request lists (leading sleep, unknown names, " +
			"bad counts) through http/grpc scenario NewProvider with YAML and HCL payloads; str.ParseStringFunc, ParseShootName, util.DecodeHeader, " +
			"mp.GetMapValue (next/rand/last/int indices on empty and non-empty sources), ${property:}/${env:} placeholders through config.DecodeAndValidate, " +
			"randInt and randString (negative, zero, non-numeric lengths) through templater.ParseFunc/ExecTemplateFunc and through a `variables` source of a scenario file, " +
			"empty (null) items in the plugin lists of a scenario file, scenario weights (negative, zero, missing, with common divisors) through the scenario providers with one full pass acquired, cli.Run in a child process for configs without a well-formed pools list; " +
			"the same http formats read again and again (passes=0 with a limit: files without entries, last entry cut after its size line), bodies around and above the 1 MiB chunk of readSized, " +
			"the generic JSON provider (plugin type json) over MultiPassReader (sources without ammo, truncated last ammo, passes 0..3), a metamorphic prefix run of every format (good alone vs good++junk), " +
			"placeholders into typed fields; jsonline files of a safe JSON subset (object streams, arrays, refused files, truncated and garbled values) predicted entry by entry under every passes x limit x preload combination, " +
			"the continue_on_error / headers / uris / chosen_cases options of the http provider (a filter that matches nothing, with and without limits), the `type` value of every plugin of a pool config and every string option of a scenario description set to empty / blank / odd / huge values or left out (YAML and HCL), the content of the file of a csv variable source x fields x ignore_first_line x delimiter (records with fewer or more columns than configured, ragged records, no records, quotes) observed through the store of the delivered scenario, the max_ammo_size option of the grpc/json provider and the jsonline decoder (zero, negative, tiny, around the longest line, huge; the file read without and with it), an injected I/O fault (the read reaching a given byte, the n-th seek to the start) under every format; thorough adds exhaustive enumerations (every file of <= 5 tokens per http format, every name(arg,arg) / header string of <= 6 tokens, every request list of <= 3 items, index x source x length x calls, weight lists of <= 3, JSON sources of <= 4 tokens); " +
			"a case is non-trivial when it reaches the modelled decoder with a non-empty input",
	})
}

// watchdogs: every time limit of this harness goes through wd. An observation that rests on an expired watchdog
// (hang, no first ammo, child without answer) is not believed at once: the case is run again, alone, with all
// limits five times as long - on a loaded machine a slow answer must not pass for a hang.
var (
	wdScale   int32 = 1
	retryMu   sync.Mutex
	confirmed int // guarded by retryMu
	// the same number, readable without the lock
	confirmedN int32
)

// once two hangs are confirmed by the long run the tree is known to hang: the remaining cases are not waited for as long
func wd(d time.Duration) time.Duration {
	if atomic.LoadInt32(&confirmedN) >= 2 && atomic.LoadInt32(&wdScale) == 1 {
		return d / 4
	}
	return d * time.Duration(atomic.LoadInt32(&wdScale))
}

func restsOnWatchdog(obs string) bool {
	return strings.Contains(obs, "hang") || obs == "HANG" || strings.Contains(obs, "end=noammo") || strings.HasPrefix(obs, "CHILDERR")
}

func run(input string) string {
	obs := runOnce(input)
	if !restsOnWatchdog(obs) || os.Getenv("C13_IN_CHILD") != "" {
		return obs
	}
	retryMu.Lock()
	defer retryMu.Unlock()
	// two observations confirmed by the long run establish that the tree really hangs: the rest is not run twice
	if confirmed >= 2 {
		return obs
	}
	atomic.StoreInt32(&wdScale, 5)
	defer atomic.StoreInt32(&wdScale, 1)
	again := runOnce(input)
	if restsOnWatchdog(again) {
		confirmed++
		atomic.StoreInt32(&confirmedN, int32(confirmed))
	}
	return again
}

// runOnce dispatches one input line to the real code.
func runOnce(input string) string {
	setup()
	kv := drv.KV(input)
	switch kv["k"] {
	case "ammo":
		data, err := hex.DecodeString(kv["hex"])
		if err != nil {
			return "BADINPUT"
		}
		// big=<n> hex2=<tail>: the file is hex ++ n bytes 'x' ++ hex2 (bodies above the 1 MiB chunk of readSized)
		if kv["big"] != "" {
			n, err1 := strconv.Atoi(kv["big"])
			tail, err2 := hex.DecodeString(kv["hex2"])
			if err1 != nil || err2 != nil || n < 0 || n > 8<<20 {
				return "BADINPUT"
			}
			data = append(append(data, bytes.Repeat([]byte{'x'}, n)...), tail...)
		}
		if guard := ammoGuard(kv["fmt"], data); guard != "" {
			if guard == "child" {
				// the input goes through a file: a command-line argument is limited to 128 KiB
				f, err := os.CreateTemp("", "c13-case-*.txt")
				if err != nil {
					return "HARNESSERR " + err.Error()
				}
				defer os.Remove(f.Name())
				_, _ = f.WriteString(input)
				_ = f.Close()
				return runChild("case", f.Name())
			}
			return guard
		}
		return runAmmo(kv, data)
	case "genjson":
		data, err := hex.DecodeString(kv["hex"])
		if err != nil {
			return "BADINPUT"
		}
		if genjsonMaySpin(kv, data) && os.Getenv("C13_IN_CHILD") == "" {
			f, err := os.CreateTemp("", "c13-case-*.txt")
			if err != nil {
				return "HARNESSERR " + err.Error()
			}
			defer os.Remove(f.Name())
			_, _ = f.WriteString(input)
			_ = f.Close()
			return runChild("case", f.Name())
		}
		return runGenJSON(kv, data)
	case "pfx":
		return runPfx(kv)
	case "flt":
		// a decoder that passes over a failed seek reads the end of the file again and again: the seek cases run in a
		// child process, which can be killed
		if kv["mode"] == "seek" && os.Getenv("C13_IN_CHILD") == "" {
			f, err := os.CreateTemp("", "c13-case-*.txt")
			if err != nil {
				return "HARNESSERR " + err.Error()
			}
			defer os.Remove(f.Name())
			_, _ = f.WriteString(input)
			_ = f.Close()
			return runChild("case", f.Name())
		}
		return runFlt(kv)
	case "conf":
		return runConf(kv)
	case "hdr":
		return runHdr(kv)
	case "psf":
		return runPsf(kv)
	case "shoot":
		return runShoot(kv)
	case "mp":
		return runMp(kv)
	case "tag":
		return runTag(kv)
	case "scn":
		if scnTooBig(kv) {
			// round 6: an absurd repeat count (8 digits and more) is run for real, in a child under RLIMIT_AS - it must be refused
			if scnAbsurd(kv) {
				return r6ChildCase(input)
			}
			return "oom-guard"
		}
		return runScn(kv)
	case "scnraw":
		data, err := hex.DecodeString(kv["hex"])
		if err != nil {
			return "BADINPUT"
		}
		if rawScnTooBig(data) {
			return "oom-guard"
		}
		return runScnRaw(kv, data)
	case "ri":
		return runRandInt(kv)
	case "scnw":
		if r6WeightsAbsurd(kv) {
			return r6ChildCase(input)
		}
		return runScnWeights(kv)
	case "rs":
		if r6RandStringAbsurd(kv) {
			return r6ChildCase(input)
		}
		return runRandString(kv)
	case "scnnull":
		return runScnNull(kv)
	case "cli":
		return runCli(kv)
	case "popt":
		return runPopt(kv)
	case "sopt":
		return runSopt(kv)
	case "csv":
		return runCsv(kv)
	case "mas":
		return runMas(kv, input)
	case "runend":
		return runRunEnd(kv)
	}
	return "BADINPUT"
}

// ---------------------------------------------------------------- child process

func childMain(mode string, args []string) {
	switch mode {
	case "case":
		// the address-space cap makes an absurd allocation fail fast (fatal error: out of memory)
		lim := syscall.Rlimit{Cur: childRlimit, Max: childRlimit}
		_ = syscall.Setrlimit(syscall.RLIMIT_AS, &lim)
		setup()
		raw, err := os.ReadFile(args[0])
		if err != nil {
			fmt.Println("OBS HARNESSERR " + err.Error())
			os.Exit(0)
		}
		input := string(raw)
		kv := drv.KV(input)
		data, _ := hex.DecodeString(kv["hex"])
		if kv["big"] != "" {
			n, _ := strconv.Atoi(kv["big"])
			tail, _ := hex.DecodeString(kv["hex2"])
			if n >= 0 && n <= 8<<20 {
				data = append(append(data, bytes.Repeat([]byte{'x'}, n)...), tail...)
			}
		}
		_ = os.Setenv("C13_IN_CHILD", "1")
		if n, err := strconv.Atoi(os.Getenv("C13_WD_SCALE")); err == nil && n >= 1 && n <= 10 {
			atomic.StoreInt32(&wdScale, int32(n))
		}
		if n, err := strconv.Atoi(os.Getenv("C13_WD_CONFIRMED")); err == nil && n >= 0 {
			atomic.StoreInt32(&confirmedN, int32(n))
		}
		done := make(chan string, 1)
		go func() {
			defer func() {
				if r := recover(); r != nil {
					done <- "end=panic"
				}
			}()
			if kv["k"] == "genjson" {
				done <- runGenJSON(kv, data)
				return
			}
			if kv["k"] == "flt" {
				done <- runFlt(kv)
				return
			}
			if kv["k"] == "mas" {
				done <- runMas(kv, input)
				return
			}
			switch kv["k"] { // round 6: announced amounts beyond the bounds of the code
			case "scn":
				done <- runScn(kv)
				return
			case "scnw":
				done <- runScnWeights(kv)
				return
			case "rs":
				done <- runRandString(kv)
				return
			}
			done <- runAmmo(kv, data)
		}()
		wait := 15 * time.Second
		if kv["k"] == "genjson" {
			wait = 10 * time.Second // driveProvider's own watchdog (8 s) answers first
		}
		if kv["k"] == "flt" || kv["k"] == "mas" {
			wait = 20 * time.Second // two provider runs, each under driveProvider's watchdog
		}
		select {
		case o := <-done:
			fmt.Println("OBS " + o)
		case <-time.After(wd(wait)):
			fmt.Println("OBS end=hang")
		}
		os.Exit(0)
	case "cli":
		fs := afero.NewOsFs()
		coreimport.Import(fs)
		phttpimport.Import(fs)
		grpcimport.Import(fs)
		os.Args = append([]string{"pandora"}, args...)
		cli.Run()
		os.Exit(0)
	}
	os.Exit(3)
}

// runChild re-executes this binary; a runtime fatal error (out of memory) or an unrecovered panic shows up as exit status 2.
func runChild(mode string, args ...string) string {
	exe, err := os.Executable()
	if err != nil {
		return "CHILDERR " + err.Error()
	}
	ctx, cancel := context.WithTimeout(context.Background(), wd(25*time.Second))
	defer cancel()
	cmd := exec.CommandContext(ctx, exe, append([]string{childFlag, mode}, args...)...)
	cmd.Env = append(os.Environ(), "GOMEMLIMIT=2GiB", "GOTRACEBACK=single", fmt.Sprintf("C13_WD_SCALE=%d", atomic.LoadInt32(&wdScale)),
		fmt.Sprintf("C13_WD_CONFIRMED=%d", atomic.LoadInt32(&confirmedN)))
	var stdout, stderr bytes.Buffer
	cmd.Stdout = &stdout
	cmd.Stderr = &stderr
	err = cmd.Run()
	if ctx.Err() != nil {
		return "end=hang"
	}
	if mode == "cli" {
		code := 0
		if err != nil {
			if ee, ok := err.(*exec.ExitError); ok {
				code = ee.ExitCode()
			} else {
				return "CHILDERR " + err.Error()
			}
		}
		se := stderr.String() + stdout.String()
		switch {
		case strings.Contains(se, "panic:") || strings.Contains(se, "fatal error:") || strings.Contains(se, "goroutine 1 ["):
			return "end=panic"
		case code == 0:
			return "end=ok"
		default:
			return "end=err"
		}
	}
	for _, l := range strings.Split(stdout.String(), "\n") {
		if strings.HasPrefix(l, "OBS ") {
			return strings.TrimPrefix(l, "OBS ")
		}
	}
	se := stderr.String()
	switch {
	case strings.Contains(se, "out of memory") || strings.Contains(se, "cannot allocate memory"):
		return "end=fatal-oom"
	case strings.Contains(se, "panic:"):
		return "end=panic"
	case strings.Contains(se, "fatal error:"):
		return "end=fatal"
	}
	return "CHILDERR no observation: " + drv.Trunc(drv.Clean(se), 200)
}

func tmpName(prefix, ext string) string {
	return filepath.Join("/", fmt.Sprintf("%s-%d%s", prefix, nextID(), ext))
}

var (
	idMu sync.Mutex
	idN  int
)

func nextID() int {
	idMu.Lock()
	defer idMu.Unlock()
	idN++
	return idN
}

func class(input, obs string) string {
	kv := drv.KV(input)
	k := kv["k"]
	if k == "" {
		return ""
	}
	if k == "ammo" {
		if kv["hex"] == "" {
			return ""
		}
		k += ":" + kv["fmt"]
		if kv["passes"] == "0" && kv["fmt"] != "grpcjson" {
			k += ":multipass"
		}
		if kv["cc"] != "" && kv["fmt"] != "grpcjson" {
			k += ":cc"
		}
	}
	if k == "popt" {
		k += ":" + kv["where"]
	}
	if k == "sopt" {
		k += ":" + kv["kind"] + ":" + kv["fmt"] + ":" + kv["slot"]
	}
	if k == "mas" {
		k += ":" + kv["fmt"]
		if strings.HasPrefix(kv["mas"], "-") {
			k += ":negative"
		} else if len(kv["mas"]) > 6 {
			k += ":huge"
		}
	}
	if k == "csv" {
		k += ":" + kv["kind"] + ":" + kv["fmt"]
		if kv["file"] == "" {
			k += ":empty"
		}
		if kv["fields"] == "-" {
			k += ":header"
		}
	}
	if k == "runend" {
		k += ":" + kv["prov"] + ":" + kv["fault"]
	}
	if k == "genjson" {
		if kv["hex"] == "" && kv["passes"] != "0" {
			return ""
		}
		k += ":p" + kv["passes"]
	}
	if k == "pfx" {
		k += ":" + kv["fmt"]
	}
	if k == "flt" {
		k += ":" + kv["fmt"] + ":" + kv["mode"]
	}
	if k == "conf" {
		k += ":" + kv["field"]
	}
	if k == "scn" || k == "scnraw" || k == "scnw" {
		k += ":" + kv["kind"] + ":" + kv["fmt"]
	}
	if k == "rs" {
		k += ":" + kv["via"]
	}
	if k == "scnnull" {
		k += ":" + kv["kind"] + ":" + kv["where"]
	}
	end := "other"
	switch {
	case strings.HasPrefix(obs, "PANIC"), strings.Contains(obs, "end=panic"):
		end = "panic"
	case obs == "HANG", strings.Contains(obs, "end=hang"):
		end = "hang"
	case strings.Contains(obs, "fatal"):
		end = "fatal"
	case strings.Contains(obs, "oom-guard"):
		end = "oom-guard"
	case strings.Contains(obs, "end=closed"):
		end = "closed"
	case strings.Contains(obs, "end=ok"), strings.HasPrefix(obs, "ok"):
		end = "ok"
	case strings.Contains(obs, "err"):
		end = "err"
	}
	return k + "/" + end
}
