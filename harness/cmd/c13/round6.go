package main

// Round 6: the END of a provider's Run, as the instances see it.
//
//	k=runend prov=grpcjson|genjson|uripost|raw|uri|jsonline fault=none|missing|dir|perm|cancel|read0 hex=<file>
//
// The provider is built through its public constructor / registered plugin factory, Run is started and - this is the
// point - the consumer looks at the provider only AFTER Run has returned, as an instance does that was waiting in
// Acquire while Run failed: every Acquire call must return promptly (what is buffered, then "no more ammo"). A Run
// that leaves on an early error path (the ammo file cannot be opened: it is missing, it is a directory, the open is
// refused; the first read fails; the context is cancelled before Run starts) without closing its sink makes every
// instance block for ever.
//
//	run=<ok|err|panic|hang> n=<entries drained after Run returned> end=<closed|hang|panic>      or   end=ctor-err
//
// A Run that is still busy after 150 ms (a valid file and a sink nobody reads) is cancelled, as the engine does.

import (
	"context"
	"encoding/hex"
	"fmt"
	"math/big"
	"math/rand"
	"os"
	"strconv"
	"strings"
	"time"

	"github.com/spf13/afero"
	"go.uber.org/zap"

	"github.com/yandex/pandora/components/providers/grpc/grpcjson"
	httpprovider "github.com/yandex/pandora/components/providers/http"
	"github.com/yandex/pandora/components/providers/http/config"
	"github.com/yandex/pandora/core"
	coreconfig "github.com/yandex/pandora/core/config"
)

// r6PermFs refuses to open one file
type r6PermFs struct {
	afero.Fs
	deny string
}

func (f *r6PermFs) Open(name string) (afero.File, error) {
	if name == f.deny {
		return nil, &os.PathError{Op: "open", Path: name, Err: os.ErrPermission}
	}
	return f.Fs.Open(name)
}

func (f *r6PermFs) OpenFile(name string, flag int, perm os.FileMode) (afero.File, error) {
	if name == f.deny {
		return nil, &os.PathError{Op: "open", Path: name, Err: os.ErrPermission}
	}
	return f.Fs.OpenFile(name, flag, perm)
}

func runRunEnd(kv map[string]string) string {
	data, err := hex.DecodeString(kv["hex"])
	if err != nil {
		return "BADINPUT"
	}
	prov, fault := kv["prov"], kv["fault"]
	if prov != "genjson" && ammoGuard(prov, data) != "" {
		return "oom-guard"
	}
	name := tmpName("runend", ".txt")
	var fs afero.Fs = memFS
	switch fault {
	case "none", "cancel":
		if err := afero.WriteFile(memFS, name, data, 0o644); err != nil {
			return "HARNESSERR " + err.Error()
		}
		defer func() { _ = memFS.Remove(name) }()
	case "missing":
	case "dir":
		if err := memFS.MkdirAll(name, 0o755); err != nil {
			return "HARNESSERR " + err.Error()
		}
		defer func() { _ = memFS.RemoveAll(name) }()
	case "perm":
		if prov == "genjson" {
			return "BADINPUT"
		}
		if err := afero.WriteFile(memFS, name, data, 0o644); err != nil {
			return "HARNESSERR " + err.Error()
		}
		defer func() { _ = memFS.Remove(name) }()
		fs = &r6PermFs{Fs: memFS, deny: name}
	case "read0":
		if prov == "genjson" {
			return "BADINPUT"
		}
		if err := afero.WriteFile(memFS, name, data, 0o644); err != nil {
			return "HARNESSERR " + err.Error()
		}
		defer func() { _ = memFS.Remove(name) }()
		fs = &faultFs{Fs: memFS, readAt: 0}
	default:
		return "BADINPUT"
	}

	var p core.Provider
	isHTTP := false
	ctorPanic := func() (pan bool) {
		defer func() {
			if r := recover(); r != nil {
				pan = true
			}
		}()
		switch prov {
		case "grpcjson":
			p = grpcjson.NewProvider(fs, grpcjson.Config{File: name, Passes: 1})
		case "genjson":
			m := map[string]any{"type": "json", "source": map[string]any{"type": "file", "path": name}, "passes": 1, "limit": 0}
			var pool struct {
				Provider core.Provider `config:"ammo"`
			}
			if err := coreconfig.DecodeAndValidate(map[string]any{"ammo": m}, &pool); err == nil {
				p = pool.Provider
			}
		case "uripost", "raw", "uri", "jsonline":
			isHTTP = true
			hp, err := httpprovider.NewProvider(fs, config.Config{Decoder: config.DecoderType(prov), File: name, Passes: 1})
			if err == nil {
				p = hp
			}
		}
		return false
	}()
	if ctorPanic {
		return "end=panic site=ctor"
	}
	if p == nil {
		return "end=ctor-err"
	}

	ctx, cancel := context.WithCancel(context.Background())
	defer cancel()
	if fault == "cancel" {
		cancel()
	}
	runDone := make(chan string, 1)
	go func() {
		defer func() {
			if r := recover(); r != nil {
				runDone <- "panic"
			}
		}()
		if err := p.Run(ctx, core.ProviderDeps{Log: zap.NewNop(), PoolID: "c13"}); err != nil {
			runDone <- "err"
		} else {
			runDone <- "ok"
		}
	}()
	var run string
	select {
	case run = <-runDone:
	case <-time.After(150 * time.Millisecond):
		cancel()
		select {
		case run = <-runDone:
		case <-time.After(wd(8 * time.Second)):
			return "run=hang n=0 end=hang"
		}
	}
	if run == "panic" {
		return "run=panic n=0 end=panic"
	}
	// Run has returned: nothing produces any more. Every Acquire must return.
	type drained struct {
		n   int
		pan bool
	}
	done := make(chan drained, 1)
	go func() {
		var d drained
		defer func() {
			if r := recover(); r != nil {
				d.pan = true
			}
			done <- d
		}()
		for calls := 0; calls < 400; calls++ {
			a, ok := p.Acquire()
			if ok {
				d.n++
				continue
			}
			// the http provider answers (ammo, false) for an entry whose request cannot be built: not the end
			if isHTTP && a != nil {
				continue
			}
			return
		}
	}()
	select {
	case d := <-done:
		if d.pan {
			return fmt.Sprintf("run=%s n=%d end=panic", run, d.n)
		}
		return fmt.Sprintf("run=%s n=%d end=closed", run, d.n)
	case <-time.After(wd(4 * time.Second)):
		return fmt.Sprintf("run=%s n=0 end=hang", run)
	}
}

func round6Cases(r *rand.Rand, tier string) []string {
	out := r6BoundCases(r, tier)
	provs := []string{"grpcjson", "genjson", "uripost", "raw", "uri", "jsonline"}
	faults := []string{"none", "missing", "dir", "perm", "cancel", "read0"}
	rounds := 2
	if tier == "thorough" {
		rounds = 12
	}
	for i := 0; i < rounds; i++ {
		for _, pv := range provs {
			format := pv
			for _, f := range faults {
				if pv == "genjson" && (f == "perm" || f == "read0") {
					continue
				}
				var data []byte
				switch x := r.Intn(6); {
				case pv == "genjson":
					data = []byte([]string{"{\"tag\":\"a\"}\n{\"tag\":\"b\"}\n", "", "{\"tag\":\"a\"}\n{\"ta", " \n"}[r.Intn(4)])
				case x < 3:
					data = join(validFile(r, format))
				case x < 4:
					data = mutate(r, format, validFile(r, format))
				case x < 5:
					data = noAmmoFile(r, format)
				default:
					data = nil
				}
				if len(data) > 4000 {
					data = data[:4000]
				}
				out = append(out, fmt.Sprintf("k=runend prov=%s fault=%s hex=%s", pv, f, hex.EncodeToString(data)))
			}
		}
	}
	return out
}

// ---------------------------------------------------------------- announced amounts beyond the bounds of the code
//
// Until round 5 an input that announces an absurd amount (repeat count of a request, scenario weight, randString length)
// was not run at all (oom-guard). The code now bounds all three, so such an input must be REFUSED: it is run for real, in
// a child process under RLIMIT_AS (a tree without the bound dies there with a fatal out-of-memory error, not here).

func r6ChildCase(input string) string {
	f, err := os.CreateTemp("", "c13-case-*.txt")
	if err != nil {
		return "HARNESSERR " + err.Error()
	}
	defer os.Remove(f.Name())
	_, _ = f.WriteString(input)
	_ = f.Close()
	return runChild("case", f.Name())
}

func scnAbsurd(kv map[string]string) bool {
	reqs, ok := scnReqs(kv)
	if !ok {
		return false
	}
	for _, r := range reqs {
		if hasLongDigitRun(r, 7) {
			return true
		}
		// seven digits: beyond MaxScenarioRequests = 1048576?
		for i := 0; i+7 <= len(r); i++ {
			if n, err := strconv.Atoi(r[i : i+7]); err == nil && n > 1048576 && !strings.ContainsAny(r[i:i+7], "+- ") {
				return true
			}
		}
	}
	return false
}

// weights whose spread certainly exceeds MaxSpreadSize (or overflows): total of w/gcd above 2^24
func r6WeightsAbsurd(kv map[string]string) bool {
	ws, ok := parseWeights(kv["w"])
	if !ok || !weightsTooBig(ws) || len(ws) > 12 || len(ws) < 2 {
		return false
	}
	g := new(big.Int)
	var vals []*big.Int
	for _, w := range ws {
		n := int64(1)
		if w != "-" {
			n, _ = strconv.ParseInt(w, 10, 64)
		}
		if n < 0 {
			return false // refused before anything is computed: run in place
		}
		if n == 0 {
			n = 1
		}
		v := big.NewInt(n)
		vals = append(vals, v)
		g.GCD(nil, nil, g, v)
	}
	total := new(big.Int)
	for _, v := range vals {
		total.Add(total, new(big.Int).Quo(v, g))
	}
	return total.Cmp(big.NewInt(1<<24)) > 0
}

func r6RandStringAbsurd(kv map[string]string) bool {
	s, _ := unhex(kv, "n")
	n, err := strconv.ParseInt(strings.TrimSpace(s), 10, 64)
	return err == nil && n > 1<<24 && kv["args"] != "0"
}

func r6BoundCases(r *rand.Rand, tier string) []string {
	var out []string
	n := 1
	if tier == "thorough" {
		n = 8
	}
	counts := []string{"1048577", "99999999", "99999999999", "9223372036854775807", "18446744073709551617", "10485760"}
	for i := 0; i < n; i++ {
		for _, c := range counts {
			kind := []string{"http", "grpc"}[r.Intn(2)]
			format := []string{"yaml", "hcl"}[r.Intn(2)]
			reqs := [][]string{{"r1(" + c + ")"}, {"r1(2, 5)", "r1(" + c + ")"}, {"r1", "sleep(10)", "r1(" + c + ", 3)", "r1"}, {"nosuch(" + c + ")"}, {"r1(1, " + c + ")"}}[r.Intn(5)]
			var hs []string
			for _, q := range reqs {
				hs = append(hs, hx(q))
			}
			out = append(out, fmt.Sprintf("k=scn kind=%s fmt=%s defs=r1 reqs=%s", kind, format, strings.Join(hs, ";")))
		}
		for _, w := range []string{"16777217,1", "4611686018427387904,3", "9223372036854775807,9223372036854775807,2", "16777216,1", "1099511627776,1099511627776", "33554432,1,1", "-,99999999999", "50000000,3,7"} {
			out = append(out, fmt.Sprintf("k=scnw kind=%s fmt=%s w=%s", []string{"http", "grpc"}[r.Intn(2)], []string{"yaml", "hcl"}[r.Intn(2)], w))
		}
		for _, l := range []string{"16777217", "99999999999", "9223372036854775807", "4294967297"} {
			out = append(out, fmt.Sprintf("k=rs via=%s args=%d n=%s letters=%s", []string{"func", "vs"}[r.Intn(2)], 1+r.Intn(2), hx(l), hx("ab")))
		}
	}
	return out
}
