package main

// Round 6: the END of a provider's Run, as the instances see it.
//
//	k=runend prov=grpcjson|genjson|uripost|raw|uri|jsonline fault=none|missing|dir|perm|cancel|read0 hex=<file>
//
// The provider is built through its public constructor / registered plugin factory, Run is started and - this is the
// point - the consumer looks at the provider only AFTER Run has returned, as an instance does that was waiting in
// Acquire while Run failed: every Acquire call must return promptly (what is buffered, then "no more ammo"). A Run
// that leaves on an early error path (the ammo file cannot be opened: it is missing, it is a directory, the open is
// refused; the first read fails; the context is cancelled before Run starts) without closing its sink makes every
// instance block for ever.
//
//	run=<ok|err|panic|hang> n=<entries drained after Run returned> end=<closed|hang|panic>      or   end=ctor-err
//
// A Run that is still busy after 150 ms (a valid file and a sink nobody reads) is cancelled, as the engine does.

import (
	"context"
	"encoding/hex"
	"fmt"
	"math/rand"
	"os"
	"time"

	"github.com/spf13/afero"
	"go.uber.org/zap"

	"github.com/yandex/pandora/components/providers/grpc/grpcjson"
	httpprovider "github.com/yandex/pandora/components/providers/http"
	"github.com/yandex/pandora/components/providers/http/config"
	"github.com/yandex/pandora/core"
	coreconfig "github.com/yandex/pandora/core/config"
)

// r6PermFs refuses to open one file
type r6PermFs struct {
	afero.Fs
	deny string
}

func (f *r6PermFs) Open(name string) (afero.File, error) {
	if name == f.deny {
		return nil, &os.PathError{Op: "open", Path: name, Err: os.ErrPermission}
	}
	return f.Fs.Open(name)
}

func (f *r6PermFs) OpenFile(name string, flag int, perm os.FileMode) (afero.File, error) {
	if name == f.deny {
		return nil, &os.PathError{Op: "open", Path: name, Err: os.ErrPermission}
	}
	return f.Fs.OpenFile(name, flag, perm)
}

func runRunEnd(kv map[string]string) string {
	data, err := hex.DecodeString(kv["hex"])
	if err != nil {
		return "BADINPUT"
	}
	prov, fault := kv["prov"], kv["fault"]
	if prov != "genjson" && ammoGuard(prov, data) != "" {
		return "oom-guard"
	}
	name := tmpName("runend", ".txt")
	var fs afero.Fs = memFS
	switch fault {
	case "none", "cancel":
		if err := afero.WriteFile(memFS, name, data, 0o644); err != nil {
			return "HARNESSERR " + err.Error()
		}
		defer func() { _ = memFS.Remove(name) }()
	case "missing":
	case "dir":
		if err := memFS.MkdirAll(name, 0o755); err != nil {
			return "HARNESSERR " + err.Error()
		}
		defer func() { _ = memFS.RemoveAll(name) }()
	case "perm":
		if prov == "genjson" {
			return "BADINPUT"
		}
		if err := afero.WriteFile(memFS, name, data, 0o644); err != nil {
			return "HARNESSERR " + err.Error()
		}
		defer func() { _ = memFS.Remove(name) }()
		fs = &r6PermFs{Fs: memFS, deny: name}
	case "read0":
		if prov == "genjson" {
			return "BADINPUT"
		}
		if err := afero.WriteFile(memFS, name, data, 0o644); err != nil {
			return "HARNESSERR " + err.Error()
		}
		defer func() { _ = memFS.Remove(name) }()
		fs = &faultFs{Fs: memFS, readAt: 0}
	default:
		return "BADINPUT"
	}

	var p core.Provider
	isHTTP := false
	ctorPanic := func() (pan bool) {
		defer func() {
			if r := recover(); r != nil {
				pan = true
			}
		}()
		switch prov {
		case "grpcjson":
			p = grpcjson.NewProvider(fs, grpcjson.Config{File: name, Passes: 1})
		case "genjson":
			m := map[string]any{"type": "json", "source": map[string]any{"type": "file", "path": name}, "passes": 1, "limit": 0}
			var pool struct {
				Provider core.Provider `config:"ammo"`
			}
			if err := coreconfig.DecodeAndValidate(map[string]any{"ammo": m}, &pool); err == nil {
				p = pool.Provider
			}
		case "uripost", "raw", "uri", "jsonline":
			isHTTP = true
			hp, err := httpprovider.NewProvider(fs, config.Config{Decoder: config.DecoderType(prov), File: name, Passes: 1})
			if err == nil {
				p = hp
			}
		}
		return false
	}()
	if ctorPanic {
		return "end=panic site=ctor"
	}
	if p == nil {
		return "end=ctor-err"
	}

	ctx, cancel := context.WithCancel(context.Background())
	defer cancel()
	if fault == "cancel" {
		cancel()
	}
	runDone := make(chan string, 1)
	go func() {
		defer func() {
			if r := recover(); r != nil {
				runDone <- "panic"
			}
		}()
		if err := p.Run(ctx, core.ProviderDeps{Log: zap.NewNop(), PoolID: "c13"}); err != nil {
			runDone <- "err"
		} else {
			runDone <- "ok"
		}
	}()
	var run string
	select {
	case run = <-runDone:
	case <-time.After(150 * time.Millisecond):
		cancel()
		select {
		case run = <-runDone:
		case <-time.After(wd(8 * time.Second)):
			return "run=hang n=0 end=hang"
		}
	}
	if run == "panic" {
		return "run=panic n=0 end=panic"
	}
	// Run has returned: nothing produces any more. Every Acquire must return.
	type drained struct {
		n   int
		pan bool
	}
	done := make(chan drained, 1)
	go func() {
		var d drained
		defer func() {
			if r := recover(); r != nil {
				d.pan = true
			}
			done <- d
		}()
		for calls := 0; calls < 400; calls++ {
			a, ok := p.Acquire()
			if ok {
				d.n++
				continue
			}
			// the http provider answers (ammo, false) for an entry whose request cannot be built: not the end
			if isHTTP && a != nil {
				continue
			}
			return
		}
	}()
	select {
	case d := <-done:
		if d.pan {
			return fmt.Sprintf("run=%s n=%d end=panic", run, d.n)
		}
		return fmt.Sprintf("run=%s n=%d end=closed", run, d.n)
	case <-time.After(wd(4 * time.Second)):
		return fmt.Sprintf("run=%s n=0 end=hang", run)
	}
}

func round6Cases(r *rand.Rand, tier string) []string {
	var out []string
	provs := []string{"grpcjson", "genjson", "uripost", "raw", "uri", "jsonline"}
	faults := []string{"none", "missing", "dir", "perm", "cancel", "read0"}
	rounds := 2
	if tier == "thorough" {
		rounds = 12
	}
	for i := 0; i < rounds; i++ {
		for _, pv := range provs {
			format := pv
			for _, f := range faults {
				if pv == "genjson" && (f == "perm" || f == "read0") {
					continue
				}
				var data []byte
				switch x := r.Intn(6); {
				case pv == "genjson":
					data = []byte([]string{"{\"tag\":\"a\"}\n{\"tag\":\"b\"}\n", "", "{\"tag\":\"a\"}\n{\"ta", " \n"}[r.Intn(4)])
				case x < 3:
					data = join(validFile(r, format))
				case x < 4:
					data = mutate(r, format, validFile(r, format))
				case x < 5:
					data = noAmmoFile(r, format)
				default:
					data = nil
				}
				if len(data) > 4000 {
					data = data[:4000]
				}
				out = append(out, fmt.Sprintf("k=runend prov=%s fault=%s hex=%s", pv, f, hex.EncodeToString(data)))
			}
		}
	}
	return out
}
