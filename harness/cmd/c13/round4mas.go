package main

// Round 4, third part: the `max_ammo_size` option (the largest line the provider's bufio.Scanner accepts) of the grpc/json
// provider and of the http provider's jsonline decoder - zero, negative, tiny, around the longest line of the file, huge.
//
//	k=mas fmt=grpcjson|jsonline mas=<int> coe=0|1 hex=<file>
//
// The file is read twice, without the option (a) and with it (b): `a=<n>/<end> b=<n>/<end>`. Expected: never a panic, a
// hang or a fatal error; a size every line fits in changes nothing; a negative size is refused; a line that certainly
// does not fit ends the grpc/json run with an error after at most the lines in front of it.
// A size of 64 MiB or more is run in a child process under RLIMIT_AS (a provider that allocates the announced size
// up front must not take the harness down).

import (
	"fmt"
	"math/rand"
	"os"
	"strconv"
	"strings"

	"github.com/spf13/afero"

	"github.com/yandex/pandora/components/providers/grpc/grpcjson"
	httpprovider "github.com/yandex/pandora/components/providers/http"
	"github.com/yandex/pandora/components/providers/http/config"
	"github.com/yandex/pandora/core"
)

func masOnce(format, name string, mas int, coe bool) string {
	count := func(a core.Ammo, ok bool) (string, bool) {
		if !ok || a == nil {
			return "", false
		}
		return "x", true
	}
	var p core.Provider
	if format == "grpcjson" {
		p = grpcjson.NewProvider(memFS, grpcjson.Config{File: name, Passes: 1, ContinueOnError: coe, MaxAmmoSize: mas})
	} else {
		hp, err := httpprovider.NewProvider(memFS, config.Config{Decoder: config.DecoderType("jsonline"), File: name, Passes: 1, MaxAmmoSize: mas, ContinueOnError: coe})
		if err != nil {
			return "0/ctor-" + errClass(err)
		}
		p = hp
	}
	res := driveProvider(p, count)
	return fmt.Sprintf("%d/%s", len(res.entries), res.end)
}

func runMas(kv map[string]string, input string) (obs string) {
	data, ok := unhex(kv, "hex")
	if !ok {
		return "BADINPUT"
	}
	mas, err := strconv.Atoi(kv["mas"])
	if err != nil {
		return "BADINPUT"
	}
	format := kv["fmt"]
	if format != "grpcjson" && format != "jsonline" {
		return "BADINPUT"
	}
	if (mas >= 64<<20 || mas <= -(64<<20)) && os.Getenv("C13_IN_CHILD") == "" {
		f, err := os.CreateTemp("", "c13-case-*.txt")
		if err != nil {
			return "HARNESSERR " + err.Error()
		}
		defer os.Remove(f.Name())
		_, _ = f.WriteString(input)
		_ = f.Close()
		return runChild("case", f.Name())
	}
	defer func() {
		if r := recover(); r != nil {
			obs = "end=panic site=" + panicSite()
		}
	}()
	name := tmpName("mas", ".txt")
	if err := afero.WriteFile(memFS, name, []byte(data), 0o644); err != nil {
		return "HARNESSERR " + err.Error()
	}
	defer func() { _ = memFS.Remove(name) }()
	coe := kv["coe"] == "1"
	a := masOnce(format, name, 0, coe)
	b := masOnce(format, name, mas, coe)
	for _, o := range []string{a, b} {
		if strings.HasSuffix(o, "/hang") || strings.HasSuffix(o, "/panic") {
			return "end=" + o[strings.LastIndex(o, "/")+1:]
		}
	}
	return "a=" + a + " b=" + b
}

func masCase(r *rand.Rand) string {
	format := []string{"grpcjson", "grpcjson", "jsonline"}[r.Intn(3)]
	var data []byte
	if format == "jsonline" {
		data = jsonlineData(r)
	} else {
		data = join(validFile(r, "grpcjson"))
		if r.Intn(4) == 0 {
			data = mutate(r, "grpcjson", validFile(r, "grpcjson"))
		}
	}
	longest, cur := 0, 0
	for _, c := range data {
		if c == '\n' {
			cur = 0
			continue
		}
		cur++
		if cur > longest {
			longest = cur
		}
	}
	var mas int
	switch x := r.Intn(20); {
	case x < 2:
		mas = 0
	case x < 5:
		mas = -[]int{1, 2, 64, 4096, 65536, 1 << 31, 1 << 40, 1 << 62}[r.Intn(8)]
	case x < 8:
		mas = []int{1, 2, 3, 8, 16}[r.Intn(5)]
	case x < 13:
		mas = longest + r.Intn(41) - 20
		if mas <= 0 {
			mas = 1
		}
	case x < 16:
		mas = longest + 64 + r.Intn(5000)
	default:
		mas = []int{1 << 20, 1 << 26, 1 << 31, 1 << 33, 1 << 40, 1 << 47, 1 << 48, 1<<62 + 5, 1<<63 - 1}[r.Intn(9)]
	}
	return fmt.Sprintf("k=mas fmt=%s mas=%d coe=%d hex=%s", format, mas, r.Intn(2), hx(string(data)))
}

func round4masCases(r *rand.Rand, tier string) []string {
	n := 60
	if tier == "thorough" {
		n = 2500
	}
	var out []string
	for i := 0; i < n; i++ {
		out = append(out, masCase(r))
	}
	return out
}
