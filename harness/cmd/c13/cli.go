package main

import (
	"fmt"
	"os"
	"strings"
)

// renderCliConfig: a config file whose `pools` value has the given shape. None of them is a runnable
// config (no pool is complete), so the real CLI must stop with "Config decode failed" (exit 1) - never a panic.
//
//	absent | null | scalar | str | map | list:<items>   items: m = mapping, s = scalar, l = list, n = null, d = mapping with discard_overflow
func renderCliConfig(shape string) (string, bool) {
	var b strings.Builder
	b.WriteString("log:\n  level: error\n")
	switch {
	case shape == "absent":
	case shape == "null":
		b.WriteString("pools:\n")
	case shape == "scalar":
		b.WriteString("pools: 5\n")
	case shape == "str":
		b.WriteString("pools: \"x\"\n")
	case shape == "map":
		b.WriteString("pools:\n  id: a\n")
	case strings.HasPrefix(shape, "list:"):
		items := strings.TrimPrefix(shape, "list:")
		if items == "" {
			b.WriteString("pools: []\n")
			break
		}
		b.WriteString("pools:\n")
		for i, c := range items {
			switch c {
			case 'm':
				fmt.Fprintf(&b, "  - id: p%d\n", i)
			case 'd':
				fmt.Fprintf(&b, "  - id: p%d\n    discard_overflow: false\n", i)
			case 's':
				b.WriteString("  - 7\n")
			case 'l':
				b.WriteString("  - [1, 2]\n")
			case 'n':
				b.WriteString("  - null\n")
			default:
				return "", false
			}
		}
	default:
		return "", false
	}
	return b.String(), true
}

// the real CLI (cli.Run → readConfig) in a child process of this binary
func runCli(kv map[string]string) string {
	content, ok := renderCliConfig(kv["pools"])
	if !ok {
		return "BADINPUT"
	}
	f, err := os.CreateTemp("", "c13-cli-*.yaml")
	if err != nil {
		return "HARNESSERR " + err.Error()
	}
	defer os.Remove(f.Name())
	_, _ = f.WriteString(content)
	_ = f.Close()
	return runChild("cli", f.Name())
}
