package main

// Round 3 additions: the grpc/json provider as the engine uses it.
//
//	rel=1      the consumer hands every acquired ammo back with Release (the engine's instances do), so the provider's
//	           sync.Pool recycles objects: an entry must be delivered as its own line says, whatever the pooled object held;
//	dirty=<k>  k ammo objects are released into the pool before the run, each carrying an earlier entry (tag, call, metadata,
//	           payload) and the invalid flag - the state a recycled object has after a malformed line under continue_on_error;
//	passes / limit / cc=<hex tag>,… (chosencases) / coe: the whole option matrix of the provider; files longer than the
//	           128-slot sink; mixtures of well-formed and malformed lines.
//
// Every delivered entry is rendered in full - tag / call / metadata / payload and the invalid flag - so that a field left over
// from an earlier entry is visible. Lines are written in a small safe subset of JSON (the Lean driver decodes them itself and
// predicts the observation entry by entry) mixed with lines it abstains on (judged by shape: count, end, and "the same line
// is always delivered the same way").

import (
	"encoding/hex"
	"encoding/json"
	"fmt"
	"hash/fnv"
	"math/rand"
	"os"
	"sort"
	"strconv"
	"strings"

	"github.com/spf13/afero"
	grpcammo "github.com/yandex/pandora/components/providers/grpc"
	"github.com/yandex/pandora/components/providers/grpc/grpcjson"
	"github.com/yandex/pandora/core"
)

// a rendered field of more than 100 bytes is replaced by its length and a hash
func grpcCap(s string) string {
	if len(s) <= 200 {
		return s
	}
	h := fnv.New32a()
	_, _ = h.Write([]byte(s))
	return fmt.Sprintf("#%d.%08x", len(s)/2, h.Sum32())
}

func grpcPayloadValue(v interface{}) string {
	switch y := v.(type) {
	case string:
		return "s" + hx(y)
	case json.Number:
		return "n" + hx(string(y))
	case nil:
		return "z"
	case bool:
		if y {
			return "b1"
		}
		return "b0"
	}
	b, err := json.Marshal(v)
	if err != nil {
		return "j?"
	}
	return "j" + hex.EncodeToString(b)
}

// grpcEntry: hex(tag)/hex(call)/k:v.k:v/k:v.k:v[:I], maps sorted by key
func grpcEntry(am *grpcammo.Ammo) string {
	mk := make([]string, 0, len(am.Metadata))
	for k := range am.Metadata {
		mk = append(mk, k)
	}
	sort.Strings(mk)
	md := make([]string, 0, len(mk))
	for _, k := range mk {
		md = append(md, hx(k)+":"+hx(am.Metadata[k]))
	}
	pk := make([]string, 0, len(am.Payload))
	for k := range am.Payload {
		pk = append(pk, k)
	}
	sort.Strings(pk)
	pl := make([]string, 0, len(pk))
	for _, k := range pk {
		pl = append(pl, hx(k)+":"+grpcPayloadValue(am.Payload[k]))
	}
	e := grpcCap(hx(am.Tag)) + "/" + grpcCap(hx(am.Call)) + "/" + grpcCap(strings.Join(md, ".")) + "/" + grpcCap(strings.Join(pl, "."))
	if am.IsInvalid() != !am.IsValid() {
		return e + ":X" // the two accessors disagree
	}
	if am.IsInvalid() {
		e += ":I"
	}
	return e
}

// the earlier entry a recycled object carries
func grpcDirty(i int) *grpcammo.Ammo {
	a := &grpcammo.Ammo{}
	a.Reset("STALE", "stale.Svc/Call", map[string]string{"stale": "md"}, map[string]interface{}{"stale": "payload", "i": json.Number(strconv.Itoa(i))})
	a.SetID(uint64(1000 + i))
	a.Invalidate()
	return a
}

func runGrpc(fs afero.Fs, kv map[string]string, name string) string {
	passes, _ := strconv.Atoi(kv["passes"])
	if kv["passes"] == "" {
		passes = 1
	}
	limit, _ := strconv.Atoi(kv["limit"])
	conf := grpcjson.Config{File: name, Passes: passes, Limit: limit, ContinueOnError: kv["coe"] == "1"}
	if kv["cc"] != "" {
		for _, c := range strings.Split(kv["cc"], ",") {
			if c == "-" {
				c = ""
			}
			b, err := hex.DecodeString(c)
			if err != nil {
				return "BADINPUT"
			}
			conf.ChosenCases = append(conf.ChosenCases, string(b))
		}
	}
	p := grpcjson.NewProvider(fs, conf)
	dirty, _ := strconv.Atoi(kv["dirty"])
	if dirty < 0 || dirty > 1000 {
		return "BADINPUT"
	}
	for i := 0; i < dirty; i++ {
		p.Release(grpcDirty(i))
	}
	release := kv["rel"] == "1"
	ids := map[uint64]bool{}
	dupID := false
	res := driveProvider(p, func(a core.Ammo, ok bool) (string, bool) {
		if !ok {
			return "", false
		}
		am, isAmmo := a.(*grpcammo.Ammo)
		if !isAmmo || am == nil {
			return "?", true
		}
		e := grpcEntry(am)
		if ids[am.ID()] {
			dupID = true
		}
		ids[am.ID()] = true
		if release {
			p.Release(a)
		}
		return e, true
	})
	if dupID && !strings.Contains(res.end, "panic") && res.end != "hang" {
		res.end += "+dupid"
	}
	return res.String()
}

// ---------------------------------------------------------------- generator

var grpcTags = []string{"t", "tag1", "auth", "list", "", "x_y", "Z9", "STALE"}
var grpcCalls = []string{"pkg.Svc.M", "a.B/C", "", "target.TargetService.Hello"}

func grpcSafeString(r *rand.Rand) string {
	return []string{"a", "b", "v1", "x y", "", "k-1", "{", "}", ":", "[1]", "null", "caf"}[r.Intn(12)]
}

// one well-formed line of the safe subset (no escapes, printable ASCII, distinct member names)
func grpcGoodLine(r *rand.Rand) string {
	ws := func() string { return []string{"", "", "", " ", "\t", "  "}[r.Intn(6)] }
	var members []string
	if r.Intn(8) != 0 {
		members = append(members, `"tag":`+ws()+jlString(pick(r, grpcTags)))
	}
	if r.Intn(6) != 0 {
		members = append(members, `"call":`+ws()+jlString(pick(r, grpcCalls)))
	}
	obj := func(numbers bool) string {
		n := r.Intn(3)
		keys := []string{"a", "b", "x", "id", "name"}
		r.Shuffle(len(keys), func(i, j int) { keys[i], keys[j] = keys[j], keys[i] })
		var ms []string
		for i := 0; i < n; i++ {
			v := jlString(grpcSafeString(r))
			if numbers && r.Intn(2) == 0 {
				v = strconv.Itoa(r.Intn(1000))
			}
			ms = append(ms, ws()+jlString(keys[i])+ws()+":"+ws()+v+ws())
		}
		return "{" + strings.Join(ms, ",") + "}"
	}
	if r.Intn(3) != 0 {
		members = append(members, `"metadata":`+ws()+obj(false))
	}
	if r.Intn(4) != 0 {
		members = append(members, `"payload":`+ws()+obj(true))
	}
	r.Shuffle(len(members), func(i, j int) { members[i], members[j] = members[j], members[i] })
	return ws() + "{" + ws() + strings.Join(members, ws()+","+ws()) + ws() + "}" + ws()
}

// a line that is not an entry (or on which only the library can tell)
func grpcBadLine(r *rand.Rand) string {
	switch x := r.Intn(20); {
	case x < 6: // certainly malformed
		return []string{"oops", "[1]", `"s"`, "7", "}", `{"tag":"t"} x`, `{"tag":"t"}{"tag":"u"}`, "]", "-", "tag"}[r.Intn(10)]
	case x < 10: // truncated
		g := grpcGoodLine(r)
		g = strings.TrimRight(g, " \t")
		return g[:1+r.Intn(len(g)-1)]
	case x < 13: // blank
		return []string{"", " ", "\t", "  \t "}[r.Intn(4)]
	case x < 16: // the library decides
		return []string{`{"tag":1}`, "null", `{"tag":null}`, `{"Tag":"T"}`, `{"tag":"ab"}`, `{"payload":{"x":[1,2]}}`, `{"payload":{"x":1.5e3}}`,
			`{"metadata":{"a":1}}`, `{"tag":"t","tag":"u"}`, `{"unknown":"x","tag":"t"}`, `{"payload":7}`, "{,}", `{"tag":"t",}`, "nul"}[r.Intn(14)]
	default: // a well-formed line with one byte flipped
		g := []byte(grpcGoodLine(r))
		i := r.Intn(len(g))
		g[i] ^= byte(1 << uint(r.Intn(7)))
		if g[i] == '\n' || g[i] == '\r' {
			g[i] = '?'
		}
		return string(g)
	}
}

func grpcCase(r *rand.Rand) string {
	nDistinct := 1 + r.Intn(5)
	pool := make([]string, 0, nDistinct+3)
	for i := 0; i < nDistinct; i++ {
		pool = append(pool, grpcGoodLine(r))
	}
	nBad := 0
	switch r.Intn(4) {
	case 0:
	case 1, 2:
		nBad = 1
	default:
		nBad = 1 + r.Intn(3)
	}
	for i := 0; i < nBad; i++ {
		pool = append(pool, grpcBadLine(r))
	}
	var n int
	switch x := r.Intn(12); {
	case x < 1:
		n = 0
	case x < 9:
		n = 1 + r.Intn(12)
	default:
		n = 129 + r.Intn(170) // longer than the sink
	}
	lines := make([]string, n)
	for i := range lines {
		if i < len(pool) && r.Intn(2) == 0 {
			lines[i] = pool[len(pool)-1-i] // every line of the pool appears, the bad ones early
		} else {
			lines[i] = pool[r.Intn(len(pool))]
		}
	}
	if n > 0 && r.Intn(40) == 0 { // a line longer than the scanner's buffer somewhere in the file
		lines[r.Intn(n)] = strings.Repeat([]string{"a", `{"tag":"x"} `, " "}[r.Intn(3)], 70000)[:70000]
	}
	var b strings.Builder
	crlf := r.Intn(5) == 0
	for i, l := range lines {
		b.WriteString(l)
		if i == len(lines)-1 && r.Intn(4) == 0 {
			break
		}
		if crlf {
			b.WriteString("\r")
		}
		b.WriteString("\n")
	}
	passes := []int{1, 1, 2, 3, 5, 0, 0}[r.Intn(7)]
	limit := []int{0, 0, 0, 1, 2, 5, 40, 300}[r.Intn(8)]
	if passes == 0 && limit == 0 {
		limit = 1 + r.Intn(60)
	}
	if n > 100 && passes > 3 {
		passes = 3
	}
	s := fmt.Sprintf("k=ammo fmt=grpcjson pre=0 passes=%d limit=%d", passes, limit)
	if r.Intn(3) != 0 {
		s += " coe=1"
	}
	if r.Intn(4) != 0 {
		s += " rel=1"
	}
	if d := []int{0, 0, 8, 64, 200}[r.Intn(5)]; d > 0 {
		s += fmt.Sprintf(" dirty=%d", d)
	}
	if r.Intn(5) == 0 {
		k := 1 + r.Intn(2)
		cs := make([]string, k)
		for i := range cs {
			t := pick(r, grpcTags)
			if t == "" {
				cs[i] = "-"
			} else {
				cs[i] = hx(t)
			}
		}
		s += " cc=" + strings.Join(cs, ",")
	}
	return s + " hex=" + hex.EncodeToString([]byte(b.String()))
}

func round3Cases(r *rand.Rand, tier string) []string {
	n := 300
	if tier == "thorough" {
		n = 8000
	}
	// stress runs of this dimension alone: C13_R3_CASES=<n> (never set by ./check)
	if v, err := strconv.Atoi(os.Getenv("C13_R3_CASES")); err == nil && v > 0 {
		n = v
	}
	out := make([]string, 0, n)
	for i := 0; i < n; i++ {
		out = append(out, grpcCase(r))
	}
	return out
}
