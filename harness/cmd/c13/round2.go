package main

// Round 2 additions:
//
//	jsonline files of a small safe subset of JSON (object streams and arrays, white space of every kind between and inside
//	  the values, unknown members, truncated / garbled values, files the constructor refuses) for which the Lean driver
//	  predicts the observation entry by entry, with every combination of passes, limit and preload;
//	passes x limit combinations (passes 0..3, limit 0..5) for all http formats, the `continue_on_error` option of the
//	  http provider (which no decoder reads: the prediction is the same), the `headers` option (malformed header strings
//	  make the constructor fail), the uri decoder fed through the `uris` option;
//	flt: an I/O fault at a particular point - the read that reaches byte `at` of the file fails, or the n-th seek to the
//	  start of the file fails - under every format: the run must end with that error (never spin, never pass it over),
//	  after entries that are a prefix of what the fault-free run delivers.

import (
	"encoding/hex"
	"errors"
	"fmt"
	"io"
	"math/rand"
	"strconv"
	"strings"

	"github.com/spf13/afero"
)

// ---------------------------------------------------------------- fault injection

var errInjected = errors.New("injected i/o fault")

type faultFs struct {
	afero.Fs
	readAt   int64 // the Read that would return the byte at this offset (or the end of the file there) fails; -1: never
	seekFail int   // the n-th Seek(0, io.SeekStart) and every later one fail; 0: never
}

func (f *faultFs) Open(name string) (afero.File, error) {
	file, err := f.Fs.Open(name)
	if err != nil {
		return nil, err
	}
	return &faultFile{File: file, readAt: f.readAt, seekFail: f.seekFail}, nil
}

type faultFile struct {
	afero.File
	readAt   int64
	seekFail int
	pos      int64
	seeks    int
}

func (f *faultFile) Read(p []byte) (int, error) {
	if f.readAt >= 0 {
		if f.pos >= f.readAt {
			return 0, errInjected
		}
		if room := f.readAt - f.pos; int64(len(p)) > room {
			p = p[:room]
		}
	}
	n, err := f.File.Read(p)
	f.pos += int64(n)
	return n, err
}

func (f *faultFile) Seek(offset int64, whence int) (int64, error) {
	if whence == io.SeekStart && offset == 0 {
		f.seeks++
		if f.seekFail > 0 && f.seeks >= f.seekFail {
			return f.pos, errInjected
		}
	}
	n, err := f.File.Seek(offset, whence)
	if err == nil {
		f.pos = n
	}
	return n, err
}

// k=flt fmt=<format> mode=read|seek at=<n> passes=<p> limit=<l> pre=<0|1> hex=<file>
func runFlt(kv map[string]string) string {
	data, err := hex.DecodeString(kv["hex"])
	if err != nil {
		return "BADINPUT"
	}
	at, err := strconv.Atoi(kv["at"])
	if err != nil || at < 0 {
		return "BADINPUT"
	}
	if ammoGuard(kv["fmt"], data) != "" {
		return "oom-guard"
	}
	sub := map[string]string{"fmt": kv["fmt"], "pre": kv["pre"], "passes": kv["passes"], "limit": kv["limit"], "coe": kv["coe"]}
	ff := &faultFs{Fs: memFS, readAt: -1}
	switch kv["mode"] {
	case "read":
		ff.readAt = int64(at)
	case "seek":
		ff.seekFail = at
	default:
		return "BADINPUT"
	}
	strip := func(o string) string {
		if i := strings.Index(o, "end=err:"); i >= 0 {
			o = o[:i] + "end=err"
		}
		if i := strings.Index(o, "end=ctor-err:"); i >= 0 {
			o = o[:i] + "end=ctor-err"
		}
		return o
	}
	a := strip(runAmmoOn(memFS, sub, data))
	b := strip(runAmmoOn(ff, sub, data))
	return "A[" + a + "] B[" + b + "]"
}

func fltCase(r *rand.Rand) string {
	format := []string{"uripost", "raw", "uri", "jsonline", "grpcjson"}[r.Intn(5)]
	var data []byte
	switch x := r.Intn(10); {
	case x < 7:
		data = join(validFile(r, format))
	case x < 9:
		data = mutate(r, format, validFile(r, format))
	default:
		data = noAmmoFile(r, format)
	}
	pre := 0
	if r.Intn(4) == 0 && format != "grpcjson" {
		pre = 1
	}
	if r.Intn(5) < 3 {
		// the read that reaches a random offset of the file fails
		at := r.Intn(len(data) + 1)
		passes, limit := 1, 0
		switch r.Intn(4) {
		case 0:
			passes, limit = 0, 1+r.Intn(12)
		case 1:
			passes, limit = 2, 0
		}
		return fmt.Sprintf("k=flt fmt=%s mode=read at=%d pre=%d passes=%d limit=%d hex=%s", format, at, pre, passes, limit, hex.EncodeToString(data))
	}
	// the seek to the start of the file fails at the end of the first (second) pass; the limit is out of reach of the
	// passes before it, so the seek is needed
	at := 1 + r.Intn(2)
	if format == "jsonline" {
		at = 1 + r.Intn(3) // the constructor seeks once
	}
	passes, limit := 0, 40+r.Intn(20)
	if r.Intn(3) == 0 {
		passes, limit = 4, 0
	}
	return fmt.Sprintf("k=flt fmt=%s mode=seek at=%d pre=%d passes=%d limit=%d hex=%s", format, at, pre, passes, limit, hex.EncodeToString(data))
}

// ---------------------------------------------------------------- jsonline, safe subset

var jlWs = []string{"", "", " ", "\n", "\n", "\r\n", "\t", " \n ", "\n\n"}

func jlString(s string) string { return `"` + s + `"` }

// one object of the safe subset; sp = white space put around the punctuation
func jlObject(r *rand.Rand) string {
	sp := func() string {
		if r.Intn(4) == 0 {
			return []string{" ", "\n", "\t", "  "}[r.Intn(4)]
		}
		return ""
	}
	type member struct{ k, v string }
	tag := pick(r, tagWords)
	ms := []member{
		{"host", jlString([]string{"example.com", "h", "a-b.c", "10.0.0.1"}[r.Intn(4)])},
		{"method", jlString([]string{"GET", "POST", "", "get", "PUT"}[r.Intn(5)])},
		{"uri", jlString(pick(r, uriWords))},
		{"tag", jlString(tag)},
	}
	if r.Intn(3) == 0 {
		ms = append(ms, member{"body", jlString([]string{"", "hello", "a b", "{x}"}[r.Intn(4)])})
	}
	if r.Intn(2) == 0 {
		ms = append(ms, member{"headers", "{" + sp() + `"A"` + sp() + ":" + sp() + `"b"` + sp() + []string{"", `,"Xy":"1:2"`}[r.Intn(2)] + "}"})
	}
	if r.Intn(6) == 0 {
		ms = append(ms, member{"extra", []string{`"x"`, `{"k":"v"}`, `""`}[r.Intn(3)]})
	}
	// members may be missing (method and uri default to "", a missing host is outside the safe subset: kept rare)
	if r.Intn(5) == 0 {
		drop := 1 + r.Intn(len(ms)-1)
		ms = append(ms[:drop], ms[drop+1:]...)
	}
	r.Shuffle(len(ms), func(i, j int) { ms[i], ms[j] = ms[j], ms[i] })
	var b strings.Builder
	b.WriteString("{" + sp())
	for i, m := range ms {
		if i > 0 {
			b.WriteString(sp() + "," + sp())
		}
		b.WriteString(jlString(m.k) + sp() + ":" + sp() + m.v)
	}
	b.WriteString(sp() + "}")
	return b.String()
}

var jlRefused = []string{"", " ", "\n\n", "\t\r\n", "1", `"s"`, "true", "null", "}", "]", "x", ",", "-", "0 {}", `"a" {"tag":"t"}`}

var jlGarbage = []string{",", "x", "]", "}", "1", `"s"`, "true", "[", "[1]", "{", `{"tag"`, `{"tag":`, `{"tag":"a`, `{"tag":"a"`, `{"host":"h","uri":"/",`,
	`{"method":"G T","host":"h"}`, "\x00", "#"}

func jsonlineData(r *rand.Rand) []byte {
	var b strings.Builder
	switch x := r.Intn(100); {
	case x < 8: // the constructor refuses the file
		return []byte(jlRefused[r.Intn(len(jlRefused))])
	case x < 38: // an array
		b.WriteString(pick(r, jlWs) + "[" + pick(r, jlWs))
		n := []int{0, 0, 1, 1, 2, 3, 4}[r.Intn(7)]
		for i := 0; i < n; i++ {
			if i > 0 {
				b.WriteString(pick(r, jlWs) + "," + pick(r, jlWs))
			}
			if r.Intn(6) == 0 { // an element `Setup` refuses (a method with a space), or one that is not an object
				b.WriteString([]string{`{"method":"G T","host":"h"}`, `{"host":"h","uri":"/","method":"a b","tag":"t"}`, "1", `"s"`, "[]"}[r.Intn(5)])
			} else {
				b.WriteString(jlObject(r))
			}
		}
		switch y := r.Intn(10); {
		case y < 6:
			b.WriteString(pick(r, jlWs) + "]" + pick(r, jlWs))
			if r.Intn(4) == 0 { // what follows the array is never read
				b.WriteString([]string{jlObject(r), "x", "{", "]", "\n[]"}[r.Intn(5)])
			}
		case y < 8: // truncated
			s := b.String()
			return []byte(s[:1+r.Intn(len(s))])
		default: // garbled
			b.WriteString([]string{",]", "x]", ",", "}", "]]", " 1]"}[r.Intn(6)])
		}
	default: // a stream of objects
		n := 1 + r.Intn(4)
		for i := 0; i < n; i++ {
			b.WriteString(pick(r, jlWs) + jlObject(r))
		}
		switch y := r.Intn(10); {
		case y < 5:
			b.WriteString(pick(r, jlWs))
		case y < 7: // the last value is cut
			s := b.String()
			cut := strings.LastIndex(s, "{")
			return []byte(s[:cut+1+r.Intn(len(s)-cut-1)])
		default: // something that is not an object stands between or after the objects
			g := jlGarbage[r.Intn(len(jlGarbage))]
			s := b.String()
			if r.Intn(2) == 0 {
				return []byte(s + pick(r, jlWs) + g + pick(r, jlWs))
			}
			cut := strings.LastIndex(s, "{")
			return []byte(s[:cut] + g + pick(r, jlWs) + s[cut:])
		}
	}
	return []byte(b.String())
}

// every combination of passes 0..3 and limit 0..5 but (0, 0)
func passLimit(r *rand.Rand) (int, int) {
	for {
		p, l := []int{0, 0, 1, 1, 2, 3}[r.Intn(6)], []int{0, 0, 1, 2, 3, 5}[r.Intn(6)]
		if p != 0 || l != 0 {
			return p, l
		}
	}
}

func jsonlineCase(r *rand.Rand) string {
	data := jsonlineData(r)
	p, l := passLimit(r)
	return fmt.Sprintf("k=ammo fmt=jsonline pre=%d passes=%d limit=%d hex=%s", r.Intn(2)*r.Intn(2), p, l, hex.EncodeToString(data))
}

// passes x limit x preload x continue_on_error x headers option, all http formats
func optionsCase(r *rand.Rand) string {
	format := []string{"uripost", "raw", "uri", "uri", "jsonline"}[r.Intn(5)]
	var data []byte
	switch x := r.Intn(10); {
	case x < 5:
		data = join(validFile(r, format))
	case x < 8:
		data = mutate(r, format, validFile(r, format))
	case x < 9:
		data = noAmmoFile(r, format)
	default:
		if format == "jsonline" {
			data = jsonlineData(r)
		} else {
			data = cutAfterSizeLine(r, validFile(r, format), true)
		}
	}
	p, l := passLimit(r)
	s := fmt.Sprintf("k=ammo fmt=%s pre=%d passes=%d limit=%d", format, r.Intn(2)*r.Intn(2), p, l)
	if r.Intn(3) == 0 {
		s += " coe=1"
	}
	if r.Intn(3) == 0 {
		s += " rel=1"
	}
	if r.Intn(3) == 0 {
		n := 1 + r.Intn(3)
		hs := make([]string, n)
		for i := range hs {
			if r.Intn(3) == 0 {
				hs[i] = hex.EncodeToString([]byte(randHeaderString(r)))
			} else {
				hs[i] = hex.EncodeToString([]byte(headerLine(r)))
			}
		}
		s += " hdrs=" + strings.Join(hs, ",")
	}
	if format == "uri" && r.Intn(3) == 0 {
		s += " src=uris"
	}
	return s + " hex=" + hex.EncodeToString(data)
}

// thorough tier: every jsonline file of at most five tokens, one pass and read again and again; every pair of `headers`
// option strings of at most three tokens
func round2Exhaustive() []string {
	var out []string
	obj := `{"host":"h","uri":"/a","tag":"t"}`
	enumSeqs([]string{obj, "[", "]", ",", "\n", "{", "x"}, 5, func(s string) {
		h := hex.EncodeToString([]byte(s))
		out = append(out, "k=ammo fmt=jsonline pre=0 passes=1 limit=0 hex="+h, "k=ammo fmt=jsonline pre=0 passes=0 limit=3 hex="+h)
	})
	enumSeqs([]string{obj, "[", "]", ","}, 5, func(s string) {
		h := hex.EncodeToString([]byte(s))
		out = append(out, "k=ammo fmt=jsonline pre=1 passes=2 limit=0 hex="+h)
	})
	var hs []string
	enumSeqs([]string{"[", "]", ":", "a"}, 3, func(s string) { hs = append(hs, hex.EncodeToString([]byte(s))) })
	hs = hs[1:] // the empty string cannot be written in the list
	file := hex.EncodeToString([]byte("/a t\n"))
	for _, a := range hs {
		out = append(out, "k=ammo fmt=uri pre=0 passes=1 limit=0 hdrs="+a+" hex="+file)
		for _, b := range hs {
			out = append(out, "k=ammo fmt=uri pre=0 passes=1 limit=0 hdrs="+a+","+b+" hex="+file)
		}
	}
	return out
}

func round2Cases(r *rand.Rand, tier string) []string {
	nJl, nOpt, nFlt := 500, 400, 60
	if tier == "thorough" {
		nJl, nOpt, nFlt = 20000, 15000, 400
	}
	var out []string
	for i := 0; i < nJl; i++ {
		out = append(out, jsonlineCase(r))
	}
	for i := 0; i < nOpt; i++ {
		out = append(out, optionsCase(r))
	}
	for i := 0; i < nFlt; i++ {
		out = append(out, fltCase(r))
	}
	if tier == "thorough" {
		out = append(out, round2Exhaustive()...)
	}
	return out
}
