package main

// Round 4, second part: the CONTENT of the file of a csv variable source together with the options that say how it is
// read (`fields`, `ignore_first_line`, `delimiter`), through the scenario providers' NewProvider (config.ReadAmmoConfig →
// ExtractVariableStorage → VariableSourceCsv.Init → readCsv), Run and one Acquire; the observation is the store the
// delivered scenario carries (`VariableStorage.Variables()[name]`): every row with every column.
//
//	k=csv kind=http|grpc fmt=yaml|hcl ign=0|1 delim=<hex>|- fields=<hex>,<hex>,…|- file=<hex>
//
// (`-` = the option is left out; an empty hex string = the empty string; `fields=` with nothing = one unnamed column).
// Files: records with fewer / more columns than the configuration names, no records at all, blank lines, a header only,
// ragged records, quotes, CR LF, columns without a name, names with spaces, names given twice.

import (
	"context"
	"encoding/hex"
	"fmt"
	"math/rand"
	"sort"
	"strings"
	"time"

	"github.com/spf13/afero"
	"go.uber.org/zap"

	grpcgun "github.com/yandex/pandora/components/guns/grpc/scenario"
	httpgun "github.com/yandex/pandora/components/guns/http_scenario"
	"github.com/yandex/pandora/core"
)

type csvStorage interface{ Variables() map[string]any }

// the variable storage a delivered scenario carries
func scnStorageOf(a core.Ammo) csvStorage {
	switch s := a.(type) {
	case *httpgun.Scenario:
		if s.VariableStorage == nil {
			return nil
		}
		return s.VariableStorage
	case *grpcgun.Scenario:
		if s.VariableStorage == nil {
			return nil
		}
		return s.VariableStorage
	}
	return nil
}

func csvFieldList(s string) ([]string, bool, bool) {
	if s == "-" {
		return nil, false, true
	}
	if s == "" {
		return []string{""}, true, true
	}
	var out []string
	for _, h := range strings.Split(s, ",") {
		b, err := hex.DecodeString(h)
		if err != nil {
			return nil, false, false
		}
		out = append(out, string(b))
	}
	return out, true, true
}

func renderCsvScenario(kind, format, path string, fields []string, hasFields bool, ign bool, delim string, hasDelim bool) string {
	var b strings.Builder
	if format == "hcl" {
		q := hclQuote
		fmt.Fprintf(&b, "variable_source \"users\" \"file/csv\" {\n  file = %s\n", q(path))
		if hasFields {
			var qs []string
			for _, f := range fields {
				qs = append(qs, q(f))
			}
			fmt.Fprintf(&b, "  fields = [%s]\n", strings.Join(qs, ", "))
		}
		fmt.Fprintf(&b, "  ignore_first_line = %v\n", ign)
		if hasDelim {
			fmt.Fprintf(&b, "  delimiter = %s\n", q(delim))
		}
		b.WriteString("}\n")
		if kind == "grpc" {
			b.WriteString("call \"r1\" {\n  call = \"pkg.Svc.M\"\n  payload = \"{}\"\n}\n")
		} else {
			b.WriteString("request \"r1\" {\n  method = \"GET\"\n  uri = \"/x\"\n  headers = {\n    A = \"b\"\n  }\n}\n")
		}
		b.WriteString("scenario \"s1\" {\n  requests = [\"r1\"]\n}\n")
		return b.String()
	}
	q := yamlQuote
	fmt.Fprintf(&b, "variable_sources:\n  - name: \"users\"\n    type: \"file/csv\"\n    file: %s\n", q(path))
	if hasFields {
		var qs []string
		for _, f := range fields {
			qs = append(qs, q(f))
		}
		fmt.Fprintf(&b, "    fields: [%s]\n", strings.Join(qs, ", "))
	}
	fmt.Fprintf(&b, "    ignore_first_line: %v\n", ign)
	if hasDelim {
		fmt.Fprintf(&b, "    delimiter: %s\n", q(delim))
	}
	if kind == "grpc" {
		b.WriteString("calls:\n  - name: \"r1\"\n    call: \"pkg.Svc.M\"\n    payload: \"{}\"\n")
	} else {
		b.WriteString("requests:\n  - name: \"r1\"\n    method: GET\n    uri: /x\n")
	}
	b.WriteString("scenarios:\n  - name: \"s1\"\n    requests: [\"r1\"]\n")
	return b.String()
}

func renderCsvStore(v any) string {
	rows, ok := v.([]map[string]string)
	if !ok {
		return fmt.Sprintf("n=? e=%T", v)
	}
	var rs []string
	for _, row := range rows {
		var cells []string
		for k, c := range row {
			cells = append(cells, hx(k)+":"+hx(c))
		}
		sort.Strings(cells)
		rs = append(rs, strings.Join(cells, ","))
	}
	return fmt.Sprintf("n=%d e=%s", len(rows), strings.Join(rs, ";"))
}

func runCsv(kv map[string]string) (obs string) {
	data, ok := unhex(kv, "file")
	if !ok {
		return "BADINPUT"
	}
	fields, hasFields, ok := csvFieldList(kv["fields"])
	if !ok {
		return "BADINPUT"
	}
	delim, hasDelim := "", false
	if kv["delim"] != "-" {
		if delim, ok = unhex(kv, "delim"); !ok {
			return "BADINPUT"
		}
		hasDelim = true
	}
	kind, format := kv["kind"], kv["fmt"]
	if (kind != "http" && kind != "grpc") || (format != "yaml" && format != "hcl") {
		return "BADINPUT"
	}
	csvName := tmpName("vs", ".csv")
	if err := afero.WriteFile(memFS, csvName, []byte(data), 0o644); err != nil {
		return "HARNESSERR " + err.Error()
	}
	defer func() { _ = memFS.Remove(csvName) }()
	payload := renderCsvScenario(kind, format, csvName, fields, hasFields, kv["ign"] == "1", delim, hasDelim)
	ext := ".yaml"
	if format == "hcl" {
		ext = ".hcl"
	}
	name := tmpName("scn", ext)
	if err := afero.WriteFile(memFS, name, []byte(payload), 0o644); err != nil {
		return "HARNESSERR " + err.Error()
	}
	defer func() { _ = memFS.Remove(name) }()

	done := make(chan string, 1)
	go func() {
		defer func() {
			if r := recover(); r != nil {
				done <- "end=panic site=" + panicSite()
			}
		}()
		p, err := newScnProvider(kind, name)
		if err != nil {
			done <- "end=ctor-err"
			return
		}
		ctx, cancel := context.WithCancel(context.Background())
		defer cancel()
		go func() {
			defer func() { _ = recover() }()
			_ = p.Run(ctx, core.ProviderDeps{Log: zap.NewNop(), PoolID: "c13"})
		}()
		a, ok := p.Acquire()
		if !ok || a == nil {
			done <- "end=noammo"
			return
		}
		st := scnStorageOf(a)
		if st == nil {
			done <- "end=nostorage"
			return
		}
		done <- renderCsvStore(st.Variables()["users"]) + " end=ok"
	}()
	select {
	case o := <-done:
		return o
	case <-time.After(wd(10 * time.Second)):
		return "end=hang"
	}
}

// ---------------------------------------------------------------- generator

var csvCells = []string{"a", "b", "1", "", " ", "x y", "user_id", "é", "0", "a b c", "-", "#c", "'q'", "\\"}
var csvFieldNames = []string{"id", "name", "pass", "", "a b", "id", " ", "0", "1", "x"}

func csvFile(r *rand.Rand, sep string) string {
	nrec := []int{0, 0, 1, 1, 2, 3, 3, 5, 8}[r.Intn(9)]
	ncol := 1 + r.Intn(4)
	var b strings.Builder
	for i := 0; i < nrec; i++ {
		n := ncol
		if r.Intn(12) == 0 { // a ragged record
			n = 1 + r.Intn(5)
		}
		var cells []string
		for j := 0; j < n; j++ {
			cells = append(cells, csvCells[r.Intn(len(csvCells))])
		}
		b.WriteString(strings.Join(cells, sep))
		switch x := r.Intn(40); {
		case x == 0:
			b.WriteString("\r\n")
		case x == 1:
			b.WriteString("\n\n")
		case i == nrec-1 && x < 12:
			// the last record is not terminated
		default:
			b.WriteString("\n")
		}
	}
	s := b.String()
	switch x := r.Intn(30); {
	case x == 0:
		s = "\n" + s
	case x == 1:
		s += "\"open,\n"
	case x == 2:
		s += "a\"b" + sep + "c\n"
	case x == 3:
		s += "\"q" + sep + "q\"" + sep + "z\n"
	case x == 4 && len(s) > 0:
		s = s[:r.Intn(len(s))]
	}
	return s
}

func csvCase(r *rand.Rand) string {
	kind := []string{"http", "grpc"}[r.Intn(2)]
	format := []string{"yaml", "yaml", "hcl"}[r.Intn(3)]
	delimTok, sep := "-", ","
	switch x := r.Intn(10); {
	case x < 4:
	case x < 6:
		delimTok, sep = hx(","), ","
	case x < 7:
		delimTok, sep = hx(";"), ";"
	case x < 8:
		d := []string{";,", "\t", "|x", " ", "a"}[r.Intn(5)]
		delimTok, sep = hx(d), d[:1]
	case x < 9:
		delimTok, sep = "", ","
	default:
		d := []string{"\"", "\n", "\r", "\"x"}[r.Intn(4)]
		delimTok, sep = hx(d), ","
	}
	fieldsTok := "-"
	switch x := r.Intn(10); {
	case x < 2:
	case x < 3:
		fieldsTok = ""
	default:
		n := 1 + r.Intn(5)
		var fs []string
		for i := 0; i < n; i++ {
			fs = append(fs, hx(csvFieldNames[r.Intn(len(csvFieldNames))]))
		}
		fieldsTok = strings.Join(fs, ",")
		if fieldsTok == "" {
			fieldsTok = "-"
		}
	}
	return fmt.Sprintf("k=csv kind=%s fmt=%s ign=%d delim=%s fields=%s file=%s", kind, format, r.Intn(2), delimTok, fieldsTok, hx(csvFile(r, sep)))
}

// every file of at most 3 tokens over a small alphabet x fields x ignore_first_line (thorough)
func csvExhaustive() []string {
	toks := []string{"a", ",", "\n", "b c", "\""}
	var files []string
	var rec func(prefix string, n int)
	rec = func(prefix string, n int) {
		files = append(files, prefix)
		if n == 0 {
			return
		}
		for _, t := range toks {
			rec(prefix+t, n-1)
		}
	}
	rec("", 4)
	var out []string
	for _, f := range files {
		for _, fields := range []string{"-", "", hx("x"), hx("x") + "," + hx("") + "," + hx("x y")} {
			for ign := 0; ign < 2; ign++ {
				out = append(out, fmt.Sprintf("k=csv kind=http fmt=yaml ign=%d delim=- fields=%s file=%s", ign, fields, hx(f)))
			}
		}
	}
	return out
}

func round4csvCases(r *rand.Rand, tier string) []string {
	n := 220
	if tier == "thorough" {
		n = 8000
	}
	var out []string
	for i := 0; i < n; i++ {
		out = append(out, csvCase(r))
	}
	if tier == "thorough" {
		out = append(out, csvExhaustive()...)
	}
	return out
}
