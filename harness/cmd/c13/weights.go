package main

import (
	"context"
	"fmt"
	"os"
	"runtime/debug"
	"sort"
	"strconv"
	"strings"
	"time"
	"unicode/utf8"

	"github.com/spf13/afero"
	grpcgun "github.com/yandex/pandora/components/guns/grpc/scenario"
	httpgun "github.com/yandex/pandora/components/guns/http_scenario"
	"github.com/yandex/pandora/components/providers/scenario/templater"
	"github.com/yandex/pandora/core"
	"go.uber.org/zap"
)

// ---------------------------------------------------------------- scenario weights (config.SpreadNames, decodeAmmo)

// a weight list "w0,w1,…"; "-" = the scenario has no weight key
func parseWeights(s string) ([]string, bool) {
	if s == "" {
		return nil, false
	}
	ws := strings.Split(s, ",")
	for _, w := range ws {
		if w == "-" {
			continue
		}
		if _, err := strconv.ParseInt(w, 10, 64); err != nil {
			return nil, false
		}
	}
	return ws, true
}

// the number of copies is proportional to the weights: large ones are not run (memory guard)
func weightsTooBig(ws []string) bool {
	for _, w := range ws {
		if w == "-" {
			continue
		}
		n, _ := strconv.ParseInt(w, 10, 64)
		if n > 3000 || n < -3000 {
			return true
		}
	}
	return len(ws) > 12
}

func renderWeighted(kind, format string, ws []string) string {
	var b strings.Builder
	if format == "hcl" {
		if kind == "http" {
			b.WriteString("request \"r1\" {\n  method = \"GET\"\n  uri = \"/x\"\n  headers = {}\n}\n")
		} else {
			b.WriteString("call \"r1\" {\n  call = \"pkg.Svc.M\"\n  payload = \"{}\"\n}\n")
		}
		for i, w := range ws {
			fmt.Fprintf(&b, "scenario \"s%d\" {\n", i)
			if w != "-" {
				fmt.Fprintf(&b, "  weight = %s\n", w)
			}
			b.WriteString("  min_waiting_time = 1\n  requests = [\"r1\"]\n}\n")
		}
		return b.String()
	}
	if kind == "http" {
		b.WriteString("requests:\n  - name: r1\n    method: GET\n    uri: /x\n")
	} else {
		b.WriteString("calls:\n  - name: r1\n    call: pkg.Svc.M\n    payload: \"{}\"\n")
	}
	b.WriteString("scenarios:\n")
	for i, w := range ws {
		fmt.Fprintf(&b, "  - name: s%d\n", i)
		if w != "-" {
			fmt.Fprintf(&b, "    weight: %s\n", w)
		}
		b.WriteString("    requests: [r1]\n")
	}
	return b.String()
}

// panicSite names the pandora function that panicked (called inside a deferred function after recover):
// the first pandora frame below runtime's panic frames, e.g. "config.ExtractVariableStorage".
func panicSite() string {
	lines := strings.Split(string(debug.Stack()), "\n")
	seenPanic := false
	for _, l := range lines {
		if strings.HasPrefix(l, "panic(") {
			seenPanic = true
			continue
		}
		if !seenPanic || strings.HasPrefix(l, "\t") {
			continue
		}
		if i := strings.Index(l, "github.com/yandex/pandora/"); i >= 0 {
			f := l[i:]
			if j := strings.LastIndex(f, "("); j > 0 {
				f = f[:j]
			}
			if j := strings.LastIndex(f, "/"); j >= 0 {
				f = f[j+1:]
			}
			f = strings.NewReplacer("(", "", ")", "", "*", "", " ", "").Replace(f)
			return f
		}
	}
	return "unknown"
}

// scenario provider constructor with recover and watchdog; "" = constructed
func scnCtor(kind, format string, payload []byte) (core.Provider, string) {
	ext := ".yaml"
	if format == "hcl" {
		ext = ".hcl"
	}
	name := tmpName("scnw", ext)
	if err := afero.WriteFile(memFS, name, payload, 0o644); err != nil {
		return nil, "HARNESSERR " + err.Error()
	}
	defer func() { _ = memFS.Remove(name) }()
	type ctorRes struct {
		p    core.Provider
		err  error
		pan  bool
		site string
	}
	ctor := make(chan ctorRes, 1)
	go func() {
		defer func() {
			if r := recover(); r != nil {
				ctor <- ctorRes{pan: true, site: panicSite()}
			}
		}()
		p, err := newScnProvider(kind, name)
		ctor <- ctorRes{p: p, err: err}
	}()
	select {
	case c := <-ctor:
		switch {
		case c.pan:
			return nil, "end=panic site=" + c.site
		case c.err != nil:
			return nil, "end=ctor-err"
		}
		return c.p, ""
	case <-time.After(wd(10 * time.Second)):
		return nil, "end=hang"
	}
}

// scenarios with the given weights through NewProvider, one pass of Run, all of it acquired: how many copies of each scenario
func runScnWeights(kv map[string]string) string {
	ws, ok := parseWeights(kv["w"])
	if !ok {
		return "BADINPUT"
	}
	if weightsTooBig(ws) && os.Getenv("C13_IN_CHILD") != "1" {
		return "oom-guard"
	}
	p, obs := scnCtor(kv["kind"], kv["fmt"], []byte(renderWeighted(kv["kind"], kv["fmt"], ws)))
	if obs != "" {
		return obs
	}
	ctx, cancel := context.WithCancel(context.Background())
	defer cancel()
	type acq struct {
		counts map[string]int
		pan    bool
	}
	acqDone := make(chan acq, 1)
	go func() {
		res := acq{counts: map[string]int{}}
		defer func() {
			if r := recover(); r != nil {
				res.pan = true
			}
			acqDone <- res
		}()
		for n := 0; n < 1000000; n++ {
			a, ok := p.Acquire()
			if !ok {
				return
			}
			switch s := a.(type) {
			case *httpgun.Scenario:
				res.counts[s.Name]++
			case *grpcgun.Scenario:
				res.counts[s.Name]++
			default:
				res.counts["?"]++
			}
		}
	}()
	runDone := make(chan string, 1)
	go func() {
		defer func() {
			if r := recover(); r != nil {
				runDone <- "panic"
			}
		}()
		runDone <- errClass(p.Run(ctx, core.ProviderDeps{Log: zap.NewNop(), PoolID: "c13"}))
	}()
	var end string
	select {
	case end = <-runDone:
	case <-time.After(wd(10 * time.Second)):
		return "end=hang"
	}
	if end != "ok" {
		return "end=" + end
	}
	select {
	case a := <-acqDone:
		if a.pan {
			return "end=panic"
		}
		names := make([]string, 0, len(a.counts))
		for n := range a.counts {
			names = append(names, n)
		}
		sort.Slice(names, func(i, j int) bool {
			// s0, s1, … s10: numeric order
			x, _ := strconv.Atoi(strings.TrimPrefix(names[i], "s"))
			y, _ := strconv.Atoi(strings.TrimPrefix(names[j], "s"))
			return x < y
		})
		parts := make([]string, len(names))
		for i, n := range names {
			parts[i] = n + ":" + strconv.Itoa(a.counts[n])
		}
		return "names=" + strings.Join(parts, ",") + " end=ok"
	case <-time.After(wd(5 * time.Second)):
		// Run returned but the sink was never closed
		return "end=hang"
	}
}

// ---------------------------------------------------------------- randString

func randStringCall(kv map[string]string) (string, bool) {
	letters, ok := unhex(kv, "letters")
	if !ok {
		return "", false
	}
	n, ok := unhex(kv, "n")
	if !ok {
		return "", false
	}
	for _, s := range []string{n, letters} {
		if strings.ContainsAny(s, "(),\n\r\"\\#:{}[]'") {
			return "", false
		}
	}
	switch kv["args"] {
	case "0":
		return "randString()", true
	case "1":
		return "randString(" + n + ")", true
	case "2":
		return "randString(" + n + "," + letters + ")", true
	}
	return "", false
}

func randStringTooBig(kv map[string]string) bool {
	s, _ := unhex(kv, "n")
	n, err := strconv.ParseInt(strings.TrimSpace(s), 10, 64)
	return err == nil && n > 100000
}

// randString(n, letters): via=func through templater.ParseFunc + ExecTemplateFunc (what a preprocessor does),
// via=vs as the value of a `variables` source of a scenario file (evaluated at provider construction)
func runRandString(kv map[string]string) (obs string) {
	call, ok := randStringCall(kv)
	if !ok {
		return "BADINPUT"
	}
	if randStringTooBig(kv) && os.Getenv("C13_IN_CHILD") != "1" {
		return "oom-guard"
	}
	if kv["via"] == "vs" {
		payload := "variable_sources:\n  - type: variables\n    name: v\n    variables:\n      a: \"" + call + "\"\n" +
			"requests:\n  - name: r1\n    method: GET\n    uri: /x\nscenarios:\n  - name: s1\n    requests: [r1]\n"
		_, o := scnCtor("http", "yaml", []byte(payload))
		if o != "" {
			return o
		}
		return "end=ok"
	}
	defer func() {
		if r := recover(); r != nil {
			obs = "panic"
		}
	}()
	fun, args := templater.ParseFunc(call)
	if fun == nil {
		return "nofunc"
	}
	v, err := templater.ExecTemplateFunc(fun, args)
	if err != nil {
		return "err"
	}
	letters, _ := unhex(kv, "letters")
	in := 1
	if kv["args"] == "2" && letters != "" {
		for _, c := range v {
			if !strings.ContainsRune(letters, c) {
				in = 0
			}
		}
	}
	return fmt.Sprintf("ok len=%d inset=%d", utf8.RuneCountInString(v), in)
}

// ---------------------------------------------------------------- empty list items (`-` / null) in a scenario file

// where: vs | post | pre (grpc) | req | scn | tmpl (http) | prep (http)
func renderNullItem(kind, where string) (string, bool) {
	var b strings.Builder
	b.WriteString("variable_sources:\n  - type: variables\n    name: v\n    variables:\n      a: b\n")
	if where == "vs" {
		b.WriteString("  -\n")
	}
	if kind == "http" {
		b.WriteString("requests:\n  - name: r1\n    method: GET\n    uri: /x\n")
		switch where {
		case "post":
			b.WriteString("    postprocessors:\n      -\n")
		case "tmpl":
			b.WriteString("    templater: null\n")
		case "prep":
			b.WriteString("    preprocessor: null\n")
		case "pre":
			return "", false
		}
	} else {
		b.WriteString("calls:\n  - name: r1\n    call: pkg.Svc.M\n    payload: \"{}\"\n")
		switch where {
		case "post":
			b.WriteString("    postprocessors:\n      -\n")
		case "pre":
			b.WriteString("    preprocessors:\n      - null\n")
		case "tmpl", "prep":
			return "", false
		}
	}
	if where == "req" {
		b.WriteString("  -\n")
	}
	b.WriteString("scenarios:\n  - name: s1\n    requests: [r1]\n")
	if where == "scn" {
		b.WriteString("  -\n")
	}
	return b.String(), true
}

func runScnNull(kv map[string]string) string {
	payload, ok := renderNullItem(kv["kind"], kv["where"])
	if !ok {
		return "BADINPUT"
	}
	_, obs := scnCtor(kv["kind"], "yaml", []byte(payload))
	if obs != "" {
		return obs
	}
	return "end=ok"
}
