package main

import (
	"context"
	"encoding/hex"
	"fmt"
	"os"
	"path/filepath"
	"strings"
	"sync"
	"time"

	"verifharness/drv"

	"github.com/spf13/afero"
	grpcgun "github.com/yandex/pandora/components/guns/grpc/scenario"
	httpgun "github.com/yandex/pandora/components/guns/http_scenario"
	"github.com/yandex/pandora/components/providers/scenario"
	scngrpc "github.com/yandex/pandora/components/providers/scenario/grpc"
	scnhttp "github.com/yandex/pandora/components/providers/scenario/http"
	"github.com/yandex/pandora/core"
	"go.uber.org/zap"
)

// request strings that could make convertScenarioToAmmo append an absurd number of copies are not run
// (memory proportional to the announced count: reported as oom-guard, judged skip by the Spec)
func hasLongDigitRun(s string, max int) bool {
	run := 0
	for i := 0; i < len(s); i++ {
		if s[i] >= '0' && s[i] <= '9' {
			run++
			if run > max {
				return true
			}
		} else {
			run = 0
		}
	}
	return false
}

func scnReqs(kv map[string]string) ([]string, bool) {
	// "reqs=-" is the empty list; "reqs=" is the list with one empty string
	if kv["reqs"] == "-" {
		return nil, true
	}
	var out []string
	for _, h := range strings.Split(kv["reqs"], ";") {
		b, err := hex.DecodeString(h)
		if err != nil {
			return nil, false
		}
		out = append(out, string(b))
	}
	return out, true
}

func scnTooBig(kv map[string]string) bool {
	reqs, ok := scnReqs(kv)
	if !ok {
		return false
	}
	for _, r := range reqs {
		if hasLongDigitRun(r, 4) {
			return true
		}
	}
	return false
}

func rawScnTooBig(data []byte) bool { return hasLongDigitRun(string(data), 5) }

func quote(s string) string {
	var b strings.Builder
	b.WriteByte('"')
	for i := 0; i < len(s); i++ {
		c := s[i]
		switch {
		case c == '"' || c == '\\':
			b.WriteByte('\\')
			b.WriteByte(c)
		case c < 0x20 || c >= 0x7f:
			fmt.Fprintf(&b, "\\x%02x", c)
		default:
			b.WriteByte(c)
		}
	}
	b.WriteByte('"')
	return b.String()
}

func renderScenario(kind, format string, defs, reqs []string) string {
	var b strings.Builder
	q := make([]string, len(reqs))
	for i, r := range reqs {
		q[i] = quote(r)
	}
	if format == "hcl" {
		for _, d := range defs {
			if kind == "http" {
				fmt.Fprintf(&b, "request %s {\n  method = \"GET\"\n  uri = \"/x\"\n  headers = {}\n}\n", quote(d))
			} else {
				fmt.Fprintf(&b, "call %s {\n  call = \"pkg.Svc.M\"\n  payload = \"{}\"\n}\n", quote(d))
			}
		}
		fmt.Fprintf(&b, "scenario \"s1\" {\n  min_waiting_time = 3\n  requests = [%s]\n}\n", strings.Join(q, ", "))
		return b.String()
	}
	if kind == "http" {
		b.WriteString("requests:\n")
		for _, d := range defs {
			fmt.Fprintf(&b, "  - name: %s\n    method: GET\n    uri: /x\n", quote(d))
		}
		if len(defs) == 0 {
			b.Reset()
			b.WriteString("requests: []\n")
		}
	} else {
		b.WriteString("calls:\n")
		for _, d := range defs {
			fmt.Fprintf(&b, "  - name: %s\n    call: pkg.Svc.M\n    payload: \"{}\"\n", quote(d))
		}
		if len(defs) == 0 {
			b.Reset()
			b.WriteString("calls: []\n")
		}
	}
	fmt.Fprintf(&b, "scenarios:\n  - name: s1\n    min_waiting_time: 3\n    requests: [%s]\n", strings.Join(q, ", "))
	return b.String()
}

func newScnProvider(kind, file string) (core.Provider, error) {
	conf := scenario.ProviderConfig{File: file, Passes: 1}
	if kind == "grpc" {
		return scngrpc.NewProvider(memFS, conf)
	}
	return scnhttp.NewProvider(memFS, conf)
}

func renderSteps(a core.Ammo) string {
	var parts []string
	switch s := a.(type) {
	case *httpgun.Scenario:
		for _, r := range s.Requests {
			parts = append(parts, fmt.Sprintf("%s:%d", hx(r.Name), int64(r.Sleep/time.Millisecond)))
		}
	case *grpcgun.Scenario:
		for _, r := range s.Calls {
			parts = append(parts, fmt.Sprintf("%s:%d", hx(r.Name), int64(r.Sleep/time.Millisecond)))
		}
	default:
		return "?"
	}
	return strings.Join(parts, ",")
}

// one scenario with the given request list, through the scenario provider constructor, Run and one Acquire
func runScn(kv map[string]string) (obs string) {
	reqs, ok := scnReqs(kv)
	if !ok {
		return "BADINPUT"
	}
	var defs []string
	if kv["defs"] != "" {
		defs = strings.Split(kv["defs"], ",")
	}
	kind, format := kv["kind"], kv["fmt"]
	payload := renderScenario(kind, format, defs, reqs)
	return runScnPayload(kind, format, []byte(payload), true)
}

func runScnRaw(kv map[string]string, data []byte) string {
	return runScnPayload(kv["kind"], kv["fmt"], data, false)
}

func runScnPayload(kind, format string, payload []byte, detail bool) (obs string) {
	ext := ".yaml"
	if format == "hcl" {
		ext = ".hcl"
	}
	name := tmpName("scn", ext)
	if err := afero.WriteFile(memFS, name, payload, 0o644); err != nil {
		return "HARNESSERR " + err.Error()
	}
	defer func() { _ = memFS.Remove(name) }()
	type ctorRes struct {
		p    core.Provider
		err  error
		pan  bool
		site string
	}
	ctor := make(chan ctorRes, 1)
	go func() {
		defer func() {
			if r := recover(); r != nil {
				ctor <- ctorRes{pan: true, site: panicSite()}
			}
		}()
		p, err := newScnProvider(kind, name)
		ctor <- ctorRes{p: p, err: err}
	}()
	var c ctorRes
	select {
	case c = <-ctor:
	case <-time.After(wd(10 * time.Second)):
		return "end=hang"
	}
	if c.pan {
		return "end=panic site=" + c.site
	}
	if c.err != nil {
		return "end=ctor-err"
	}
	ctx, cancel := context.WithCancel(context.Background())
	defer cancel()
	// consumer: the first scenario is kept, the rest is drained so that Run never blocks on a full sink
	// (the sink of the scenario provider is not closed by Run: the consumer is abandoned when Run is over)
	first := make(chan string, 1)
	stop := make(chan struct{})
	defer close(stop)
	go func() {
		defer func() {
			if r := recover(); r != nil {
				select {
				case first <- "end=panic":
				default:
				}
			}
		}()
		for n := 0; n < 1000000; n++ {
			a, ok := c.p.Acquire()
			if !ok {
				return
			}
			if n == 0 {
				first <- "steps=" + renderSteps(a) + " end=ok"
			}
			select {
			case <-stop:
				return
			default:
			}
		}
	}()
	runDone := make(chan string, 1)
	go func() {
		defer func() {
			if r := recover(); r != nil {
				runDone <- "panic"
			}
		}()
		runDone <- errClass(c.p.Run(ctx, core.ProviderDeps{Log: zap.NewNop(), PoolID: "c13"}))
	}()
	var end string
	select {
	case end = <-runDone:
	case <-time.After(wd(10 * time.Second)):
		return "end=hang"
	}
	if end != "ok" || !detail {
		return "end=" + end
	}
	select {
	case o := <-first:
		return o
	case <-time.After(wd(5 * time.Second)):
		return "end=noammo"
	}
}

// bundled scenario payloads (mutation seeds) + the data files their variable sources read
var (
	bundleOnce sync.Once
	bundles    = map[string][]byte{}
)

func loadBundles() {
	bundleOnce.Do(func() {
		dir := filepath.Join(drv.RepoDir, "components/providers/scenario/testdata")
		for _, n := range []string{"http_payload.yaml", "http_payload.hcl", "grpc_payload.yaml", "grpc_payload.hcl"} {
			if b, err := os.ReadFile(filepath.Join(dir, n)); err == nil {
				bundles[n] = b
			}
		}
		for _, n := range []string{"users.csv", "filter.json"} {
			if b, err := os.ReadFile(filepath.Join(drv.RepoDir, "tests/http_scenario/testdata", n)); err == nil {
				_ = afero.WriteFile(memFS, "testdata/"+n, b, 0o644)
			}
		}
	})
}
