package main

import (
	"context"
	"encoding/hex"
	"fmt"
	"io"
	"strconv"
	"strings"
	"time"

	"github.com/spf13/afero"
	httpprovider "github.com/yandex/pandora/components/providers/http"
	httpammo "github.com/yandex/pandora/components/providers/http/ammo"
	"github.com/yandex/pandora/components/providers/http/config"
	"github.com/yandex/pandora/core"
	"go.uber.org/zap"
)

// ammoGuard: "" = run in process, "child" = run under RLIMIT_AS in a child.
// A decoder that allocates from an announced size could be asked for any number that appears in the file - a size line
// need not start at a line start of the file (the body before it may end anywhere) - so every file with a run of 8 or
// more digits goes to the child.
func ammoGuard(format string, data []byte) string {
	if format != "uripost" && format != "raw" {
		return ""
	}
	if hasLongDigitRun(string(data), 7) {
		return "child"
	}
	return ""
}

// errClass maps an error text to a small stable enum (the model predicts the same enum).
func errClass(err error) string {
	if err == nil {
		return "ok"
	}
	s := err.Error()
	switch {
	case strings.Contains(s, "passes limit faced"), strings.Contains(s, "ammo limit faced"), strings.Contains(s, "no ammo in file"):
		return "ok" // end-of-data sentinels (their handling is C08's subject)
	case strings.Contains(s, "header line wrong format"), strings.Contains(s, "missing header key"):
		return "err:hdr"
	case strings.Contains(s, "wrong ammo bodySize"), strings.Contains(s, "invalid payload size"), strings.Contains(s, "negative"):
		return "err:size"
	case strings.Contains(s, "wrong ammo format"):
		return "err:fmt"
	case strings.Contains(s, "failed to read ammo"):
		return "err:trunc"
	case strings.Contains(s, "token too long"):
		return "err:toolong"
	}
	return "err:other"
}

type provResult struct {
	entries []string
	end     string
}

// driveProvider runs Run in a goroutine (recover ⇒ panic), drains Acquire, watchdog ⇒ hang.
func driveProvider(p core.Provider, entryOf func(a core.Ammo, ok bool) (string, bool), cls ...func(error) string) provResult {
	classOf := errClass
	if len(cls) == 1 {
		classOf = cls[0]
	}
	ctx, cancel := context.WithCancel(context.Background())
	defer cancel()
	runDone := make(chan string, 1)
	go func() {
		defer func() {
			if r := recover(); r != nil {
				runDone <- "panic"
			}
		}()
		err := p.Run(ctx, core.ProviderDeps{Log: zap.NewNop(), PoolID: "c13"})
		runDone <- classOf(err)
	}()
	type acq struct {
		entries  []string
		panicked bool
	}
	acqDone := make(chan acq, 1)
	go func() {
		var res acq
		defer func() {
			if r := recover(); r != nil {
				res.panicked = true
			}
			acqDone <- res
		}()
		for {
			a, ok := p.Acquire()
			e, more := entryOf(a, ok)
			if !more {
				return
			}
			res.entries = append(res.entries, e)
			if len(res.entries) > 100000 {
				return
			}
		}
	}()
	watch := time.After(wd(8 * time.Second))
	var res provResult
	var runEnd string
	select {
	case runEnd = <-runDone:
	case <-watch:
		return provResult{end: "hang"}
	}
	if runEnd == "panic" {
		// a panic inside Run may leave the sink open: the consumer side is abandoned
		select {
		case a := <-acqDone:
			res.entries = a.entries
		case <-time.After(200 * time.Millisecond):
		}
		res.end = "panic"
		return res
	}
	select {
	case a := <-acqDone:
		res.entries = a.entries
		if a.panicked {
			res.end = "panic"
			return res
		}
	case <-watch:
		return provResult{end: "hang"}
	}
	res.end = runEnd
	return res
}

func (r provResult) String() string {
	return fmt.Sprintf("n=%d e=%s end=%s", len(r.entries), strings.Join(r.entries, ","), r.end)
}

func runAmmo(kv map[string]string, data []byte) string { return runAmmoOn(memFS, kv, data) }

// runAmmoOn: fs is memFS, or a wrapper of it that injects an I/O fault (round2.go); the ammo file is always written to memFS
func runAmmoOn(fs afero.Fs, kv map[string]string, data []byte) string {
	format := kv["fmt"]
	name := tmpName("ammo", ".txt")
	if err := afero.WriteFile(memFS, name, data, 0o644); err != nil {
		return "HARNESSERR " + err.Error()
	}
	defer func() { _ = memFS.Remove(name) }()
	if format == "grpcjson" {
		return runGrpc(fs, kv, name) // round3.go
	}
	// passes=0 (unlimited) is run with a limit: the file is read again and again until `limit` entries were delivered
	hpasses, hlimit := uint(1), uint(0)
	if kv["passes"] != "" {
		n, _ := strconv.Atoi(kv["passes"])
		hpasses = uint(n)
		l, _ := strconv.Atoi(kv["limit"])
		hlimit = uint(l)
		// neither limit: only with chosen cases (the run ends when nothing is chosen)
		if hpasses == 0 && hlimit == 0 && kv["cc"] == "" {
			return "BADINPUT"
		}
	}
	classOf := errClass
	var chosen []string
	if kv["cc"] != "" {
		var ok bool
		if chosen, ok = ccList(kv["cc"]); !ok {
			return "BADINPUT"
		}
		classOf = errClassCC
	}
	conf := config.Config{ChosenCases: chosen, Decoder: config.DecoderType(format), File: name, Passes: hpasses, Limit: hlimit, Preload: kv["pre"] == "1", ContinueOnError: kv["coe"] == "1"}
	// hdrs=<hex>,<hex>: the `headers` option of the provider config (each one a `[key: value]` string)
	if kv["hdrs"] != "" {
		for _, h := range strings.Split(kv["hdrs"], ",") {
			b, err := hex.DecodeString(h)
			if err != nil {
				return "BADINPUT"
			}
			conf.Headers = append(conf.Headers, string(b))
		}
	}
	// src=uris: the uri decoder fed through the `uris` option instead of a file
	if kv["src"] == "uris" && format == "uri" {
		conf.File = ""
		conf.Uris = strings.Split(string(data), "\n")
	}
	p, err := httpprovider.NewProvider(fs, conf)
	if err != nil {
		return "n=0 e= end=ctor-" + classOf(err)
	}
	res := driveProvider(p, func(a core.Ammo, ok bool) (e string, more bool) {
		if a == nil {
			return "", false
		}
		// rel=1: the consumer hands the ammo back (the engine's instances do)
		if kv["rel"] == "1" {
			defer p.Release(a)
		}
		if !ok {
			// BuildRequest failed: the decoded entry is handed back with ok=false
			if t, isT := a.(interface{ Tag() string }); isT {
				if format == "raw" || format == "jsonline" {
					// whether http.ReadRequest likes the payload is the library's business: the entry was framed and delivered
					return hex.EncodeToString([]byte(t.Tag())), true
				}
				return hex.EncodeToString([]byte(t.Tag())) + ":B", true
			}
			return "?:B", true
		}
		ga, isGun := a.(httpammo.GunAmmo)
		if !isGun {
			return "?", true
		}
		req, sample := ga.Request()
		tag := sample.Tags()
		switch format {
		case "uri", "uripost":
			var body []byte
			if req.Body != nil {
				body, _ = io.ReadAll(req.Body)
			}
			return hex.EncodeToString([]byte(tag)) + "/" + hex.EncodeToString([]byte(req.URL.String())) + "/" + bodyHex(body), true
		default:
			return hex.EncodeToString([]byte(tag)), true
		}
	}, classOf)
	return res.String()
}

// a body of more than 64 bytes is rendered by its length, its first four and its last four bytes
func bodyHex(b []byte) string {
	if len(b) <= 64 {
		return hex.EncodeToString(b)
	}
	return fmt.Sprintf("#%d.%s.%s", len(b), hex.EncodeToString(b[:4]), hex.EncodeToString(b[len(b)-4:]))
}
