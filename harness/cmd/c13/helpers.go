package main

import (
	"encoding/hex"
	"fmt"
	"sort"
	"strconv"
	"strings"

	"github.com/yandex/pandora/components/providers/http/util"
	scnconfig "github.com/yandex/pandora/components/providers/scenario/config"
	"github.com/yandex/pandora/components/providers/scenario/templater"
	coreconfig "github.com/yandex/pandora/core/config"
	"github.com/yandex/pandora/lib/mp"
	"github.com/yandex/pandora/lib/str"
)

func hx(s string) string { return hex.EncodeToString([]byte(s)) }

func unhex(kv map[string]string, key string) (string, bool) {
	b, err := hex.DecodeString(kv[key])
	if err != nil {
		return "", false
	}
	return string(b), true
}

// util.DecodeHeader: "[key: value]"
func runHdr(kv map[string]string) string {
	s, ok := unhex(kv, "hex")
	if !ok {
		return "BADINPUT"
	}
	k, v, err := util.DecodeHeader(s)
	if err != nil {
		if err == util.ErrEmptyKey {
			return "err:emptykey"
		}
		return "err:hdr"
	}
	return "ok key=" + hx(k) + " val=" + hx(v)
}

// str.ParseStringFunc: "name(arg, arg)"
func runPsf(kv map[string]string) string {
	s, ok := unhex(kv, "hex")
	if !ok {
		return "BADINPUT"
	}
	name, args, err := str.ParseStringFunc(s)
	if err != nil {
		return "err"
	}
	if args == nil {
		return "ok name=" + hx(name) + " args=nil"
	}
	hs := make([]string, len(args))
	for i, a := range args {
		hs[i] = hx(a)
	}
	return "ok name=" + hx(name) + " args=" + strings.Join(hs, ";")
}

// scenario/config.ParseShootName: "name(count, sleep)"
func runShoot(kv map[string]string) string {
	s, ok := unhex(kv, "hex")
	if !ok {
		return "BADINPUT"
	}
	name, cnt, sleep, err := scnconfig.ParseShootName(s)
	if err != nil {
		return "err"
	}
	return fmt.Sprintf("ok name=%s cnt=%d sleep=%d", hx(name), cnt, sleep)
}

// the fixed family of template variables mp.GetMapValue is asked about; n = length of every source
func mpData(n int) map[string]any {
	users := make([]map[string]any, n)
	smap := make([]map[string]string, n)
	strs := make([]string, n)
	ints := make([]int, n)
	anys := make([]any, n)
	bools := make([]bool, n)
	for i := 0; i < n; i++ {
		users[i] = map[string]any{"id": i, "name": fmt.Sprintf("u%d", i)}
		smap[i] = map[string]string{"k": fmt.Sprintf("v%d", i)}
		strs[i] = fmt.Sprintf("s%d", i)
		ints[i] = i * 10
		if i%2 == 0 {
			anys[i] = fmt.Sprintf("a%d", i)
		} else {
			anys[i] = map[string]any{"x": i}
		}
	}
	return map[string]any{
		"source": map[string]any{
			"users": users, "smap": smap, "strs": strs, "ints": ints, "anys": anys, "bools": bools, "scalar": "sc",
		},
		"top": "t",
	}
}

func renderVal(v any) string {
	switch x := v.(type) {
	case nil:
		return "nil"
	case string:
		return "s:" + hx(x)
	case int:
		return "i:" + strconv.Itoa(x)
	case map[string]any:
		keys := make([]string, 0, len(x))
		for k := range x {
			keys = append(keys, hx(k))
		}
		sort.Strings(keys)
		return "m:" + strings.Join(keys, ".")
	case []map[string]any:
		return "l:" + strconv.Itoa(len(x))
	case []map[string]string:
		return "l:" + strconv.Itoa(len(x))
	case []string:
		return "l:" + strconv.Itoa(len(x))
	case []int:
		return "l:" + strconv.Itoa(len(x))
	case []any:
		return "l:" + strconv.Itoa(len(x))
	case []bool:
		return "l:" + strconv.Itoa(len(x))
	}
	return "o"
}

// mp.GetMapValue, `calls` consecutive calls with one iterator (the [next] counter is per path segment)
func runMp(kv map[string]string) (obs string) {
	path, ok := unhex(kv, "path")
	if !ok {
		return "BADINPUT"
	}
	n, _ := strconv.Atoi(kv["n"])
	calls, _ := strconv.Atoi(kv["calls"])
	if calls <= 0 {
		calls = 1
	}
	if n < 0 || n > 64 || calls > 16 {
		return "BADINPUT"
	}
	data := mpData(n)
	iter := mp.NewNextIterator(1)
	var out []string
	defer func() {
		if r := recover(); r != nil {
			obs = strings.Join(append(out, "panic"), ";")
		}
	}()
	for i := 0; i < calls; i++ {
		v, err := mp.GetMapValue(data, path, iter)
		if err != nil {
			out = append(out, "err")
			continue
		}
		out = append(out, renderVal(v))
	}
	return strings.Join(out, ";")
}

// ${type:var} placeholders through the real config decoding (hooks registered by core/import)
func runTag(kv map[string]string) (obs string) {
	s, ok := unhex(kv, "hex")
	if !ok {
		return "BADINPUT"
	}
	defer func() {
		if r := recover(); r != nil {
			obs = "panic"
		}
	}()
	var dst struct{ F string }
	err := coreconfig.DecodeAndValidate(map[string]any{"f": s}, &dst)
	if err != nil {
		return "err"
	}
	return "ok val=" + hx(dst.F)
}

// randInt(f,t) as a scenario preprocessor reaches it: ParseFunc + ExecTemplateFunc (string arguments)
func runRandInt(kv map[string]string) (obs string) {
	defer func() {
		if r := recover(); r != nil {
			obs = "panic"
		}
	}()
	call := "randInt(" + kv["f"] + "," + kv["t"] + ")"
	if kv["t"] == "" {
		call = "randInt(" + kv["f"] + ")"
		if kv["f"] == "" {
			call = "randInt()"
		}
	}
	fun, args := templater.ParseFunc(call)
	if fun == nil {
		return "nofunc"
	}
	v, err := templater.ExecTemplateFunc(fun, args)
	if err != nil {
		return "err"
	}
	return "ok v=" + v
}
