package main

// C12: the real engine (engine.New(...).Run) with a recording gun factory; instance startup under every kind of startup
// profile, with ammo exhaustion / end of the shared RPS profile / run cancellation / gun creation failure placed before,
// inside and after the startup window.
//
//	startup=<part>[+<part>...]   part = once:N | const:OPS:MS | constm:MILLIOPS:MS (fractional rate) | step:FROM:TO:STEP:MS |
//	                             [<part>+<part>...] (a NESTED composite) | none (a composite of NO parts)   (real schedule constructors)
//	rps=<part>[+...] [perinst=1] ammo=<N, 0 = unlimited> resp=<ms> [cancel=<ms>] [gundelay=<ms>: every instance gun takes that long to create]
//	[prov=mem: a provider whose Acquire does not depend on its context (default: provider.NewNum, which stops handing out ammo once the run is cancelled)]
//	an instance that cannot be created, at each of the three points of newInstance (j = 0-based creation attempt):
//	[failgun=<j>: NewGun fails] [failbind=<j>: gun.Bind fails] [failsched=<j>: NewRPSSchedule fails (perinst=1 only)]
//	round 3: [closeerr=1: every gun's Close returns an error] [panicshot=<id>:<n>: the n-th Shoot of the gun bound with InstanceID id panics]
//	[provret=<ms> | proverr=<ms>: Provider.Run returns nil / an error at that instant while it still has ammo (prov=mem only)]
//	[aggrerr=<ms>: Aggregator.Run returns an error at that instant] [ctxerr=1: provider (prov=mem) and aggregator return their
//	context's error, not nil, when the run context is done — as real ones do] [failwarm=1: the pool's warm-up gun cannot be created]
//	failsched=<j> without perinst=1: the j-th call of NewRPSSchedule fails (j = 0: the shared schedule cannot be built, nothing may start)
//	rps parts may also be unlim:MS (schedule.NewUnlimited) and composites
//	round 4: [cfg=yaml: the pool is described as a pandora config FILE (YAML text in the documented form: `startup:` / `rps:` as a
//	single `{type: …}` map or a list of them, `rps-per-instance:`), decoded by core/config.DecodeAndValidate with the plugin
//	registrations of core/import — the startup schedule, the RPS factory, the pool id and rps-per-instance are then taken from the
//	DECODED pool config; durations are written as 1500ms / 1.5s / 1s500ms, rates as ops: 2 / ops: 2.0 / ops: 0.5]
//	<pool> || <pool> ...         several pools in ONE engine (cancel= is taken from the first); the observation is one
//	                             observation per pool joined by " || "; a failing pool makes the engine cancel the run of the others
//
// Observation (instants in ns since just before Engine.Run was called, monotonic clock):
//
//	k=<number of Bind calls> err=<nil|ctx|other> end=<ns> mstart=<Metrics.InstanceStart> fails=<failed gun creations> total=<tokens of the startup profile>
//	started=<the `started` result of startInstances, from the pool's debug log; -1 = not seen> starterr=<nil|ctx|other|?> running=<bound guns never closed>
//	ids=<InstanceIDs seen by Bind, sorted> toks=<tokens handed out by the startup schedule> picks=<instants at which they were handed out>
//	ctoks=<token offsets of a drained copy of the startup schedule> guns=<instants of the NewGun calls after the warm-up gun>
//	binds=<InstanceID:instant,...> (in call order) exits=<InstanceID:instant of gun Close:reason,...> (by instant; reason = sched|ammo|ctx|err|? from the
//	pool's debug log "Instance run awaited") cuts=<ammo|rps|cancel|fail:first instant,...> jitter=<largest oversleep of a 5 ms heartbeat, ns>
//	lastshot=<instant at which the last Shoot began, -1 = none> gunctx=<first instant at which a gun, shooting or being closed, saw the context
//	it was given in GunDeps done, -1 = never> (cut `cancel` of a pool = the caller's cancel or the failure of ANOTHER pool of the engine)
//	allawaited=<the `awaited` of the pool's log line "All instances runs awaited." (checkAllInstancesAreFinished went through), -1 = not seen>
//	shots=<InstanceID:number of Shoot calls of the gun bound with it,...> (by id) rpstot=<tokens of a drained copy of the RPS profile, -1 = not
//	countable (an unlimited part)> rpsmin=<ns, see rpsMin> rpsspans=<first Next call:first "finished" answer,... of every RPS schedule object
//	that has reported its end> mfin=<Metrics.InstanceFinish, as mstart: of the engine minus the closed guns of the other pools> (cut `fail` = an instance could not be created or the provider / aggregator failed; cut `panic` = a gun panicked)
//	rpsgiven=<tokens handed out (successful Next calls, counted at the end of the run) by every RPS schedule object that has reported
//	its end, in the order of rpsspans>
//	round 4: rpsl0=<Left() of a fresh, never started copy of the RPS profile> sul0=<the same of the startup profile> (what a profile
//	answers BEFORE anything was drawn: its number of tokens, or a negative number when a part has unknown length)
//	rpsleaf=<tokens handed out by the LEAVES (once / const / unlimited / instance_step parts) of all RPS schedule objects of the pool, -1 =
//	not counted (cfg=yaml)> rpsout=<tokens those objects handed to their callers>: a token a part gave that no caller of the profile got
//	was consumed inside the profile
//	input yield=<µs>: at the scheduling points of core/schedule/composite.go (lib/verifhook, between the reader and the writer section
//	of Next / Left) a goroutine sleeps that long, so that several instances that reach the end of a part together are all between
//	the two sections at once

import (
	"context"
	"errors"
	"fmt"
	"math/rand"
	"os"
	"os/exec"
	"sort"
	"strconv"
	"strings"
	"sync"
	"sync/atomic"
	"time"

	"verifharness/drv"
	"verifharness/trec"

	"github.com/spf13/afero"
	"github.com/yandex/pandora/core"
	"github.com/yandex/pandora/core/config"
	"github.com/yandex/pandora/core/engine"
	coreimport "github.com/yandex/pandora/core/import"
	"github.com/yandex/pandora/core/provider"
	"github.com/yandex/pandora/core/register"
	"github.com/yandex/pandora/core/schedule"
	"github.com/yandex/pandora/lib/verifhook"
	yaml "gopkg.in/yaml.v2"
	"go.uber.org/zap"
	"go.uber.org/zap/zapcore"
	"go.uber.org/zap/zaptest/observer"
)

type rec struct {
	clk      *trec.Clock
	mu       sync.Mutex
	toks     []int64
	picks    []int64
	guns     []int64 // instants of the creation attempts (NewGun after the warm-up gun; NewRPSSchedule with per-instance schedules)
	binds    [][2]int64
	exits    [][2]int64 // id, instant of Close
	cuts     map[string]int64
	fails    int
	lastShot int64
	gunCtx   int64
	shots    map[int64]int64
	// round 6: the token every instance goroutine drew last from an RPS schedule (by goroutine id), and for every discarded
	// shot (Aggregator.Report of the discard sample, made by the instance goroutine itself) the instant of the report minus the
	// time of that token: how late the token was AT MOST when the Waiter judged it
	lastTok  map[int64]int64
	discards []int64
	stalled  int64 // instant at which a stalled shot (stall=) returned, -1 = none
}

func (r *rec) cut(kind string) {
	t := r.clk.Now()
	r.mu.Lock()
	if _, ok := r.cuts[kind]; !ok {
		r.cuts[kind] = t
	}
	r.mu.Unlock()
}

// startup schedule wrapper: records every token handed out
type startSched struct {
	core.Schedule
	r *rec
}

func (s *startSched) Next() (time.Time, bool) {
	ts, ok := s.Schedule.Next()
	if ok {
		t := s.r.clk.Of(ts)
		now := s.r.clk.Now()
		s.r.mu.Lock()
		s.r.toks = append(s.r.toks, t)
		s.r.picks = append(s.r.picks, now)
		s.r.mu.Unlock()
	}
	return ts, ok
}

// RPS schedule wrapper: records the first instant at which the schedule says it is finished, and for every schedule object the
// instants of its first Next call (its start) and of its first "finished" answer
type rpsSched struct {
	core.Schedule
	r     *rec
	mu    sync.Mutex
	first int64 // -1: Next not called yet
	fin   int64 // -1: not finished yet
	given int64 // tokens handed out by this object (successful Next calls)
	// round 6: calls of Next that have entered the wrapped schedule and not yet returned; atfin = given + inflight at the
	// first "finished" answer: an upper bound of the tokens the wrapped schedule had handed out when it said it was finished
	inflight int64
	atfin    int64
}

func (s *rpsSched) finished() {
	s.r.cut("rps")
	t := s.r.clk.Now()
	s.mu.Lock()
	if s.fin < 0 {
		s.fin = t
		s.atfin = s.given + s.inflight
	}
	s.mu.Unlock()
}

func (s *rpsSched) Next() (time.Time, bool) {
	t := s.r.clk.Now()
	s.mu.Lock()
	if s.first < 0 {
		s.first = t
	}
	s.inflight++
	s.mu.Unlock()
	ts, ok := s.Schedule.Next()
	s.mu.Lock()
	s.inflight--
	if ok {
		s.given++
	}
	s.mu.Unlock()
	if !ok {
		s.finished()
	} else {
		g := trec.Goid()
		s.r.mu.Lock()
		s.r.lastTok[g] = s.r.clk.Of(ts)
		s.r.mu.Unlock()
	}
	return ts, ok
}

func (s *rpsSched) Left() int {
	l := s.Schedule.Left()
	if l == 0 {
		s.finished()
	}
	return l
}

// rpsMin: a lower bound (ns) for the time between the first Next call on an RPS profile and its first "finished" answer that needs
// no knowledge of how many instances draw from it: the durations of all parts up to and including the last UNLIMITED part (an
// unlimited part hands out tokens until its end, and a composite starts a part at the finish time of the previous one); 0 when
// there is no unlimited part (tokens of the other kinds are handed out ahead of their time)
func rpsMin(p string) int64 {
	flat := strings.NewReplacer("[", "", "]", "").Replace(p)
	var sum, upTo int64
	for _, seg := range strings.Split(flat, "+") {
		f := strings.Split(seg, ":")
		ms := int64(0)
		switch f[0] {
		case "const", "constm":
			ms, _ = strconv.ParseInt(f[2], 10, 64)
		case "unlim":
			ms, _ = strconv.ParseInt(f[1], 10, 64)
		case "step":
			from, _ := strconv.ParseInt(f[1], 10, 64)
			to, _ := strconv.ParseInt(f[2], 10, 64)
			st, _ := strconv.ParseInt(f[3], 10, 64)
			d, _ := strconv.ParseInt(f[4], 10, 64)
			for i := from + st; i <= to; i += st {
				ms += d
			}
		}
		sum += ms
		if f[0] == "unlim" {
			upTo = sum
		}
	}
	return upTo * 1_000_000
}

// provider wrapper: records the first failed Acquire
type recProvider struct {
	core.Provider
	r *rec
}

func (p *recProvider) Acquire() (core.Ammo, bool) {
	a, ok := p.Provider.Acquire()
	if !ok {
		p.r.cut("ammo")
	}
	return a, ok
}

// memProvider: a provider that hands out ammo from memory, whatever the state of its context (what it has buffered stays available
// after the run was cancelled) - unlike provider.NewNum, whose Acquire fails once its Run context is done.  `prov=mem`.
type memProvider struct {
	limit int64 // <= 0: unlimited
	mu    sync.Mutex
	n     int64
	// Run returns after retAfter (> 0) although ammo is left: nil, or an error (fail)
	retAfter time.Duration
	fail     bool
	// Run returns its context's error (not nil) when the context is done, as providers reading a file do
	ctxErr bool
	r      *rec
}

func (p *memProvider) Run(ctx context.Context, _ core.ProviderDeps) error {
	var tm <-chan time.Time
	if p.retAfter > 0 {
		tm = time.After(p.retAfter)
	}
	select {
	case <-ctx.Done():
		if p.ctxErr {
			return ctx.Err()
		}
		return nil
	case <-tm:
		if p.fail {
			p.r.cut("fail")
			return errors.New("provider failed")
		}
		return nil
	}
}
func (p *memProvider) Acquire() (core.Ammo, bool) {
	p.mu.Lock()
	defer p.mu.Unlock()
	if p.limit > 0 && p.n >= p.limit {
		return nil, false
	}
	p.n++
	return p.n, true
}
func (p *memProvider) Release(core.Ammo) {}

type recGun struct {
	r        *rec
	resp     time.Duration
	id       int64
	failBind bool
	ctx      context.Context
	closeErr bool
	panicID  int64 // the gun bound with this InstanceID …
	panicAt  int64 // … panics in its panicAt-th Shoot (0: never)
	nshots   int64
	stallID  int64         // round 6: the gun bound with this InstanceID …
	stallAt  int64         // … hangs in its stallAt-th Shoot (0: never) …
	stallFor time.Duration // … for that long (a hiccup of the target)
}

func (g *recGun) Bind(_ core.Aggregator, deps core.GunDeps) error {
	t := g.r.clk.Now()
	if g.failBind {
		g.r.cut("fail")
		g.r.mu.Lock()
		g.r.fails++
		g.r.mu.Unlock()
		return errors.New("gun cannot be bound")
	}
	g.id = int64(deps.InstanceID)
	g.ctx = deps.Ctx
	g.r.mu.Lock()
	g.r.binds = append(g.r.binds, [2]int64{int64(deps.InstanceID), t})
	g.r.mu.Unlock()
	return nil
}

// sawCtx: the context the gun was given is done while its instance is shooting / being closed
func (g *recGun) sawCtx(t int64) {
	if g.ctx != nil && g.ctx.Err() != nil {
		g.r.mu.Lock()
		if g.r.gunCtx < 0 {
			g.r.gunCtx = t
		}
		g.r.mu.Unlock()
	}
}

func (g *recGun) Shoot(core.Ammo) {
	t := g.r.clk.Now()
	g.sawCtx(t)
	g.r.mu.Lock()
	if t > g.r.lastShot {
		g.r.lastShot = t
	}
	g.r.shots[g.id]++
	g.r.mu.Unlock()
	g.nshots++
	if g.panicAt > 0 && g.id == g.panicID && g.nshots == g.panicAt {
		g.r.cut("panic")
		panic("gun failure")
	}
	if g.stallAt > 0 && g.id == g.stallID && g.nshots == g.stallAt {
		time.Sleep(g.stallFor)
		te := g.r.clk.Now()
		g.r.mu.Lock()
		g.r.stalled = te
		g.r.mu.Unlock()
		return
	}
	if g.resp > 0 {
		time.Sleep(g.resp)
	}
}

func (g *recGun) Close() error {
	if g.id < 0 {
		return nil // never bound (the pool's warm-up gun, a gun whose Bind failed): not an instance
	}
	t := g.r.clk.Now()
	g.sawCtx(t)
	g.r.mu.Lock()
	g.r.exits = append(g.r.exits, [2]int64{g.id, t})
	g.r.mu.Unlock()
	if g.closeErr {
		return errors.New("gun cannot be closed")
	}
	return nil
}

type nopAggr struct {
	errAfter time.Duration // > 0: Run returns an error at that instant
	ctxErr   bool          // Run returns its context's error when the context is done
	r        *rec
}

func (a nopAggr) Run(ctx context.Context, _ core.AggregatorDeps) error {
	var tm <-chan time.Time
	if a.errAfter > 0 {
		tm = time.After(a.errAfter)
	}
	select {
	case <-ctx.Done():
		if a.ctxErr {
			return ctx.Err()
		}
		return nil
	case <-tm:
		a.r.cut("fail")
		return errors.New("aggregator failed")
	}
}

// Report: the guns of the harness never report; the only caller is the discard branch of instance.Run, in the goroutine of the
// instance: the token it has just waited for is the last one that goroutine drew
func (a nopAggr) Report(core.Sample) {
	t := a.r.clk.Now()
	g := trec.Goid()
	a.r.mu.Lock()
	if ts, ok := a.r.lastTok[g]; ok {
		a.r.discards = append(a.r.discards, t-ts)
	} else {
		a.r.discards = append(a.r.discards, -1) // a report without a token
	}
	a.r.mu.Unlock()
}

// splitTop splits at '+' outside brackets
func splitTop(p string) []string {
	var out []string
	depth, from := 0, 0
	for i, c := range p {
		switch c {
		case '[':
			depth++
		case ']':
			depth--
		case '+':
			if depth == 0 {
				out = append(out, p[from:i])
				from = i + 1
			}
		}
	}
	return append(out, p[from:])
}

// leafCnt counts the tokens a leaf of a profile hands out
type leafCnt struct {
	core.Schedule
	n *int64
}

func (l *leafCnt) Next() (time.Time, bool) {
	ts, ok := l.Schedule.Next()
	if ok {
		atomic.AddInt64(l.n, 1)
	}
	return ts, ok
}

func buildProfile(p string) core.Schedule { return buildProfileC(p, nil) }

// buildProfileC: cnt != nil: every leaf is wrapped in a counter of the tokens it hands out
func buildProfileC(p string, cnt *int64) core.Schedule {
	var parts []core.Schedule
	for _, seg := range splitTop(p) {
		if strings.HasPrefix(seg, "[") && strings.HasSuffix(seg, "]") {
			// a nested composite, built by the same constructor as the outer one
			parts = append(parts, buildProfileC(seg[1:len(seg)-1], cnt))
			continue
		}
		f := strings.Split(seg, ":")
		n := func(i int) int64 {
			v, err := strconv.ParseInt(f[i], 10, 64)
			if err != nil {
				panic("bad profile " + seg)
			}
			return v
		}
		switch {
		case seg == "none":
			// a composite of NO parts (an empty list in the config)
			parts = append(parts, schedule.NewCompositeConf(schedule.CompositeConf{}))
		case f[0] == "once" && len(f) == 2:
			parts = append(parts, schedule.NewOnceConf(schedule.OnceConfig{Times: n(1)}))
		case f[0] == "const" && len(f) == 3:
			parts = append(parts, schedule.NewConstConf(schedule.ConstConfig{Ops: float64(n(1)), Duration: time.Duration(n(2)) * time.Millisecond}))
		case f[0] == "constm" && len(f) == 3:
			parts = append(parts, schedule.NewConstConf(schedule.ConstConfig{Ops: float64(n(1)) / 1000, Duration: time.Duration(n(2)) * time.Millisecond}))
		case f[0] == "unlim" && len(f) == 2:
			parts = append(parts, schedule.NewUnlimitedConf(schedule.UnlimitedConfig{Duration: time.Duration(n(1)) * time.Millisecond}))
		case f[0] == "step" && len(f) == 5:
			parts = append(parts, schedule.NewInstanceStepConf(schedule.InstanceStepConfig{From: n(1), To: n(2), Step: n(3), StepDuration: time.Duration(n(4)) * time.Millisecond}))
		default:
			panic("bad profile " + seg)
		}
	}
	if cnt != nil {
		for i, seg := range splitTop(p) {
			if !strings.HasPrefix(seg, "[") {
				parts[i] = &leafCnt{Schedule: parts[i], n: cnt}
			}
		}
	}
	return schedule.NewCompositeConf(schedule.CompositeConf{Nested: parts})
}

// ---------------------------------------------------------------- the pool as a config file (cfg=yaml)

var importOnce sync.Once

// yamlDur writes a duration of ms milliseconds in one of the spellings time.ParseDuration accepts (chosen by ms itself, so
// that the text is a function of the input)
func yamlDur(ms int64) string {
	switch {
	case ms%1000 == 0 && ms%3 == 0:
		return fmt.Sprintf("%ds", ms/1000)
	case ms >= 1000 && ms%1000 != 0 && ms%2 == 0:
		return fmt.Sprintf("%ds%dms", ms/1000, ms%1000)
	case ms%100 == 0 && ms%7 == 0:
		return fmt.Sprintf("%d.%ds", ms/1000, (ms%1000)/100)
	}
	return fmt.Sprintf("%dms", ms)
}

// yamlPart: one part as a flow-style YAML map in the documented keys; a nested composite alternates between a plain nested
// list and the explicit `{type: composite, nested: […]}`
func yamlPart(seg string, depth int) string {
	if strings.HasPrefix(seg, "[") && strings.HasSuffix(seg, "]") {
		var ps []string
		for _, q := range splitTop(seg[1 : len(seg)-1]) {
			ps = append(ps, yamlPart(q, depth+1))
		}
		if depth%2 == 0 {
			return "{type: composite, nested: [" + strings.Join(ps, ", ") + "]}"
		}
		return "[" + strings.Join(ps, ", ") + "]"
	}
	f := strings.Split(seg, ":")
	n := func(i int) int64 {
		v, err := strconv.ParseInt(f[i], 10, 64)
		if err != nil {
			panic("bad profile " + seg)
		}
		return v
	}
	switch {
	case seg == "none":
		return "{type: composite, nested: []}"
	case f[0] == "once" && len(f) == 2:
		return fmt.Sprintf("{type: once, times: %d}", n(1))
	case f[0] == "const" && len(f) == 3:
		ops := fmt.Sprintf("%d", n(1))
		if n(2)%200 == 0 {
			ops += ".0"
		}
		return fmt.Sprintf("{type: const, duration: %s, ops: %s}", yamlDur(n(2)), ops)
	case f[0] == "constm" && len(f) == 3:
		return fmt.Sprintf("{type: const, ops: %s, duration: %s}", strconv.FormatFloat(float64(n(1))/1000, 'f', -1, 64), yamlDur(n(2)))
	case f[0] == "unlim" && len(f) == 2:
		return fmt.Sprintf("{type: unlimited, duration: %s}", yamlDur(n(1)))
	case f[0] == "step" && len(f) == 5:
		return fmt.Sprintf("{type: instance_step, from: %d, to: %d, step: %d, stepduration: %s}", n(1), n(2), n(3), yamlDur(n(4)))
	}
	panic("bad profile " + seg)
}

// yamlProfile: a profile of one part is written as the map itself (as in docs/eng/startup.md), of several as a list
func yamlProfile(p string) string {
	segs := splitTop(p)
	if len(segs) == 1 && !strings.HasPrefix(segs[0], "[") {
		return yamlPart(segs[0], 0)
	}
	var ps []string
	for _, q := range segs {
		ps = append(ps, yamlPart(q, 0))
	}
	return "[" + strings.Join(ps, ", ") + "]"
}

type c12StubGun struct{}

func (c12StubGun) Bind(core.Aggregator, core.GunDeps) error { return nil }
func (c12StubGun) Shoot(core.Ammo)                          {}

// decodePool: the pool config decoded from YAML text the way cli.readConfig does it (map -> config.DecodeAndValidate ->
// registered plugin factories; engine.Config is the `squash`ed part of cli.CliConfig)
func decodePool(id string, m map[string]string) engine.InstancePoolConfig {
	importOnce.Do(func() {
		coreimport.Import(afero.NewMemMapFs())
		register.Gun("c12stub", func() core.Gun { return c12StubGun{} })
	})
	text := fmt.Sprintf("pools:\n  - id: %s\n    gun: {type: c12stub}\n    ammo: {type: dummy}\n    result: {type: discard}\n", id)
	if m["perinst"] == "1" {
		text += "    rps-per-instance: true\n"
	}
	if d, ok := m["discard"]; ok {
		text += "    discard_overflow: " + map[bool]string{true: "true", false: "false"}[d == "1"] + "\n"
	}
	text += "    rps: " + yamlProfile(m["rps"]) + "\n    startup: " + yamlProfile(m["startup"]) + "\n"
	mapCfg := map[string]any{}
	if err := yaml.Unmarshal([]byte(text), &mapCfg); err != nil {
		panic("yaml: " + err.Error() + " in " + text)
	}
	var conf engine.Config
	if err := config.DecodeAndValidate(mapCfg, &conf); err != nil {
		panic("config: " + err.Error() + " in " + text)
	}
	if len(conf.Pools) != 1 {
		panic("config: want one pool")
	}
	return conf.Pools[0]
}

func joinInts(v []int64) string {
	s := make([]string, len(v))
	for i, x := range v {
		s[i] = strconv.FormatInt(x, 10)
	}
	return strings.Join(s, ",")
}

func atoiKV(m map[string]string, k string, d int64) int64 {
	if v, ok := m[k]; ok {
		x, err := strconv.ParseInt(v, 10, 64)
		if err != nil {
			panic("bad " + k)
		}
		return x
	}
	return d
}

// one pool of the engine under test
type poolCase struct {
	id    string
	m     map[string]string
	r     *rec
	ctoks []int64
	// tokens of a drained copy of the RPS profile; -1: not countable
	rpsTot int64
	// Left() of never started copies of the RPS / the startup profile
	rpsLeft0, suLeft0 int64
	// tokens handed out by the leaves of the RPS schedule objects given to the engine; counted: the leaves are wrapped
	rpsLeaf    int64
	leafCounts bool
	rpsMu  sync.Mutex
	rpss   []*rpsSched
	conf   engine.InstancePoolConfig
}

func newPoolCase(id string, m map[string]string) *poolCase {
	pc := &poolCase{id: id, m: m, r: &rec{cuts: map[string]int64{}, lastShot: -1, gunCtx: -1, shots: map[int64]int64{}, lastTok: map[int64]int64{}, stalled: -1}}
	// where the schedules come from: the constructors called directly, or the decoded config file
	mkStartup := func() core.Schedule { return buildProfile(m["startup"]) }
	mkRps := func() (core.Schedule, error) { return buildProfile(m["rps"]), nil }
	perinst := m["perinst"] == "1"
	discard := m["discard"] == "1"
	pc.leafCounts = m["cfg"] != "yaml"
	if m["cfg"] == "yaml" {
		mkStartup = func() core.Schedule { return decodePool(id, m).StartupSchedule }
		dec := decodePool(id, m)
		mkRps = dec.NewRPSSchedule
		perinst = dec.RPSPerInstance
		discard = dec.DiscardOverflow
		pc.id = dec.ID
	}
	if fresh, err := mkRps(); err == nil {
		pc.rpsLeft0 = int64(fresh.Left())
	} else {
		panic("rps: " + err.Error())
	}
	pc.suLeft0 = int64(mkStartup().Left())
	if strings.Contains(m["rps"], "unlim") {
		pc.rpsTot = -1
	} else {
		rc, err := mkRps()
		if err != nil {
			panic("rps: " + err.Error())
		}
		rc.Start(time.Unix(1_700_000_000, 0))
		for pc.rpsTot < 1000000 {
			if _, ok := rc.Next(); !ok {
				break
			}
			pc.rpsTot++
		}
	}
	// token offsets of the startup profile, from a drained copy
	base := time.Unix(1_700_000_000, 0)
	cp := mkStartup()
	cp.Start(base)
	for len(pc.ctoks) < 100000 {
		ts, ok := cp.Next()
		if !ok {
			break
		}
		pc.ctoks = append(pc.ctoks, int64(ts.Sub(base)))
	}
	r := pc.r
	ammo := int(atoiKV(m, "ammo", 0))
	if ammo <= 0 {
		ammo = -1
	}
	resp := time.Duration(atoiKV(m, "resp", 0)) * time.Millisecond
	failgun := atoiKV(m, "failgun", -1)
	failbind := atoiKV(m, "failbind", -1)
	failsched := atoiKV(m, "failsched", -1)
	gundelay := time.Duration(atoiKV(m, "gundelay", 0)) * time.Millisecond
	closeErr := m["closeerr"] == "1"
	failwarm := m["failwarm"] == "1"
	panicID, panicAt := int64(-1), int64(0)
	if ps, ok := m["panicshot"]; ok {
		f := strings.Split(ps, ":")
		if len(f) != 2 {
			panic("bad panicshot")
		}
		panicID, _ = strconv.ParseInt(f[0], 10, 64)
		panicAt, _ = strconv.ParseInt(f[1], 10, 64)
	}
	stallID, stallAt, stallFor := int64(-1), int64(0), time.Duration(0)
	if ps, ok := m["stall"]; ok {
		f := strings.Split(ps, ":")
		if len(f) != 3 {
			panic("bad stall")
		}
		stallID, _ = strconv.ParseInt(f[0], 10, 64)
		stallAt, _ = strconv.ParseInt(f[1], 10, 64)
		ms, _ := strconv.ParseInt(f[2], 10, 64)
		stallFor = time.Duration(ms) * time.Millisecond
	}
	attempt := func() {
		t := r.clk.Now()
		r.mu.Lock()
		r.guns = append(r.guns, t)
		r.mu.Unlock()
	}
	failed := func() {
		r.cut("fail")
		r.mu.Lock()
		r.fails++
		r.mu.Unlock()
	}
	var prov core.Provider = provider.NewNum(ammo)
	if m["prov"] == "mem" {
		mp := &memProvider{limit: int64(ammo), r: r, ctxErr: m["ctxerr"] == "1"}
		if v := atoiKV(m, "provret", 0); v > 0 {
			mp.retAfter = time.Duration(v) * time.Millisecond
		}
		if v := atoiKV(m, "proverr", 0); v > 0 {
			mp.retAfter, mp.fail = time.Duration(v)*time.Millisecond, true
		}
		prov = mp
	}
	var gunCalls int64 = -1 // the first NewGun call is the warm-up gun of the pool
	var schedCalls int64
	var gunMu sync.Mutex
	pc.conf = engine.InstancePoolConfig{
		ID:         pc.id,
		Provider:   &recProvider{Provider: prov, r: r},
		Aggregator: nopAggr{errAfter: time.Duration(atoiKV(m, "aggrerr", 0)) * time.Millisecond, ctxErr: m["ctxerr"] == "1", r: r},
		NewGun: func() (core.Gun, error) {
			gunMu.Lock()
			n := gunCalls
			gunCalls++
			gunMu.Unlock()
			if n >= 0 && !perinst {
				attempt()
			}
			if n >= 0 && gundelay > 0 {
				time.Sleep(gundelay) // a gun that takes time to create: the first instance is created synchronously by the start loop
			}
			if (n >= 0 && n == failgun) || (n < 0 && failwarm) {
				failed()
				return nil, errors.New("gun cannot be created")
			}
			return &recGun{r: r, resp: resp, id: -1, failBind: n >= 0 && n == failbind, closeErr: closeErr, panicID: panicID, panicAt: panicAt, stallID: stallID, stallAt: stallAt, stallFor: stallFor}, nil
		},
		RPSPerInstance:  perinst,
		DiscardOverflow: discard,
		NewRPSSchedule: func() (core.Schedule, error) {
			if perinst {
				// with per-instance schedules this is the first thing newInstance does: the creation attempt
				gunMu.Lock()
				n := schedCalls
				schedCalls++
				gunMu.Unlock()
				attempt()
				if n == failsched {
					failed()
					return nil, errors.New("schedule cannot be created")
				}
			} else if failsched >= 0 {
				// the shared schedule: built once, by buildNewInstanceSchedule, before anything is started
				gunMu.Lock()
				n := schedCalls
				schedCalls++
				gunMu.Unlock()
				if n == failsched {
					failed()
					return nil, errors.New("schedule cannot be created")
				}
			}
			var inner core.Schedule
			var err error
			if pc.leafCounts {
				inner = buildProfileC(m["rps"], &pc.rpsLeaf)
			} else if inner, err = mkRps(); err != nil {
				return nil, err
			}
			rs := &rpsSched{Schedule: inner, r: r, first: -1, fin: -1, atfin: -1}
			pc.rpsMu.Lock()
			pc.rpss = append(pc.rpss, rs)
			pc.rpsMu.Unlock()
			return rs, nil
		},
		StartupSchedule: &startSched{Schedule: mkStartup(), r: r},
	}
	return pc
}

func run(input string) string {
	var pools []*poolCase
	var confs []engine.InstancePoolConfig
	for i, seg := range strings.Split(input, "||") {
		id := "c12"
		if i > 0 {
			id = fmt.Sprintf("c12p%d", i)
		}
		pc := newPoolCase(id, drv.KV(seg))
		pools = append(pools, pc)
		confs = append(confs, pc.conf)
	}
	m := pools[0].m
	met := trec.Metrics()
	obsCore, logs := observer.New(zapcore.DebugLevel)
	eng := engine.New(zap.New(obsCore), met, engine.Config{Pools: confs})
	ctx, cancel := context.WithCancel(context.Background())
	defer cancel()
	// heartbeat: how badly is this process being scheduled while the case runs?
	var jitter int64
	hbStop := make(chan struct{})
	hbDone := make(chan struct{})
	go func() {
		defer close(hbDone)
		for {
			t0 := time.Now()
			select {
			case <-hbStop:
				return
			case <-time.After(5 * time.Millisecond):
			}
			if over := int64(time.Since(t0) - 5*time.Millisecond); over > jitter {
				jitter = over
			}
		}
	}()
	clk := trec.NewClock()
	for _, pc := range pools {
		pc.r.clk = clk
	}
	if c, ok := m["cancel"]; ok {
		ms, _ := strconv.ParseInt(c, 10, 64)
		do := func() {
			for _, pc := range pools {
				pc.r.cut("cancel")
			}
			cancel()
		}
		if ms <= 0 {
			do()
		} else {
			tm := time.AfterFunc(time.Duration(ms)*time.Millisecond, do)
			defer tm.Stop()
		}
	}
	if y := atoiKV(m, "yield", 0); y > 0 {
		verifhook.Yield = func(string) { time.Sleep(time.Duration(y) * time.Microsecond) }
	}
	err := eng.Run(ctx)
	end := clk.Now()
	eng.Wait()
	close(hbStop)
	<-hbDone
	e := "nil"
	if err != nil {
		if ctx.Err() != nil {
			e = "ctx"
		} else {
			e = "other"
		}
	}
	// a failing pool makes Engine.Run return, which cancels the run of every other pool: for THEM the run was cancelled, not
	// earlier than the failure
	for i, pc := range pools {
		pc.r.mu.Lock()
		ft, failedHere := pc.r.cuts["fail"]
		if pt, panicked := pc.r.cuts["panic"]; panicked && (!failedHere || pt < ft) {
			ft, failedHere = pt, true
		}
		pc.r.mu.Unlock()
		if !failedHere {
			continue
		}
		for j, other := range pools {
			if j == i {
				continue
			}
			other.r.mu.Lock()
			if t, ok := other.r.cuts["cancel"]; !ok || ft < t {
				other.r.cuts["cancel"] = ft
			}
			other.r.mu.Unlock()
		}
	}
	sumK, sumX := int64(0), int64(0)
	for _, pc := range pools {
		pc.r.mu.Lock()
		sumK += int64(len(pc.r.binds))
		sumX += int64(len(pc.r.exits))
		pc.r.mu.Unlock()
	}
	var outs []string
	for _, pc := range pools {
		outs = append(outs, pc.observation(logs, e, end, met.InstanceStart.Get()-sumK, met.InstanceFinish.Get()-sumX, jitter))
	}
	return strings.Join(outs, " || ")
}

// observation of one pool; extraStarts = InstanceStart of the whole engine minus the bound guns of all pools (0 when they agree)
func (pc *poolCase) observation(logs *observer.ObservedLogs, e string, end int64, extraStarts, extraFinishes int64, jitter int64) string {
	r := pc.r
	// what the pool logged about the start loop and the instances
	started, starterr, allAwaited := int64(-1), "?", int64(-1)
	reason := map[int64]string{}
	classify := func(v any) string {
		msg, _ := v.(string)
		switch {
		case v == nil || msg == "":
			return "nil"
		case strings.Contains(msg, "context canceled") || strings.Contains(msg, "deadline exceeded"):
			return "ctx"
		case strings.Contains(msg, "Out of ammo"):
			return "ammo"
		}
		return "other"
	}
	for _, en := range logs.All() {
		cm := en.ContextMap()
		if id, _ := cm["pool"].(string); id != pc.id {
			continue
		}
		switch en.Message {
		case "All instances runs awaited.":
			if v, ok := cm["awaited"].(int64); ok {
				allAwaited = v
			}
		case "Instances start awaited":
			if v, ok := cm["started"].(int64); ok {
				started = v
			}
			starterr = classify(cm["error"])
		case "Instance run awaited":
			if id, ok := cm["id"].(int64); ok {
				switch classify(cm["error"]) {
				case "nil":
					reason[id] = "sched"
				case "ctx":
					reason[id] = "ctx"
				case "ammo":
					reason[id] = "ammo"
				default:
					reason[id] = "err"
				}
			}
		}
	}
	r.mu.Lock()
	defer r.mu.Unlock()
	var binds []string
	var ids []int64
	for _, b := range r.binds {
		binds = append(binds, fmt.Sprintf("%d:%d", b[0], b[1]))
		ids = append(ids, b[0])
	}
	sort.Slice(ids, func(i, j int) bool { return ids[i] < ids[j] })
	sort.Slice(r.exits, func(i, j int) bool { return r.exits[i][1] < r.exits[j][1] })
	var exits []string
	for _, x := range r.exits {
		rs, ok := reason[x[0]]
		if !ok {
			rs = "?"
		}
		exits = append(exits, fmt.Sprintf("%d:%d:%s", x[0], x[1], rs))
	}
	var cuts []string
	for _, k := range []string{"ammo", "rps", "cancel", "fail", "panic"} {
		if t, ok := r.cuts[k]; ok {
			cuts = append(cuts, fmt.Sprintf("%s:%d", k, t))
		}
	}
	var shots []string
	for _, id := range ids {
		shots = append(shots, fmt.Sprintf("%d:%d", id, r.shots[id]))
	}
	var spans, given, atfin []string
	rpsOut, rpsLeaf := int64(0), int64(-1)
	if pc.leafCounts {
		rpsLeaf = atomic.LoadInt64(&pc.rpsLeaf)
	}
	pc.rpsMu.Lock()
	for _, rs := range pc.rpss {
		rs.mu.Lock()
		rpsOut += rs.given
		if rs.fin >= 0 {
			first := rs.first
			if first < 0 || first > rs.fin {
				first = rs.fin // "finished" before the first token was asked for
			}
			spans = append(spans, fmt.Sprintf("%d:%d", first, rs.fin))
			given = append(given, strconv.FormatInt(rs.given, 10))
			atfin = append(atfin, strconv.FormatInt(rs.atfin, 10))
		}
		rs.mu.Unlock()
	}
	pc.rpsMu.Unlock()
	return fmt.Sprintf("k=%d err=%s end=%d mstart=%d fails=%d total=%d started=%d starterr=%s running=%d ids=%s toks=%s picks=%s ctoks=%s guns=%s binds=%s exits=%s cuts=%s jitter=%d lastshot=%d gunctx=%d allawaited=%d shots=%s rpstot=%d rpsmin=%d rpsspans=%s mfin=%d rpsgiven=%s rpsl0=%d sul0=%d rpsleaf=%d rpsout=%d rpsatfin=%s discards=%s stalled=%d",
		len(r.binds), e, end, int64(len(r.binds))+extraStarts, r.fails, len(pc.ctoks), started, starterr, len(r.binds)-len(r.exits), joinInts(ids),
		joinInts(r.toks), joinInts(r.picks), joinInts(pc.ctoks), joinInts(r.guns), strings.Join(binds, ","), strings.Join(exits, ","), strings.Join(cuts, ","), jitter,
		r.lastShot, r.gunCtx, allAwaited, strings.Join(shots, ","), pc.rpsTot, rpsMin(pc.m["rps"]), strings.Join(spans, ","), int64(len(r.exits))+extraFinishes, strings.Join(given, ","), pc.rpsLeft0, pc.suLeft0, rpsLeaf, rpsOut, strings.Join(atfin, ","), joinInts(r.discards), r.stalled)
}

// startup profiles with every token at a multiple of 1 s (so that causes can be placed 500 ms away from every token)
func genStartup(r *rand.Rand) string {
	switch r.Intn(8) {
	case 0:
		return fmt.Sprintf("once:%d", 1+r.Intn(5))
	case 1:
		return fmt.Sprintf("const:1:%d", 1000*(1+r.Intn(3)))
	case 2:
		f := r.Intn(3)
		st := 1 + r.Intn(3)
		return fmt.Sprintf("step:%d:%d:%d:1000", f, f+st*(1+r.Intn(3))+r.Intn(st), st)
	case 3:
		return fmt.Sprintf("once:%d+const:0:%d+once:%d", 1+r.Intn(3), 1000*(1+r.Intn(2)), 1+r.Intn(3))
	case 4:
		return fmt.Sprintf("step:1:%d:1:1000+const:1:2000", 2+r.Intn(3))
	case 5:
		return fmt.Sprintf("const:1:%d+step:0:%d:1:1000", 1000*(1+r.Intn(2)), 1+r.Intn(2))
	case 6:
		return fmt.Sprintf("const:0:1000+once:%d+const:0:1000+step:1:%d:2:1000", 1+r.Intn(2), 3+r.Intn(3))
	default:
		return fmt.Sprintf("once:%d+const:1:%d", 1+r.Intn(2), 1000*(1+r.Intn(3)))
	}
}

// freer profiles: any spacing, more instances (counts near a cause are inconclusive; ids / not-ahead / never-reduced are not)
func genStartupFree(r *rand.Rand) string {
	n := 1 + r.Intn(3)
	var ps []string
	for i := 0; i < n; i++ {
		switch r.Intn(6) {
		case 0:
			ps = append(ps, fmt.Sprintf("once:%d", 1+r.Intn(8)))
		case 1:
			ps = append(ps, fmt.Sprintf("const:%d:%d", r.Intn(6), 200*(1+r.Intn(8))))
		case 2:
			f := r.Intn(4)
			st := 1 + r.Intn(4)
			ps = append(ps, fmt.Sprintf("step:%d:%d:%d:%d", f, f+r.Intn(4*st+1), st, 100*(1+r.Intn(6))))
		case 4: // a fractional rate: one instance every 2 s / 4 s / 1.6 s (possibly no token at all)
			ps = append(ps, fmt.Sprintf("constm:%d:%d", []int{500, 250, 625, 1500, 2500, 1250}[r.Intn(6)], 250*(1+r.Intn(16))))
		default:
			ps = append(ps, fmt.Sprintf("const:0:%d", 100*(1+r.Intn(10))))
		}
	}
	return nest(r, strings.Join(ps, "+"), r.Intn(3))
}

// two pools in one engine: each with its own profile and its own cause
func genPools(r *rand.Rand) string {
	a := withCause(r, nest(r, genStartup(r), r.Intn(2)), []int{0, 1, 2, 4, 5, 6, 7, 9, 10, 11, 13}[r.Intn(11)], 500+1000*r.Intn(3))
	b := withCause(r, nest(r, genStartup(r), r.Intn(2)), []int{0, 0, 1, 2, 5, 6, 9, 13}[r.Intn(8)], 500+1000*r.Intn(3))
	if r.Intn(2) == 0 {
		// providers / aggregators that answer the end of the run with the context's error
		a += " prov=mem ctxerr=1"
		b += " prov=mem ctxerr=1"
	}
	if r.Intn(3) == 0 {
		a += fmt.Sprintf(" cancel=%d", 500+1000*r.Intn(4))
	}
	// cancel= of the first pool is the cancel of the whole run; the second pool never carries one
	if i := strings.Index(b, " cancel="); i >= 0 {
		b = b[:i]
	}
	return a + " || " + b
}

// nest wraps a random contiguous run of the top-level parts of a profile in brackets (a nested composite), possibly repeatedly:
// the token times are those of the flat profile, whatever the nesting
func nest(r *rand.Rand, su string, depth int) string {
	ps := splitTop(su)
	if depth <= 0 || len(ps) == 0 {
		return su
	}
	i := r.Intn(len(ps))
	j := i + 1 + r.Intn(len(ps)-i)
	inner := nest(r, strings.Join(ps[i:j], "+"), depth-1)
	out := append([]string{}, ps[:i]...)
	out = append(out, "["+inner+"]")
	out = append(out, ps[j:]...)
	return strings.Join(out, "+")
}

func withCause(r *rand.Rand, su string, kind, cutAt int) string {
	switch kind {
	case 7: // Bind of a later / the first gun fails
		return fmt.Sprintf("startup=%s rps=const:10:12000 ammo=0 resp=0 failbind=%d cancel=7000", su, r.Intn(4))
	case 8: // the per-instance RPS schedule of an instance cannot be created
		return fmt.Sprintf("startup=%s rps=const:10:12000 perinst=1 ammo=0 resp=0 failsched=%d cancel=7000", su, r.Intn(4))
	case 0: // nothing cuts: RPS long enough for every profile generated here (<= 6 s)
		return fmt.Sprintf("startup=%s rps=const:10:7500 ammo=0 resp=0", su)
	case 1: // shared RPS ends: its last token is drawn around cutAt ms (instances draw ahead)
		return fmt.Sprintf("startup=%s rps=const:20:%d ammo=0 resp=0", su, cutAt+200)
	case 2: // ammo: 20 rps, the last ammo is shot at about cutAt ms
		return fmt.Sprintf("startup=%s rps=const:20:12000 ammo=%d resp=0", su, cutAt/50+1)
	case 3:
		return fmt.Sprintf("startup=%s rps=const:10:6000 ammo=0 resp=%d cancel=%d%s", su, []int{0, 20}[r.Intn(2)], cutAt, []string{"", " prov=mem"}[r.Intn(2)])
	case 4:
		return fmt.Sprintf("startup=%s rps=const:10:12000 ammo=0 resp=0 failgun=%d cancel=7000", su, r.Intn(5))
	case 5: // per-instance RPS profiles that end while the startup goes on: that ends instances, not instance start
		return fmt.Sprintf("startup=%s rps=const:10:%d perinst=1 ammo=0 resp=0", su, 300+100*r.Intn(10))
	case 9: // guns whose Close fails; short per-instance / shared profiles (composite ones too) that are fired to the end
		return fmt.Sprintf("startup=%s rps=%s%s ammo=0 resp=0 closeerr=1", su, genRps(r, 300+100*r.Intn(8)), []string{"", " perinst=1"}[r.Intn(2)])
	case 10: // a gun panics in its n-th shot: the pool fails
		return fmt.Sprintf("startup=%s rps=const:10:12000%s ammo=0 resp=0 panicshot=%d:%d", su, []string{"", " perinst=1"}[r.Intn(2)], r.Intn(3), 1+cutAt/100)
	case 11: // the provider returns early (with or without an error) / the aggregator fails
		switch r.Intn(3) {
		case 0:
			return fmt.Sprintf("startup=%s rps=const:10:7500 ammo=0 resp=0 prov=mem provret=%d%s", su, cutAt, []string{"", " ctxerr=1"}[r.Intn(2)])
		case 1:
			return fmt.Sprintf("startup=%s rps=const:10:12000 ammo=0 resp=0 prov=mem proverr=%d", su, cutAt)
		default:
			return fmt.Sprintf("startup=%s rps=const:10:12000 ammo=0 resp=0 aggrerr=%d", su, cutAt)
		}
	case 12: // two instances cannot be created (two errors reach the pool) / the pool cannot even begin
		switch r.Intn(4) {
		case 0:
			return fmt.Sprintf("startup=%s rps=const:10:12000 ammo=0 resp=0 failsched=0", su)
		case 1:
			return fmt.Sprintf("startup=%s rps=const:10:12000 ammo=0 resp=0 failwarm=1", su)
		default:
			a := r.Intn(3)
			return fmt.Sprintf("startup=%s rps=const:10:12000 ammo=0 resp=0 failgun=%d failbind=%d", su, a, a+1+r.Intn(2))
		}
	case 13: // composite RPS profiles, shared or per instance, ammo unlimited or running out first: every token / every ammo is fired
		return fmt.Sprintf("startup=%s rps=%s%s ammo=%d resp=0", su, genRps(r, 500+100*r.Intn(10)), []string{"", " perinst=1"}[r.Intn(2)], []int{0, 0, 7 + r.Intn(30)}[r.Intn(3)])
	default: // per-instance RPS profiles, ammo runs out
		return fmt.Sprintf("startup=%s rps=const:20:12000 perinst=1 ammo=%d resp=0", su, cutAt/50+1)
	}
}

// nCauses: the kinds of withCause (6 is also the default)
const nCauses = 14

// genRps: an RPS profile of about durMs with a countable number of tokens: plain, with a pause in the middle, with a burst first,
// nested
func genRps(r *rand.Rand, durMs int) string {
	rate := []int{10, 20, 40}[r.Intn(3)]
	switch r.Intn(5) {
	case 0:
		return fmt.Sprintf("const:%d:%d+const:0:%d+const:%d:%d", rate, durMs/3, durMs/3, rate, durMs/3)
	case 1:
		return fmt.Sprintf("once:%d+const:%d:%d", 1+r.Intn(4), rate, durMs)
	case 2:
		return fmt.Sprintf("[const:%d:%d+once:%d]+const:0:%d+once:%d", rate, durMs/2, 1+r.Intn(3), durMs/2, 1+r.Intn(3))
	case 3:
		return fmt.Sprintf("const:0:%d+const:%d:%d", durMs/2, rate, durMs/2)
	default:
		return fmt.Sprintf("const:%d:%d", rate, durMs)
	}
}

// genRpsUnknown: a composite RPS profile with a part of UNKNOWN length (unlimited) that is not at the head: in front of it
// one to three parts with no, one, two or a few tokens (pauses, once, short const parts, an empty once), possibly more parts after
// it, possibly nested.  Left() of such a profile is "unknown" (-1) until the unlimited part is over — never 0 before.
func genRpsUnknown(r *rand.Rand) string {
	small := func() string {
		switch r.Intn(8) {
		case 0:
			return fmt.Sprintf("const:0:%d", 100*(1+r.Intn(4)))
		case 1, 2:
			return "once:1"
		case 3:
			return "once:2"
		case 4:
			return "const:10:100" // one token
		case 5:
			return "const:10:200" // two tokens
		case 6:
			return "once:0"
		default:
			return fmt.Sprintf("const:20:%d", 100*(1+r.Intn(3)))
		}
	}
	var ps []string
	for i, n := 0, 1+r.Intn(3); i < n; i++ {
		ps = append(ps, small())
	}
	ps = append(ps, fmt.Sprintf("unlim:%d", 100*(3+r.Intn(6))))
	switch r.Intn(4) {
	case 0:
		ps = append(ps, fmt.Sprintf("once:%d", 1+r.Intn(3)))
	case 1:
		ps = append(ps, small(), fmt.Sprintf("unlim:%d", 100*(2+r.Intn(3))))
	case 2:
		ps = append(ps, fmt.Sprintf("const:0:%d", 100*(1+r.Intn(3))), "once:1")
	}
	return nest(r, strings.Join(ps, "+"), r.Intn(3))
}

// withBoundaryRace: K instances started at once, an RPS profile whose first part is a burst of K tokens (so that all K instances come
// back to the head of their loop together and find that part drained), behind it another burst / a pause and a burst / a short const
// part, then a part of unknown length — `Left()` has to move on to the next part itself, with several callers in between its reader
// and its writer section (yield=: they all sleep there)
func withBoundaryRace(r *rand.Rand) string {
	k := 2 + r.Intn(3)
	mid := []string{fmt.Sprintf("once:%d", 1+r.Intn(4)), fmt.Sprintf("const:0:100+once:%d", 1+r.Intn(3)), "const:20:200", fmt.Sprintf("once:%d+once:%d", k, 1+r.Intn(3))}[r.Intn(4)]
	tail := []string{"", "+once:1", "+const:0:100+once:2"}[r.Intn(3)]
	return fmt.Sprintf("startup=once:%d rps=once:%d+%s+unlim:%d%s ammo=0 resp=%d yield=%d%s", k, k, mid, 100*(2+r.Intn(4)), tail, 2+r.Intn(6), 500*(1+r.Intn(6)),
		[]string{"", " prov=mem"}[r.Intn(2)])
}

// withUnknownRps: a pool whose RPS profile (shared or per instance) has an unlimited part behind other parts, under a startup
// profile that still has tokens to come when the first instance consults the RPS profile
func withUnknownRps(r *rand.Rand) string {
	su := []string{"step:1:3:1:300", "const:2:1000", "once:1+const:0:400+once:2", "step:0:2:1:400", "const:0:200+once:2", "once:2+const:1:1000", "[once:1+const:0:300]+step:1:2:1:300"}[r.Intn(7)]
	return fmt.Sprintf("startup=%s rps=%s%s ammo=%d resp=%d%s", su, genRpsUnknown(r), []string{"", "", " perinst=1"}[r.Intn(3)],
		[]int{0, 0, 0, 30 + r.Intn(100)}[r.Intn(4)], 5+5*r.Intn(3), []string{"", "", " prov=mem"}[r.Intn(3)])
}

// withPauseRace (round 6): K instances started at once and MORE startup tokens later; a SHARED RPS profile whose first part is a
// burst the K instances drain together, behind it a part WITHOUT tokens (a pause, an empty once, an empty composite) and then a
// part that outlives the startup window — with sleeps at the scheduling points of composite.go (yield=) several instances are
// between the reader and the writer section of Next() when the first of them moves the profile on to the token-less part.
// Whatever the interleaving, the profile may say "finished" only after its last token (rpsatfin), and every later startup token
// must still become an instance.
func withPauseRace(r *rand.Rand) string {
	k := 2 + r.Intn(3)
	zero := []string{"const:0:200", "once:0", "const:0:100+once:0", "none", "const:0:300", "[const:0:100+const:0:100]"}[r.Intn(6)]
	head := []string{fmt.Sprintf("once:%d", k), fmt.Sprintf("once:%d", 2*k), fmt.Sprintf("[once:%d+once:%d]", k, k), fmt.Sprintf("const:0:100+once:%d", k)}[r.Intn(4)]
	later := 500 + 100*r.Intn(4)
	su := fmt.Sprintf("once:%d+const:0:%d+once:%d", k, later, 1+r.Intn(2))
	if r.Intn(3) == 0 {
		su = fmt.Sprintf("once:%d+const:0:%d+step:1:2:1:300", k, later)
	}
	tail := fmt.Sprintf("const:%d:%d", []int{10, 20}[r.Intn(2)], later+1000)
	if r.Intn(3) == 0 {
		tail = fmt.Sprintf("once:%d+%s+%s", k, zero, tail)
	}
	return fmt.Sprintf("startup=%s rps=%s+%s+%s ammo=0 resp=%d yield=%d%s", su, head, zero, tail, 2+r.Intn(5), 500*(1+r.Intn(6)),
		[]string{"", " prov=mem"}[r.Intn(2)])
}

// withLateLastToken (round 6): a SHARED RPS profile that is SLOW (1 - 2 tokens per second, possibly behind a burst and a pause) so
// that for a second or more exactly one or two tokens are still to come (Left() is 1 or 2, not 0) while the first instance sleeps
// on the token it has drawn — and a startup profile that releases tokens in that time: the profile is not finished, so those
// startup tokens must become instances
func withLateLastToken(r *rand.Rand) string {
	rps := []string{"const:1:3000", "const:2:2000", "once:1+const:1:3000", "const:1:2000+const:0:500+const:1:2000", "once:2+const:0:500+const:1:3000"}[r.Intn(5)]
	at := 1300 + 100*r.Intn(5) // between the second and the last token of every profile above, >= 300 ms before its last token is drawn
	su := []string{fmt.Sprintf("once:1+const:0:%d+once:%d", at, 1+r.Intn(3)), fmt.Sprintf("once:1+const:0:%d+step:1:2:1:100", at),
		fmt.Sprintf("[once:1+const:0:%d]+once:2", at)}[r.Intn(3)]
	return fmt.Sprintf("startup=%s rps=%s ammo=0 resp=%d%s", su, rps, 5*r.Intn(2), []string{"", " prov=mem"}[r.Intn(2)])
}

// withStall (round 6): one shot of instance 0 hangs (a hiccup of the target) for longer / shorter than coreutil.MaxOverdueDuration,
// with and without discard_overflow.  With per-instance profiles (two tokens at once, a pause longer than the hiccup, then a slow
// const part) the second token is overdue by the length of the hiccup when the instance comes back — discarded only if the option
// is on and it is >= 2 s late — and every later token is waited for in time: it must be FIRED.  With a shared profile (a burst too
// large for the other instances to drain during the hiccup, then a slow part) the same holds for what instance 0 draws afterwards.
func withStall(r *rand.Rand) string {
	stall := []int{2100, 2300, 2600}[r.Intn(3)]
	if r.Intn(4) == 0 {
		stall = []int{300, 1200, 1900}[r.Intn(3)]
	}
	disc := []string{" discard=1", " discard=1", " discard=1", "", " discard=0"}[r.Intn(5)]
	su := []string{"once:2", "once:1+const:0:300+once:1", "once:3", "step:1:2:1:200"}[r.Intn(4)]
	cfg := ""
	if r.Intn(4) == 0 && disc != "" {
		cfg = " cfg=yaml"
	}
	if r.Intn(3) != 0 {
		return fmt.Sprintf("startup=%s rps=once:2+const:0:%d+const:%d:1500 perinst=1 ammo=0 resp=%d stall=0:1:%d%s%s", su, stall+400, 2+2*r.Intn(2), 5*r.Intn(3), stall, disc, cfg)
	}
	return fmt.Sprintf("startup=%s rps=once:%d+const:0:%d+const:%d:1500 ammo=0 resp=100 stall=0:1:%d%s%s", su, 90+r.Intn(20), stall+400, 4+2*r.Intn(2), stall, disc, cfg)
}

var gridProfiles = []string{
	"once:1", "once:3", "const:1:3000", "step:0:4:2:1000", "step:1:3:1:1000", "step:2:7:3:1000",
	"once:2+const:0:1000+once:2", "once:1+const:0:2000+once:1+const:0:1000+once:2", "step:1:2:1:1000+const:1:2000",
	"const:1:2000+step:0:2:1:1000", "const:0:1000+once:2", "step:0:2:1:1000+once:2",
}

func gen(r *rand.Rand, tier string) []string {
	out := []string{
		// nothing cuts the start short (the shared RPS profile outlives the startup window by >= 1 s)
		"startup=once:5 rps=const:20:1000 ammo=0 resp=0",
		"startup=const:4:1000 rps=const:20:2000 ammo=0 resp=0",
		"startup=step:1:4:1:300 rps=const:10:2000 ammo=0 resp=10",
		"startup=step:0:6:2:400 rps=const:10:2500 ammo=0 resp=0",
		"startup=once:2+const:0:500+once:2 rps=const:20:1500 ammo=0 resp=0",
		"startup=step:2:5:3:500+const:2:1000 rps=const:10:3000 ammo=0 resp=0",
		"startup=const:2:1000+step:0:4:2:300+once:1 rps=const:10:3000 ammo=0 resp=0",
		"startup=const:0:700+once:3 rps=const:10:2000 ammo=0 resp=0",
		"startup=step:10:40:10:200 rps=const:100:2000 ammo=0 resp=0",
		// an empty profile: nothing to start
		"startup=const:0:300 rps=const:5:500 ammo=0 resp=0",
		// per-instance RPS profiles: their end finishes the instance, never instance start
		"startup=const:2:1500 rps=const:5:1000 perinst=1 ammo=0 resp=0",
		"startup=step:1:4:1:500 rps=const:10:300 perinst=1 ammo=0 resp=0",
		"startup=once:2+const:0:1000+once:2 rps=const:20:10000 perinst=1 ammo=25 resp=0",
		// shared RPS profile ends inside / before the startup window
		"startup=const:1:4000 rps=const:10:1550 ammo=0 resp=0",
		"startup=const:1:3000 rps=once:3 ammo=0 resp=0",
		"startup=step:1:5:1:1000 rps=const:10:2850 ammo=0 resp=0",
		"startup=once:1+const:0:1000+once:1+const:0:1000+once:1 rps=const:10:1600 ammo=0 resp=0",
		// ammo runs out inside / before / after the startup window
		"startup=const:1:4000 rps=const:10:10000 ammo=15 resp=0",
		"startup=const:1:3000 rps=const:10:10000 ammo=1 resp=0",
		"startup=const:4:1000 rps=const:10:10000 ammo=20 resp=0",
		"startup=once:1+const:0:1000+once:2 rps=const:10:10000 ammo=5 resp=0",
		"startup=step:1:9:2:1000 rps=const:20:10000 ammo=31 resp=5",
		// run cancelled inside / before / after; during the very first Wait
		"startup=const:1:4000 rps=const:10:10000 ammo=0 resp=0 cancel=1500",
		"startup=once:3 rps=const:10:10000 ammo=0 resp=0 cancel=0",
		"startup=once:3 rps=const:10:10000 ammo=0 resp=0 cancel=800",
		"startup=step:1:9:2:1000 rps=const:10:10000 ammo=0 resp=0 cancel=2500",
		"startup=const:0:1000+once:2 rps=const:10:10000 ammo=0 resp=0 cancel=400",
		"startup=step:0:4:2:1000+once:1 rps=const:10:10000 ammo=0 resp=20 cancel=1500",
		// guns that take time to create: the synchronous creation of the first instance delays the loop; the tokens that became due
		// meanwhile are started at once afterwards — unless the start was cut short meanwhile
		"startup=once:3 rps=const:10:2000 ammo=0 resp=0 gundelay=300",
		"startup=once:3 rps=const:10:10000 ammo=0 resp=0 gundelay=1000 cancel=500",
		"startup=const:4:1000+once:2 rps=const:10:10000 ammo=0 resp=0 gundelay=900 cancel=400",
		// a gun cannot be created: the first (synchronous) instance, a later one; in composites and instance_step
		"startup=once:3 rps=const:10:1000 ammo=0 resp=0 failgun=0",
		"startup=const:2:2000 rps=const:10:10000 ammo=0 resp=0 failgun=2",
		"startup=step:1:5:2:1000 rps=const:10:10000 ammo=0 resp=0 failgun=1",
		"startup=once:1+const:0:1000+once:2 rps=const:10:10000 ammo=0 resp=0 failgun=2",
		"startup=const:0:500+step:0:4:2:500 rps=const:10:10000 ammo=0 resp=0 failgun=0",
		// …at the other two points of newInstance: Bind fails; the per-instance RPS schedule cannot be created
		"startup=const:2:2000 rps=const:10:10000 ammo=0 resp=0 failbind=2",
		"startup=once:2+const:0:500+once:1 rps=const:10:10000 ammo=0 resp=0 failbind=0",
		"startup=step:1:4:1:500 rps=const:10:3000 perinst=1 ammo=0 resp=0 failsched=2",
		"startup=once:3 rps=const:10:3000 perinst=1 ammo=0 resp=0 failsched=0",
		// nested composites (composite inside composite, singleton and empty-part composites, instance_step inside): token times are
		// those of the flat sequence
		"startup=[once:1+const:0:500]+[once:1+[const:0:500+once:2]] rps=const:10:2500 ammo=0 resp=0",
		"startup=[step:1:3:1:400+const:0:300]+once:2 rps=const:10:2500 ammo=0 resp=0",
		"startup=[const:0:400]+[[once:2]]+[const:0:300+[once:1+const:0:300]+once:1] rps=const:10:2500 ammo=0 resp=0",
		"startup=[once:1+[const:0:1000+once:1]+const:0:1000]+[once:1+const:0:1000+once:1] rps=const:10:10000 ammo=0 resp=0 cancel=1500",
		"startup=[[const:1:2000]+[step:0:2:1:1000]] rps=const:10:10000 ammo=25 resp=0",
		// fractional rates: 0.5 instances per second for 4 s (tokens at 0 and 2 s); for 1 s (no token at all: nothing may be started)
		"startup=constm:500:4000 rps=const:10:5000 ammo=0 resp=0",
		"startup=constm:500:1000 rps=const:10:1000 ammo=0 resp=0",
		// a provider that keeps handing out ammo after the run was cancelled: the instances must stop because the RUN is cancelled
		"startup=once:3 rps=const:10:6000 ammo=0 resp=0 cancel=800 prov=mem",
		"startup=const:1:4000 rps=const:20:6000 perinst=1 ammo=0 resp=5 cancel=2500 prov=mem",
		"startup=step:1:3:1:500 rps=const:10:6000 ammo=40 resp=0 prov=mem",
		// several pools in one engine: ids, profile and causes are per pool; a pool that runs dry or finishes must not touch the others;
		// a pool that FAILS cancels the run of the others
		"startup=once:2+const:0:1000+once:2 rps=const:10:10000 ammo=5 resp=0 || startup=const:1:3000 rps=const:10:3500 ammo=0 resp=0",
		"startup=once:2 rps=const:20:500 ammo=0 resp=0 || startup=step:0:3:1:500 rps=const:10:2500 ammo=0 resp=0",
		"startup=const:1:3000 rps=const:10:10000 ammo=0 resp=0 failgun=1 || startup=step:1:4:1:1000 rps=const:10:10000 ammo=0 resp=0",
		"startup=const:2:2000 rps=const:10:10000 ammo=0 resp=5 cancel=1200 || startup=once:3 rps=const:10:10000 perinst=1 ammo=0 resp=0 || startup=[const:0:2000+once:2] rps=const:10:10000 ammo=0 resp=0",
	}
	out = append(out,
		// round 3 — how MANY shots: every instance fires its whole per-instance profile; the instances together fire every token of
		// the shared profile (composite profiles, an unlimited part in the middle); ammo running out first: every ammo is fired
		"startup=once:3 rps=const:10:500+const:0:300+once:3 ammo=0 resp=0",
		"startup=step:1:3:1:300 rps=once:2+const:0:200+const:10:500 perinst=1 ammo=0 resp=0",
		"startup=once:2 rps=[const:10:300+unlim:200]+once:2 ammo=0 resp=5",
		"startup=step:1:2:1:300 rps=unlim:600 perinst=1 ammo=0 resp=10",
		"startup=once:2 rps=unlim:400+const:10:300 ammo=0 resp=10",
		"startup=once:3 rps=const:20:10000 perinst=1 ammo=30 resp=0",
		"startup=once:4 rps=const:40:1000 ammo=25 resp=0",
		"startup=once:2+const:0:400+once:1 rps=const:20:600 perinst=1 ammo=0 resp=0 prov=mem",
		// guns whose Close fails: that is logged, never a reason to stop anything
		"startup=step:1:3:1:400 rps=const:10:500 perinst=1 ammo=0 resp=0 closeerr=1",
		"startup=once:3 rps=const:20:1000 ammo=0 resp=0 closeerr=1",
		"startup=const:2:1000 rps=const:20:10000 perinst=1 ammo=21 resp=0 closeerr=1",
		// a gun panics: the instance ends with an error, the pool fails (inside / after the startup window)
		"startup=once:3 rps=const:20:3000 ammo=0 resp=0 panicshot=1:5",
		"startup=const:1:3000 rps=const:10:10000 ammo=0 resp=0 panicshot=0:8",
		// the provider returns early although it has ammo (nothing may stop); the provider / the aggregator FAILS: the pool fails
		"startup=const:1:3000 rps=const:10:4000 ammo=0 resp=0 prov=mem provret=500",
		"startup=const:1:3000 rps=const:10:10000 ammo=0 resp=0 prov=mem proverr=1500",
		"startup=once:2+const:0:1000+once:2 rps=const:10:10000 ammo=0 resp=0 aggrerr=500",
		// a provider / aggregator that answers the END of the run with the context's error: that is not a failure (one pool, and
		// two pools of which the first finishes long before the second)
		"startup=once:2 rps=const:10:600 ammo=0 resp=0 prov=mem ctxerr=1",
		"startup=once:2 rps=const:20:400 ammo=0 resp=0 prov=mem ctxerr=1 || startup=const:1:2000 rps=const:10:2500 ammo=0 resp=0 prov=mem ctxerr=1",
		// the pool cannot even begin: the shared RPS schedule / the warm-up gun cannot be created — nothing may start
		"startup=once:3 rps=const:10:1000 ammo=0 resp=0 failsched=0",
		"startup=once:3 rps=const:10:1000 ammo=0 resp=0 failwarm=1",
		// two instances cannot be created: two errors reach the pool, the second after it has already failed
		"startup=once:4 rps=const:10:10000 ammo=0 resp=0 failgun=1 failbind=2",
		"startup=const:2:2000 rps=const:10:10000 perinst=1 ammo=0 resp=0 failsched=1 failbind=3",
		// more instances than the pool's result buffer (64), all finishing at once
		"startup=once:70 rps=once:70 ammo=0 resp=0",
		"startup=once:40+const:0:300+once:40 rps=const:10:10000 ammo=0 resp=0 cancel=800",
		// fractional rates whose float arithmetic is exact: 2.5 instances/s for 1 s (tokens at 0 and 0.4 s; the third would be at 0.8 s
		// but 2.5 x 1 s is 2), then 0.625/s for 3.25 s (tokens at 0 and 1.6 s after the first part)
		"startup=constm:2500:1000+constm:625:3250 rps=const:10:5000 ammo=0 resp=0",
		"startup=constm:500:1000+once:1 rps=const:10:2000 ammo=0 resp=0",
	)
	out = append(out,
		// round 4 — RPS profiles with a part of unknown length (unlimited) BEHIND other parts, the startup profile still releasing
		// tokens when the first instance asks the RPS profile whether it is finished: a pause / a single probe shot / two shots /
		// a short const part / an empty part first; nested; per instance; more parts behind the unlimited one
		"startup=step:1:3:1:400 rps=const:0:300+once:1+unlim:900 ammo=0 resp=10",
		"startup=const:2:1000 rps=const:10:500+once:1+unlim:600 ammo=0 resp=10",
		"startup=step:1:3:1:300 rps=once:1+once:1+unlim:800+once:2 ammo=0 resp=10",
		"startup=once:1+const:0:500+once:2 rps=[const:0:200+once:2]+[once:0+once:1+[unlim:700]] ammo=0 resp=5",
		"startup=step:1:2:1:400 rps=const:0:200+const:10:100+unlim:500 perinst=1 ammo=0 resp=10",
		"startup=const:2:1000 rps=once:1+[const:0:300+unlim:400]+const:0:200+once:1 ammo=0 resp=10 prov=mem",
	)
	out = append(out,
		// round 4 — several instances reach the end of a part of the RPS profile together and `Left()` itself has to move on (a part
		// of unknown length behind): every token of the next parts must still reach an instance
		// a composite of no parts: no token, no time — alone (nothing may start), between other parts, in the RPS profile
		"startup=none rps=const:10:300 ammo=0 resp=0",
		"startup=once:2+none+const:0:300+[none+once:1] rps=none+const:10:800+none ammo=0 resp=0",
		"startup=none+step:0:2:1:300 rps=const:10:300+none+unlim:300 ammo=0 resp=5 cfg=yaml",
		"startup=once:3 rps=once:3+once:3+unlim:300 ammo=0 resp=5 yield=2000",
		"startup=once:4 rps=once:4+const:0:100+once:2+unlim:300+once:1 ammo=0 resp=3 yield=1000",
		"startup=once:2 rps=[once:2+once:2]+const:20:200+unlim:200 ammo=0 resp=5 yield=3000 prov=mem",
	)
	out = append(out,
		// the pool as a config FILE: the four examples of docs/eng/startup.md (durations scaled down), decoded by core/config with
		// the registrations of core/import; nested lists, `rps-per-instance`, an unlimited part, a fractional rate
		"startup=once:10 rps=const:20:600 ammo=0 resp=0 cfg=yaml",
		"startup=const:5:2000 rps=const:10:3000 ammo=0 resp=0 cfg=yaml",
		"startup=step:10:100:10:100 rps=const:200:1500 ammo=0 resp=0 cfg=yaml",
		"startup=once:10+const:0:1000+once:10 rps=const:20:2000 ammo=0 resp=0 cfg=yaml",
		"startup=[once:1+const:0:500]+[once:1+[const:0:500+once:2]]+step:0:2:1:300 rps=const:10:500+const:0:200+unlim:300 perinst=1 ammo=0 resp=10 cfg=yaml",
		"startup=constm:2500:1000+step:1:3:2:700 rps=[const:10:1200+once:2]+const:0:300+once:1 ammo=0 resp=0 cfg=yaml || startup=const:1:2000 rps=const:10:2600 ammo=12 resp=0 cfg=yaml",
	)
	out = append(out,
		// round 6 — a SHARED RPS profile with a token-less part behind a burst that K instances drain together (yield=: they are all
		// between the reader and the writer section of Next() when the first one moves on to the pause), the startup profile still
		// having tokens to come: "finished" only after the last token, every startup token an instance
		"startup=once:2+const:0:600+once:2 rps=once:2+const:0:300+const:10:1800 ammo=0 resp=5 yield=2000",
		"startup=once:3+const:0:800+once:1 rps=once:6+once:0+const:20:2000 ammo=0 resp=3 yield=1500 prov=mem",
		"startup=once:4+const:0:500+step:1:2:1:300 rps=[once:4+once:4]+none+const:0:200+const:10:2000 ammo=0 resp=4 yield=1000",
		// round 6 — a slow shared RPS profile: for a second or more one token is still to come; startup tokens released meanwhile must become instances
		"startup=once:1+const:0:1500+once:2 rps=const:1:3000 ammo=0 resp=0",
		"startup=once:1+const:0:1400+once:1 rps=once:2+const:0:500+const:1:3000 ammo=0 resp=5 prov=mem",
		// round 6 — a shot that hangs for more than MaxOverdueDuration (2 s) with discard_overflow on: the token that became >= 2 s
		// overdue meanwhile is discarded, every token waited for in time afterwards is FIRED; the same with the option off / a
		// shorter hiccup: nothing is discarded
		"startup=once:2 rps=once:2+const:0:3000+const:2:1500 perinst=1 ammo=0 resp=0 stall=0:1:2500 discard=1",
		"startup=once:2 rps=once:100+const:0:2800+const:4:1500 ammo=0 resp=100 stall=0:1:2400 discard=1",
		"startup=once:1+const:0:300+once:1 rps=once:2+const:0:2700+const:2:1500 perinst=1 ammo=0 resp=0 stall=0:1:2300",
		"startup=once:2 rps=once:2+const:0:1600+const:4:1500 perinst=1 ammo=0 resp=5 stall=0:1:1200 discard=1 cfg=yaml",
	)
	// every fourth generated pool is described as a config file
	asFile := func(in string) string {
		segs := strings.Split(in, " || ")
		for i := range segs {
			// (`once` with times: 0 is built by the constructors — instance_step does it — but refused in a config file: min=1)
			if r.Intn(4) == 0 && !strings.Contains(segs[i]+" ", "once:0+") && !strings.Contains(segs[i]+" ", "once:0]") && !strings.Contains(segs[i]+" ", "once:0 ") {
				segs[i] += " cfg=yaml"
			}
		}
		return strings.Join(segs, " || ")
	}
	n, nfree, npools, nunk, nrace := 14, 6, 2, 4, 3
	npause, nstall, nlate := 4, 3, 2
	if tier == "thorough" {
		n, nfree, npools, nunk, nrace = 1000, 800, 150, 150, 80
		npause, nstall, nlate = 100, 60, 60
		// exhaustive small grid: every profile shape x every cause x every position of the cause
		for _, su := range gridProfiles {
			out = append(out, withCause(r, su, 0, 0), withCause(r, su, 5, 0))
			for _, cutAt := range []int{500, 1500, 2500} {
				out = append(out, withCause(r, su, 1, cutAt), withCause(r, su, 2, cutAt), withCause(r, su, 6, cutAt),
					fmt.Sprintf("startup=%s rps=const:10:12000 ammo=0 resp=0 cancel=%d", su, cutAt))
			}
			out = append(out, fmt.Sprintf("startup=%s rps=const:10:12000 ammo=0 resp=0 cancel=0", su))
			for j := 0; j < 4; j++ {
				out = append(out, fmt.Sprintf("startup=%s rps=const:10:12000 ammo=0 resp=0 failgun=%d cancel=6000", su, j))
			}
		}
		// many instances in a short time
		for i := 0; i < 40; i++ {
			st := 5 + r.Intn(20)
			out = append(out, fmt.Sprintf("startup=step:%d:%d:%d:%d rps=const:%d:%d ammo=%d resp=%d", r.Intn(10), 40+r.Intn(160), st, 20+r.Intn(100),
				200+r.Intn(400), 1000+r.Intn(2000), []int{0, 0, 300 + r.Intn(600)}[r.Intn(3)], r.Intn(3)))
		}
	}
	for i := 0; i < n; i++ {
		cutAt := 500 + 1000*r.Intn(5) // ms, 500 ms away from every token (tokens are multiples of 1 s)
		su := genStartup(r)
		if r.Intn(3) == 0 {
			su = nest(r, su, 1+r.Intn(2))
		}
		out = append(out, asFile(withCause(r, su, r.Intn(nCauses), cutAt)))
	}
	for i := 0; i < npools; i++ {
		out = append(out, asFile(genPools(r)))
	}
	for i := 0; i < nfree; i++ {
		out = append(out, asFile(withCause(r, genStartupFree(r), r.Intn(nCauses), 100*(1+r.Intn(40)))))
	}
	for i := 0; i < nunk; i++ {
		out = append(out, asFile(withUnknownRps(r)))
	}
	for i := 0; i < nrace; i++ {
		out = append(out, withBoundaryRace(r))
	}
	for i := 0; i < npause; i++ {
		out = append(out, withPauseRace(r))
	}
	for i := 0; i < nstall; i++ {
		out = append(out, withStall(r))
	}
	for i := 0; i < nlate; i++ {
		out = append(out, asFile(withLateLastToken(r)))
	}
	return out
}

func class(in, obs string) string {
	ins := strings.Split(in, "||")
	if len(ins) > 1 {
		// several pools: the class of every pool
		obss := strings.Split(obs, "||")
		if len(obss) != len(ins) {
			return ""
		}
		var cs []string
		for i := range ins {
			c := class(ins[i], obss[i])
			if c == "" {
				return ""
			}
			cs = append(cs, c)
		}
		return fmt.Sprintf("pools:%d/", len(ins)) + strings.Join(cs, " | ")
	}
	m := drv.KV(in)
	o := drv.KV(obs)
	if o["total"] == "" {
		return ""
	}
	c := "startup:"
	if strings.Contains(m["startup"], "[") {
		c = "startup(nested):"
	}
	for i, p := range strings.Split(strings.NewReplacer("[", "", "]", "").Replace(m["startup"]), "+") {
		if i > 0 {
			c += "+"
		}
		c += strings.SplitN(p, ":", 2)[0]
	}
	cut := "none"
	if o["cuts"] != "" {
		var ks []string
		for _, kv := range strings.Split(o["cuts"], ",") {
			ks = append(ks, strings.SplitN(kv, ":", 2)[0])
		}
		cut = strings.Join(ks, "+")
	}
	full := "all"
	if o["k"] != o["total"] {
		full = "cut-short"
	}
	c += "/cause:" + cut + "/" + full
	// round 6: the further dimensions of the input (shared / per-instance RPS, kind of RPS profile, hooks, hiccups, discards seen)
	rk := "rps:plain"
	switch {
	case strings.Contains(m["rps"], "unlim"):
		rk = "rps:unknown-length"
	case strings.Contains(m["rps"], "+"):
		rk = "rps:composite"
	}
	if m["perinst"] == "1" {
		rk += "(per-instance)"
	}
	c += "/" + rk
	for _, k := range []string{"yield", "stall", "cfg", "prov", "failgun", "failbind", "failsched", "closeerr", "panicshot", "gundelay"} {
		if _, ok := m[k]; ok {
			c += "/" + k
		}
	}
	if m["discard"] == "1" {
		n := 0
		if o["discards"] != "" {
			n = len(strings.Split(o["discards"], ","))
		}
		c += fmt.Sprintf("/discard-on:%d-discarded", n)
	}
	return c
}

// runIsolated runs one case in a child process (this binary, `-child <input>`): a panic in a goroutine of the engine or a
// fatal runtime error takes down that child only and becomes the observation `PANIC …` of exactly that input.
func runIsolated(input string) string {
	ctx, cancel := context.WithTimeout(context.Background(), 75*time.Second)
	defer cancel()
	cmd := exec.CommandContext(ctx, os.Args[0], "-child", input)
	var stdout, stderr strings.Builder
	cmd.Stdout, cmd.Stderr = &stdout, &stderr
	err := cmd.Run()
	if ctx.Err() != nil {
		return "HANG"
	}
	if err != nil {
		msg := stderr.String()
		if i := strings.Index(msg, "\n\n"); i > 0 {
			msg = msg[:i]
		}
		if len(msg) > 300 {
			msg = msg[:300]
		}
		return "PANIC " + drv.Clean(msg)
	}
	return stdout.String()
}

func main() {
	if len(os.Args) == 3 && os.Args[1] == "-child" {
		done := make(chan string, 1)
		go func() { done <- run(os.Args[2]) }()
		select {
		case o := <-done:
			fmt.Print(o)
		case <-time.After(60 * time.Second):
			fmt.Print("HANG")
		}
		return
	}
	// the cases mostly sleep: many can run side by side (timing checks are one-sided or margin-guarded, see Spec)
	workers := 16
	for i, a := range os.Args {
		if (a == "-tier" || a == "--tier") && i+1 < len(os.Args) && os.Args[i+1] == "thorough" {
			workers = 28
		}
	}
	drv.Main(&drv.Prop{
		ID:      "C12",
		Gen:     gen,
		Run:     runIsolated,
		Class:   class,
		Workers: workers,
		Timeout: 90 * time.Second,
		Rule: "scripted scenarios (startup once / const / instance_step / composites / empty; shared and per-instance RPS; ammo exhaustion, RPS end, run cancel and gun " +
			"creation failure before, inside and after the startup window, during the first Wait) plus scenarios drawn from one PRNG: profiles whose tokens are multiples " +
			"of 1 s with the cause placed 500 ms away from every token, and free profiles (any spacing, up to 30 instances) with the cause anywhere; thorough adds the full " +
			"grid of 12 profile shapes x 6 causes x 4 positions, 40 bursts of up to 200 instances and 150 engines of two pools. Also: nested composites (random bracketing of " +
			"the flat profiles), fractional rates, an instance that cannot be created at each of the three points of newInstance (schedule, gun, Bind), engines of 2-3 " +
			"pools. Round 3: shots per instance against the RPS profile (composite / unlimited / per-instance RPS profiles, ammo running out first), guns whose Close " +
			"fails or that panic, providers / aggregators that return early, fail, or answer the end of the run with the context error, a pool that cannot begin " +
			"(shared RPS schedule / warm-up gun), two creation failures, more instances than the result buffer, exact fractional rates, InstanceFinish. " +
			"Round 4: RPS profiles with an unlimited part behind parts of 0 / 1 / 2 / few tokens (nested, shared or per instance) while the startup profile still " +
			"releases tokens; every fourth pool written as a config file (YAML, decoded by core/config); composites of no parts; K instances reaching the end of a " +
			"part of the RPS profile together with sleeps at the scheduling points of composite.go (yield=); Left() of never started profiles; tokens handed out by " +
			"the leaves against tokens received by the instances. " +
			"non-trivial = the engine ran; distinct = distinct input line",
	})
}
