package main

// C12: the real engine (engine.New(...).Run) with a recording gun factory; instance startup under every kind of startup
// profile, with ammo exhaustion / end of the shared RPS profile / run cancellation / gun creation failure placed before,
// inside and after the startup window.
//
//	startup=<part>[+<part>...]   part = once:N | const:OPS:MS | step:FROM:TO:STEP:MS   (real schedule constructors)
//	rps=<part>[+...] [perinst=1] ammo=<N, 0 = unlimited> resp=<ms> [cancel=<ms>] [failgun=<j>: the j-th instance gun (0-based) cannot be created]
//
// Observation (instants in ns since just before Engine.Run was called, monotonic clock):
//
//	k=<number of Bind calls> err=<nil|ctx|other> end=<ns> mstart=<Metrics.InstanceStart> fails=<failed gun creations> total=<tokens of the startup profile>
//	toks=<tokens handed out by the startup schedule> ctoks=<token offsets of a drained copy of the startup schedule>
//	binds=<InstanceID:instant,...> (in call order) exits=<instants of gun Close, sorted> cuts=<ammo|rps|cancel|fail:first instant,...>

import (
	"context"
	"errors"
	"fmt"
	"math/rand"
	"sort"
	"strconv"
	"strings"
	"sync"
	"time"

	"verifharness/drv"
	"verifharness/trec"

	"github.com/yandex/pandora/core"
	"github.com/yandex/pandora/core/engine"
	"github.com/yandex/pandora/core/provider"
	"github.com/yandex/pandora/core/schedule"
	"go.uber.org/zap"
)

type rec struct {
	clk   *trec.Clock
	mu    sync.Mutex
	toks  []int64
	binds [][2]int64
	exits []int64
	cuts  map[string]int64
	fails int
}

func (r *rec) cut(kind string) {
	t := r.clk.Now()
	r.mu.Lock()
	if _, ok := r.cuts[kind]; !ok {
		r.cuts[kind] = t
	}
	r.mu.Unlock()
}

// startup schedule wrapper: records every token handed out
type startSched struct {
	core.Schedule
	r *rec
}

func (s *startSched) Next() (time.Time, bool) {
	ts, ok := s.Schedule.Next()
	if ok {
		t := s.r.clk.Of(ts)
		s.r.mu.Lock()
		s.r.toks = append(s.r.toks, t)
		s.r.mu.Unlock()
	}
	return ts, ok
}

// RPS schedule wrapper: records the first instant at which the schedule says it is finished
type rpsSched struct {
	core.Schedule
	r *rec
}

func (s *rpsSched) Next() (time.Time, bool) {
	ts, ok := s.Schedule.Next()
	if !ok {
		s.r.cut("rps")
	}
	return ts, ok
}

func (s *rpsSched) Left() int {
	l := s.Schedule.Left()
	if l == 0 {
		s.r.cut("rps")
	}
	return l
}

// provider wrapper: records the first failed Acquire
type recProvider struct {
	core.Provider
	r *rec
}

func (p *recProvider) Acquire() (core.Ammo, bool) {
	a, ok := p.Provider.Acquire()
	if !ok {
		p.r.cut("ammo")
	}
	return a, ok
}

type recGun struct {
	r    *rec
	resp time.Duration
}

func (g *recGun) Bind(_ core.Aggregator, deps core.GunDeps) error {
	t := g.r.clk.Now()
	g.r.mu.Lock()
	g.r.binds = append(g.r.binds, [2]int64{int64(deps.InstanceID), t})
	g.r.mu.Unlock()
	return nil
}

func (g *recGun) Shoot(core.Ammo) {
	if g.resp > 0 {
		time.Sleep(g.resp)
	}
}

func (g *recGun) Close() error {
	t := g.r.clk.Now()
	g.r.mu.Lock()
	g.r.exits = append(g.r.exits, t)
	g.r.mu.Unlock()
	return nil
}

type nopAggr struct{}

func (nopAggr) Run(ctx context.Context, _ core.AggregatorDeps) error { <-ctx.Done(); return nil }
func (nopAggr) Report(core.Sample)                                   {}

func buildProfile(p string) core.Schedule {
	var parts []core.Schedule
	for _, seg := range strings.Split(p, "+") {
		f := strings.Split(seg, ":")
		n := func(i int) int64 {
			v, err := strconv.ParseInt(f[i], 10, 64)
			if err != nil {
				panic("bad profile " + seg)
			}
			return v
		}
		switch {
		case f[0] == "once" && len(f) == 2:
			parts = append(parts, schedule.NewOnceConf(schedule.OnceConfig{Times: n(1)}))
		case f[0] == "const" && len(f) == 3:
			parts = append(parts, schedule.NewConstConf(schedule.ConstConfig{Ops: float64(n(1)), Duration: time.Duration(n(2)) * time.Millisecond}))
		case f[0] == "step" && len(f) == 5:
			parts = append(parts, schedule.NewInstanceStepConf(schedule.InstanceStepConfig{From: n(1), To: n(2), Step: n(3), StepDuration: time.Duration(n(4)) * time.Millisecond}))
		default:
			panic("bad profile " + seg)
		}
	}
	if len(parts) == 1 {
		return parts[0]
	}
	return schedule.NewCompositeConf(schedule.CompositeConf{Nested: parts})
}

func joinInts(v []int64) string {
	s := make([]string, len(v))
	for i, x := range v {
		s[i] = strconv.FormatInt(x, 10)
	}
	return strings.Join(s, ",")
}

func run(input string) string {
	m := drv.KV(input)
	atoi := func(k string, d int64) int64 {
		if v, ok := m[k]; ok {
			x, err := strconv.ParseInt(v, 10, 64)
			if err != nil {
				panic("bad " + k)
			}
			return x
		}
		return d
	}
	// token offsets of the startup profile, from a drained copy
	var ctoks []int64
	base := time.Unix(1_700_000_000, 0)
	cp := buildProfile(m["startup"])
	cp.Start(base)
	for len(ctoks) < 100000 {
		ts, ok := cp.Next()
		if !ok {
			break
		}
		ctoks = append(ctoks, int64(ts.Sub(base)))
	}
	r := &rec{cuts: map[string]int64{}}
	ammo := int(atoi("ammo", 0))
	if ammo <= 0 {
		ammo = -1
	}
	resp := time.Duration(atoi("resp", 0)) * time.Millisecond
	failgun := atoi("failgun", -1)
	var gunCalls int64 = -1 // the first NewGun call is the warm-up gun of the pool
	var gunMu sync.Mutex
	conf := engine.InstancePoolConfig{
		ID:         "c12",
		Provider:   &recProvider{Provider: provider.NewNum(ammo), r: r},
		Aggregator: nopAggr{},
		NewGun: func() (core.Gun, error) {
			gunMu.Lock()
			n := gunCalls
			gunCalls++
			gunMu.Unlock()
			if n >= 0 && n == failgun {
				r.cut("fail")
				r.mu.Lock()
				r.fails++
				r.mu.Unlock()
				return nil, errors.New("gun cannot be created")
			}
			return &recGun{r: r, resp: resp}, nil
		},
		RPSPerInstance: m["perinst"] == "1",
		NewRPSSchedule: func() (core.Schedule, error) {
			return &rpsSched{Schedule: buildProfile(m["rps"]), r: r}, nil
		},
		StartupSchedule: &startSched{Schedule: buildProfile(m["startup"]), r: r},
	}
	met := trec.Metrics()
	eng := engine.New(zap.NewNop(), met, engine.Config{Pools: []engine.InstancePoolConfig{conf}})
	ctx, cancel := context.WithCancel(context.Background())
	defer cancel()
	r.clk = trec.NewClock()
	if c, ok := m["cancel"]; ok {
		ms, _ := strconv.ParseInt(c, 10, 64)
		do := func() {
			r.cut("cancel")
			cancel()
		}
		if ms <= 0 {
			do()
		} else {
			tm := time.AfterFunc(time.Duration(ms)*time.Millisecond, do)
			defer tm.Stop()
		}
	}
	err := eng.Run(ctx)
	end := r.clk.Now()
	eng.Wait()
	e := "nil"
	if err != nil {
		if ctx.Err() != nil {
			e = "ctx"
		} else {
			e = "other"
		}
	}
	r.mu.Lock()
	defer r.mu.Unlock()
	var binds []string
	for _, b := range r.binds {
		binds = append(binds, fmt.Sprintf("%d:%d", b[0], b[1]))
	}
	sort.Slice(r.exits, func(i, j int) bool { return r.exits[i] < r.exits[j] })
	var cuts []string
	for _, k := range []string{"ammo", "rps", "cancel", "fail"} {
		if t, ok := r.cuts[k]; ok {
			cuts = append(cuts, fmt.Sprintf("%s:%d", k, t))
		}
	}
	return fmt.Sprintf("k=%d err=%s end=%d mstart=%d fails=%d total=%d toks=%s ctoks=%s binds=%s exits=%s cuts=%s",
		len(r.binds), e, end, met.InstanceStart.Get(), r.fails, len(ctoks), joinInts(r.toks), joinInts(ctoks),
		strings.Join(binds, ","), joinInts(r.exits), strings.Join(cuts, ","))
}

// startup profiles with every token at a multiple of 1 s (so that causes can be placed 500 ms away from every token)
func genStartup(r *rand.Rand) string {
	switch r.Intn(5) {
	case 0:
		return fmt.Sprintf("once:%d", 1+r.Intn(5))
	case 1:
		return fmt.Sprintf("const:1:%d", 1000*(1+r.Intn(3)))
	case 2:
		f := r.Intn(3)
		st := 1 + r.Intn(3)
		return fmt.Sprintf("step:%d:%d:%d:1000", f, f+st*(1+r.Intn(3))+r.Intn(st), st)
	case 3:
		return fmt.Sprintf("once:%d+const:0:%d+once:%d", 1+r.Intn(3), 1000*(1+r.Intn(2)), 1+r.Intn(3))
	default:
		return fmt.Sprintf("step:1:%d:1:1000+const:1:2000", 2+r.Intn(3))
	}
}

func gen(r *rand.Rand, tier string) []string {
	out := []string{
		// nothing cuts the start short (the shared RPS profile outlives the startup window by >= 1 s)
		"startup=once:5 rps=const:20:1000 ammo=0 resp=0",
		"startup=const:4:1000 rps=const:20:2000 ammo=0 resp=0",
		"startup=step:1:4:1:300 rps=const:10:2000 ammo=0 resp=10",
		"startup=step:0:6:2:400 rps=const:10:2500 ammo=0 resp=0",
		"startup=once:2+const:0:500+once:2 rps=const:20:1500 ammo=0 resp=0",
		"startup=step:2:5:3:500+const:2:1000 rps=const:10:3000 ammo=0 resp=0",
		"startup=const:2:1500 rps=const:5:1000 perinst=1 ammo=0 resp=0",
		// shared RPS profile ends inside / before the startup window
		"startup=const:1:4000 rps=const:10:1550 ammo=0 resp=0",
		"startup=const:1:3000 rps=once:3 ammo=0 resp=0",
		"startup=step:1:5:1:1000 rps=const:10:2850 ammo=0 resp=0",
		// ammo runs out inside / before / after the startup window
		"startup=const:1:4000 rps=const:10:10000 ammo=15 resp=0",
		"startup=const:1:3000 rps=const:10:10000 ammo=1 resp=0",
		"startup=const:4:1000 rps=const:10:10000 ammo=20 resp=0",
		"startup=once:1+const:0:1000+once:2 rps=const:10:10000 ammo=5 resp=0",
		// run cancelled inside / before / after
		"startup=const:1:4000 rps=const:10:10000 ammo=0 resp=0 cancel=1500",
		"startup=once:3 rps=const:10:10000 ammo=0 resp=0 cancel=0",
		"startup=once:3 rps=const:10:10000 ammo=0 resp=0 cancel=800",
		"startup=step:1:9:2:1000 rps=const:10:10000 ammo=0 resp=0 cancel=2500",
		// a gun cannot be created: first instance, a later one
		"startup=once:3 rps=const:10:1000 ammo=0 resp=0 failgun=0",
		"startup=const:2:2000 rps=const:10:10000 ammo=0 resp=0 failgun=2",
	}
	n := 12
	if tier == "thorough" {
		n = 150
	}
	for i := 0; i < n; i++ {
		su := genStartup(r)
		cutAt := 500 + 1000*r.Intn(4) // ms, 500 ms away from every token (tokens are multiples of 1 s)
		switch r.Intn(5) {
		case 0: // nothing cuts: RPS long enough for every profile generated above (<= 5 s)
			out = append(out, fmt.Sprintf("startup=%s rps=const:10:6500 ammo=0 resp=0", su))
		case 1: // shared RPS ends: its last token is drawn within [cutAt-100, cutAt+150] ms (up to 6 instances draw ahead)
			out = append(out, fmt.Sprintf("startup=%s rps=const:20:%d ammo=0 resp=0", su, cutAt+200))
		case 2: // ammo: 20 rps, the last ammo is shot at cutAt ms
			out = append(out, fmt.Sprintf("startup=%s rps=const:20:10000 ammo=%d resp=0", su, cutAt/50+1))
		case 3:
			out = append(out, fmt.Sprintf("startup=%s rps=const:10:10000 ammo=0 resp=%d cancel=%d", su, []int{0, 20}[r.Intn(2)], cutAt))
		default:
			out = append(out, fmt.Sprintf("startup=%s rps=const:10:10000 ammo=0 resp=0 failgun=%d cancel=6000", su, r.Intn(4)))
		}
	}
	return out
}

func class(in, obs string) string {
	m := drv.KV(in)
	o := drv.KV(obs)
	if o["total"] == "" {
		return ""
	}
	c := "startup:"
	for i, p := range strings.Split(m["startup"], "+") {
		if i > 0 {
			c += "+"
		}
		c += strings.SplitN(p, ":", 2)[0]
	}
	cut := "none"
	if o["cuts"] != "" {
		var ks []string
		for _, kv := range strings.Split(o["cuts"], ",") {
			ks = append(ks, strings.SplitN(kv, ":", 2)[0])
		}
		cut = strings.Join(ks, "+")
	}
	full := "all"
	if o["k"] != o["total"] {
		full = "cut-short"
	}
	return c + "/cause:" + cut + "/" + full
}

func main() {
	drv.Main(&drv.Prop{
		ID:      "C12",
		Gen:     gen,
		Run:     run,
		Class:   class,
		Workers: 8,
		Timeout: 60 * time.Second,
		Rule: "scripted scenarios (startup once / const / instance_step / composites; shared and per-instance RPS; ammo exhaustion, RPS end, run cancel and gun " +
			"creation failure before, inside and after the startup window) plus scenarios drawn from one PRNG whose startup tokens are multiples of 1 s and whose " +
			"cause is placed 500 ms away from every token. non-trivial = the engine ran; distinct = distinct input line",
	})
}
