package main

// kind=seq (round 6): an `rps:` LIST of several profiles — how load profiles are composed in real configurations — with
// step profiles and nested lists in any position. The list's operation stream must be the concatenation of each part's
// own stream, in order: part j starts where part j-1 finished.
//
//	seq=<part>|<part>|…      part = const:<ops>:<dur> | line:<from>:<to>:<dur> | step:<from>:<to>:<step>:<dur> | once:<times>
//	                                | list(<part>;<part>;…)            (one level of nesting; rates as exact rationals)
//
// The section is built as a Go value ([]interface{} of maps, nested []interface{} for a nested list) and decoded by the
// real decoder (slice -> composite hook of core/import, plugin registry, validation), optionally after a round trip through
// JSON or YAML text (enc=json|yaml).

import (
	"encoding/json"
	"fmt"
	"math"
	"math/rand"
	"strconv"
	"strings"

	yaml "gopkg.in/yaml.v2"
)

type c01SeqPart struct {
	kind        string
	a, b        float64 // const: a = ops; line/step: a = from, b = to
	step, dur   int64
	times       int64
	sub         []c01SeqPart
}

func c01SeqParseAtom(s string) (c01SeqPart, bool) {
	f := strings.Split(s, ":")
	atoi := func(x string) (int64, bool) {
		v, err := strconv.ParseInt(x, 10, 64)
		return v, err == nil
	}
	switch {
	case f[0] == "const" && len(f) == 3:
		d, ok := atoi(f[2])
		return c01SeqPart{kind: "const", a: parseRat(f[1]), dur: d}, ok
	case f[0] == "line" && len(f) == 4:
		d, ok := atoi(f[3])
		return c01SeqPart{kind: "line", a: parseRat(f[1]), b: parseRat(f[2]), dur: d}, ok
	case f[0] == "step" && len(f) == 5:
		st, ok1 := atoi(f[3])
		d, ok2 := atoi(f[4])
		return c01SeqPart{kind: "step", a: parseRat(f[1]), b: parseRat(f[2]), step: st, dur: d}, ok1 && ok2
	case f[0] == "once" && len(f) == 2:
		n, ok := atoi(f[1])
		return c01SeqPart{kind: "once", times: n}, ok
	}
	return c01SeqPart{}, false
}

func c01SeqParse(s string) ([]c01SeqPart, bool) {
	var out []c01SeqPart
	for _, p := range strings.Split(s, "|") {
		if strings.HasPrefix(p, "list(") && strings.HasSuffix(p, ")") {
			var sub []c01SeqPart
			for _, q := range strings.Split(p[5:len(p)-1], ";") {
				a, ok := c01SeqParseAtom(q)
				if !ok {
					return nil, false
				}
				sub = append(sub, a)
			}
			out = append(out, c01SeqPart{kind: "list", sub: sub})
			continue
		}
		a, ok := c01SeqParseAtom(p)
		if !ok {
			return nil, false
		}
		out = append(out, a)
	}
	return out, len(out) > 0
}

func c01SeqSection(p c01SeqPart) interface{} {
	dur := func(d int64) string { return c01DurSpelling(d, "str") }
	switch p.kind {
	case "const":
		return map[string]interface{}{"type": "const", "ops": p.a, "duration": dur(p.dur)}
	case "line":
		return map[string]interface{}{"type": "line", "from": p.a, "to": p.b, "duration": dur(p.dur)}
	case "step":
		return map[string]interface{}{"type": "step", "from": p.a, "to": p.b, "step": p.step, "duration": dur(p.dur)}
	case "once":
		return map[string]interface{}{"type": "once", "times": p.times}
	}
	var l []interface{}
	for _, q := range p.sub {
		l = append(l, c01SeqSection(q))
	}
	return l
}

// c01SeqRoot: the root of the configuration for a kind=seq input
func c01SeqRoot(m map[string]string) (map[string]interface{}, bool) {
	parts, ok := c01SeqParse(m["seq"])
	if !ok {
		panic("unparsable seq= of the harness' own input: " + m["seq"])
	}
	var l []interface{}
	for _, p := range parts {
		l = append(l, c01SeqSection(p))
	}
	root := map[string]interface{}{"rps": l}
	switch m["enc"] {
	case "json":
		if text, err := json.Marshal(root); err == nil {
			var back map[string]interface{}
			if err := json.Unmarshal(text, &back); err != nil {
				panic("json text of the harness is not readable: " + err.Error())
			}
			root = back
		}
	case "yaml":
		if text, err := yaml.Marshal(root); err == nil {
			var raw map[string]interface{}
			if err := yaml.Unmarshal(text, &raw); err != nil {
				panic("yaml text of the harness is not readable: " + err.Error())
			}
			if back, ok := c01StrKeys(raw).(map[string]interface{}); ok {
				root = back
			}
		}
	}
	return root, true
}

// c01SeqSlots: the lengths of the time slots of the flattened list, in order (a step profile: one slot per rate level
// from, from+step, … <= to; once: a slot of length 0)
func c01SeqSlots(parts []c01SeqPart) []int64 {
	var out []int64
	for _, p := range parts {
		switch p.kind {
		case "const", "line":
			out = append(out, p.dur)
		case "once":
			out = append(out, 0)
		case "step":
			if p.a == p.b {
				out = append(out, p.dur)
				break
			}
			st := float64(p.step)
			if st < 1 {
				st = 1
			}
			for i, k := p.a, 0; i <= p.b && k < 100000; i, k = i+st, k+1 {
				out = append(out, p.dur)
			}
		case "list":
			out = append(out, c01SeqSlots(p.sub)...)
		}
	}
	return out
}

// c01SeqCount: how many of the (sorted) instants fall into each slot; an instant belongs to the first slot
// [off, off+len) that contains it, a slot of length 0 takes the instants equal to its offset. Instants after the last
// slot are counted in one more entry (so that the counts always add up).
func c01SeqCount(slots []int64, toks []int64, mark func(i int)) string {
	cnt := make([]int, len(slots)+1)
	j, off := 0, int64(0)
	for i, t := range toks {
		prev := j
		for j < len(slots) {
			if (slots[j] == 0 && t == off) || (slots[j] > 0 && t < off+slots[j]) {
				break
			}
			off += slots[j]
			j++
		}
		cnt[j]++
		if i > 0 && prev != j {
			mark(i - 1)
			mark(i)
		}
	}
	if cnt[len(slots)] == 0 {
		cnt = cnt[:len(slots)]
	}
	ps := make([]string, len(cnt))
	for i, c := range cnt {
		ps[i] = strconv.Itoa(c)
	}
	return strings.Join(ps, ",")
}

// ---------------------------------------------------------------- generator

func c01SeqAtom(r *rand.Rand, allowStep bool) string {
	dur := []int64{100e6, 250e6, 500e6, 1e9, 1500e6, 2e9, 333333333}[r.Intn(7)]
	rate := func() float64 {
		switch r.Intn(6) {
		case 0:
			return 0
		case 1:
			return float64(r.Intn(12)) + 0.5
		default:
			return float64(r.Intn(15))
		}
	}
	x := r.Intn(10)
	switch {
	case x < 4 || (!allowStep && x < 6):
		return fmt.Sprintf("const:%s:%d", ratOf(rate()), dur)
	case x < 6:
		f := float64(r.Intn(6))
		st := int64(1 + r.Intn(3))
		levels := 2 + r.Intn(3)
		t := f + float64(int64(levels-1)*st) + []float64{0, 0, 0.5}[r.Intn(3)]
		return fmt.Sprintf("step:%s:%s:%d:%d", ratOf(f), ratOf(t), st, dur)
	default:
		return fmt.Sprintf("line:%s:%s:%d", ratOf(rate()), ratOf(rate()), dur)
	}
}

// c01Seq: rps lists of 2..5 parts; steps and nested lists in every position (also first and in the middle, followed by
// different parts); `once` only as the very last part (its operations share their instant with the first operation of a
// part that would follow, so the per-part counts could not be read off the instants)
func c01Seq(r *rand.Rand, n int) []string {
	out := []string{
		"kind=seq seq=step:1:2:1:1000000000|const:4:1000000000",
		"kind=seq seq=step:1:3:1:1000000000|line:0:4:1000000000|once:3",
		"kind=seq seq=const:2:500000000|step:2:4:2:500000000|const:7:1000000000|line:6:0:1000000000",
		"kind=seq seq=list(const:1:1000000000;const:3:1000000000)|const:5:1000000000|line:2:8:500000000 enc=json",
		"kind=seq seq=list(step:1:2:1:500000000;const:6:500000000)|const:0:250000000|const:9:1000000000|once:2 enc=yaml",
		"kind=seq seq=const:3:1000000000|list(line:0:6:1000000000;step:3:5:1:250000000;const:1:1000000000)|const:8:500000000",
	}
	for len(out) < n {
		k := 2 + r.Intn(4)
		var ps []string
		for i := 0; i < k; i++ {
			switch {
			case i == k-1 && r.Intn(4) == 0:
				ps = append(ps, fmt.Sprintf("once:%d", 1+r.Intn(9)))
			case r.Intn(5) == 0:
				q := 2 + r.Intn(2)
				var sub []string
				for j := 0; j < q; j++ {
					sub = append(sub, c01SeqAtom(r, true))
				}
				ps = append(ps, "list("+strings.Join(sub, ";")+")")
			default:
				ps = append(ps, c01SeqAtom(r, true))
			}
		}
		s := "kind=seq seq=" + strings.Join(ps, "|")
		switch r.Intn(6) {
		case 0:
			s += " enc=json"
		case 1:
			s += " enc=yaml"
		}
		switch r.Intn(12) {
		case 0:
			s += fmt.Sprintf(" conc=%d", 2+r.Intn(3))
		case 1:
			s += " fac=2"
		case 2:
			s += fmt.Sprintf(" t0=%d", int64(1_600_000_000_000_000_000)+r.Int63n(1_000_000_000_000_000))
		}
		out = append(out, s)
	}
	return out
}

var _ = math.Floor
