package main

// inst=1 cases: scheduling perturbation INSIDE the schedule's own methods.
//
// A fault that needs one consumer to be between two particular statements of Start/Next/Left (or of the function
// literal handed to a sync.Once) while another consumer runs has a window of a few nanoseconds in the ordinary build.
// For these cases the driver builds a second binary of itself from the SAME source tree with `go build -overlay`: in
// every method (function with a receiver) of the non-test files of core/schedule a call `verifhook.At("<file>:<line>")`
// is inserted before every statement, function literals included. Nothing else of the source is changed; the hook
// package is the repository's own lib/verifhook (a no-op unless a Yield function is installed). The instrumented
// binary runs the case exactly like the ordinary one (same decoder, same drain, same observation), with a Yield function
// that at each point does nothing, yields the processor, or sleeps for some microseconds — decided by a PRNG seeded from
// the input line and a call counter. If the instrumented binary cannot be built the case runs in the ordinary build.

import (
	"crypto/sha1"
	"encoding/json"
	"fmt"
	"go/ast"
	"go/parser"
	"go/token"
	"os"
	"os/exec"
	"path/filepath"
	"runtime"
	"sort"
	"strings"
	"sync"
	"sync/atomic"
	"time"

	"verifharness/drv"

	"github.com/yandex/pandora/lib/verifhook"
)

// c01IsWorker: this process is the instrumented build (started by c01RunInWorker)
var c01IsWorker = os.Getenv("C01_INSTRUMENTED_WORKER") == "1"

// c01InstrumentFile returns the instrumented text of one Go file ("" = no method in it) and the number of points.
func c01InstrumentFile(path string) (string, int, error) {
	src, err := os.ReadFile(path)
	if err != nil {
		return "", 0, err
	}
	fset := token.NewFileSet()
	f, err := parser.ParseFile(fset, path, src, parser.ParseComments)
	if err != nil {
		return "", 0, err
	}
	type ins struct {
		off  int
		text string
	}
	var all []ins
	base := filepath.Base(path)
	var walk func(list []ast.Stmt)
	var inside func(n ast.Node)
	walk = func(list []ast.Stmt) {
		for _, st := range list {
			switch st.(type) {
			case *ast.DeclStmt, *ast.LabeledStmt, *ast.EmptyStmt:
			default:
				pos := fset.Position(st.Pos())
				all = append(all, ins{pos.Offset, fmt.Sprintf("verifhook.At(%q); ", fmt.Sprintf("%s:%d", base, pos.Line))})
			}
			inside(st)
		}
	}
	// statement lists nested anywhere in n (blocks of if/for/switch/select, bodies of function literals)
	inside = func(n ast.Node) {
		ast.Inspect(n, func(x ast.Node) bool {
			switch v := x.(type) {
			case *ast.BlockStmt:
				if v != nil {
					walk(v.List)
				}
				return false
			case *ast.CaseClause:
				walk(v.Body)
				return false
			case *ast.CommClause:
				walk(v.Body)
				return false
			}
			return true
		})
	}
	for _, d := range f.Decls {
		fd, ok := d.(*ast.FuncDecl)
		if !ok || fd.Recv == nil || fd.Body == nil {
			continue
		}
		walk(fd.Body.List)
	}
	if len(all) == 0 {
		return "", 0, nil
	}
	n := len(all)
	const hookPath = "github.com/yandex/pandora/lib/verifhook"
	imported := false
	for _, im := range f.Imports {
		if strings.Trim(im.Path.Value, `"`) == hookPath && im.Name == nil {
			imported = true
		}
	}
	if !imported {
		all = append(all, ins{fset.Position(f.Name.End()).Offset, "; import \"" + hookPath + "\""})
	}
	sort.SliceStable(all, func(a, b int) bool { return all[a].off > all[b].off })
	out := string(src)
	for _, i := range all {
		out = out[:i.off] + i.text + out[i.off:]
	}
	return out, n, nil
}

var (
	c01InstOnce sync.Once
	c01InstBin  string
	c01InstErr  string
)

func c01WriteIfChanged(path, content string) error {
	if b, err := os.ReadFile(path); err == nil && string(b) == content {
		return nil
	}
	tmp := fmt.Sprintf("%s.%d.tmp", path, os.Getpid())
	if err := os.WriteFile(tmp, []byte(content), 0o644); err != nil {
		return err
	}
	return os.Rename(tmp, path)
}

// c01InstrumentedWorker builds (once per process) the instrumented binary and returns its path, or "" and the reason.
func c01InstrumentedWorker() (string, string) {
	c01InstOnce.Do(func() {
		_, self, _, ok := runtime.Caller(0)
		if !ok {
			c01InstErr = "no-source-path"
			return
		}
		hdir := filepath.Dir(filepath.Dir(filepath.Dir(self))) // …/harness
		if _, err := os.Stat(filepath.Join(hdir, "go.mod")); err != nil {
			c01InstErr = "no-harness-module"
			return
		}
		repo, err := filepath.Abs(drv.RepoDir)
		if err != nil {
			c01InstErr = "repo-path"
			return
		}
		base := "/verif/.build"
		if wd, err := os.Getwd(); err == nil {
			if _, err := os.Stat(filepath.Join(wd, ".build")); err == nil {
				base = filepath.Join(wd, ".build")
			}
		}
		h := sha1.Sum([]byte(repo))
		dir := filepath.Join(base, fmt.Sprintf("c01-inst-%x", h[:4]))
		if err := os.MkdirAll(dir, 0o755); err != nil {
			c01InstErr = "mkdir"
			return
		}
		if old, _ := filepath.Glob(filepath.Join(dir, "worker-*")); old != nil {
			for _, o := range old {
				if st, err := os.Stat(o); err == nil && time.Since(st.ModTime()) > 2*time.Hour {
					_ = os.Remove(o)
				}
			}
		}
		files, _ := filepath.Glob(filepath.Join(repo, "core", "schedule", "*.go"))
		sort.Strings(files)
		overlay := map[string]string{}
		points := 0
		for _, f := range files {
			if strings.HasSuffix(f, "_test.go") {
				continue
			}
			txt, n, err := c01InstrumentFile(f)
			if err != nil {
				c01InstErr = "parse:" + filepath.Base(f)
				return
			}
			if txt == "" {
				continue
			}
			points += n
			out := filepath.Join(dir, filepath.Base(f))
			if err := c01WriteIfChanged(out, txt); err != nil {
				c01InstErr = "write"
				return
			}
			overlay[f] = out
		}
		if len(overlay) == 0 {
			c01InstErr = "nothing-to-instrument"
			return
		}
		ob, _ := json.Marshal(map[string]any{"Replace": overlay})
		ovl := filepath.Join(dir, "overlay.json")
		if err := c01WriteIfChanged(ovl, string(ob)); err != nil {
			c01InstErr = "write"
			return
		}
		// a private go.mod that names THIS source tree (the shared one may be rewritten by a concurrent check)
		gm, err := os.ReadFile(filepath.Join(hdir, "go.mod"))
		if err != nil {
			c01InstErr = "go.mod"
			return
		}
		var lines []string
		for _, l := range strings.Split(string(gm), "\n") {
			if strings.HasPrefix(strings.TrimSpace(l), "replace github.com/yandex/pandora ") {
				l = "replace github.com/yandex/pandora => " + repo
			}
			lines = append(lines, l)
		}
		if err := c01WriteIfChanged(filepath.Join(dir, "go.mod"), strings.Join(lines, "\n")); err != nil {
			c01InstErr = "write"
			return
		}
		if gs, err := os.ReadFile(filepath.Join(repo, "go.sum")); err == nil {
			_ = c01WriteIfChanged(filepath.Join(dir, "go.sum"), string(gs))
		}
		bin := filepath.Join(dir, fmt.Sprintf("worker-%d", os.Getpid()))
		cmd := exec.Command("go", "build", "-tags", "verif", "-overlay", ovl, "-modfile", filepath.Join(dir, "go.mod"), "-o", bin, "./cmd/c01")
		cmd.Dir = hdir
		cmd.Env = append(os.Environ(), "GOFLAGS=-mod=mod", "GOPROXY=off", "GOSUMDB=off", "GOTOOLCHAIN=local", "CGO_ENABLED=0")
		t0 := time.Now()
		if b, err := cmd.CombinedOutput(); err != nil {
			c01InstErr = "build:" + strings.ReplaceAll(drv.Trunc(drv.Clean(string(b)), 300), " ", "_")
			fmt.Fprintf(os.Stderr, "c01: instrumented worker not built: %s\n", c01InstErr)
			return
		}
		fmt.Fprintf(os.Stderr, "c01: instrumented worker built in %.1fs (%d files, %d points)\n", time.Since(t0).Seconds(), len(overlay), points)
		c01InstBin = bin
	})
	return c01InstBin, c01InstErr
}

func c01RemoveInstrumentedWorker() {
	if c01InstBin != "" {
		_ = os.Remove(c01InstBin)
	}
}

var c01WorkerSeq int64

// c01RunInWorker runs one input in the instrumented binary; ok=false: no such binary (the caller runs it here).
func c01RunInWorker(input string) (string, bool) {
	bin, _ := c01InstrumentedWorker()
	if bin == "" {
		return "", false
	}
	dir := filepath.Join(filepath.Dir(bin), fmt.Sprintf("case-%d-%d", os.Getpid(), atomic.AddInt64(&c01WorkerSeq, 1)))
	if err := os.MkdirAll(dir, 0o755); err != nil {
		return "", false
	}
	defer os.RemoveAll(dir)
	in := filepath.Join(dir, "in.txt")
	if err := os.WriteFile(in, []byte(input+"\n"), 0o644); err != nil {
		return "", false
	}
	cmd := exec.Command(bin, "-tier", drv.Tier, "-in", in, "-out", dir, "-repo", drv.RepoDir)
	cmd.Env = append(os.Environ(), "C01_INSTRUMENTED_WORKER=1")
	done := make(chan error, 1)
	if err := cmd.Start(); err != nil {
		return "", false
	}
	go func() { done <- cmd.Wait() }()
	select {
	case err := <-done:
		if err != nil {
			return "PANIC instrumented worker: " + drv.Clean(err.Error()), true
		}
	case <-time.After(150 * time.Second):
		_ = cmd.Process.Kill()
		<-done
		return "HANG", true
	}
	b, err := os.ReadFile(filepath.Join(dir, "cases.tsv"))
	if err != nil {
		return "PANIC instrumented worker wrote no observation", true
	}
	parts := strings.SplitN(strings.TrimRight(string(b), "\n"), "\t", 3)
	if len(parts) != 3 {
		return "PANIC instrumented worker: malformed observation", true
	}
	return parts[2], true
}

// c01Perturb installs the Yield function for one case; the returned function removes it.
func c01Perturb(input string) func() {
	var seed uint64 = 1469598103934665603
	for _, c := range []byte(input) {
		seed = (seed ^ uint64(c)) * 1099511628211
	}
	var ctr uint64
	verifhook.Yield = func(string) {
		z := seed + atomic.AddUint64(&ctr, 1)*0x9e3779b97f4a7c15
		z = (z ^ (z >> 30)) * 0xbf58476d1ce4e5b9
		z = (z ^ (z >> 27)) * 0x94d049bb133111eb
		z ^= z >> 31
		switch z & 7 {
		case 0, 1:
			runtime.Gosched()
		case 2, 3:
			time.Sleep(time.Duration(1+(z>>8)%40) * time.Microsecond)
		}
	}
	return func() { verifhook.Yield = nil }
}
